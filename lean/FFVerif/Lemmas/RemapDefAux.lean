/-
Helper lemmas for `FFVerif/Model/RemapDef.lean` (definition part of `remap` / `extend`), used by
`Props/C06Def`.  Core Lean only, no Mathlib (the statements about `argsortNat` that need Mathlib's
`argsort` lemmas of `Lemmas/KronAux` live in `Props/C06Def`).
-/
import FFVerif.Model.RemapDef
import FFVerif.Lemmas.PulseAux
import FFVerif.Props.C17

namespace FFVerif.Model.RemapDef
open FFVerif.Model.Pulse

/-! ### fancy indexing -/

section Gather
variable {α β γ : Type}

theorem gather_map (f : α → β) (xs : List α) (idx : List Nat) :
    gather (xs.map f) idx = (gather xs idx).map f := by
  unfold gather
  rw [List.map_filterMap]
  congr 1
  funext i
  exact List.getElem?_map ..

theorem gather_range' (pre xs : List α) :
    gather (pre ++ xs) (List.range' pre.length xs.length) = xs := by
  induction xs generalizing pre with
  | nil => simp [gather]
  | cons x xs ih =>
    have h := ih (pre ++ [x])
    simp only [List.append_assoc, List.singleton_append, List.length_append, List.length_cons,
      List.length_nil] at h
    simp only [gather, List.length_cons, List.range'_succ, List.filterMap_cons]
    rw [List.getElem?_append_right (Nat.le_refl _)]
    simp only [Nat.sub_self, List.getElem?_cons_zero]
    exact congrArg (x :: ·) h

/-- `xs[np.arange(len(xs))] = xs` -/
theorem gather_range (xs : List α) : gather xs (List.range xs.length) = xs := by
  have := gather_range' [] xs
  simpa [List.range_eq_range'] using this

theorem zip3With_map (f : α → String → List Int → β) (a : γ → α) (b : γ → String)
    (c : γ → List Int) (L : List γ) :
    zip3With f (L.map a) (L.map b) (L.map c) = L.map fun x => f (a x) (b x) (c x) := by
  induction L with
  | nil => rfl
  | cons x xs ih => simp [zip3With, ih]

/-- **`xs[np.argsort(keys)]` is the list sorted (stably) by its keys.** -/
theorem gather_argsortIds (key : α → String) (L : List α) :
    gather L (argsortIds (L.map key)) = sortBy key L := by
  unfold argsortIds gather
  have hz : (L.map key).zipIdx = L.zipIdx.map fun x => (key x.1, x.2) := by
    rw [List.zipIdx_map]
    apply List.map_congr_left
    intro x _
    rfl
  rw [hz, sortBy_map (fun x : α × Nat => key x.1) (fun x : String × Nat => x.1)
    (fun x : α × Nat => (key x.1, x.2)) (fun _ => rfl), List.map_map, List.filterMap_map]
  have hmem : ∀ x ∈ sortBy (fun x : α × Nat => key x.1) L.zipIdx, L[x.2]? = some x.1 := by
    intro x hx
    have := (mem_sortBy _).mp hx
    exact (List.mem_zipIdx_iff_getElem?.mp this)
  have h1 : (sortBy (fun x : α × Nat => key x.1) L.zipIdx).filterMap
      ((fun i => L[i]?) ∘ ((fun x : String × Nat => x.2) ∘ fun x : α × Nat => (key x.1, x.2)))
      = (sortBy (fun x : α × Nat => key x.1) L.zipIdx).map (·.1) := by
    generalize sortBy (fun x : α × Nat => key x.1) L.zipIdx = S at hmem
    induction S with
    | nil => rfl
    | cons s ss ih =>
      have hs := hmem s (List.mem_cons_self ..)
      simp only [List.filterMap_cons, Function.comp_apply, hs, List.map_cons]
      rw [← ih fun x hx => hmem x (List.mem_cons_of_mem _ hx)]
  rw [h1, ← sortBy_map (fun x : α × Nat => key x.1) key (fun x : α × Nat => x.1) (fun _ => rfl)]
  congr 1
  exact List.zipIdx_map_fst ..

theorem argsortIds_perm (ids : List String) : (argsortIds ids).Perm (List.range ids.length) := by
  unfold argsortIds
  have h := (sortBy_perm (fun x : String × Nat => x.1) ids.zipIdx).map (·.2)
  rwa [List.zipIdx_map_snd, ← List.range_eq_range'] at h

end Gather

/-! ### dictionaries -/

/-- the mapping as a partial function (`None`: every identifier is mapped to itself) -/
def mapFn (mapping : Option Dict) (s : String) : Option String :=
  match mapping with
  | none => some s
  | some m => m.lookup s

/-- the mapping as a total function (identity outside the keys) -/
def idFn (mapping : Option Dict) (s : String) : String := (mapFn mapping s).getD s

theorem applyDict_eq_some_iff (m : Dict) (ids r : List String) :
    applyDict m ids = some r ↔ ids.map (m.lookup ·) = r.map some := by
  induction ids generalizing r with
  | nil => cases r <;> simp [applyDict]
  | cons s ss ih =>
    simp only [applyDict, List.map_cons]
    cases hs : m.lookup s with
    | none => cases r <;> simp
    | some v =>
      cases hr : applyDict m ss with
      | none =>
        cases r with
        | nil => simp
        | cons x xs =>
          simp only [List.map_cons, List.cons.injEq, Option.some.injEq, reduceCtorEq, false_iff,
            not_and]
          intro _ h
          have := (ih xs).mpr h
          rw [hr] at this
          cases this
      | some vs =>
        have h1 := (ih vs).mp hr
        cases r with
        | nil => simp
        | cons x xs =>
          simp only [Option.some.injEq, List.cons.injEq, List.map_cons]
          constructor
          · rintro ⟨rfl, rfl⟩; exact ⟨rfl, h1⟩
          · rintro ⟨rfl, h2⟩
            refine ⟨rfl, ?_⟩
            have := (ih xs).mpr h2
            rw [hr] at this
            exact Option.some.inj this

theorem applyDict_eq_none_iff (m : Dict) (ids : List String) :
    applyDict m ids = none ↔ ∃ s ∈ ids, m.lookup s = none := by
  induction ids with
  | nil => simp [applyDict]
  | cons s ss ih =>
    cases hs : m.lookup s with
    | none =>
      have : applyDict m (s :: ss) = none := by simp only [applyDict, hs]
      rw [this]
      exact iff_of_true rfl ⟨s, List.mem_cons_self .., hs⟩
    | some v =>
      cases hr : applyDict m ss with
      | none =>
        have : applyDict m (s :: ss) = none := by simp only [applyDict, hs, hr]
        obtain ⟨x, hx, hx2⟩ := ih.mp hr
        rw [this]
        exact iff_of_true rfl ⟨x, List.mem_cons_of_mem _ hx, hx2⟩
      | some vs =>
        have : applyDict m (s :: ss) = some (v :: vs) := by simp only [applyDict, hs, hr]
        rw [this]
        constructor
        · intro h; cases h
        · rintro ⟨x, hx, hx2⟩
          rcases List.mem_cons.mp hx with rfl | hx
          · rw [hs] at hx2; cases hx2
          · have := ih.mpr ⟨x, hx, hx2⟩
            rw [hr] at this
            cases this

/-- a successful `applyDict` is the map by the total function -/
theorem applyDict_of_total (m : Dict) (ids : List String) (h : ∀ s ∈ ids, (m.lookup s).isSome) :
    applyDict m ids = some (ids.map (idFn (some m))) := by
  rw [applyDict_eq_some_iff, List.map_map]
  apply List.map_congr_left
  intro s hs
  have := h s hs
  simp only [Function.comp_apply, idFn, mapFn]
  cases hl : m.lookup s with
  | none => rw [hl] at this; cases this
  | some v => rfl

/-! ### one Hamiltonian of `remap` -/

/-- operator transposed, identifier renamed, coefficient row kept -/
def relabel (tr : Nat → Nat) (f : String → String) (t : Term) : Term := ⟨tr t.op, f t.id, t.coeffs⟩

@[simp] theorem relabel_op (tr : Nat → Nat) (f : String → String) (t : Term) :
    (relabel tr f t).op = tr t.op := rfl
@[simp] theorem relabel_id (tr : Nat → Nat) (f : String → String) (t : Term) :
    (relabel tr f t).id = f t.id := rfl
@[simp] theorem relabel_coeffs (tr : Nat → Nat) (f : String → String) (t : Term) :
    (relabel tr f t).coeffs = t.coeffs := rfl

theorem relabel_id_id (t : Term) : relabel (fun o => o) (fun s => s) t = t := rfl

theorem zip3_terms (L : List Term) :
    zip3With Term.mk (L.map (·.op)) (L.map (·.id)) (L.map (·.coeffs)) = L := by
  rw [zip3With_map]
  exact List.map_id' L

theorem gather_terms (L : List Term) (idx : List Nat) :
    zip3With Term.mk (gather (L.map (·.op)) idx) (gather (L.map (·.id)) idx)
      (gather (L.map (·.coeffs)) idx) = gather L idx := by
  rw [gather_map, gather_map, gather_map, zip3_terms]

/-- the mapping is defined on every identifier of the Hamiltonian -/
def TotalOn (mapping : Option Dict) (ts : List Term) : Prop := ∀ t ∈ ts, (mapFn mapping t.id).isSome

theorem totalOn_none (ts : List Term) : TotalOn none ts := fun _ _ => rfl

/-- without a mapping: same order, same identifiers, operators transposed -/
theorem remapHam_none (tr : Nat → Nat) (ts : List Term) :
    remapHam tr none ts = .ok (ts.map (relabel tr (idFn none))) := by
  unfold remapHam mapIdentifiers
  simp only
  have h1 : (ts.map fun t => tr t.op) = (ts.map (relabel tr (idFn none))).map (·.op) := by
    rw [List.map_map]; rfl
  have h2 : ts.map (·.id) = (ts.map (relabel tr (idFn none))).map (·.id) := by
    rw [List.map_map]; rfl
  have h3 : ts.map (·.coeffs) = (ts.map (relabel tr (idFn none))).map (·.coeffs) := by
    rw [List.map_map]; rfl
  have hl : (ts.map (·.id)).length = (ts.map (relabel tr (idFn none))).length := by simp
  rw [hl, h1, h3]
  conv => lhs; arg 1; arg 3; rw [h2]
  rw [gather_terms, gather_range]

/-- with a mapping defined on all identifiers: the relabelled terms sorted by the new identifier -/
theorem remapHam_some (tr : Nat → Nat) (m : Dict) (ts : List Term) (h : TotalOn (some m) ts) :
    remapHam tr (some m) ts = .ok (sortBy (·.id) (ts.map (relabel tr (idFn (some m))))) := by
  unfold remapHam mapIdentifiers
  have ha : applyDict m (ts.map (·.id)) = some ((ts.map (·.id)).map (idFn (some m))) :=
    applyDict_of_total m _ (by
      intro s hs
      obtain ⟨t, ht, rfl⟩ := List.mem_map.mp hs
      exact h t ht)
  simp only [ha]
  have h1 : (ts.map fun t => tr t.op) = (ts.map (relabel tr (idFn (some m)))).map (·.op) := by
    rw [List.map_map]; rfl
  have h2 : (ts.map (·.id)).map (idFn (some m))
      = (ts.map (relabel tr (idFn (some m)))).map (·.id) := by
    rw [List.map_map, List.map_map]; rfl
  have h3 : ts.map (·.coeffs) = (ts.map (relabel tr (idFn (some m)))).map (·.coeffs) := by
    rw [List.map_map]; rfl
  rw [h1, h2, h3, gather_terms, gather_argsortIds]

/-- an error (`ValueError`) exactly when a mapping is given that misses an identifier -/
theorem remapHam_error_iff (tr : Nat → Nat) (mapping : Option Dict) (ts : List Term) (e : String) :
    remapHam tr mapping ts = .error e ↔ e = "ValueError" ∧ ¬ TotalOn mapping ts := by
  cases mapping with
  | none => simp [remapHam_none, totalOn_none]
  | some m =>
    by_cases h : TotalOn (some m) ts
    · simp [remapHam_some tr m ts h, h]
    · simp only [h, not_false_eq_true, and_true]
      have hn : applyDict m (ts.map (·.id)) = none := by
        rw [applyDict_eq_none_iff]
        unfold TotalOn at h
        simp only [Classical.not_forall] at h
        obtain ⟨t, ht, hs⟩ := h
        refine ⟨t.id, List.mem_map.mpr ⟨t, ht, rfl⟩, ?_⟩
        exact Option.not_isSome_iff_eq_none.mp hs
      unfold remapHam mapIdentifiers
      simp only [hn]
      constructor
      · intro h; injection h with h; exact h.symm
      · intro h; rw [h]

/-- both cases at once, for a Hamiltonian that is sorted or a mapping that is given -/
theorem remapHam_canon (tr : Nat → Nat) (mapping : Option Dict) (ts : List Term)
    (h : TotalOn mapping ts) (hs : mapping.isSome ∨ SortedBy (·.id) ts) :
    remapHam tr mapping ts = .ok (sortBy (·.id) (ts.map (relabel tr (idFn mapping)))) := by
  cases mapping with
  | some m => exact remapHam_some tr m ts h
  | none =>
    rw [remapHam_none]
    rcases hs with hs | hs
    · cases hs
    · congr 1
      symm
      apply sortBy_of_sorted
      unfold SortedBy at *
      exact List.pairwise_map.mpr hs

theorem remapHam_ok_total {tr : Nat → Nat} {mapping : Option Dict} {ts q : List Term}
    (h : remapHam tr mapping ts = .ok q) : TotalOn mapping ts := by
  by_cases ht : TotalOn mapping ts
  · exact ht
  · have := (remapHam_error_iff tr mapping ts "ValueError").mpr ⟨rfl, ht⟩
    rw [this] at h
    cases h

theorem mapFn_of_isSome {mapping : Option Dict} {s : String} (h : (mapFn mapping s).isSome) :
    mapFn mapping s = some (idFn mapping s) := by
  unfold idFn
  cases hm : mapFn mapping s with
  | none => rw [hm] at h; cases h
  | some v => rfl

theorem applyDict_congr (m m' : Dict) (ids : List String)
    (h : ∀ s ∈ ids, m.lookup s = m'.lookup s) : applyDict m ids = applyDict m' ids := by
  induction ids with
  | nil => rfl
  | cons s ss ih =>
    simp only [applyDict]
    rw [h s (List.mem_cons_self ..), ih fun x hx => h x (List.mem_cons_of_mem _ hx)]

/-- the result of one Hamiltonian as the gather by the `sort_idx` that `_map_identifiers` returns -/
theorem remapHam_eq_gather (tr : Nat → Nat) (mapping : Option Dict) (ts : List Term)
    (ids' : List String) (sIdx : List Nat)
    (hm : mapIdentifiers (ts.map (·.id)) mapping = .ok (ids', sIdx)) :
    remapHam tr mapping ts = .ok (gather (ts.map (relabel tr (idFn mapping))) sIdx) ∧
    sIdx.Perm (List.range ts.length) ∧ ids' = ts.map fun t => idFn mapping t.id := by
  cases mapping with
  | none =>
    simp only [mapIdentifiers, Except.ok.injEq, Prod.mk.injEq] at hm
    obtain ⟨rfl, rfl⟩ := hm
    refine ⟨?_, by simp, rfl⟩
    rw [remapHam_none]
    have : (ts.map (·.id)).length = (ts.map (relabel tr (idFn none))).length := by simp
    rw [this, gather_range]
  | some m =>
    have htot : TotalOn (some m) ts := by
      intro t ht
      cases hl : m.lookup t.id with
      | some v => show (m.lookup t.id).isSome; rw [hl]; rfl
      | none =>
        have hn := (applyDict_eq_none_iff m (ts.map (·.id))).mpr
          ⟨t.id, List.mem_map.mpr ⟨t, ht, rfl⟩, hl⟩
        simp [mapIdentifiers, hn] at hm
    have ha : applyDict m (ts.map (·.id)) = some ((ts.map (·.id)).map (idFn (some m))) :=
      applyDict_of_total m _ (by
        intro s hs
        obtain ⟨t, ht, rfl⟩ := List.mem_map.mp hs
        exact htot t ht)
    simp only [mapIdentifiers, ha, Except.ok.injEq, Prod.mk.injEq] at hm
    obtain ⟨rfl, rfl⟩ := hm
    have h2 : (ts.map (·.id)).map (idFn (some m))
        = (ts.map (relabel tr (idFn (some m)))).map (·.id) := by
      rw [List.map_map, List.map_map]; rfl
    refine ⟨?_, ?_, by rw [List.map_map]; rfl⟩
    · rw [remapHam_some tr m ts htot, h2, gather_argsortIds]
    · have := argsortIds_perm ((ts.map (·.id)).map (idFn (some m)))
      simpa using this

/-! ### repeated identifiers -/

theorem hasDupNat_iff (l : List Nat) : hasDupNat l = true ↔ ¬ l.Nodup := by
  induction l with
  | nil => simp [hasDupNat]
  | cons s ss ih =>
    simp only [hasDupNat, Bool.or_eq_true, List.contains_eq_mem, decide_eq_true_eq, ih,
      List.nodup_cons, not_and]
    constructor
    · rintro (h | h) h1
      · exact absurd h h1
      · exact h
    · intro h
      by_cases h1 : s ∈ ss
      · exact Or.inl h1
      · exact Or.inr (h h1)

theorem hasDup_iff (l : List String) : hasDup l = true ↔ ¬ l.Nodup := by
  induction l with
  | nil => simp [hasDup]
  | cons s ss ih =>
    simp only [hasDup, Bool.or_eq_true, List.contains_eq_mem, decide_eq_true_eq, ih,
      List.nodup_cons, not_and]
    constructor
    · rintro (h | h) h1
      · exact absurd h h1
      · exact h
    · intro h
      by_cases h1 : s ∈ ss
      · exact Or.inl h1
      · exact Or.inr (h h1)

/-- sorted strictly by key -/
def StrictSortedBy {α : Type} (key : α → String) (l : List α) : Prop :=
  l.Pairwise fun a b => key a < key b

theorem StrictSortedBy.sortedBy {α : Type} {key : α → String} {l : List α}
    (h : StrictSortedBy key l) : SortedBy key l :=
  h.imp fun hab => String.not_lt.mp (String.lt_asymm hab)

/-- sorted with pairwise distinct keys is strictly sorted -/
theorem strictSorted_of_sorted_nodup {α : Type} (key : α → String) {l : List α}
    (hs : SortedBy key l) (hn : (l.map key).Nodup) : StrictSortedBy key l := by
  induction l with
  | nil => exact List.Pairwise.nil
  | cons a as ih =>
    have hs' := List.pairwise_cons.mp hs
    rw [List.map_cons, List.nodup_cons] at hn
    refine List.pairwise_cons.mpr ⟨?_, ih hs'.2 hn.2⟩
    intro b hb
    have hle := hs'.1 b hb
    have hne : key a ≠ key b := fun h => hn.1 (h ▸ List.mem_map.mpr ⟨b, hb, rfl⟩)
    exact Classical.byContradiction fun hn => hne (String.le_antisymm hle (String.not_lt.mp hn))

/-- the mapped identifiers of a Hamiltonian are pairwise distinct -/
def MappedUnique (mapping : Option Dict) (ts : List Term) : Prop :=
  (ts.map fun t => idFn mapping t.id).Nodup

theorem mappedIds_eq (mapping : Option Dict) (ts : List Term) (h : TotalOn mapping ts) :
    mappedIds mapping ts = ts.map fun t => idFn mapping t.id := by
  unfold mappedIds
  cases mapping with
  | none =>
    simp only [mapIdentifiers]
    rfl
  | some m =>
    have ha : applyDict m (ts.map (·.id)) = some ((ts.map (·.id)).map (idFn (some m))) :=
      applyDict_of_total m _ (by
        intro s hs
        obtain ⟨t, ht, rfl⟩ := List.mem_map.mp hs
        exact h t ht)
    simp only [mapIdentifiers, ha, List.map_map]
    rfl

theorem hasDup_mappedIds (mapping : Option Dict) (ts : List Term) (h : TotalOn mapping ts) :
    hasDup (mappedIds mapping ts) = true ↔ ¬ MappedUnique mapping ts := by
  rw [mappedIds_eq mapping ts h, hasDup_iff]
  rfl

/-- the identifiers of a remapped Hamiltonian are a permutation of the mapped identifiers -/
theorem remapHam_ids_perm {tr : Nat → Nat} {mapping : Option Dict} {ts q : List Term}
    (h : remapHam tr mapping ts = .ok q) :
    (q.map (·.id)).Perm (ts.map fun t => idFn mapping t.id) := by
  have ht := remapHam_ok_total h
  cases mapping with
  | none =>
    rw [remapHam_none] at h
    injection h with h
    subst h
    rw [List.map_map]
    exact List.Perm.refl _
  | some m =>
    rw [remapHam_some tr m ts ht] at h
    injection h with h
    subst h
    have := (sortBy_perm (·.id) (ts.map (relabel tr (idFn (some m))))).map (·.id)
    rw [List.map_map] at this
    exact this

/-! ### the pulse -/

theorem remapDef_eq_ok_iff (tr : Nat → Nat) (mapping : Option Dict) (p q : TPulse) :
    remapDef tr mapping p = .ok q ↔
      ∃ c n, remapHam tr mapping p.data.cTerms = .ok c ∧ remapHam tr mapping p.data.nTerms = .ok n ∧
        q = { data := { cTerms := c, nTerms := n, dt := p.data.dt, basis := p.data.basis }
              tCache := p.tCache, tauCache := p.tauCache } ∧
        MappedUnique mapping p.data.cTerms ∧ MappedUnique mapping p.data.nTerms := by
  unfold remapDef
  cases hc : remapHam tr mapping p.data.cTerms with
  | error e => simp
  | ok c =>
    cases hn : remapHam tr mapping p.data.nTerms with
    | error e => simp
    | ok n =>
      have hcd := hasDup_mappedIds mapping _ (remapHam_ok_total hc)
      have hnd := hasDup_mappedIds mapping _ (remapHam_ok_total hn)
      simp only [Except.ok.injEq, exists_and_left, exists_eq_left']
      by_cases h1 : hasDup (mappedIds mapping p.data.cTerms) = true
      · have := hcd.mp h1
        simp [h1, this]
      · have hu1 : MappedUnique mapping p.data.cTerms := Classical.not_not.mp fun h => h1 (hcd.mpr h)
        by_cases h2 : hasDup (mappedIds mapping p.data.nTerms) = true
        · have := hnd.mp h2
          simp [h1, h2, this]
        · have hu2 : MappedUnique mapping p.data.nTerms :=
            Classical.not_not.mp fun h => h2 (hnd.mpr h)
          simp only [h1, h2, Bool.false_eq_true, if_false, Except.ok.injEq, hu1, hu2, and_true]
          exact eq_comm

/-- `ValueError` when the mapping misses an identifier (first cause); otherwise `ValueError` when
mapped identifiers coincide (second cause); nothing else -/
theorem remapDef_error_iff (tr : Nat → Nat) (mapping : Option Dict) (p : TPulse) (e : String) :
    remapDef tr mapping p = .error e ↔
      (e = "ValueError" ∧ ¬ (TotalOn mapping p.data.cTerms ∧ TotalOn mapping p.data.nTerms)) ∨
      (e = "ValueError" ∧ (TotalOn mapping p.data.cTerms ∧ TotalOn mapping p.data.nTerms) ∧
        ¬ (MappedUnique mapping p.data.cTerms ∧ MappedUnique mapping p.data.nTerms)) := by
  unfold remapDef
  cases hc : remapHam tr mapping p.data.cTerms with
  | error e' =>
    have := (remapHam_error_iff tr mapping _ e').mp hc
    simp only [Except.error.injEq]
    constructor
    · rintro rfl; exact Or.inl ⟨this.1, fun h => this.2 h.1⟩
    · rintro (⟨rfl, _⟩ | ⟨_, h, _⟩)
      · exact this.1
      · exact absurd h.1 this.2
  | ok c =>
    have hct := remapHam_ok_total hc
    cases hn : remapHam tr mapping p.data.nTerms with
    | error e' =>
      have := (remapHam_error_iff tr mapping _ e').mp hn
      simp only [Except.error.injEq]
      constructor
      · rintro rfl; exact Or.inl ⟨this.1, fun h => this.2 h.2⟩
      · rintro (⟨rfl, _⟩ | ⟨_, h, _⟩)
        · exact this.1
        · exact absurd h.2 this.2
    | ok n =>
      have hnt := remapHam_ok_total hn
      have hcd := hasDup_mappedIds mapping _ hct
      have hnd := hasDup_mappedIds mapping _ hnt
      simp only
      by_cases h1 : hasDup (mappedIds mapping p.data.cTerms) = true
      · simp only [h1, if_true, Except.error.injEq]
        constructor
        · rintro rfl; exact Or.inr ⟨rfl, ⟨hct, hnt⟩, fun h => hcd.mp h1 h.1⟩
        · rintro (⟨_, h⟩ | ⟨rfl, _⟩)
          · exact absurd ⟨hct, hnt⟩ h
          · rfl
      · have hu1 : MappedUnique mapping p.data.cTerms := Classical.not_not.mp fun h => h1 (hcd.mpr h)
        by_cases h2 : hasDup (mappedIds mapping p.data.nTerms) = true
        · simp only [h1, h2, if_true, Bool.false_eq_true, if_false, Except.error.injEq]
          constructor
          · rintro rfl; exact Or.inr ⟨rfl, ⟨hct, hnt⟩, fun h => hnd.mp h2 h.2⟩
          · rintro (⟨_, h⟩ | ⟨rfl, _⟩)
            · exact absurd ⟨hct, hnt⟩ h
            · rfl
        · have hu2 : MappedUnique mapping p.data.nTerms :=
            Classical.not_not.mp fun h => h2 (hnd.mpr h)
          simp only [h1, h2, Bool.false_eq_true, if_false]
          constructor
          · intro h; cases h
          · rintro (⟨_, h⟩ | ⟨_, _, h⟩)
            · exact absurd ⟨hct, hnt⟩ h
            · exact absurd ⟨hu1, hu2⟩ h

/-- a given mapping misses an identifier of the pulse -/
def KeyMissing (mapping : Option Dict) (p : TPulse) : Prop :=
  ∃ m, mapping = some m ∧ ∃ t ∈ p.data.cTerms ++ p.data.nTerms, m.lookup t.id = none

theorem keyMissing_iff (mapping : Option Dict) (p : TPulse) :
    KeyMissing mapping p ↔ ¬ (TotalOn mapping p.data.cTerms ∧ TotalOn mapping p.data.nTerms) := by
  unfold KeyMissing
  cases mapping with
  | none => simp [totalOn_none]
  | some m =>
    simp only [Option.some.injEq, exists_eq_left']
    constructor
    · rintro ⟨t, ht, hs⟩ ⟨hc, hn⟩
      rcases List.mem_append.mp ht with ht | ht
      · have := hc t ht
        simp only [mapFn, hs] at this
        cases this
      · have := hn t ht
        simp only [mapFn, hs] at this
        cases this
    · intro h
      by_cases hc : TotalOn (some m) p.data.cTerms
      · have hn : ¬ TotalOn (some m) p.data.nTerms := fun hn => h ⟨hc, hn⟩
        unfold TotalOn at hn
        simp only [Classical.not_forall] at hn
        obtain ⟨t, ht, hs⟩ := hn
        exact ⟨t, List.mem_append_right _ ht, Option.not_isSome_iff_eq_none.mp hs⟩
      · unfold TotalOn at hc
        simp only [Classical.not_forall] at hc
        obtain ⟨t, ht, hs⟩ := hc
        exact ⟨t, List.mem_append_left _ ht, Option.not_isSome_iff_eq_none.mp hs⟩

/-! ### times -/

theorem length_cumsum (dt : List Int) (acc : Int) : (cumsum dt acc).length = dt.length := by
  induction dt generalizing acc with
  | nil => rfl
  | cons d ds ih => simp [cumsum, ih]

/-- entry `k` of `concatenate(([0], dt.cumsum()))` is the sum of the first `k` durations -/
theorem cumsum_getElem? (dt : List Int) (acc : Int) (k : Nat) (hk : k ≤ dt.length) :
    (acc :: cumsum dt acc)[k]? = some (acc + (dt.take k).sum) := by
  induction dt generalizing acc k with
  | nil =>
    have : k = 0 := by simpa using hk
    subst this
    simp
  | cons d ds ih =>
    cases k with
    | zero => simp
    | succ k =>
      simp only [cumsum, List.getElem?_cons_succ, List.take_succ_cons, List.sum_cons]
      rw [ih (acc + d) k (by simpa using hk)]
      simp [Int.add_assoc]

theorem getLast?_cumsum (dt : List Int) (acc : Int) :
    (acc :: cumsum dt acc).getLast? = some (acc + dt.sum) := by
  induction dt generalizing acc with
  | nil => simp [cumsum]
  | cons d ds ih =>
    simp only [cumsum, List.sum_cons]
    rw [List.getLast?_cons_cons, ih (acc + d)]
    simp [Int.add_assoc]

/-- the time cache is empty or holds what the class itself computes -/
def TimesConsistent (tCache : Option (List Int)) (dt : List Int) : Prop :=
  tCache = none ∨ tCache = some (0 :: cumsum dt 0)

/-! ### scatter / gather of cached rows -/

section Scatter
variable {α : Type}

theorem length_scatter (pos : List Nat) (xs : List α) (R : List (Option α)) :
    (scatter pos xs R).length = R.length := by
  induction pos generalizing xs R with
  | nil => rfl
  | cons j js ih =>
    cases xs with
    | nil => rfl
    | cons x xs => simp [scatter, ih]

/-- positions that are not written keep their old content -/
theorem scatter_getElem?_of_not_mem (pos : List Nat) (xs : List α) (R : List (Option α)) (j : Nat)
    (h : j ∉ pos) : (scatter pos xs R)[j]? = R[j]? := by
  induction pos generalizing xs R with
  | nil => rfl
  | cons j' js ih =>
    cases xs with
    | nil => rfl
    | cons x xs =>
      have hne : j' ≠ j := fun e => h (e ▸ List.mem_cons_self ..)
      simp only [scatter]
      rw [ih xs _ fun hm => h (List.mem_cons_of_mem _ hm), List.getElem?_set_ne hne]

/-- `R[pos] = xs` with pairwise distinct positions: position `pos[a]` holds `xs[a]` -/
theorem scatter_getElem? (pos : List Nat) (xs : List α) (R : List (Option α)) (hnd : pos.Nodup)
    (a : Nat) (ha : a < pos.length) (hx : a < xs.length) (hR : pos[a] < R.length) :
    (scatter pos xs R)[pos[a]]? = some (some xs[a]) := by
  induction pos generalizing xs R a with
  | nil => cases ha
  | cons j js ih =>
    cases xs with
    | nil => cases hx
    | cons x xs =>
      have hnd' := List.nodup_cons.mp hnd
      simp only [scatter]
      cases a with
      | zero =>
        simp only [List.getElem_cons_zero] at hR ⊢
        rw [scatter_getElem?_of_not_mem _ _ _ _ hnd'.1, List.getElem?_set_self hR]
      | succ a =>
        simp only [List.getElem_cons_succ] at hR ⊢
        exact ih xs _ hnd'.2 a (by simpa using ha) (by simpa using hx) (by simpa using hR)

/-- fancy indexing with indices in range, entry by entry -/
theorem gather_map_some (xs : List α) (idx : List Nat) (h : ∀ i ∈ idx, i < xs.length) :
    (gather xs idx).map some = idx.map (xs[·]?) := by
  unfold gather
  induction idx with
  | nil => rfl
  | cons i is ih =>
    have hi := h i (List.mem_cons_self ..)
    simp only [List.filterMap_cons, List.getElem?_eq_getElem hi, List.map_cons]
    rw [ih fun j hj => h j (List.mem_cons_of_mem _ hj)]

theorem length_gather (xs : List α) (idx : List Nat) (h : ∀ i ∈ idx, i < xs.length) :
    (gather xs idx).length = idx.length := by
  have := congrArg List.length (gather_map_some xs idx h)
  simpa using this

theorem gather_getElem? (xs : List α) (idx : List Nat) (h : ∀ i ∈ idx, i < xs.length) (j : Nat) :
    (gather xs idx)[j]? = (idx[j]?).bind (xs[·]?) := by
  have := congrArg (fun l => l[j]?) (gather_map_some xs idx h)
  simp only [List.getElem?_map] at this
  cases hj : idx[j]? with
  | none =>
    rw [hj] at this
    cases hg : (gather xs idx)[j]? with
    | none => rfl
    | some v => rw [hg] at this; cases this
  | some i =>
    rw [hj] at this
    simp only [Option.map_some] at this
    cases hg : (gather xs idx)[j]? with
    | none => rw [hg] at this; cases this
    | some v =>
      rw [hg] at this
      simp only [Option.map_some, Option.some.injEq] at this
      simp only [Option.bind_some]
      exact this

end Scatter

/-! ### `extend`: the first loop -/

theorem idFn_none (s : String) : idFn none s = s := rfl

theorem mappedUnique_none (ts : List Term) : MappedUnique none ts ↔ (ts.map (·.id)).Nodup :=
  Iff.rfl

theorem idsDup_iff (p : TPulse) :
    p.idsDup = false ↔
      (p.data.cTerms.map (·.id)).Nodup ∧ (p.data.nTerms.map (·.id)).Nodup := by
  unfold TPulse.idsDup
  rw [Bool.or_eq_false_iff]
  constructor
  · rintro ⟨h1, h2⟩
    constructor
    · refine Classical.not_not.mp fun h => ?_
      rw [(hasDup_iff _).mpr h] at h1
      cases h1
    · refine Classical.not_not.mp fun h => ?_
      rw [(hasDup_iff _).mpr h] at h2
      cases h2
  · rintro ⟨h1, h2⟩
    constructor
    · cases h : hasDup (p.data.cTerms.map (·.id)) with
      | false => rfl
      | true => exact absurd h1 ((hasDup_iff _).mp h)
    · cases h : hasDup (p.data.nTerms.map (·.id)) with
      | false => rfl
      | true => exact absurd h2 ((hasDup_iff _).mp h)

/-- `remap` with the identity order and no mapping: the pulse itself when its identifiers are
unique (class invariant), `ValueError` otherwise -/
theorem remapDef_id_none (p : TPulse) :
    remapDef (fun o => o) none p = if p.idsDup then .error "ValueError" else .ok p := by
  by_cases h : p.idsDup = true
  · simp only [h, if_true]
    rw [remapDef_error_iff]
    refine Or.inr ⟨rfl, ⟨totalOn_none _, totalOn_none _⟩, ?_⟩
    intro hu
    have := (idsDup_iff p).mpr hu
    rw [h] at this
    cases this
  · have h' : p.idsDup = false := by simpa using h
    simp only [h', Bool.false_eq_true, if_false]
    rw [remapDef_eq_ok_iff]
    refine ⟨_, _, remapHam_none _ _, remapHam_none _ _, ?_, (idsDup_iff p).mp h'⟩
    have : ∀ ts : List Term, ts.map (relabel (fun o => o) (idFn none)) = ts := fun ts =>
      List.map_id' ts
    rw [this, this]

/-- the entry goes to the single-qubit lists -/
def Entry.isSingle (e : Entry) : Bool := e.bare || e.qubits.length == 1

/-- `sorted_qubit` -/
def sortedQubits (qs : List Nat) : List Nat := (sortPairs qs.zipIdx).map (·.1)

/-- `order` -/
def orderOf (qs : List Nat) : List Nat := (sortPairs qs.zipIdx).map (·.2)

/-- `qubit == sorted_qubit` is false: `remap` is called -/
def Entry.needsRemap (e : Entry) : Bool := !(e.isTuple && e.qubits == sortedQubits e.qubits)

/-- the first loop raises for this entry: empty tuple, or `remap` fails — on the dimensions, or on
identifiers that are repeated in the input pulse already -/
def Entry.loopFails (e : Entry) : Bool :=
  !e.isSingle && (e.qubits.isEmpty || (e.needsRemap && (!e.dimOk || e.pulse.idsDup)))

/-- what the first loop records for entry number `i` -/
def placedOf (i : Nat) (e : Entry) : Placed :=
  if e.isSingle then
    { entry := i, pulse := e.pulse, order := none, qubits := e.qubits, single := true,
      mapping := e.mapping, dimOk := e.dimOk }
  else
    { entry := i, pulse := e.pulse, order := if e.needsRemap then some (orderOf e.qubits) else none,
      qubits := sortedQubits e.qubits, single := false, mapping := e.mapping, dimOk := e.dimOk }

theorem placeEntry_eq (i : Nat) (e : Entry) :
    placeEntry i e = if e.loopFails then .error "ValueError" else .ok (placedOf i e) := by
  unfold placeEntry Entry.loopFails placedOf Entry.needsRemap Entry.isSingle sortedQubits orderOf
  by_cases h1 : (e.bare || e.qubits.length == 1) = true
  · simp [h1]
  · simp only [h1, Bool.false_eq_true, if_false, Bool.not_false, Bool.true_and]
    by_cases h2 : e.qubits.isEmpty = true
    · simp [h2]
    · simp only [h2, Bool.false_eq_true, if_false, Bool.false_or]
      by_cases h3 : (e.isTuple && e.qubits == (sortPairs e.qubits.zipIdx).map (·.1)) = true
      · simp [h3]
      · simp only [h3, Bool.false_eq_true, if_false, Bool.not_false, Bool.true_and]
        by_cases h4 : e.dimOk = true
        · by_cases h5 : e.pulse.idsDup = true
          · simp [h4, h5, remapDef_id_none]
          · simp [h4, h5, remapDef_id_none]
        · simp [h4]

theorem placeAll_eq (i : Nat) (entries : List Entry) :
    placeAll i entries = if entries.any (·.loopFails) then .error "ValueError"
      else .ok ((entries.zipIdx i).map fun ei => placedOf ei.2 ei.1) := by
  induction entries generalizing i with
  | nil => rfl
  | cons e es ih =>
    simp only [placeAll, placeEntry_eq, List.any_cons, List.zipIdx_cons, List.map_cons]
    by_cases h : e.loopFails = true
    · simp [h]
    · simp only [h, Bool.false_eq_true, if_false, Bool.false_or, ih (i + 1)]
      by_cases h2 : es.any (·.loopFails) = true
      · simp [h2]
      · simp [h2]

/-! ### `extend`: identifiers and the loops over the pulses -/

/-- `(ids.map fun q => (q, f q)).lookup s` -/
theorem lookup_map_self (f : String → String) (ids : List String) (s : String) :
    (ids.map fun q => (q, f q)).lookup s = if s ∈ ids then some (f s) else none := by
  induction ids with
  | nil => rfl
  | cons q qs ih =>
    simp only [List.map_cons, List.lookup_cons, List.mem_cons]
    by_cases h : s = q
    · subst h; simp
    · have : (s == q) = false := by simpa using h
      simp [this, ih, h]

/-- the identifier that `extend` gives to identifier `s` of a pulse with identifiers `ids` -/
def newId (pl : Placed) (ids : List String) (s : String) : String :=
  idFn (some (defaultExtendMapping ids pl.mapping pl.qubits)) s

/-- default: the identifier, `_`, the (ascending) qubits -/
theorem newId_default (pl : Placed) (ids : List String) (s : String) (h : pl.mapping = none)
    (hs : s ∈ ids) : newId pl ids s = s ++ "_" ++ String.join (pl.qubits.map toString) := by
  unfold newId idFn mapFn defaultExtendMapping
  rw [h]
  simp only [lookup_map_self (fun q => q ++ "_" ++ String.join (pl.qubits.map toString)), hs,
    if_true, Option.getD_some]

/-- given mapping: its value -/
theorem newId_given (pl : Placed) (ids : List String) (s v : String) (m : Dict)
    (h : pl.mapping = some m) (hv : m.lookup s = some v) : newId pl ids s = v := by
  unfold newId idFn mapFn defaultExtendMapping
  rw [h]
  simp only [hv, Option.getD_some]

/-- the term of the extended pulse made from term `t` of a placed pulse -/
def xterm (pl : Placed) (ids : List String) (t : Term) : XTerm :=
  ⟨XOp.mapped pl.entry t.op pl.order pl.qubits, newId pl ids t.id, t.coeffs⟩

/-- the entry's mapping (if one is given) knows all identifiers of the Hamiltonian -/
def MappingTotal (mapping : Option Dict) (ts : List Term) : Prop :=
  ∀ m, mapping = some m → ∀ t ∈ ts, (m.lookup t.id).isSome

theorem totalOn_default (ts : List Term) (mapping : Option Dict) (qubits : List Nat) :
    TotalOn (some (defaultExtendMapping (ts.map (·.id)) mapping qubits)) ts ↔
      MappingTotal mapping ts := by
  unfold TotalOn MappingTotal mapFn defaultExtendMapping
  cases mapping with
  | some m => simp
  | none =>
    simp only [reduceCtorEq, false_implies, implies_true, iff_true]
    intro t ht
    rw [lookup_map_self (fun q => q ++ "_" ++ String.join (qubits.map toString))]
    simp [List.mem_map.mpr ⟨t, ht, rfl⟩]

theorem placedTerms_ok (ts : List Term) (pl : Placed) (h : MappingTotal pl.mapping ts) :
    placedTerms ts pl = .ok (ts.map (xterm pl (ts.map (·.id)))) := by
  unfold placedTerms mapIdentifiers
  have ht := (totalOn_default ts pl.mapping pl.qubits).mpr h
  have ha := applyDict_of_total (defaultExtendMapping (ts.map (·.id)) pl.mapping pl.qubits)
    (ts.map (·.id)) (by
      intro s hs
      obtain ⟨t, ht', rfl⟩ := List.mem_map.mp hs
      exact ht t ht')
  simp only [ha]
  have h1 : (ts.map fun t => XOp.mapped pl.entry t.op pl.order pl.qubits)
      = ts.map fun t => (xterm pl (ts.map (·.id)) t).op := rfl
  have h2 : (ts.map (·.id)).map
      (idFn (some (defaultExtendMapping (ts.map (·.id)) pl.mapping pl.qubits)))
      = ts.map fun t => (xterm pl (ts.map (·.id)) t).id := by
    rw [List.map_map]; rfl
  have h3 : ts.map (·.coeffs) = ts.map fun t => (xterm pl (ts.map (·.id)) t).coeffs := rfl
  rw [h1, h2, h3, zip3With_map]

theorem placedTerms_err (ts : List Term) (pl : Placed) (h : ¬ MappingTotal pl.mapping ts) :
    placedTerms ts pl = .error "ValueError" := by
  unfold placedTerms mapIdentifiers
  have ht : ¬ TotalOn (some (defaultExtendMapping (ts.map (·.id)) pl.mapping pl.qubits)) ts :=
    fun ht => h ((totalOn_default ts pl.mapping pl.qubits).mp ht)
  have hn : applyDict (defaultExtendMapping (ts.map (·.id)) pl.mapping pl.qubits)
      (ts.map (·.id)) = none := by
    rw [applyDict_eq_none_iff]
    unfold TotalOn at ht
    simp only [Classical.not_forall] at ht
    obtain ⟨t, ht', hs⟩ := ht
    exact ⟨t.id, List.mem_map.mpr ⟨t, ht', rfl⟩, Option.not_isSome_iff_eq_none.mp hs⟩
  simp only [hn]

/-- all control and noise identifiers of every pulse are keys of its mapping (if it has one) -/
def AllMappingsTotal (pls : List Placed) : Prop :=
  ∀ pl ∈ pls, MappingTotal pl.mapping pl.pulse.data.cTerms ∧
    MappingTotal pl.mapping pl.pulse.data.nTerms

/-- the control / noise terms collected by the two loops -/
def collectedC (pls : List Placed) : List XTerm :=
  pls.flatMap fun pl => pl.pulse.data.cTerms.map (xterm pl (pl.pulse.data.cTerms.map (·.id)))
def collectedN (pls : List Placed) : List XTerm :=
  pls.flatMap fun pl => pl.pulse.data.nTerms.map (xterm pl (pl.pulse.data.nTerms.map (·.id)))

theorem collectTerms_ok (pls : List Placed) (h : AllMappingsTotal pls) :
    collectTerms pls = .ok (collectedC pls, collectedN pls) := by
  induction pls with
  | nil => rfl
  | cons pl pls ih =>
    have hpl := h pl (List.mem_cons_self ..)
    simp only [collectTerms, placedTerms_ok _ _ hpl.1, placedTerms_ok _ _ hpl.2,
      ih fun x hx => h x (List.mem_cons_of_mem _ hx)]
    simp [collectedC, collectedN]

theorem collectTerms_err (pls : List Placed) (h : ¬ AllMappingsTotal pls) :
    collectTerms pls = .error "ValueError" := by
  induction pls with
  | nil => exact absurd (fun _ hx => by cases hx) h
  | cons pl pls ih =>
    simp only [collectTerms]
    by_cases hc : MappingTotal pl.mapping pl.pulse.data.cTerms
    · by_cases hn : MappingTotal pl.mapping pl.pulse.data.nTerms
      · have hr : ¬ AllMappingsTotal pls := fun hr => h (by
          intro x hx
          rcases List.mem_cons.mp hx with rfl | hx
          · exact ⟨hc, hn⟩
          · exact hr x hx)
        simp only [placedTerms_ok _ _ hc, placedTerms_ok _ _ hn, ih hr]
      · simp only [placedTerms_ok _ _ hc, placedTerms_err _ _ hn]
    · simp only [placedTerms_err _ _ hc]

/-! ### `extend`: the final sort -/

theorem sortTerms_eq (ts : List XTerm) : sortTerms ts = sortBy (·.id) ts := by
  unfold sortTerms
  dsimp only
  rw [gather_map, gather_map, gather_map, zip3With_map]
  have : (fun x : XTerm => XTerm.mk x.op x.id x.coeffs) = fun x => x := rfl
  rw [this, List.map_id', gather_argsortIds]

/-! ### `extend`: the whole definition part, unfolded -/

/-- the entries after the first loop -/
def placedList (entries : List Entry) : List Placed :=
  entries.zipIdx.map fun ei => placedOf ei.2 ei.1

/-- `pulses = multi_qubit_pulses + single_qubit_pulses` -/
def ordered (entries : List Entry) : List Placed :=
  (placedList entries).filter (!·.single) ++ (placedList entries).filter (·.single)

/-- `len(pulses[0].dt)` -/
def nDtOf (entries : List Entry) : Nat :=
  (((ordered entries).head?.map (·.pulse)).map (·.data.dt.length)).getD 0

/-- the additional noise operators as terms of the extended pulse -/
def addTerms (add : List Term) : List XTerm := add.map fun t => ⟨XOp.additional t.op, t.id, t.coeffs⟩

/-- the result of `extend` when the shortcut is not taken -/
def builtPulse (entries : List Entry) (N : Nat) (ns' : List XTerm) : XPulse :=
  { cTerms := sortBy (·.id) (collectedC (ordered entries)), nTerms := sortBy (·.id) ns'
    dt := (((ordered entries).head?.map (·.pulse)).map (·.data.dt)).getD []
    tCache := ((ordered entries).head?.map (·.pulse)).bind (·.tCache)
    tauCache := ((ordered entries).head?.map (·.pulse)).bind (·.tauCache)
    N := N, shortcut := false }

/-- `extendDef` with the first loop evaluated -/
theorem extendDef_eq (entries : List Entry) (Ng : Option Nat) (add : Option Additional) :
    extendDef entries Ng add =
      if entries.isEmpty then .error "ValueError"
      else if entries.any (·.loopFails) then .error "ValueError"
      else
        match frontChecks entries (placedList entries) Ng with
        | .error x => .error x
        | .ok N =>
          match shortcutOf (placedList entries) N with
          | some pl => .ok (shortcutResult pl N)
          | none =>
            match collectTerms (ordered entries) with
            | .error x => .error x
            | .ok (cs, ns) =>
              if hasDup (cs.map (·.id)) then .error "ValueError"
              else if hasDup (ns.map (·.id)) then .error "ValueError"
              else
              match addAdditional ns (nDtOf entries) add with
              | .error x => .error x
              | .ok ns' =>
                .ok { cTerms := sortTerms cs, nTerms := sortTerms ns'
                      dt := (((ordered entries).head?.map (·.pulse)).map (·.data.dt)).getD []
                      tCache := ((ordered entries).head?.map (·.pulse)).bind (·.tCache)
                      tauCache := ((ordered entries).head?.map (·.pulse)).bind (·.tauCache)
                      N := N, shortcut := false } := by
  unfold extendDef
  rw [placeAll_eq]
  by_cases he : entries.isEmpty = true
  · simp [he]
  · by_cases hl : entries.any (·.loopFails) = true
    · simp [he, hl]
    · simp only [he, hl, Bool.false_eq_true, if_false]
      rfl

theorem extendDef_ok {entries : List Entry} {Ng : Option Nat} {add : Option Additional} {q : XPulse}
    (h : extendDef entries Ng add = .ok q) :
    entries ≠ [] ∧ entries.any (·.loopFails) = false ∧
    ∃ N, frontChecks entries (placedList entries) Ng = .ok N ∧
      ((∃ pl, shortcutOf (placedList entries) N = some pl ∧ q = shortcutResult pl N) ∨
       (shortcutOf (placedList entries) N = none ∧ AllMappingsTotal (ordered entries) ∧
        ((collectedC (ordered entries)).map (·.id)).Nodup ∧
        ((collectedN (ordered entries)).map (·.id)).Nodup ∧
        ∃ ns', addAdditional (collectedN (ordered entries)) (nDtOf entries) add = .ok ns' ∧
          q = builtPulse entries N ns')) := by
  rw [extendDef_eq] at h
  by_cases he : entries.isEmpty = true
  · simp [he] at h
  · have hne : entries ≠ [] := fun hh => he (by simp [hh])
    by_cases hl : entries.any (·.loopFails) = true
    · simp [he, hl] at h
    · simp only [he, hl, Bool.false_eq_true, if_false] at h
      refine ⟨hne, by simpa using hl, ?_⟩
      split at h
      · cases h
      · rename_i N hf
        refine ⟨N, hf, ?_⟩
        split at h
        · rename_i pl hsc
          simp only [Except.ok.injEq] at h
          exact Or.inl ⟨pl, hsc, h.symm⟩
        · rename_i hsc
          refine Or.inr ⟨hsc, ?_⟩
          by_cases hm : AllMappingsTotal (ordered entries)
          · refine ⟨hm, ?_⟩
            rw [collectTerms_ok _ hm] at h
            simp only at h
            by_cases hdc : hasDup ((collectedC (ordered entries)).map (·.id)) = true
            · simp [hdc] at h
            · by_cases hdn : hasDup ((collectedN (ordered entries)).map (·.id)) = true
              · simp [hdc, hdn] at h
              · simp only [hdc, hdn, Bool.false_eq_true, if_false] at h
                refine ⟨Classical.not_not.mp fun hh => hdc ((hasDup_iff _).mpr hh),
                  Classical.not_not.mp fun hh => hdn ((hasDup_iff _).mpr hh), ?_⟩
                split at h
                · cases h
                · rename_i ns' ha
                  simp only [Except.ok.injEq, sortTerms_eq] at h
                  exact ⟨ns', ha, h.symm⟩
          · rw [collectTerms_err _ hm] at h
            cases h

/-! ### `sorted(zip(qubit, range(len(qubit))))` -/

/-- lexicographic order of pairs -/
def lexLe (a b : Nat × Nat) : Prop := a.1 < b.1 ∨ (a.1 = b.1 ∧ a.2 ≤ b.2)

theorem insertPair_perm (a : Nat × Nat) (l : List (Nat × Nat)) : (insertPair a l).Perm (a :: l) := by
  induction l with
  | nil => simp [insertPair]
  | cons b bs ih =>
    simp only [insertPair]
    split
    · exact List.Perm.refl _
    · exact (List.Perm.cons b ih).trans (List.Perm.swap a b bs)

theorem sortPairs_perm (l : List (Nat × Nat)) : (sortPairs l).Perm l := by
  induction l with
  | nil => simp [sortPairs]
  | cons a as ih => exact (insertPair_perm a _).trans (List.Perm.cons a ih)

theorem insertPair_sorted (a : Nat × Nat) {l : List (Nat × Nat)} (h : l.Pairwise lexLe) :
    (insertPair a l).Pairwise lexLe := by
  induction l with
  | nil => simp [insertPair]
  | cons b bs ih =>
    have hb := List.pairwise_cons.mp h
    simp only [insertPair]
    split
    · rename_i hab
      have hab' : lexLe a b := by
        simp only [Bool.or_eq_true, decide_eq_true_eq, Bool.and_eq_true, beq_iff_eq] at hab
        exact hab
      refine List.pairwise_cons.mpr ⟨?_, h⟩
      intro x hx
      rcases List.mem_cons.mp hx with rfl | hx
      · exact hab'
      · have := hb.1 x hx
        unfold lexLe at *
        omega
    · rename_i hab
      have hba : lexLe b a := by
        simp only [Bool.or_eq_true, decide_eq_true_eq, Bool.and_eq_true, beq_iff_eq] at hab
        unfold lexLe
        omega
      refine List.pairwise_cons.mpr ⟨?_, ih hb.2⟩
      intro x hx
      rcases List.mem_cons.mp ((insertPair_perm a bs).mem_iff.mp hx) with rfl | hx'
      · exact hba
      · exact hb.1 x hx'

theorem sortPairs_sorted (l : List (Nat × Nat)) : (sortPairs l).Pairwise lexLe := by
  induction l with
  | nil => simp [sortPairs]
  | cons a as ih => exact insertPair_sorted a ih

/-- **`sorted_qubit` and `order`**: the sorted qubits are ascending and a permutation of the given
ones, `order` is a permutation of `0..k-1`, and place `j` holds the qubit that was given at place
`order[j]`: `sorted_qubit[j] = qubit[order[j]]` -/
theorem sortedQubits_spec (qs : List Nat) :
    (sortedQubits qs).Pairwise (· ≤ ·) ∧ (sortedQubits qs).Perm qs ∧
    (orderOf qs).Perm (List.range qs.length) ∧
    ∀ j : Nat, (sortedQubits qs)[j]? = ((orderOf qs)[j]?).bind fun i : Nat => qs[i]? := by
  unfold sortedQubits orderOf
  refine ⟨?_, ?_, ?_, ?_⟩
  · rw [List.pairwise_map]
    exact (sortPairs_sorted _).imp fun h => by unfold lexLe at h; omega
  · have := (sortPairs_perm qs.zipIdx).map (·.1)
    rwa [List.zipIdx_map_fst] at this
  · have := (sortPairs_perm qs.zipIdx).map (·.2)
    rwa [List.zipIdx_map_snd, ← List.range_eq_range'] at this
  · intro j
    simp only [List.getElem?_map]
    cases hj : (sortPairs qs.zipIdx)[j]? with
    | none => rfl
    | some x =>
      have hx : x ∈ qs.zipIdx := (sortPairs_perm _).mem_iff.mp (List.mem_of_getElem? hj)
      have := List.mem_zipIdx_iff_getElem?.mp hx
      simp only [Option.map_some, Option.bind_some]
      exact this.symm

/-! ### the checks of `extend` -/

@[simp] theorem placedOf_entry (i : Nat) (e : Entry) : (placedOf i e).entry = i := by
  unfold placedOf; split <;> rfl
@[simp] theorem placedOf_pulse (i : Nat) (e : Entry) : (placedOf i e).pulse = e.pulse := by
  unfold placedOf; split <;> rfl
@[simp] theorem placedOf_mapping (i : Nat) (e : Entry) : (placedOf i e).mapping = e.mapping := by
  unfold placedOf; split <;> rfl
@[simp] theorem placedOf_dimOk (i : Nat) (e : Entry) : (placedOf i e).dimOk = e.dimOk := by
  unfold placedOf; split <;> rfl
@[simp] theorem placedOf_single (i : Nat) (e : Entry) : (placedOf i e).single = e.isSingle := by
  unfold placedOf; split <;> simp_all

theorem mem_placedList {entries : List Entry} {pl : Placed} :
    pl ∈ placedList entries ↔ ∃ k, ∃ h : k < entries.length, pl = placedOf k entries[k] := by
  unfold placedList
  simp only [List.mem_map, List.mem_zipIdx_iff_getElem?, Prod.exists]
  constructor
  · rintro ⟨e, k, hk, rfl⟩
    obtain ⟨hk', rfl⟩ := List.getElem?_eq_some_iff.mp hk
    exact ⟨k, hk', rfl⟩
  · rintro ⟨k, hk, rfl⟩
    exact ⟨entries[k], k, List.getElem?_eq_getElem hk, rfl⟩

theorem ordered_perm (entries : List Entry) : (ordered entries).Perm (placedList entries) := by
  unfold ordered
  exact List.perm_append_comm.trans (List.filter_append_perm _ _)

theorem mem_ordered {entries : List Entry} {pl : Placed} :
    pl ∈ ordered entries ↔ pl ∈ placedList entries := (ordered_perm entries).mem_iff

/-! ### the additional noise Hamiltonian -/

/-- the four rejections of l. 2438–2448 -/
def addRejected (ns : List XTerm) (nDt : Nat) (H : Additional) : Bool :=
  (!(H.terms.all (fun t => t.2.1.isNone)) && hasDup ((fillIdentifiers H.terms "B").map (·.id))) ||
  !((fillIdentifiers H.terms "B").all (fun t => t.coeffs.length == nDt)) ||
  !H.dimOk ||
  (parseHamiltonian H.terms "B").any (fun t => (ns.map (·.id)).contains t.id)

theorem addAdditional_some (ns : List XTerm) (nDt : Nat) (H : Additional) :
    addAdditional ns nDt (some H) = if addRejected ns nDt H then .error "ValueError"
      else .ok (ns ++ addTerms (parseHamiltonian H.terms "B")) := by
  unfold addAdditional addRejected parseHamiltonianChecked addTerms parseHamiltonian
  by_cases h1 : (!(H.terms.all (fun t => t.2.1.isNone)) &&
      hasDup ((fillIdentifiers H.terms "B").map (·.id))) = true
  · simp [h1, throw, throwThe, MonadExceptOf.throw]
  · by_cases h2 : (!((fillIdentifiers H.terms "B").all (fun t => t.coeffs.length == nDt))) = true
    · simp only [h1, h2]
      simp [throw, throwThe, MonadExceptOf.throw]
    · by_cases h3 : H.dimOk = true
      · simp only [h1, h2, h3]
        simp [pure, Except.pure]
      · simp only [h1, h2, h3]
        simp [pure, Except.pure]

theorem addAdditional_none (ns : List XTerm) (nDt : Nat) : addAdditional ns nDt none = .ok ns := rfl

/-! ### the checks before the shortcut -/

/-- `util.all_array_equal((pulse.dt for pulse in pulses))` -/
def dtAllEq (pulses : List Placed) : Bool :=
  match pulses with
  | [] => false
  | p :: ps => ps.all (·.pulse.data.dt == p.pulse.data.dt)

/-- highest qubit index + 1 -/
def lastQubit1 (entries : List Entry) : Nat := (entries.flatMap (·.qubits)).foldl max 0 + 1

/-- the rejections of l. 2309–2334 -/
def frontRejected (entries : List Entry) (Ng : Option Nat) : Bool :=
  !(entries.all (·.dimOk)) || !(dtAllEq (ordered entries)) ||
  hasDupNat (entries.flatMap (·.qubits)) ||
  (match Ng with
   | none => false
   | some n => decide (lastQubit1 entries > n))

/-- the number of qubits of the result -/
def extendN (entries : List Entry) (Ng : Option Nat) : Nat := Ng.getD (lastQubit1 entries)

theorem placed_all_dimOk (entries : List Entry) :
    (((placedList entries).filter (·.single)).all (·.dimOk) &&
      ((placedList entries).filter (!·.single)).all (·.dimOk)) = entries.all (·.dimOk) := by
  rw [Bool.eq_iff_iff]
  simp only [Bool.and_eq_true, List.all_eq_true, List.mem_filter, Bool.not_eq_true',
    and_imp]
  constructor
  · rintro ⟨h1, h2⟩ e he
    obtain ⟨k, hk, rfl⟩ := List.getElem_of_mem he
    have hm : placedOf k entries[k] ∈ placedList entries := mem_placedList.mpr ⟨k, hk, rfl⟩
    cases hs : (placedOf k entries[k]).single with
    | true => simpa using h1 _ hm hs
    | false => simpa using h2 _ hm hs
  · intro h
    constructor
    · intro pl hpl _
      obtain ⟨k, hk, rfl⟩ := mem_placedList.mp hpl
      simpa using h _ (List.getElem_mem hk)
    · intro pl hpl _
      obtain ⟨k, hk, rfl⟩ := mem_placedList.mp hpl
      simpa using h _ (List.getElem_mem hk)

theorem frontChecks_eq (entries : List Entry) (Ng : Option Nat) :
    frontChecks entries (placedList entries) Ng =
      if frontRejected entries Ng then .error "ValueError" else .ok (extendN entries Ng) := by
  unfold frontChecks frontRejected extendN lastQubit1
  have hd := placed_all_dimOk entries
  by_cases h1 : ((placedList entries).filter (·.single)).all (·.dimOk) = true
  · by_cases h2 : ((placedList entries).filter (!·.single)).all (·.dimOk) = true
    · rw [h1, h2] at hd
      simp only [h1, h2, ← hd, Bool.and_self, Bool.not_true, Bool.false_eq_true, if_false,
        Bool.false_or]
      change (if (!dtAllEq (ordered entries)) = true then _ else _) = _
      by_cases h3 : dtAllEq (ordered entries) = true
      · simp only [h3, Bool.not_true, Bool.false_eq_true, if_false, Bool.false_or]
        by_cases h4 : hasDupNat (entries.flatMap (·.qubits)) = true
        · simp [h4]
        · simp only [h4, Bool.false_eq_true, if_false, Bool.false_or]
          cases Ng with
          | none => simp
          | some n =>
            by_cases h5 : (entries.flatMap (·.qubits)).foldl max 0 + 1 > n
            · simp [h5]
            · simp [h5]
      · simp [h3]
    · rw [h1] at hd
      simp only [Bool.true_and] at hd
      simp [h1, h2, ← hd]
  · have : entries.all (·.dimOk) = false := by
      rw [← hd]; simp [h1]
    simp [h1, this]

/-! ## helpers of `Props/C06Def` -/

/-- composed mapping on one Hamiltonian: where both steps succeed, the composed mapping is
defined and is the composition -/
theorem compose_ids (tr₁ : Nat → Nat) (m₁ m₂ m₁₂ : Option Dict) (ts q : List Term)
    (h₁ : remapHam tr₁ m₁ ts = .ok q) (t₂ : TotalOn m₂ q)
    (hcomp : ∀ t ∈ ts, mapFn m₁₂ t.id = (mapFn m₁ t.id).bind (mapFn m₂)) :
    ∀ t ∈ ts, mapFn m₁₂ t.id = some (idFn m₂ (idFn m₁ t.id)) ∧
      idFn m₁₂ t.id = idFn m₂ (idFn m₁ t.id) := by
  have t₁ := remapHam_ok_total h₁
  have hqp : q.Perm (ts.map (relabel tr₁ (idFn m₁))) := by
    cases m₁ with
    | none => rw [remapHam_none] at h₁; injection h₁ with h₁; subst h₁; exact List.Perm.refl _
    | some m =>
      rw [remapHam_some tr₁ m ts t₁] at h₁; injection h₁ with h₁; subst h₁; exact sortBy_perm _ _
  intro t ht
  have hmem : relabel tr₁ (idFn m₁) t ∈ q := hqp.mem_iff.mpr (List.mem_map.mpr ⟨t, ht, rfl⟩)
  have h : mapFn m₁₂ t.id = some (idFn m₂ (idFn m₁ t.id)) := by
    rw [hcomp t ht, mapFn_of_isSome (t₁ t ht)]
    exact mapFn_of_isSome (t₂ _ hmem)
  refine ⟨h, ?_⟩
  unfold idFn
  rw [h]
  rfl

/-- one Hamiltonian of `remapDef_compose` -/
theorem remapHam_compose (tr₁ tr₂ : Nat → Nat) (m₁ m₂ m₁₂ : Option Dict) (ts q r : List Term)
    (h₁ : remapHam tr₁ m₁ ts = .ok q) (h₂ : remapHam tr₂ m₂ q = .ok r)
    (hs : SortedBy (·.id) ts)
    (hcomp : ∀ t ∈ ts, mapFn m₁₂ t.id = (mapFn m₁ t.id).bind (mapFn m₂))
    (hnd : (ts.map fun t => idFn m₁₂ t.id).Nodup) :
    remapHam (tr₂ ∘ tr₁) m₁₂ ts = .ok r := by
  have t₁ := remapHam_ok_total h₁
  have hq := remapHam_canon tr₁ m₁ ts t₁ (Or.inr hs)
  rw [h₁] at hq
  injection hq with hq
  have t₂ := remapHam_ok_total h₂
  have hr := remapHam_canon tr₂ m₂ q t₂ (Or.inr (hq ▸ sortBy_sorted _ _))
  rw [h₂] at hr
  injection hr with hr
  have hids := compose_ids tr₁ m₁ m₂ m₁₂ ts q h₁ t₂ hcomp
  have t₁₂ : TotalOn m₁₂ ts := fun t ht => by rw [(hids t ht).1]; rfl
  rw [remapHam_canon (tr₂ ∘ tr₁) m₁₂ ts t₁₂ (Or.inr hs), hr]
  congr 1
  have hmap : ts.map (relabel (tr₂ ∘ tr₁) (idFn m₁₂))
      = (ts.map (relabel tr₁ (idFn m₁))).map (relabel tr₂ (idFn m₂)) := by
    rw [List.map_map]
    apply List.map_congr_left
    intro t ht
    show (⟨tr₂ (tr₁ t.op), idFn m₁₂ t.id, t.coeffs⟩ : Term) = ⟨tr₂ (tr₁ t.op), _, t.coeffs⟩
    rw [(hids t ht).2]
    rfl
  apply sortBy_eq_of_perm
  · rw [hmap, hq]
    exact ((sortBy_perm _ _).map _).symm
  · rw [List.map_map]
    exact hnd

/-- the final identifiers of two successive remaps are those of the composed mapping; they are
unique because the second remap did not reject them -/
theorem compose_unique (tr₁ : Nat → Nat) (m₁ m₂ m₁₂ : Option Dict) (ts q : List Term)
    (h₁ : remapHam tr₁ m₁ ts = .ok q) (t₂ : TotalOn m₂ q) (hu : MappedUnique m₂ q)
    (hcomp : ∀ t ∈ ts, mapFn m₁₂ t.id = (mapFn m₁ t.id).bind (mapFn m₂)) :
    MappedUnique m₁₂ ts := by
  have hids := compose_ids tr₁ m₁ m₂ m₁₂ ts q h₁ t₂ hcomp
  have hp := (remapHam_ids_perm h₁).map (idFn m₂)
  unfold MappedUnique at hu ⊢
  have h1 : (q.map fun t => idFn m₂ t.id) = (q.map (·.id)).map (idFn m₂) := by
    rw [List.map_map]; rfl
  rw [h1, hp.nodup_iff, List.map_map] at hu
  have h2 : (ts.map fun t => idFn m₁₂ t.id) = ts.map (idFn m₂ ∘ fun t => idFn m₁ t.id) :=
    List.map_congr_left fun t ht => (hids t ht).2
  rw [h2]
  exact hu

/-- the composed dictionary `{k: m₂[m₁[k]]}` -/
def composeDict (m₁ m₂ : Dict) : Dict := m₁.map fun kv => (kv.1, (m₂.lookup kv.2).getD kv.2)

theorem lookup_composeDict (m₁ m₂ : Dict) (s : String) :
    (composeDict m₁ m₂).lookup s = (m₁.lookup s).map fun v => (m₂.lookup v).getD v := by
  induction m₁ with
  | nil => rfl
  | cons kv kvs ih =>
    obtain ⟨k, v⟩ := kv
    simp only [composeDict, List.map_cons, List.lookup_cons]
    cases hsk : s == k with
    | true => rfl
    | false => exact ih

/-- `composeDict` satisfies the hypothesis `hcomp` of `remapDef_compose` wherever `m₂` is defined
on the image of `m₁` -/
theorem composeDict_spec (m₁ m₂ : Dict) (s : String)
    (h : ∀ v, m₁.lookup s = some v → (m₂.lookup v).isSome) :
    mapFn (some (composeDict m₁ m₂)) s = (mapFn (some m₁) s).bind (mapFn (some m₂)) := by
  show (composeDict m₁ m₂).lookup s = (m₁.lookup s).bind fun v => m₂.lookup v
  rw [lookup_composeDict]
  cases hl : m₁.lookup s with
  | none => rfl
  | some v =>
    have := h v hl
    simp only [Option.map_some, Option.bind_some]
    cases h2 : m₂.lookup v with
    | none => rw [h2] at this; cases this
    | some w => rfl


section Extend
variable {entries : List Entry} {Ng : Option Nat} {add : Option Additional} {q : XPulse}

/-- the parsed additional noise Hamiltonian (`_parse_Hamiltonian`: default identifiers `B_i`,
sorted) as terms of the extended pulse -/
def additionalTerms : Option Additional → List XTerm
  | none => []
  | some H => addTerms (parseHamiltonian H.terms "B")

/-- what `extendDef` returns when the shortcut is not taken: the collected terms, sorted -/
theorem extendDef_built (h : extendDef entries Ng add = .ok q) (hns : q.shortcut = false) :
    AllMappingsTotal (ordered entries) ∧ frontRejected entries Ng = false ∧
    q = builtPulse entries (extendN entries Ng)
      (collectedN (ordered entries) ++ additionalTerms add) ∧
    ((collectedC (ordered entries)).map (·.id)).Nodup ∧
    ((collectedN (ordered entries)).map (·.id)).Nodup ∧
    (∀ H, add = some H → addRejected (collectedN (ordered entries)) (nDtOf entries) H = false) := by
  obtain ⟨_, _, N, hf, hcase⟩ := extendDef_ok h
  rw [frontChecks_eq] at hf
  have hfr : frontRejected entries Ng = false := by
    cases hr : frontRejected entries Ng with
    | false => rfl
    | true => rw [hr] at hf; cases hf
  rw [hfr] at hf
  simp only [Bool.false_eq_true, if_false, Except.ok.injEq] at hf
  subst hf
  rcases hcase with ⟨pl, _, rfl⟩ | ⟨_, hm, hdc, hdn, ns', ha, rfl⟩
  · cases hns
  · refine ⟨hm, hfr, ?_, hdc, hdn, ?_⟩
    · cases add with
      | none =>
        rw [addAdditional_none] at ha
        injection ha with ha
        subst ha
        simp [additionalTerms]
      | some H =>
        rw [addAdditional_some] at ha
        cases hr : addRejected (collectedN (ordered entries)) (nDtOf entries) H with
        | true => rw [hr] at ha; cases ha
        | false =>
          rw [hr] at ha
          simp only [Bool.false_eq_true, if_false, Except.ok.injEq] at ha
          subst ha
          rfl
    · intro H hH
      subst hH
      rw [addAdditional_some] at ha
      cases hr : addRejected (collectedN (ordered entries)) (nDtOf entries) H with
      | true => rw [hr] at ha; cases ha
      | false => rfl

/-- `pulses[0]` in the order `multi_qubit_pulses + single_qubit_pulses`: the first multi-qubit
entry if there is one, else the first entry -/
def firstPulse (entries : List Entry) : Option TPulse :=
  ((entries.filter (!·.isSingle) ++ entries.filter (·.isSingle)).head?).map (·.pulse)

theorem ordered_pulses (entries : List Entry) :
    (ordered entries).map (·.pulse)
      = (entries.filter (!·.isSingle) ++ entries.filter (·.isSingle)).map (·.pulse) := by
  have key : ∀ p : Bool → Bool,
      ((placedList entries).filter fun pl => p pl.single).map (·.pulse)
        = (entries.filter fun e => p e.isSingle).map (·.pulse) := by
    intro p
    unfold placedList
    rw [List.filter_map, List.map_map]
    have h1 : ((fun pl : Placed => p pl.single) ∘ fun ei : Entry × Nat => placedOf ei.2 ei.1)
        = (fun e : Entry => p e.isSingle) ∘ Prod.fst := by
      funext ei; simp
    have h2 : ((fun pl : Placed => pl.pulse) ∘ fun ei : Entry × Nat => placedOf ei.2 ei.1)
        = (fun e : Entry => e.pulse) ∘ Prod.fst := by
      funext ei; simp
    rw [h1, h2, ← List.map_map, ← List.filter_map, List.zipIdx_map_fst]
  unfold ordered
  rw [List.map_append, List.map_append]
  exact congr (congrArg _ (key fun b => !b)) (key fun b => b)

/-- the identifiers of the parsed additional noise Hamiltonian are pairwise distinct whenever
`_parse_Hamiltonian` accepts it -/
theorem additional_ids_nodup (terms : List (Nat × Option String × List Int))
    (h : (!(terms.all (fun t => t.2.1.isNone)) &&
      hasDup ((fillIdentifiers terms "B").map (·.id))) = false) :
    ((parseHamiltonian terms "B").map (·.id)).Nodup := by
  by_cases hall : terms.all (fun t => t.2.1.isNone) = true
  · refine (FFVerif.C17.default_identifiers_distinct terms "B" ?_).2
    intro t ht
    have := List.all_eq_true.mp hall t ht
    simpa using this
  · simp only [hall, Bool.not_false, Bool.true_and] at h
    have hnd : ((fillIdentifiers terms "B").map (·.id)).Nodup :=
      Classical.byContradiction fun hc => by
        rw [(hasDup_iff _).mpr hc] at h
        cases h
    exact ((sortBy_perm (·.id) (fillIdentifiers terms "B")).map (·.id)).nodup_iff.mpr hnd

/-! ### the rejections of the definition part -/

/-- rejected (`ValueError`) before anything is built: no entry; an empty qubit tuple; a pulse whose
dimension is not `d_per_qubit ** (number of its qubits)` (raised by `remap` or by the two dimension
checks); a multi-qubit pulse that goes through `remap` and has repeated identifiers already (not
possible for pulses the class constructs); pulses with different time steps; a qubit used twice;
`N` smaller than the highest qubit index + 1 -/
def FrontReject (entries : List Entry) (Ng : Option Nat) : Prop :=
  entries = [] ∨
  (∃ e ∈ entries, e.isSingle = false ∧ e.qubits = []) ∨
  (∃ e ∈ entries, e.dimOk = false) ∨
  (∃ e ∈ entries, e.isSingle = false ∧ e.needsRemap = true ∧ e.pulse.idsDup = true) ∨
  (∃ e ∈ entries, ∃ e' ∈ entries, e.pulse.data.dt ≠ e'.pulse.data.dt) ∨
  ¬ (entries.flatMap (·.qubits)).Nodup ∨
  (∃ n, Ng = some n ∧ n < lastQubit1 entries)

/-- a single pulse mapped onto a register of exactly its own size: the input is returned -/
def ShortcutTaken (entries : List Entry) (N : Nat) : Prop :=
  ∃ e, entries = [e] ∧ N = if e.isSingle then 1 else e.qubits.length

/-- an entry's identifier mapping misses a control or noise identifier of its pulse
(`ValueError`, raised by `_map_identifiers` inside the two loops) -/
def MappingMisses (entries : List Entry) : Prop :=
  ∃ e ∈ entries, ∃ m, e.mapping = some m ∧
    ∃ t ∈ e.pulse.data.cTerms ++ e.pulse.data.nTerms, m.lookup t.id = none

/-- two control operators, or two noise operators, of the mapped pulses get the same identifier
(`ValueError`; the repaired check after the two loops) -/
def DuplicateIds (entries : List Entry) : Prop :=
  ¬ ((collectedC (placedList entries)).map (·.id)).Nodup ∨
  ¬ ((collectedN (placedList entries)).map (·.id)).Nodup

theorem collectedC_ids_nodup_iff (entries : List Entry) :
    ((collectedC (ordered entries)).map (·.id)).Nodup ↔
      ((collectedC (placedList entries)).map (·.id)).Nodup :=
  ((List.Perm.flatMap_right _ (ordered_perm entries)).map _).nodup_iff

theorem collectedN_ids_nodup_iff (entries : List Entry) :
    ((collectedN (ordered entries)).map (·.id)).Nodup ↔
      ((collectedN (placedList entries)).map (·.id)).Nodup :=
  ((List.Perm.flatMap_right _ (ordered_perm entries)).map _).nodup_iff

/-- the additional noise Hamiltonian is rejected (`ValueError`): repeated identifiers (checked only
when at least one identifier is given); a coefficient row whose length is not the number of
segments; wrong operator dimension; an identifier that a mapped noise operator already has -/
def AdditionalReject (entries : List Entry) (add : Option Additional) : Prop :=
  ∃ H, add = some H ∧
    (((∃ t ∈ H.terms, t.2.1.isSome) ∧ ¬ ((fillIdentifiers H.terms "B").map (·.id)).Nodup) ∨
     (∃ t ∈ fillIdentifiers H.terms "B", t.coeffs.length ≠ nDtOf entries) ∨
     H.dimOk = false ∨
     (∃ t ∈ fillIdentifiers H.terms "B", t.id ∈ (collectedN (placedList entries)).map (·.id)))

theorem length_placedList (entries : List Entry) : (placedList entries).length = entries.length := by
  simp [placedList]

theorem dtAllEq_iff (entries : List Entry) (hne : entries ≠ []) :
    dtAllEq (ordered entries) = true ↔
      ∀ e ∈ entries, ∀ e' ∈ entries, e.pulse.data.dt = e'.pulse.data.dt := by
  have hlen : (ordered entries).length = entries.length := by
    rw [(ordered_perm entries).length_eq, length_placedList]
  cases hord : ordered entries with
  | nil =>
    rw [hord] at hlen
    exact absurd (List.length_eq_zero_iff.mp hlen.symm) hne
  | cons pl₀ rest =>
    have hpl₀ : pl₀ ∈ placedList entries := mem_ordered.mp (hord ▸ List.mem_cons_self ..)
    obtain ⟨k₀, hk₀, hpl₀e⟩ := mem_placedList.mp hpl₀
    unfold dtAllEq
    simp only [List.all_eq_true, beq_iff_eq]
    constructor
    · intro h
      have key : ∀ e ∈ entries, e.pulse.data.dt = pl₀.pulse.data.dt := by
        intro e he
        obtain ⟨k, hk, rfl⟩ := List.getElem_of_mem he
        have hm : placedOf k entries[k] ∈ ordered entries :=
          mem_ordered.mpr (mem_placedList.mpr ⟨k, hk, rfl⟩)
        rw [hord] at hm
        rcases List.mem_cons.mp hm with hm | hm
        · rw [← hm]; simp
        · simpa using h _ hm
      intro e he e' he'
      rw [key e he, key e' he']
    · intro h pl hpl
      have hpl' : pl ∈ placedList entries :=
        mem_ordered.mp (hord ▸ List.mem_cons_of_mem _ hpl)
      obtain ⟨k, hk, rfl⟩ := mem_placedList.mp hpl'
      rw [hpl₀e]
      simpa using h _ (List.getElem_mem hk) _ (List.getElem_mem hk₀)

/-- the Boolean front checks of the model say `FrontReject` -/
theorem front_iff (entries : List Entry) (Ng : Option Nat) :
    (entries.isEmpty || entries.any (·.loopFails) || frontRejected entries Ng) = true ↔
      FrontReject entries Ng := by
  unfold FrontReject
  by_cases hne : entries = []
  · subst hne; simp
  · have hE : entries.isEmpty = false := by simpa using hne
    simp only [hE, Bool.false_or, Bool.or_eq_true, hne, false_or]
    have hdt := dtAllEq_iff entries hne
    constructor
    · rintro (h | h)
      · obtain ⟨e, he, hf⟩ := List.any_eq_true.mp h
        unfold Entry.loopFails at hf
        simp only [Bool.and_eq_true, Bool.not_eq_true', Bool.or_eq_true, List.isEmpty_iff] at hf
        rcases hf.2 with hq | ⟨hr, hq | hq⟩
        · exact Or.inl ⟨e, he, hf.1, hq⟩
        · exact Or.inr (Or.inl ⟨e, he, hq⟩)
        · exact Or.inr (Or.inr (Or.inl ⟨e, he, hf.1, hr, hq⟩))
      · unfold frontRejected at h
        simp only [Bool.or_eq_true, Bool.not_eq_true'] at h
        rcases h with ((h | h) | h) | h
        · right; left
          have : ¬ (entries.all (·.dimOk) = true) := by simp [h]
          rw [List.all_eq_true] at this
          simp only [Classical.not_forall] at this
          obtain ⟨e, he, hd⟩ := this
          exact ⟨e, he, by simpa using hd⟩
        · right; right; right; left
          have : ¬ (dtAllEq (ordered entries) = true) := by simp [h]
          rw [hdt] at this
          simp only [Classical.not_forall] at this
          obtain ⟨e, he, e', he', hd⟩ := this
          exact ⟨e, he, e', he', hd⟩
        · right; right; right; right; left
          exact (hasDupNat_iff _).mp h
        · right; right; right; right; right
          cases Ng with
          | none => cases h
          | some n => exact ⟨n, rfl, by simpa using h⟩
    · rintro (⟨e, he, hs, hq⟩ | ⟨e, he, hd⟩ | ⟨e, he, hs, hr, hq⟩ | ⟨e, he, e', he', hd⟩ | hd |
        ⟨n, rfl, hn⟩)
      · left
        exact List.any_eq_true.mpr ⟨e, he, by simp [Entry.loopFails, hs, hq]⟩
      · right
        have : entries.all (·.dimOk) = false := by
          cases hh : entries.all (·.dimOk) with
          | false => rfl
          | true => rw [List.all_eq_true.mp hh e he] at hd; cases hd
        simp [frontRejected, this]
      · left
        exact List.any_eq_true.mpr ⟨e, he, by simp [Entry.loopFails, hs, hr, hq]⟩
      · right
        have : dtAllEq (ordered entries) = false := by
          cases hh : dtAllEq (ordered entries) with
          | false => rfl
          | true => exact absurd (hdt.mp hh e he e' he') hd
        simp [frontRejected, this]
      · right
        simp [frontRejected, (hasDupNat_iff _).mpr hd]
      · right
        simp [frontRejected, hn]

theorem shortcutOf_iff (entries : List Entry) (N : Nat) :
    (shortcutOf (placedList entries) N).isSome ↔ ShortcutTaken entries N := by
  unfold ShortcutTaken
  cases entries with
  | nil => simp [placedList, shortcutOf]
  | cons e es =>
    cases es with
    | cons e' es' => simp [placedList, shortcutOf]
    | nil =>
      have hq : (placedOf 0 e).qubits.length = e.qubits.length := by
        unfold placedOf
        split
        · rfl
        · exact (sortedQubits_spec e.qubits).2.1.length_eq
      simp only [placedList, List.zipIdx_cons, List.zipIdx_nil, List.map_cons, List.map_nil,
        shortcutOf, placedOf_single, List.cons.injEq, and_true, exists_eq_left', hq]
      cases hs : e.isSingle <;> simp only [if_true, if_false, Bool.false_eq_true] <;>
        split <;> simp_all

theorem allMappingsTotal_iff (entries : List Entry) :
    AllMappingsTotal (ordered entries) ↔ ¬ MappingMisses entries := by
  unfold AllMappingsTotal MappingMisses MappingTotal
  constructor
  · rintro h ⟨e, he, m, hm, t, ht, hl⟩
    obtain ⟨k, hk, rfl⟩ := List.getElem_of_mem he
    have := h _ (mem_ordered.mpr (mem_placedList.mpr ⟨k, hk, rfl⟩))
    simp only [placedOf_mapping, placedOf_pulse] at this
    rcases List.mem_append.mp ht with ht | ht
    · have := this.1 m hm t ht; rw [hl] at this; cases this
    · have := this.2 m hm t ht; rw [hl] at this; cases this
  · intro h pl hpl
    obtain ⟨k, hk, rfl⟩ := mem_placedList.mp (mem_ordered.mp hpl)
    simp only [placedOf_mapping, placedOf_pulse]
    constructor
    · intro m hm t ht
      cases hl : m.lookup t.id with
      | some v => rfl
      | none =>
        exact absurd ⟨_, List.getElem_mem hk, m, hm, t, List.mem_append_left _ ht, hl⟩ h
    · intro m hm t ht
      cases hl : m.lookup t.id with
      | some v => rfl
      | none =>
        exact absurd ⟨_, List.getElem_mem hk, m, hm, t, List.mem_append_right _ ht, hl⟩ h

theorem addRejected_iff (entries : List Entry) (H : Additional) :
    addRejected (collectedN (ordered entries)) (nDtOf entries) H = true ↔
      AdditionalReject entries (some H) := by
  have h1 : (H.terms.all (fun t => t.2.1.isNone) = false) ↔ ∃ t ∈ H.terms, t.2.1.isSome := by
    constructor
    · intro h
      have : ¬ (H.terms.all (fun t => t.2.1.isNone) = true) := by simp [h]
      rw [List.all_eq_true] at this
      simp only [Classical.not_forall] at this
      obtain ⟨t, ht, hn⟩ := this
      refine ⟨t, ht, ?_⟩
      cases hh : t.2.1 with
      | none => rw [hh] at hn; exact absurd rfl hn
      | some v => rfl
    · rintro ⟨t, ht, hs⟩
      cases hh : H.terms.all (fun t => t.2.1.isNone) with
      | false => rfl
      | true =>
        have := List.all_eq_true.mp hh t ht
        cases hv : t.2.1 with
        | none => rw [hv] at hs; cases hs
        | some v => rw [hv] at this; cases this
  have h2 : ((fillIdentifiers H.terms "B").all (fun t => t.coeffs.length == nDtOf entries) = false)
      ↔ ∃ t ∈ fillIdentifiers H.terms "B", t.coeffs.length ≠ nDtOf entries := by
    constructor
    · intro h
      have : ¬ ((fillIdentifiers H.terms "B").all
          (fun t => t.coeffs.length == nDtOf entries) = true) := by simp [h]
      rw [List.all_eq_true] at this
      simp only [Classical.not_forall] at this
      obtain ⟨t, ht, hn⟩ := this
      exact ⟨t, ht, by simpa using hn⟩
    · rintro ⟨t, ht, hn⟩
      cases hh : (fillIdentifiers H.terms "B").all (fun t => t.coeffs.length == nDtOf entries) with
      | false => rfl
      | true =>
        have := List.all_eq_true.mp hh t ht
        exact absurd (by simpa using this) hn
  have h4 : ((parseHamiltonian H.terms "B").any
      (fun t => ((collectedN (ordered entries)).map (·.id)).contains t.id) = true) ↔
      ∃ t ∈ fillIdentifiers H.terms "B", t.id ∈ (collectedN (placedList entries)).map (·.id) := by
    have hp : ∀ s, s ∈ (collectedN (ordered entries)).map (·.id) ↔
        s ∈ (collectedN (placedList entries)).map (·.id) := fun s =>
      ((List.Perm.flatMap_right _ (ordered_perm entries)).map _).mem_iff
    rw [List.any_eq_true]
    constructor
    · rintro ⟨t, ht, hc⟩
      refine ⟨t, (mem_sortBy _).mp ht, (hp _).mp ?_⟩
      simpa using hc
    · rintro ⟨t, ht, hc⟩
      refine ⟨t, (mem_sortBy _).mpr ht, ?_⟩
      have := (hp _).mpr hc
      simpa using this
  have key : addRejected (collectedN (ordered entries)) (nDtOf entries) H = true ↔
      ((((∃ t ∈ H.terms, t.2.1.isSome) ∧ ¬ ((fillIdentifiers H.terms "B").map (·.id)).Nodup) ∨
        (∃ t ∈ fillIdentifiers H.terms "B", t.coeffs.length ≠ nDtOf entries)) ∨
       H.dimOk = false) ∨
      (∃ t ∈ fillIdentifiers H.terms "B", t.id ∈ (collectedN (placedList entries)).map (·.id)) := by
    unfold addRejected
    rw [Bool.or_eq_true, Bool.or_eq_true, Bool.or_eq_true, Bool.and_eq_true, Bool.not_eq_true',
      Bool.not_eq_true', Bool.not_eq_true', h1, h2, h4, hasDup_iff]
  rw [key]
  unfold AdditionalReject
  constructor
  · intro h
    refine ⟨H, rfl, ?_⟩
    rcases h with ((h | h) | h) | h
    · exact Or.inl h
    · exact Or.inr (Or.inl h)
    · exact Or.inr (Or.inr (Or.inl h))
    · exact Or.inr (Or.inr (Or.inr h))
  · rintro ⟨H', hH', h⟩
    injection hH' with hH'
    subst hH'
    rcases h with h | h | h | h
    · exact Or.inl (Or.inl (Or.inl h))
    · exact Or.inl (Or.inl (Or.inr h))
    · exact Or.inl (Or.inr h)
    · exact Or.inr h


/-- the identifiers of the parsed additional noise Hamiltonian are distinct from each other and
from the mapped noise identifiers whenever it is accepted -/
theorem noise_ids_nodup (h : extendDef entries Ng add = .ok q) (hns : q.shortcut = false) :
    ((collectedN (ordered entries) ++ additionalTerms add).map (·.id)).Nodup := by
  obtain ⟨_, _, _, _, hdn, hrej⟩ := extendDef_built h hns
  cases add with
  | none => simpa [additionalTerms] using hdn
  | some H =>
    have hr := hrej H rfl
    unfold addRejected at hr
    simp only [Bool.or_eq_false_iff] at hr
    obtain ⟨⟨⟨hr1, _⟩, _⟩, hr4⟩ := hr
    have hnd := additional_ids_nodup H.terms hr1
    rw [List.map_append, List.nodup_append]
    refine ⟨hdn, ?_, ?_⟩
    · simp only [additionalTerms, addTerms, List.map_map]
      exact hnd
    · intro a ha b hb hab
      subst hab
      simp only [additionalTerms, addTerms, List.map_map, List.mem_map, Function.comp_apply] at hb
      obtain ⟨t, ht, rfl⟩ := hb
      have : (parseHamiltonian H.terms "B").any
          (fun t => ((collectedN (ordered entries)).map (·.id)).contains t.id) = true := by
        rw [List.any_eq_true]
        exact ⟨t, ht, by simpa using ha⟩
      rw [this] at hr4
      cases hr4


/-- the error cases of `extendDef` in the order of the source (used by `C06Def.extendDef_errors_iff`) -/
theorem extendDef_error_cases (entries : List Entry) (Ng : Option Nat) (add : Option Additional)
    (err : String) :
    extendDef entries Ng add = .error err ↔
      (err = "ValueError" ∧ FrontReject entries Ng) ∨
      (¬ FrontReject entries Ng ∧ ¬ ShortcutTaken entries (extendN entries Ng) ∧
        ((err = "ValueError" ∧ MappingMisses entries) ∨
         (err = "ValueError" ∧ ¬ MappingMisses entries ∧
           (DuplicateIds entries ∨ AdditionalReject entries add)))) := by
  have hfront := front_iff entries Ng
  have hshort := shortcutOf_iff entries (extendN entries Ng)
  have hmap := allMappingsTotal_iff entries
  rw [extendDef_eq, frontChecks_eq]
  by_cases hfb : (entries.isEmpty || entries.any (·.loopFails) || frontRejected entries Ng) = true
  · have hFR := hfront.mp hfb
    have hgoal : ∀ R : Except String XPulse, R = Except.error "ValueError" →
        (R = .error err ↔
          (err = "ValueError" ∧ FrontReject entries Ng) ∨
          (¬ FrontReject entries Ng ∧ ¬ ShortcutTaken entries (extendN entries Ng) ∧
            ((err = "ValueError" ∧ MappingMisses entries) ∨
             (err = "ValueError" ∧ ¬ MappingMisses entries ∧
               (DuplicateIds entries ∨ AdditionalReject entries add))))) := by
      rintro R rfl
      constructor
      · intro h
        injection h with h
        exact Or.inl ⟨h.symm, hFR⟩
      · rintro (⟨rfl, _⟩ | ⟨hn, _⟩)
        · rfl
        · exact absurd hFR hn
    by_cases he : entries.isEmpty = true
    · exact hgoal _ (by simp only [he, if_true])
    · by_cases hl : entries.any (·.loopFails) = true
      · exact hgoal _ (by simp only [he, hl, if_true, Bool.false_eq_true, if_false])
      · have hf : frontRejected entries Ng = true := by
          simp only [Bool.or_eq_true] at hfb
          rcases hfb with (h | h) | h
          · exact absurd h he
          · exact absurd h hl
          · exact h
        exact hgoal _ (by simp only [he, hl, hf, if_true, Bool.false_eq_true, if_false])
  · have hNFR : ¬ FrontReject entries Ng := fun h => hfb (hfront.mpr h)
    simp only [Bool.or_eq_true, not_or, Bool.not_eq_true] at hfb
    obtain ⟨⟨he, hl⟩, hf⟩ := hfb
    simp only [he, hl, hf, Bool.false_eq_true, if_false]
    cases hsc : shortcutOf (placedList entries) (extendN entries Ng) with
    | some pl =>
      have hST : ShortcutTaken entries (extendN entries Ng) := hshort.mp (by rw [hsc]; rfl)
      simp only
      constructor
      · intro h; cases h
      · rintro (⟨_, h⟩ | ⟨_, h, _⟩)
        · exact absurd h hNFR
        · exact absurd hST h
    | none =>
      have hNST : ¬ ShortcutTaken entries (extendN entries Ng) := fun h => by
        have := hshort.mpr h
        rw [hsc] at this
        cases this
      simp only
      by_cases hm : AllMappingsTotal (ordered entries)
      · have hNM : ¬ MappingMisses entries := hmap.mp hm
        rw [collectTerms_ok _ hm]
        simp only
        by_cases hdup : hasDup ((collectedC (ordered entries)).map (·.id)) = true ∨
            hasDup ((collectedN (ordered entries)).map (·.id)) = true
        · have hD : DuplicateIds entries := by
            rcases hdup with hd | hd
            · exact Or.inl fun hh =>
                (hasDup_iff _).mp hd ((collectedC_ids_nodup_iff entries).mpr hh)
            · exact Or.inr fun hh =>
                (hasDup_iff _).mp hd ((collectedN_ids_nodup_iff entries).mpr hh)
          have hiff : ((Except.error "ValueError" : Except String XPulse) = .error err) ↔
              ((err = "ValueError" ∧ FrontReject entries Ng) ∨
               (¬ FrontReject entries Ng ∧ ¬ ShortcutTaken entries (extendN entries Ng) ∧
                 ((err = "ValueError" ∧ MappingMisses entries) ∨
                  (err = "ValueError" ∧ ¬ MappingMisses entries ∧
                    (DuplicateIds entries ∨ AdditionalReject entries add))))) := by
            constructor
            · intro h
              injection h with h
              exact Or.inr ⟨hNFR, hNST, Or.inr ⟨h.symm, hNM, Or.inl hD⟩⟩
            · rintro (⟨_, h⟩ | ⟨_, _, ⟨_, h⟩ | ⟨rfl, _, _⟩⟩)
              · exact absurd h hNFR
              · exact absurd h hNM
              · rfl
          rcases hdup with hd | hd
          · simp only [hd, if_true]
            exact hiff
          · by_cases hd' : hasDup ((collectedC (ordered entries)).map (·.id)) = true
            · simp only [hd', if_true]
              exact hiff
            · simp only [hd', hd, if_true, Bool.false_eq_true, if_false]
              exact hiff
        · simp only [not_or, Bool.not_eq_true] at hdup
          have hND : ¬ DuplicateIds entries := by
            rintro (hd | hd)
            · have := (hasDup_iff _).mpr fun hh => hd ((collectedC_ids_nodup_iff entries).mp hh)
              rw [hdup.1] at this
              cases this
            · have := (hasDup_iff _).mpr fun hh => hd ((collectedN_ids_nodup_iff entries).mp hh)
              rw [hdup.2] at this
              cases this
          simp only [hdup.1, hdup.2, Bool.false_eq_true, if_false]
          cases add with
          | none =>
            rw [addAdditional_none]
            simp only
            constructor
            · intro h; cases h
            · rintro (⟨_, h⟩ | ⟨_, _, ⟨_, h⟩ | ⟨_, _, h | ⟨H, hH, _⟩⟩⟩)
              · exact absurd h hNFR
              · exact absurd h hNM
              · exact absurd h hND
              · cases hH
          | some H =>
            rw [addAdditional_some]
            have hrej := addRejected_iff entries H
            by_cases hr : addRejected (collectedN (ordered entries)) (nDtOf entries) H = true
            · simp only [hr, if_true]
              constructor
              · intro h
                injection h with h
                exact Or.inr ⟨hNFR, hNST, Or.inr ⟨h.symm, hNM, Or.inr (hrej.mp hr)⟩⟩
              · rintro (⟨_, h⟩ | ⟨_, _, ⟨_, h⟩ | ⟨rfl, _, _⟩⟩)
                · exact absurd h hNFR
                · exact absurd h hNM
                · rfl
            · simp only [hr, Bool.false_eq_true, if_false]
              constructor
              · intro h; cases h
              · rintro (⟨_, h⟩ | ⟨_, _, ⟨_, h⟩ | ⟨_, _, h | h⟩⟩)
                · exact absurd h hNFR
                · exact absurd h hNM
                · exact absurd h hND
                · exact absurd (hrej.mpr h) hr
      · have hMM : MappingMisses entries := Classical.not_not.mp fun h => hm (hmap.mpr h)
        rw [collectTerms_err _ hm]
        simp only
        constructor
        · intro h
          injection h with h
          exact Or.inr ⟨hNFR, hNST, Or.inl ⟨h.symm, hMM⟩⟩
        · rintro (⟨_, h⟩ | ⟨_, _, ⟨rfl, _⟩ | ⟨_, h, _⟩⟩)
          · exact absurd h hNFR
          · rfl
          · exact absurd hMM h


end Extend

end FFVerif.Model.RemapDef
