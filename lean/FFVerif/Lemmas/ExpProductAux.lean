/-
Helper lemmas for C09EtmCP: the exponential in a Banach algebra as a limit of `n`-th powers of
first-order approximations (an Euler / Lie–Trotter type product formula):

* `Spec.norm_pow_sub_pow_le`      `‖Xⁿ - Yⁿ‖ ≤ n Mⁿ ‖X - Y‖` for `‖X‖, ‖Y‖ ≤ M`, `1 ≤ M`;
* `Spec.norm_exp_le`              `‖exp x‖ ≤ e^‖x‖`;
* `Spec.norm_exp_sub_one_sub_le`  `‖exp x - 1 - x‖ ≤ ‖x‖² e^‖x‖`;
* `Spec.tendsto_pow_exp`          if `‖X_n - (1 + K/n)‖ ≤ c/n²` then `X_nⁿ → exp K`.
Mathlib has no Lie–Trotter formula; the last lemma is the form of it that is needed here.
-/
import Mathlib.Analysis.Normed.Algebra.Exponential
import Mathlib.Analysis.SpecialFunctions.Exponential
import Mathlib.Analysis.SpecificLimits.Basic
import Mathlib.Topology.Algebra.InfiniteSum.NatInt

namespace FFVerif.Spec
open NormedSpace Filter Topology

section
variable {𝔸 : Type*} [NormedRing 𝔸] [NormOneClass 𝔸]

/-- telescoping bound for the difference of two `n`-th powers -/
theorem norm_pow_sub_pow_le (X Y : 𝔸) (M : ℝ) (hM : 1 ≤ M) (hX : ‖X‖ ≤ M) (hY : ‖Y‖ ≤ M)
    (n : ℕ) : ‖X ^ n - Y ^ n‖ ≤ n * M ^ n * ‖X - Y‖ := by
  induction n with
  | zero => simp
  | succ n ih =>
    have hM0 : 0 ≤ M := le_trans zero_le_one hM
    have e : X ^ (n + 1) - Y ^ (n + 1) = X * (X ^ n - Y ^ n) + (X - Y) * Y ^ n := by
      rw [pow_succ', pow_succ', mul_sub, sub_mul]; abel
    have hYn : ‖Y ^ n‖ ≤ M ^ n :=
      (norm_pow_le Y n).trans (pow_le_pow_left₀ (norm_nonneg _) hY n)
    have h1 : ‖X * (X ^ n - Y ^ n)‖ ≤ M * (n * M ^ n * ‖X - Y‖) :=
      (norm_mul_le _ _).trans (mul_le_mul hX ih (norm_nonneg _) hM0)
    have h2 : ‖(X - Y) * Y ^ n‖ ≤ ‖X - Y‖ * M ^ n :=
      (norm_mul_le _ _).trans (mul_le_mul_of_nonneg_left hYn (norm_nonneg _))
    have h3 : 0 ≤ (M - 1) * M ^ n * ‖X - Y‖ :=
      mul_nonneg (mul_nonneg (sub_nonneg.mpr hM) (pow_nonneg hM0 n)) (norm_nonneg _)
    rw [e]
    refine (norm_add_le _ _).trans ((add_le_add h1 h2).trans ?_)
    rw [pow_succ]
    push_cast
    nlinarith [h3]

end

section
variable {𝔸 : Type*} [NormedRing 𝔸] [NormOneClass 𝔸] [NormedAlgebra ℝ 𝔸] [CompleteSpace 𝔸]

/-- the real exponential series -/
theorem real_exp_hasSum (r : ℝ) :
    HasSum (fun n : ℕ => ((n.factorial : ℝ)⁻¹) * r ^ n) (Real.exp r) := by
  have h := exp_series_hasSum_exp' (𝕂 := ℝ) r
  rw [← Real.exp_eq_exp_ℝ] at h
  simpa only [smul_eq_mul] using h

omit [CompleteSpace 𝔸] in
theorem norm_expSeries_term_le (x : 𝔸) (n : ℕ) :
    ‖((n.factorial : ℝ)⁻¹) • x ^ n‖ ≤ ((n.factorial : ℝ)⁻¹) * ‖x‖ ^ n := by
  rw [norm_smul, norm_inv, Real.norm_natCast]
  exact mul_le_mul_of_nonneg_left (norm_pow_le x n) (inv_nonneg.mpr (Nat.cast_nonneg _))

/-- `‖exp x‖ ≤ e^‖x‖` -/
theorem norm_exp_le (x : 𝔸) : ‖exp x‖ ≤ Real.exp ‖x‖ :=
  (exp_series_hasSum_exp' (𝕂 := ℝ) x).norm_le_of_bounded (real_exp_hasSum ‖x‖)
    (norm_expSeries_term_le x)

/-- second-order remainder of the exponential series: `‖exp x - 1 - x‖ ≤ ‖x‖² e^‖x‖` -/
theorem norm_exp_sub_one_sub_le (x : 𝔸) : ‖exp x - 1 - x‖ ≤ ‖x‖ ^ 2 * Real.exp ‖x‖ := by
  have h := (hasSum_nat_add_iff' 2).mpr (exp_series_hasSum_exp' (𝕂 := ℝ) x)
  have e : exp x - ∑ i ∈ Finset.range 2, ((i.factorial : ℝ)⁻¹) • x ^ i = exp x - 1 - x := by
    simp [Finset.sum_range_succ, sub_sub]
  rw [e] at h
  refine h.norm_le_of_bounded ((real_exp_hasSum ‖x‖).mul_left (‖x‖ ^ 2)) fun n => ?_
  refine (norm_expSeries_term_le x (n + 2)).trans ?_
  have hf : ((n + 2).factorial : ℝ)⁻¹ ≤ ((n.factorial : ℝ)⁻¹) := by
    apply inv_anti₀ (Nat.cast_pos.mpr (Nat.factorial_pos n))
    exact_mod_cast Nat.factorial_le (Nat.le_add_right n 2)
  calc ((n + 2).factorial : ℝ)⁻¹ * ‖x‖ ^ (n + 2)
      ≤ ((n.factorial : ℝ)⁻¹) * ‖x‖ ^ (n + 2) :=
        mul_le_mul_of_nonneg_right hf (pow_nonneg (norm_nonneg _) _)
    _ = ‖x‖ ^ 2 * (((n.factorial : ℝ)⁻¹) * ‖x‖ ^ n) := by ring

/-- **Product formula.**  If `X_n = 1 + K/n + O(1/n²)` in a Banach algebra, then
`X_nⁿ → exp K`. -/
theorem tendsto_pow_exp (K : 𝔸) (X : ℕ → 𝔸) (c : ℝ)
    (hX : ∀ n : ℕ, 1 ≤ n → ‖X n - (1 + ((n : ℝ)⁻¹) • K)‖ ≤ c / (n : ℝ) ^ 2) :
    Tendsto (fun n => X n ^ n) atTop (𝓝 (exp K)) := by
  set a : ℝ := ‖K‖ with ha
  have ha0 : 0 ≤ a := norm_nonneg _
  have hc0 : 0 ≤ c := by
    have h := hX 1 le_rfl
    have h' : 0 ≤ c / ((1 : ℕ) : ℝ) ^ 2 := le_trans (norm_nonneg _) h
    simpa using h'
  -- the constant of the final `C / n` bound
  set Cst : ℝ := Real.exp (a + c) * (c + a ^ 2 * Real.exp a) with hCst
  rw [tendsto_iff_norm_sub_tendsto_zero]
  refine squeeze_zero' (Eventually.of_forall fun n => norm_nonneg _) ?_
    (tendsto_const_div_atTop_nhds_zero_nat Cst)
  filter_upwards [eventually_ge_atTop 1] with n hn
  have hn0 : (0 : ℝ) < n := Nat.cast_pos.mpr hn
  have hn1 : (1 : ℝ) ≤ n := by exact_mod_cast hn
  set t : ℝ := (n : ℝ)⁻¹ with ht
  have ht0 : 0 < t := inv_pos.mpr hn0
  have ht1 : t ≤ 1 := inv_le_one_of_one_le₀ hn1
  have hcn : c / (n : ℝ) ^ 2 = c * t ^ 2 := by rw [ht, inv_pow, div_eq_mul_inv]
  set Y : 𝔸 := exp (t • K) with hY
  have hnorm : ‖t • K‖ = t * a := by rw [norm_smul, Real.norm_of_nonneg ht0.le]
  -- `Y ^ n = exp K`
  have hYn : Y ^ n = exp K := by
    let _ : NormedAlgebra ℚ 𝔸 := NormedAlgebra.restrictScalars ℚ ℝ 𝔸
    rw [hY, ← exp_nsmul, ← Nat.cast_smul_eq_nsmul ℝ, smul_smul, ht, mul_inv_cancel₀ hn0.ne',
      one_smul]
  -- bounds on the norms
  set M : ℝ := Real.exp (t * (a + c)) with hM
  have hM1 : 1 ≤ M := Real.one_le_exp (mul_nonneg ht0.le (add_nonneg ha0 hc0))
  have hYM : ‖Y‖ ≤ M := by
    refine (norm_exp_le _).trans (Real.exp_le_exp.mpr ?_)
    rw [hnorm]
    exact mul_le_mul_of_nonneg_left (le_add_of_nonneg_right hc0) ht0.le
  have hXn := hX n hn
  rw [hcn] at hXn
  have hXM : ‖X n‖ ≤ M := by
    have h1 : ‖X n‖ ≤ ‖X n - (1 + t • K)‖ + ‖1 + t • K‖ := by
      have := norm_add_le (X n - (1 + t • K)) (1 + t • K)
      rwa [sub_add_cancel] at this
    have h2 : ‖1 + t • K‖ ≤ 1 + t * a := by
      refine (norm_add_le _ _).trans ?_
      rw [norm_one, hnorm]
    have h3 : c * t ^ 2 ≤ c * t := by
      apply mul_le_mul_of_nonneg_left _ hc0
      rw [pow_two]; exact mul_le_of_le_one_left ht0.le ht1
    have h4 : t * (a + c) + 1 ≤ M := Real.add_one_le_exp _
    linarith
  have hMn : M ^ n = Real.exp (a + c) := by
    rw [hM, ← Real.exp_nat_mul, ← mul_assoc, ht, mul_inv_cancel₀ hn0.ne', one_mul]
  -- distance between the two bases
  have hXY : ‖X n - Y‖ ≤ t ^ 2 * (c + a ^ 2 * Real.exp a) := by
    have h1 : ‖X n - Y‖ ≤ ‖X n - (1 + t • K)‖ + ‖Y - 1 - t • K‖ := by
      have := norm_sub_le (X n - (1 + t • K)) (Y - 1 - t • K)
      have e : X n - (1 + t • K) - (Y - 1 - t • K) = X n - Y := by abel
      rwa [e] at this
    have h2 : ‖Y - 1 - t • K‖ ≤ (t * a) ^ 2 * Real.exp a := by
      refine (norm_exp_sub_one_sub_le (t • K)).trans ?_
      rw [hnorm]
      apply mul_le_mul_of_nonneg_left _ (sq_nonneg _)
      exact Real.exp_le_exp.mpr (mul_le_of_le_one_left ha0 ht1)
    calc ‖X n - Y‖ ≤ c * t ^ 2 + (t * a) ^ 2 * Real.exp a := h1.trans (add_le_add hXn h2)
      _ = t ^ 2 * (c + a ^ 2 * Real.exp a) := by ring
  calc ‖X n ^ n - exp K‖ = ‖X n ^ n - Y ^ n‖ := by rw [hYn]
    _ ≤ n * M ^ n * ‖X n - Y‖ := norm_pow_sub_pow_le _ _ M hM1 hXM hYM n
    _ ≤ n * Real.exp (a + c) * (t ^ 2 * (c + a ^ 2 * Real.exp a)) := by
        rw [hMn]
        exact mul_le_mul_of_nonneg_left hXY (mul_nonneg hn0.le (Real.exp_pos _).le)
    _ = Cst / n := by
        rw [hCst, ht]
        field_simp

end
end FFVerif.Spec
