/-
Specification-level vocabulary for complete positivity in Liouville / Choi language (Mathlib):
Choi matrix of a Liouville matrix, Liouville matrix of a Kraus map, the predicate `IsCPLiou`.
-/
import Mathlib.LinearAlgebra.Matrix.PosDef
import Mathlib.Analysis.Complex.Order
import FFVerif.Spec.Basis

namespace FFVerif.Spec
open Matrix
open scoped ComplexOrder

variable {N d : Nat}

/-- **Choi matrix** of the superoperator with Liouville matrix `S` w.r.t. the family `C`, in the
index convention of `superoperator.liouville_to_choi` (`einsum('ij,jba,icd->acbd')`): row `(a, c)`,
column `(b, e)`, entry `Σ_ij S_ij (C_j)_{ba} (C_i)_{ce}` — i.e. `Σ_ij S_ij C_jᵀ ⊗ C_i`.  The index
pairs are kept as pairs; `Model.liouvilleToChoi` flattens them row-major (`choiMatrix_model`). -/
def choiMatrix (C : Fin N → Matrix (Fin d) (Fin d) ℂ) (S : Matrix (Fin N) (Fin N) ℂ) :
    Matrix (Fin d × Fin d) (Fin d × Fin d) ℂ :=
  fun p q => ∑ i, ∑ j, S i j * C j q.1 p.1 * C i p.2 q.2

/-- **Complete positivity of a Liouville matrix** (Choi's theorem as the definition, the criterion
tested by `liouville_is_CP`): the Choi matrix is positive semidefinite. -/
def IsCPLiou (C : Fin N → Matrix (Fin d) (Fin d) ℂ) (S : Matrix (Fin N) (Fin N) ℂ) : Prop :=
  (choiMatrix C S).PosSemidef

/-- Liouville matrix of the Kraus map `ρ ↦ Σ_m w_m A_m ρ A_m†` (real weights `w_m`, any finite
index type): `S_ij = Σ_m w_m tr(C_i A_m C_j A_m†)`. -/
noncomputable def liouKraus {ι : Type} [Fintype ι] (C : Fin N → Matrix (Fin d) (Fin d) ℂ)
    (w : ι → ℝ) (A : ι → Matrix (Fin d) (Fin d) ℂ) : Matrix (Fin N) (Fin N) ℂ :=
  ∑ m, (w m : ℂ) • liou C (A m)

/-- the vectorisation `|A⟫` of an operator in the index convention of the Choi matrix:
component `(a, c)` is `A_{ca}` -/
def krausVec (A : Matrix (Fin d) (Fin d) ℂ) : Fin d × Fin d → ℂ := fun p => A p.2 p.1

/-- the operator with vectorisation `v` (inverse of `krausVec`) -/
def krausOfVec (v : Fin d × Fin d → ℂ) : Matrix (Fin d) (Fin d) ℂ := fun c a => v (a, c)

/-- the inverse of `choiMatrix C` for a Hilbert–Schmidt orthonormal family:
`S_ij = Σ_{(a,c),(b,e)} M_{(a,c),(b,e)} (C_j)_{ab} (C_i)_{ec}` -/
def liouOfChoi (C : Fin N → Matrix (Fin d) (Fin d) ℂ)
    (M : Matrix (Fin d × Fin d) (Fin d × Fin d) ℂ) : Matrix (Fin N) (Fin N) ℂ :=
  fun i j => ∑ p, ∑ q, M p q * C j p.1 q.1 * C i q.2 p.2

/-! ### generators of Lindblad form -/

/-- Liouville matrix of `ρ ↦ Kρ + ρK†` -/
noncomputable def liouGen (C : Fin N → Matrix (Fin d) (Fin d) ℂ) (K : Matrix (Fin d) (Fin d) ℂ) :
    Matrix (Fin N) (Fin N) ℂ :=
  fun i j => trace (C i * (K * C j + C j * Kᴴ))

/-- the Lindblad generator `𝓛(ρ) = -i[H,ρ] + Σ_k γ_k (A_k ρ A_k† - ½{A_k†A_k, ρ})` -/
noncomputable def lindbladian {ι : Type} [Fintype ι] (H : Matrix (Fin d) (Fin d) ℂ) (γ : ι → ℝ)
    (A : ι → Matrix (Fin d) (Fin d) ℂ) (X : Matrix (Fin d) (Fin d) ℂ) : Matrix (Fin d) (Fin d) ℂ :=
  -(Complex.I • (H * X - X * H))
    + ∑ k, (γ k : ℂ) • (A k * X * (A k)ᴴ
        - (1 / 2 : ℂ) • ((A k)ᴴ * A k * X + X * ((A k)ᴴ * A k)))

/-- its Liouville matrix `tr(C_i 𝓛(C_j))` -/
noncomputable def lindbladLiou {ι : Type} [Fintype ι] (C : Fin N → Matrix (Fin d) (Fin d) ℂ)
    (H : Matrix (Fin d) (Fin d) ℂ) (γ : ι → ℝ) (A : ι → Matrix (Fin d) (Fin d) ℂ) :
    Matrix (Fin N) (Fin N) ℂ :=
  fun i j => trace (C i * lindbladian H γ A (C j))

/-- the effective non-Hermitian Hamiltonian part `K = -iH - ½ Σ_k γ_k A_k†A_k` -/
noncomputable def lindbladK {ι : Type} [Fintype ι] (H : Matrix (Fin d) (Fin d) ℂ) (γ : ι → ℝ)
    (A : ι → Matrix (Fin d) (Fin d) ℂ) : Matrix (Fin d) (Fin d) ℂ :=
  -(Complex.I • H) - (1 / 2 : ℂ) • ∑ k, (γ k : ℂ) • ((A k)ᴴ * A k)

end FFVerif.Spec
