/-
Specification-level vocabulary (Mathlib) for the cumulant function and the trapezoidal rule:
trace tensor, documented commutator formula for `K`, trapezoid sum.
-/
import Mathlib.LinearAlgebra.Matrix.Trace
import Mathlib.LinearAlgebra.Matrix.ConjTranspose
import Mathlib.Analysis.Complex.Basic
import Mathlib.Algebra.BigOperators.Fin
import FFVerif.Spec.Basis

namespace FFVerif.Spec
open Matrix

variable {N d : Nat}

/-- commutator `[A, B] = A B - B A` -/
def comm (A B : Matrix (Fin d) (Fin d) ℂ) : Matrix (Fin d) (Fin d) ℂ := A * B - B * A

/-- trace tensor `T_ijkl = tr(C_i C_j C_k C_l)` -/
def T4 (C : Fin N → Matrix (Fin d) (Fin d) ℂ) (i j k l : Fin N) : ℂ :=
  trace (C i * C j * C k * C l)

/-- documented first-order cumulant function of one pair of noise sources,
`K_ij = -½ Σ_kl Γ_kl tr(C_i [C_k, [C_l, C_j]])` -/
noncomputable def K1 (C : Fin N → Matrix (Fin d) (Fin d) ℂ) (Γ : Fin N → Fin N → ℂ)
    (i j : Fin N) : ℂ :=
  -(1 / 2) * ∑ k, ∑ l, Γ k l * trace (C i * comm (C k) (comm (C l) (C j)))

/-- documented second-order contribution, `-½ Σ_kl Δ_kl tr(C_i [[C_k, C_l], C_j])` -/
noncomputable def K2 (C : Fin N → Matrix (Fin d) (Fin d) ℂ) (Δ : Fin N → Fin N → ℂ)
    (i j : Fin N) : ℂ :=
  -(1 / 2) * ∑ k, ∑ l, Δ k l * trace (C i * comm (comm (C k) (C l)) (C j))

/-- documented cumulant function up to second order -/
noncomputable def Kfull (C : Fin N → Matrix (Fin d) (Fin d) ℂ) (Γ Δ : Fin N → Fin N → ℂ)
    (i j : Fin N) : ℂ := K1 C Γ i j + K2 C Δ i j

/-- trapezoidal rule on the grid `x` with values `f` (`n` points, `n - 1` intervals):
`Σ_i (x_{i+1} - x_i) (f_i + f_{i+1}) / 2` -/
noncomputable def trapz {F : Type} [Field F] (emb : ℝ → F) {n : Nat} (x : Fin n → ℝ)
    (f : Fin n → F) : F :=
  ∑ i : Fin (n - 1), emb (x ⟨i.1 + 1, by have := i.2; omega⟩ - x ⟨i.1, by have := i.2; omega⟩)
    * (f ⟨i.1, by have := i.2; omega⟩ + f ⟨i.1 + 1, by have := i.2; omega⟩) / 2

/-- the single-qubit matrices `(1, σx, σy, σz)` -/
def sigma : Fin 4 → Matrix (Fin 2) (Fin 2) ℂ
  | 0 => !![1, 0; 0, 1]
  | 1 => !![0, 1; 1, 0]
  | 2 => !![0, -Complex.I; Complex.I, 0]
  | 3 => !![1, 0; 0, -1]

/-- `1/√2` as a complex number -/
noncomputable def invSqrt2 : ℂ := ((Real.sqrt 2)⁻¹ : ℝ)

/-- the normalised Pauli basis `(1, σx, σy, σz)/√2` (`Basis.pauli(1)`; `Basis.ggm(2)` builds the
same four matrices in the same order) -/
noncomputable def pauliBasis : Fin 4 → Matrix (Fin 2) (Fin 2) ℂ := fun i => invSqrt2 • sigma i

end FFVerif.Spec
