/-
Specification of the dephasing filter function of a free evolution interrupted by ideal π pulses
(sign flips of the sensitivity) — C19.
-/
import Mathlib.Analysis.SpecialFunctions.Trigonometric.Basic
import Mathlib.Analysis.Complex.Exponential
import Mathlib.Algebra.BigOperators.Intervals

namespace FFVerif.Spec
open Complex

/-- `y(z) = Σ_{j=0}^{n} (-1)^j (e^{i z δ_{j+1}} - e^{i z δ_j})`: the first-order integral (times `iω`) of
the sign sequence with `n` flips at the normalised times `δ_1 < … < δ_n`, `δ_0 = 0`,
`δ_{n+1} = 1`, at `z = ω τ`. -/
noncomputable def ddY (n : Nat) (δ : Nat → ℝ) (z : ℝ) : ℂ :=
  ∑ j ∈ Finset.range (n + 1),
    (-1 : ℂ) ^ j * (Complex.exp (Complex.I * z * δ (j + 1)) - Complex.exp (Complex.I * z * δ j))

/-- `ω² F(ω) = |y|² / 2` for the noise operator `σ_z / 2` -/
noncomputable def ddF (n : Nat) (δ : Nat → ℝ) (z : ℝ) : ℝ := ‖ddY n δ z‖ ^ 2 / 2

/-- periodic dynamical decoupling: flips at `j/(n+1)` -/
noncomputable def pddTimes (n : Nat) : Nat → ℝ := fun j => (j : ℝ) / (n + 1)

/-- CPMG: flips at `(j - 1/2)/n`, `j = 1..n`; `δ_0 = 0`, `δ_{n+1} = 1` -/
noncomputable def cpmgTimes (n : Nat) : Nat → ℝ := fun j =>
  if j = 0 then 0 else if j = n + 1 then 1 else ((j : ℝ) - 1 / 2) / n

/-- Uhrig: flips at `sin²(π j / (2n + 2))` (this also gives `δ_0 = 0`, `δ_{n+1} = 1`) -/
noncomputable def uddTimes (n : Nat) : Nat → ℝ := fun j =>
  Real.sin (Real.pi * j / (2 * n + 2)) ^ 2

end FFVerif.Spec
