/-
Specification-level vocabulary (Mathlib): operator bases, completeness, Liouville representation.
-/
import Mathlib.LinearAlgebra.Matrix.Trace
import Mathlib.LinearAlgebra.Matrix.ConjTranspose
import Mathlib.Analysis.Complex.Basic
import FFVerif.Lemmas.MatBridge

namespace FFVerif.Spec
open Matrix

/-- Hermitian, Hilbert–Schmidt orthonormal family of `d × d` matrices -/
structure IsOrthoHerm {N d : Nat} (C : Fin N → Matrix (Fin d) (Fin d) ℂ) : Prop where
  herm : ∀ i, (C i)ᴴ = C i
  ortho : ∀ i j, Matrix.trace (C i * C j) = if i = j then 1 else 0

/-- completeness: every matrix is reconstructed from its expansion coefficients `tr(M C_j)` -/
def IsComplete {N d : Nat} (C : Fin N → Matrix (Fin d) (Fin d) ℂ) : Prop :=
  ∀ M : Matrix (Fin d) (Fin d) ℂ, M = ∑ j, Matrix.trace (M * C j) • C j

/-- Liouville representation `L(U)_{ij} = tr(C_i U C_j U†)` -/
noncomputable def liou {N d : Nat} (C : Fin N → Matrix (Fin d) (Fin d) ℂ)
    (U : Matrix (Fin d) (Fin d) ℂ) : Matrix (Fin N) (Fin N) ℂ :=
  fun i j => Matrix.trace (C i * U * C j * Uᴴ)

/-- the family of Mathlib matrices of a model basis -/
def basisOf {N d : Nat} (C : Vector (Mat ℂ d d) N) : Fin N → Matrix (Fin d) (Fin d) ℂ :=
  fun i => C[i].toMatrix

end FFVerif.Spec
