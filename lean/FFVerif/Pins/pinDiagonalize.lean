/- Source pin: the statements of the Python function as the hand-written model was written for.
The literal is maintained by hand (tools/refresh_pins.py after a deliberate change of /repo); the
left-hand side is regenerated from /repo on every run.  An edit of the function breaks this
obligation; the property's search then looks for a concrete failing input. -/
import FFVerif.Gen.Pins

theorem FFVerif.Pins.pinDiagonalize : FFVerif.Gen.pinDiagonalize = "d = hamiltonian.shape[-1] ; eigvals, eigvecs = nla.eigh(hamiltonian) ; piecewise = np.einsum('lij,jl,lkj->lik', eigvecs, util.cexp(-np.asarray(dt) * eigvals.T), eigvecs.conj()) ; cumulative = np.empty((len(dt) + 1, d, d), dtype=complex) ; cumulative[0] = np.identity(d) ; for i in range(len(dt)): cumulative[i + 1] = piecewise[i] @ cumulative[i] ; return (eigvals, eigvecs, cumulative)" := rfl
