/- Source pin: the statements of the Python function as the hand-written model was written for.
The literal is maintained by hand (tools/refresh_pins.py after a deliberate change of /repo); the
left-hand side is regenerated from /repo on every run.  An edit of the function breaks this
obligation; the property's search then looks for a concrete failing input. -/
import FFVerif.Gen.Pins

theorem FFVerif.Pins.pinBasisArrayFinalize : FFVerif.Gen.pinBasisArrayFinalize = "if basis is None: return ; self.btype = getattr(basis, 'btype', 'Custom') ; self.labels = getattr(basis, 'labels', [f'$C_{{{i}}}$' for i in range(len(basis))]) ; self.d = getattr(basis, 'd', basis.shape[-1]) ; self._sparse = None ; self._four_element_traces = None ; self._isherm = None ; self._isorthonorm = None ; self._istraceless = None ; self._iscomplete = None ; self._eps = np.finfo(complex).eps ; self._atol = self._eps * self.d ** 3 ; self._rtol = 0" := rfl
