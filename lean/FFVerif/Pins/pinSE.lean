/- Source pin: the statements of the Python function as the hand-written model was written for.
The literal is maintained by hand (tools/refresh_pins.py after a deliberate change of /repo); the
left-hand side is regenerated from /repo on every run.  An edit of the function breaks this
obligation; the property's search then looks for a concrete failing input. -/
import FFVerif.Gen.Pins

theorem FFVerif.Pins.pinSE : FFVerif.Gen.pinSE = "return 8 * np.sin(z / 4) ** 4" := rfl
