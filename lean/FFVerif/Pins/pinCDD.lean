/- Source pin: the statements of the Python function as the hand-written model was written for.
The literal is maintained by hand (tools/refresh_pins.py after a deliberate change of /repo); the
left-hand side is regenerated from /repo on every run.  An edit of the function breaks this
obligation; the property's search then looks for a concrete failing input. -/
import FFVerif.Gen.Pins

theorem FFVerif.Pins.pinCDD : FFVerif.Gen.pinCDD = "return 2 ** (2 * g + 1) * np.sin(z / 2 ** (g + 1)) ** 2 * np.prod([np.sin(z / 2 ** (k + 1)) ** 2 for k in range(1, g + 1)], axis=0)" := rfl
