/- Source pin moved out of Props/C11.lean so that an edit of the pinned function breaks only this
obligation (and not the build of the property's theorems). -/
import FFVerif.Gen.Constants
import FFVerif.Gen.Einsum
import FFVerif.Gen.CacheSets

namespace FFVerif.C11
open FFVerif

/-- the subscripts of the generated contractions used by the model -/
theorem gradient_einsum_shape :
    Gen.gradient_calculate_filter_function_derivative_0_subscripts = "ako,hotak->atho" ∧
    Gen.gradient_infidelity_derivative_1_subscripts = "...o,...tho->...tho" ∧
    Gen.gradient_infidelity_derivative_1_args = ["spectrum", "filter_function_deriv"] :=
  ⟨rfl, rfl, rfl⟩

end FFVerif.C11
