/- Source pin: the statements of the Python function as the hand-written model was written for.
The literal is maintained by hand (tools/refresh_pins.py after a deliberate change of /repo); the
left-hand side is regenerated from /repo on every run.  An edit of the function breaks this
obligation; the property's search then looks for a concrete failing input. -/
import FFVerif.Gen.Pins

theorem FFVerif.Pins.pinExpand : FFVerif.Gen.pinExpand = "def cast(arr): return arr.real if hermitian and basis.isherm else arr ; coefficients = cast(np.tensordot(M, basis, axes=[(-2, -1), (-1, -2)])) ; if not normalized: coefficients /= cast(np.einsum('bij,bji->b', basis, basis)) ; return util.remove_float_errors(coefficients) if tidyup else coefficients" := rfl
