/- Source pin moved out of Props/C10.lean so that an edit of the pinned function breaks only this
obligation (and not the build of the property's theorems). -/
import FFVerif.Gen.Constants
import FFVerif.Gen.Einsum
import FFVerif.Gen.CacheSets

namespace FFVerif.C10
open FFVerif

/-- The contraction strings used by `Model.secondOrderFF` are the ones of the source. -/
theorem secondOrderFF_source_shape :
    Gen.numeric_calculate_second_order_filter_function_0_subscripts = "oijmn,akij,blmn->abklo" ∧
    Gen.numeric_calculate_second_order_filter_function_1_subscripts = "akl,ilk->aikl" ∧
    Gen.numeric_calculate_second_order_filter_function_1_args
      = ["n_opers_transformed[:, g]", "basis_transformed"] ∧
    Gen.numeric_calculate_second_order_filter_function_2_subscripts = "ako,blo->abklo" ∧
    Gen.numeric_calculate_second_order_filter_function_2_args
      = ["ctrlmat_step.conj()", "ctrlmat_step_cumulative"] :=
  ⟨rfl, rfl, rfl, rfl, rfl⟩

end FFVerif.C10
