/- Source pin: the statements of the Python function as the hand-written model was written for.
The literal is maintained by hand (tools/refresh_pins.py after a deliberate change of /repo); the
left-hand side is regenerated from /repo on every run.  An edit of the function breaks this
obligation; the property's search then looks for a concrete failing input. -/
import FFVerif.Gen.Pins

theorem FFVerif.Pins.pinHashArray : FFVerif.Gen.pinHashArray = "return [hash((arr + 0.0).tobytes()) for arr in np.swapaxes(arr, 0, axis)]" := rfl
