/- Source pin moved out of Props/C02.lean so that an edit of the pinned function breaks only this
obligation (and not the build of the property's theorems). -/
import FFVerif.Gen.Constants
import FFVerif.Gen.Einsum
import FFVerif.Gen.CacheSets

namespace FFVerif.C02
open FFVerif

/-- **Source pin**: subscripts and operand texts of the three contractions as read from the Python
source by the translator are the ones the model was written for (in particular the sign and the
transposition in `util.cexp(-np.asarray(dt) * eigvals.T)` and
`util.cexp((self.t[idx] - t) * self.eigvals[idx].T)`). -/
theorem source_shape :
    Gen.pulse_sequence_PulseSequence_diagonalize_0_subscripts = "ijk,il->ljk" ∧
    Gen.pulse_sequence_PulseSequence_diagonalize_0_args = ["self.c_opers", "self.c_coeffs"] ∧
    Gen.numeric_diagonalize_0_subscripts = "lij,jl,lkj->lik" ∧
    Gen.numeric_diagonalize_0_args
      = ["eigvecs", "util.cexp(-np.asarray(dt) * eigvals.T)", "eigvecs.conj()"] ∧
    Gen.pulse_sequence_PulseSequence_propagator_at_arb_t_0_subscripts = "lij,jl,lkj->lik" ∧
    Gen.pulse_sequence_PulseSequence_propagator_at_arb_t_0_args
      = ["self.eigvecs[idx]", "util.cexp((self.t[idx] - t) * self.eigvals[idx].T)",
         "self.eigvecs[idx].conj()"] :=
  ⟨rfl, rfl, rfl, rfl, rfl, rfl⟩

end FFVerif.C02
