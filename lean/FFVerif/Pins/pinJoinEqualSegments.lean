/- Source pin: the statements of the Python function as the hand-written model was written for.
The literal is maintained by hand (tools/refresh_pins.py after a deliberate change of /repo); the
left-hand side is regenerated from /repo on every run.  An edit of the function breaks this
obligation; the property's search then looks for a concrete failing input. -/
import FFVerif.Gen.Pins

theorem FFVerif.Pins.pinJoinEqualSegments : FFVerif.Gen.pinJoinEqualSegments = "equal_ind = ((np.diff(pulse.c_coeffs) == 0).all(axis=0) & (np.diff(pulse.n_coeffs) == 0).all(axis=0)).nonzero()[0] ; if equal_ind.size > 0: c_coeffs = np.delete(pulse.c_coeffs, equal_ind, axis=1) n_coeffs = np.delete(pulse.n_coeffs, equal_ind, axis=1) dt = np.delete(pulse.dt, equal_ind) for old, new in zip(equal_ind, equal_ind - np.arange(len(equal_ind))): dt[new] += pulse.dt[old] else: c_coeffs = pulse.c_coeffs n_coeffs = pulse.n_coeffs dt = pulse.dt ; return (c_coeffs, n_coeffs, dt)" := rfl
