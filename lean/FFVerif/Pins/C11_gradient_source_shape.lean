/- Source pin moved out of Props/C11.lean so that an edit of the pinned function breaks only this
obligation (and not the build of the property's theorems). -/
import FFVerif.Gen.Constants
import FFVerif.Gen.Einsum
import FFVerif.Gen.CacheSets

namespace FFVerif.C11
open FFVerif

/-- the three masks of `_derivative_integral`, its statements and those of
`_liouville_derivative`, as read from the current source -/
theorem gradient_source_shape :
    Gen.gradDerivIntegralMasks
      = "np.abs(dE) < 1e-07 ; np.abs(EdE) < 1e-07 ; np.abs(EdEdE) < 1e-07" ∧
    Gen.gradDerivIntegralBody
      = "dE = np.subtract.outer(eigvals, eigvals) ; mask_dE = np.abs(dE) < 1e-07 ; EdE = np.add.outer(E, dE) ; mask_EdE = np.abs(EdE) < 1e-07 ; EdEdE = np.add.outer(EdE, dE[~mask_dE]) ; mask_EdEdE = np.abs(EdEdE) < 1e-07 ; tmp1 = np.divide(util.cexp(EdE * dt), EdE, where=~mask_EdE) ; tmp2 = tmp1 - np.divide(1, EdE, where=~mask_EdE) ; tmp2[mask_EdE] = 1j * dt ; tmp1 *= -1j * dt ; tmp1 += np.divide(tmp2, EdE, where=~mask_EdE) ; tmp1[mask_EdE] = dt ** 2 / 2 ; out[:, mask_dE] = tmp1[:, None] ; tmp1 = np.divide(1 - util.cexp(EdEdE * dt, where=~mask_EdEdE), EdEdE, where=~mask_EdEdE) ; tmp1[mask_EdEdE] = -1j * dt ; tmp1 += tmp2[..., None] ; out[:, ~mask_dE] = (tmp1 / dE[~mask_dE]).transpose(0, 3, 1, 2) ; return out" ∧
    Gen.gradLiouvilleDerivBody
      = "n, d = eigvecs.shape[:2] ; omega_diff = eigvals[:, :, None] - eigvals[:, None, :] ; dt_broadcast = np.broadcast_to(dt[:, None, None], omega_diff.shape) ; mask = np.abs(omega_diff * dt_broadcast) < 1e-07 ; A_mat = np.empty(omega_diff.shape, dtype=complex) ; A_mat[mask] = dt_broadcast[mask] ; A_mat[~mask] = 1j * (1 - util.cexp(omega_diff[~mask] * dt_broadcast[~mask])) / omega_diff[~mask] ; U_deriv = -1j * (propagators[1:] @ propagators[:-1].conj().swapaxes(-1, -2) @ eigvecs @ (A_mat * c_opers_transformed.swapaxes(0, 1)) @ eigvecs.conj().swapaxes(-1, -2)) ; propagators_deriv = np.zeros((c_opers_transformed.shape[1], n - 1, n, d, d), dtype=complex) ; U_deriv_transformed = np.zeros((c_opers_transformed.shape[1], n - 1, d, d), dtype=complex) ; for g in range(n - 1): U_deriv_transformed[:, g] = propagators[g + 1].conj().swapaxes(-1, -2) @ U_deriv[:, g] @ propagators[g] propagators_deriv[:, g, :g + 1] = propagators[g + 1] @ U_deriv_transformed[:, :g + 1] ; liouville_deriv = np.einsum('htsba,tjkba->thsjk', propagators_deriv.conj(), (basis @ propagators[1:-1, None])[:, :, None] @ basis).real ; liouville_deriv *= 2 ; return liouville_deriv" :=
  ⟨rfl, rfl, rfl⟩

end FFVerif.C11
