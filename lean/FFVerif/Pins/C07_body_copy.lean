/- Source pin: the statements of a cache-relevant method of PulseSequence as the cache state machine
(Model/Cache.lean) was written for.  The literal is maintained by hand (tools/refresh_pins.py after a
deliberate change of /repo); the left-hand side is regenerated from /repo on every run. -/
import FFVerif.Gen.CacheSets

theorem FFVerif.C07.body_copy : FFVerif.Gen.body_copy = "cls = self.__class__ ; copied = cls.__new__(cls) ; copied.__dict__.update(self.__dict__) ; copied._intermediates = dict(self._intermediates) ; return copied" := rfl
