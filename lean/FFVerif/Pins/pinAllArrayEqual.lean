/- Source pin: the statements of the Python function as the hand-written model was written for.
The literal is maintained by hand (tools/refresh_pins.py after a deliberate change of /repo); the
left-hand side is regenerated from /repo on every run.  An edit of the function breaks this
obligation; the property's search then looks for a concrete failing input. -/
import FFVerif.Gen.Pins

theorem FFVerif.Pins.pinAllArrayEqual : FFVerif.Gen.pinAllArrayEqual = "arrays = list(it) ; for arr in arrays: arr.tobytes ; return len(arrays) > 0 and all((np.array_equal(arrays[0], arr) for arr in arrays[1:]))" := rfl
