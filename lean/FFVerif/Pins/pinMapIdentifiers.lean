/- Source pin: the statements of the Python function as the hand-written model was written for.
The literal is maintained by hand (tools/refresh_pins.py after a deliberate change of /repo); the
left-hand side is regenerated from /repo on every run.  An edit of the function breaks this
obligation; the property's search then looks for a concrete failing input. -/
import FFVerif.Gen.Pins

theorem FFVerif.Pins.pinMapIdentifiers : FFVerif.Gen.pinMapIdentifiers = "if mapping is None: remapped_identifiers = identifiers sort_idx = np.arange(len(identifiers)) else: try: remapped_identifiers = np.array([mapping[identifier] for identifier in identifiers]) except KeyError as err: raise ValueError(f'Identifier mapping has no entry for identifier {err}.') from err sort_idx = np.argsort(remapped_identifiers) ; return (remapped_identifiers, sort_idx)" := rfl
