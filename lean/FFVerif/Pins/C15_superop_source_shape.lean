/- Source pin moved out of Props/C15.lean so that an edit of the pinned function breaks only this
obligation (and not the build of the property's theorems). -/
import FFVerif.Gen.Constants
import FFVerif.Gen.Einsum
import FFVerif.Gen.CacheSets

namespace FFVerif.C15
open FFVerif

/-- **Source pin** for the wiring around the generated contractions: `U.conj(), basis, U` into the
first einsum, generic expansion unless `btype == 'GGM' and d > 12`, `hermitian=basis.isherm`;
`reshape(superoperator.shape)` of the Choi contraction; verdicts `(D >= -atol).all` with the default `atol = basis._atol·max(1, max|D|)`;
projector `1 - |Ω⟩⟨Ω|` for the conditional test. -/
theorem superop_source_shape :
    Gen.superoperator_liouville_representation_0_args = ["U.conj()", "basis", "U"] ∧
    Gen.superoperator_liouville_to_choi_0_args = ["superoperator", "basis", "basis"] ∧
    Gen.liouvilleBranchTest = "basis.btype == 'GGM' and basis.d > 12 and (basis == _b.Basis.ggm(basis.d))" ∧
    Gen.liouvilleBody = "U = np.asanyarray(U) ; conjugated_basis = np.einsum('...ba,ibc,...cd->...iad', U.conj(), basis, U, optimize=['einsum_path', (1, 2), (0, 1)]) ; if basis.btype == 'GGM' and basis.d > 12 and (basis == _b.Basis.ggm(basis.d)): return _b.ggm_expand(conjugated_basis, hermitian=basis.isherm) else: return _b.expand(conjugated_basis, basis, hermitian=basis.isherm)" ∧
    Gen.liouvilletochoiBody = "choi = np.einsum('...ij,jba,icd->...acbd', superoperator, basis, basis, optimize=['einsum_path', (0, 1), (0, 1)]).reshape(superoperator.shape) ; return choi" ∧
    Gen.liouvilleisCPBody = "choi = liouville_to_choi(superoperator, basis) ; D, V = nla.eigh(choi) ; if atol is None: atol = basis._atol * np.maximum(1, np.abs(D).max(axis=-1, keepdims=True)) ; CP = (D >= -atol).all(axis=-1) ; if return_eig: return (CP, (D, V)) ; return CP" ∧
    Gen.liouvilleiscCPBody = "d2 = superoperator.shape[-1] ; d = int(np.sqrt(d2)) ; Omega = np.zeros(d2, dtype=float) ; Omega[::d + 1] = 1 / np.sqrt(d) ; Omega = np.multiply.outer(Omega, Omega) ; Q = np.eye(Omega.shape[-1]) - Omega ; choi = liouville_to_choi(superoperator, basis) ; D, V = nla.eigh(Q @ choi @ Q) ; if atol is None: atol = basis._atol * np.maximum(1, np.abs(D).max(axis=-1, keepdims=True)) ; cCP = (D >= -atol).all(axis=-1) ; if return_eig: return (cCP, (D, V)) ; return cCP" :=
  ⟨rfl, rfl, rfl, rfl, rfl, rfl, rfl⟩

end FFVerif.C15
