/- Source pin: the statements of the Python function as the hand-written model was written for.
The literal is maintained by hand (tools/refresh_pins.py after a deliberate change of /repo); the
left-hand side is regenerated from /repo on every run.  An edit of the function breaks this
obligation; the property's search then looks for a concrete failing input. -/
import FFVerif.Gen.Pins

theorem FFVerif.Pins.pinGetIndices : FFVerif.Gen.pinGetIndices = "identifier_to_index_table = {identifier: index for index, identifier in enumerate(all_identifiers)} ; if identifiers is None: inds = np.arange(len(all_identifiers)) else: try: if isinstance(identifiers, str): inds = np.array([identifier_to_index_table[identifiers]]) else: inds = np.array([identifier_to_index_table[identifier] for identifier in identifiers]) except KeyError: raise ValueError('Invalid identifiers given. All available ones ' + f'are: {all_identifiers}') ; return inds" := rfl
