/- Source pin: the statements of a cache-relevant method of PulseSequence as the cache state machine
(Model/Cache.lean) was written for.  The literal is maintained by hand (tools/refresh_pins.py after a
deliberate change of /repo); the left-hand side is regenerated from /repo on every run. -/
import FFVerif.Gen.CacheSets

theorem FFVerif.C07.body_get_total_phases : FFVerif.Gen.body_get_total_phases = "if np.array_equal(self.omega, omega): if self.is_cached('total_phases'): return self._total_phases else: self.cleanup('frequency dependent') ; self.cache_total_phases(omega) ; return self._total_phases" := rfl
