/- Source pin: the statements of the Python function as the hand-written model was written for.
The literal is maintained by hand (tools/refresh_pins.py after a deliberate change of /repo); the
left-hand side is regenerated from /repo on every run.  An edit of the function breaks this
obligation; the property's search then looks for a concrete failing input. -/
import FFVerif.Gen.Pins

theorem FFVerif.Pins.pinParseSpectrum : FFVerif.Gen.pinParseSpectrum = "error = 'Spectrum should be of shape {}, not {}.' ; shape = (len(idx),) * (spectrum.ndim - 1) + (len(omega),) ; try: spectrum = np.broadcast_to(spectrum, shape) except ValueError as broadcast_error: raise ValueError(error.format(shape, spectrum.shape)) from broadcast_error ; if spectrum.ndim == 3 and (not np.allclose(spectrum, spectrum.conj().swapaxes(0, 1))): raise ValueError('Cross-spectra given but not Hermitian along first two axes') elif spectrum.ndim > 3: raise ValueError(f'Expected spectrum to have < 4 dimensions, not {spectrum.ndim}') ; return spectrum" := rfl
