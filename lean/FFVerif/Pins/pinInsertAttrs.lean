/- Source pin: the statements of the Python function as the hand-written model was written for.
The literal is maintained by hand (tools/refresh_pins.py after a deliberate change of /repo); the
left-hand side is regenerated from /repo on every run.  An edit of the function breaks this
obligation; the property's search then looks for a concrete failing input. -/
import FFVerif.Gen.Pins

theorem FFVerif.Pins.pinInsertAttrs : FFVerif.Gen.pinInsertAttrs = "if registers is None: return (new_attrs, [qubit]) ; pos = bisect.bisect(registers, qubit) ; attrs = [] ; for old_attr, new_attr in zip(old_attrs, new_attrs): attrs.append(util.tensor_insert(old_attr, new_attr, pos=pos, arr_dims=[[d_per_qubit] * len(registers)] * 2)) ; bisect.insort(registers, qubit) ; return (attrs, registers)" := rfl
