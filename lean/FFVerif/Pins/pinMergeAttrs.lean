/- Source pin: the statements of the Python function as the hand-written model was written for.
The literal is maintained by hand (tools/refresh_pins.py after a deliberate change of /repo); the
left-hand side is regenerated from /repo on every run.  An edit of the function breaks this
obligation; the property's search then looks for a concrete failing input. -/
import FFVerif.Gen.Pins

theorem FFVerif.Pins.pinMergeAttrs : FFVerif.Gen.pinMergeAttrs = "if registers is None: return (new_attrs, qubits.copy()) ; pos = [bisect.bisect(registers, q) for q in qubits] ; attrs = [] ; for old_attr, new_attr in zip(old_attrs, new_attrs): attrs.append(util.tensor_merge(old_attr, new_attr, pos=pos, arr_dims=[[d_per_qubit] * len(registers)] * 2, ins_dims=[[d_per_qubit] * len(pos)] * 2)) ; for q in qubits: bisect.insort(registers, q) ; return (attrs, registers)" := rfl
