/- Source pin: the statements of a cache-relevant method of PulseSequence as the cache state machine
(Model/Cache.lean) was written for.  The literal is maintained by hand (tools/refresh_pins.py after a
deliberate change of /repo); the left-hand side is regenerated from /repo on every run. -/
import FFVerif.Gen.CacheSets

theorem FFVerif.C07.body_cache_total_phases : FFVerif.Gen.body_cache_total_phases = "if total_phases is None: total_phases = util.cexp(np.asarray(omega) * self.tau) ; self._invalidate_frequency_dependent(omega) ; self.omega = omega ; self._total_phases = total_phases" := rfl
