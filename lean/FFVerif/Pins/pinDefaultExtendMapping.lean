/- Source pin: the statements of the Python function as the hand-written model was written for.
The literal is maintained by hand (tools/refresh_pins.py after a deliberate change of /repo); the
left-hand side is regenerated from /repo on every run.  An edit of the function breaks this
obligation; the property's search then looks for a concrete failing input. -/
import FFVerif.Gen.Pins

theorem FFVerif.Pins.pinDefaultExtendMapping : FFVerif.Gen.pinDefaultExtendMapping = "if mapping is not None: return (identifiers, mapping) ; try: mapping = {q: q + '_' + ('{}' * len(qubits)).format(*qubits) for q in identifiers} except TypeError: mapping = {q: q + '_{}'.format(qubits) for q in identifiers} ; return (identifiers, mapping)" := rfl
