/- Source pin: the statements of the Python function as the hand-written model was written for.
The literal is maintained by hand (tools/refresh_pins.py after a deliberate change of /repo); the
left-hand side is regenerated from /repo on every run.  An edit of the function breaks this
obligation; the property's search then looks for a concrete failing input. -/
import FFVerif.Gen.Pins

theorem FFVerif.Pins.pinPropagatorAtArbT : FFVerif.Gen.pinPropagatorAtArbT = "self.diagonalize() ; idx = np.searchsorted(self.t, t) - 1 ; idx[idx < 0] = 0 ; Q_prev = self.propagators[idx] ; U_curr = np.einsum('lij,jl,lkj->lik', self.eigvecs[idx], util.cexp((self.t[idx] - t) * self.eigvals[idx].T), self.eigvecs[idx].conj()) ; return U_curr @ Q_prev" := rfl
