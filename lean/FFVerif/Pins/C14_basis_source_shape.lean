/- Source pin moved out of Props/C14.lean so that an edit of the pinned function breaks only this
obligation (and not the build of the property's theorems). -/
import FFVerif.Gen.Constants
import FFVerif.Gen.Einsum
import FFVerif.Gen.CacheSets

namespace FFVerif.C14
open FFVerif

/-- **Source pin** for the parts of `basis.py` that the model mirrors by hand: the operands of the
generated contractions (`'...jj'` of `istraceless` / `ggm_expand`, `'ij,jkl'` of
`_full_from_partial`, `'bij,bji->b'` of `expand`) and the normalised source text of the four flag
properties (single-element shortcut of `isorthonorm`, tolerances `eps·d³`, `eps·(d²)³`,
`remove_float_errors(trace, d²)`, the `offdiag_nonzero[0].size == 0` test, `matrix_rank`). -/
theorem basis_source_shape :
    Gen.basis_Basis_istraceless_0_subscripts = "...jj" ∧
    Gen.basis_Basis_istraceless_0_args = ["self"] ∧
    Gen.basis__full_from_partial_0_subscripts = "ij,jkl" ∧
    Gen.basis__full_from_partial_0_args = ["coeffs", "ggm"] ∧
    Gen.basis_expand_0_subscripts = "bij,bji->b" ∧
    Gen.basis_ggm_expand_0_subscripts = "...jj" ∧
    Gen.basis_ggm_expand_0_args = ["M"] ∧
    Gen.basisIshermBody = "if self._isherm is None: self._isherm = self.H == self ; return self._isherm" ∧
    Gen.basisIsorthonormBody = "if self._isorthonorm is None: if self.ndim == 2 or len(self) == 1: self._isorthonorm = True else: dim = self.shape[0] U = self.reshape((dim, -1)) actual = U.conj() @ U.T target = np.identity(dim) atol = self._eps * (self.d ** 2) ** 3 self._isorthonorm = np.allclose(actual.view(np.ndarray), target, atol=atol, rtol=self._rtol) ; return self._isorthonorm" ∧
    Gen.basisIstracelessBody = "if self._istraceless is None: trace = np.einsum('...jj', self) trace = util.remove_float_errors(trace, self.d ** 2) nonzero = np.atleast_1d(trace).nonzero() if nonzero[0].size == 0: self._istraceless = True elif nonzero[0].size == 1: if self.ndim == 3: elem = self[nonzero][0].view(np.ndarray) else: elem = self.view(np.ndarray) offdiag_nonzero = elem[~np.eye(self.d, dtype=bool)].nonzero() diag_equal = np.diag(elem) == elem[0, 0] if diag_equal.all() and offdiag_nonzero[0].size == 0: self._istraceless = True else: self._istraceless = False else: self._istraceless = False ; return self._istraceless" ∧
    Gen.basisIscompleteBody = "if self._iscomplete is None: A = self.reshape(self.shape[0], -1) rank = np.linalg.matrix_rank(A) self._iscomplete = rank == self.d ** 2 ; return self._iscomplete" :=
  ⟨rfl, rfl, rfl, rfl, rfl, rfl, rfl, rfl, rfl, rfl, rfl⟩

end FFVerif.C14
