/- Source pin: the statements of the Python function as the hand-written model was written for.
The literal is maintained by hand (tools/refresh_pins.py after a deliberate change of /repo); the
left-hand side is regenerated from /repo on every run.  An edit of the function breaks this
obligation; the property's search then looks for a concrete failing input. -/
import FFVerif.Gen.Pins

theorem FFVerif.Pins.pinIdentityElementIndex : FFVerif.Gen.pinIdentityElementIndex = "trace = util.remove_float_errors(np.einsum('...jj', basis.view(ndarray)), basis.d ** 2) ; return np.atleast_1d(trace).nonzero()[0] if basis.istraceless else np.array([], dtype=int)" := rfl
