/- Source pin: the statements of the Python function as the hand-written model was written for.
The literal is maintained by hand (tools/refresh_pins.py after a deliberate change of /repo); the
left-hand side is regenerated from /repo on every run.  An edit of the function breaks this
obligation; the property's search then looks for a concrete failing input. -/
import FFVerif.Gen.Pins

theorem FFVerif.Pins.pinFrequencyShifts : FFVerif.Gen.pinFrequencyShifts = "idx = util.get_indices_from_identifiers(pulse.n_oper_identifiers, n_oper_identifiers) ; filter_function_2 = pulse.get_filter_function(omega, order=2, show_progressbar=show_progressbar) ; integrand = _get_integrand(spectrum, omega, idx, which_pulse='total', which_FF='generalized', filter_function=filter_function_2) ; frequency_shifts = util.integrate(integrand, omega) / (2 * np.pi) ; return frequency_shifts" := rfl
