/- Source pin moved out of Props/C10.lean so that an edit of the pinned function breaks only this
obligation (and not the build of the property's theorems). -/
import FFVerif.Gen.Constants
import FFVerif.Gen.Einsum
import FFVerif.Gen.CacheSets

namespace FFVerif.C10
open FFVerif

/-- **Source pin.** The model `Model.secondOrderEntry` was written for exactly these statements
of `numeric._second_order_integral` (three exact-zero masks `np.not_equal(·, 0)`, the order of
the in-place updates of `exp_buf`, `frc_buf1`, `frc_buf2`, `int_buf`).  If the source changes,
the regenerated constants change and this theorem stops compiling. -/
theorem secondOrder_source_shape :
    Gen.secondOrderMasks
      = "np.not_equal(dEdE, 0) ; np.not_equal(EdE, 0) ; np.not_equal(dEE, 0)" ∧
    Gen.secondOrderBody
      = "frc_buf1, frc_buf2 = frc_bufs ; dEdE, EdE, dEE = dE_bufs ; mask_nEdE_dEE, mask_nEdE_ndEE = msk_bufs ; dE = np.subtract.outer(eigvals, eigvals) ; dEdE = np.add.outer(dE, dE, out=dEdE) ; EdE = np.add.outer(E, dE, out=EdE) ; dEE = np.subtract.outer(-E, -dE, out=dEE) ; mask_dEdE = np.not_equal(dEdE, 0) ; mask_EdE = np.not_equal(EdE, 0) ; mask_dEE = np.not_equal(dEE, 0) ; mask_nEdE_dEE = np.logical_and(~mask_EdE[:, None, None], mask_dEE[..., None, None], out=mask_nEdE_dEE) ; mask_nEdE_ndEE = np.logical_and(~mask_EdE[:, None, None], ~mask_dEE[..., None, None], out=mask_nEdE_ndEE) ; mask_EdE_dEE = np.broadcast_to(mask_EdE[:, None, None], int_buf.shape) ; exp_buf = util.cexp(dEE * dt, out=exp_buf, where=mask_dEE) ; exp_buf = np.subtract(exp_buf, 1, out=exp_buf, where=mask_dEE) ; frc_buf1 = np.divide(exp_buf, dEE, out=frc_buf1, where=mask_dEE) ; frc_buf1[~mask_dEE] = 1j * dt ; frc_buf2 = util.cexp(dEdE * dt, out=frc_buf2, where=mask_dEdE) ; frc_buf2 = np.subtract(frc_buf2, 1, out=frc_buf2, where=mask_dEdE) ; frc_buf2 = np.divide(frc_buf2, dEdE, out=frc_buf2, where=mask_dEdE) ; frc_buf2[~mask_dEdE] = 1j * dt ; int_buf = np.subtract(frc_buf1[..., None, None], frc_buf2[None, ...], out=int_buf, where=mask_EdE_dEE) ; int_buf = np.divide(int_buf, EdE[:, None, None], out=int_buf, where=mask_EdE_dEE) ; exp_buf = np.add(exp_buf, 1, out=exp_buf, where=mask_dEE) ; exp_buf = np.multiply(exp_buf, dt, out=exp_buf, where=mask_dEE) ; frc_buf1.real = np.add(frc_buf1.real, exp_buf.imag, out=frc_buf1.real, where=mask_dEE) ; frc_buf1.imag = np.subtract(frc_buf1.imag, exp_buf.real, out=frc_buf1.imag, where=mask_dEE) ; frc_buf1 = np.divide(frc_buf1, dEE, out=frc_buf1, where=mask_dEE) ; int_buf[mask_nEdE_dEE] = np.broadcast_to(frc_buf1[..., None, None], int_buf.shape)[mask_nEdE_dEE] ; int_buf[mask_nEdE_ndEE] = dt ** 2 / 2 ; return int_buf" :=
  ⟨rfl, rfl⟩

end FFVerif.C10
