/- Source pin: the statements of the Python function as the hand-written model was written for.
The literal is maintained by hand (tools/refresh_pins.py after a deliberate change of /repo); the
left-hand side is regenerated from /repo on every run.  An edit of the function breaks this
obligation; the property's search then looks for a concrete failing input. -/
import FFVerif.Gen.Pins

theorem FFVerif.Pins.pinErrorTransferMatrix : FFVerif.Gen.pinErrorTransferMatrix = "if cumulant_function is None: if pulse is None or spectrum is None or omega is None: raise ValueError('Require either precomputed cumulant function ' + 'or pulse, spectrum, and omega as arguments.') cumulant_function = calculate_cumulant_function(pulse, spectrum, omega, n_oper_identifiers, 'total', second_order, show_progressbar=show_progressbar, memory_parsimonious=memory_parsimonious, cache_intermediates=cache_intermediates) ; try: error_transfer_matrix = sla.expm(cumulant_function.sum(axis=tuple(range(cumulant_function.ndim - 2)))) except AttributeError as aerr: raise TypeError(f'cumulant_function invalid type: {type(cumulant_function)}') from aerr except ValueError as verr: raise ValueError(f'cumulant_function invalid shape: {cumulant_function.shape}') from verr ; return error_transfer_matrix" := rfl
