/- Source pin: the statements of a cache-relevant method of PulseSequence as the cache state machine
(Model/Cache.lean) was written for.  The literal is maintained by hand (tools/refresh_pins.py after a
deliberate change of /repo); the left-hand side is regenerated from /repo on every run. -/
import FFVerif.Gen.CacheSets

theorem FFVerif.C07.body_get_pulse_correlation_control_matrix : FFVerif.Gen.body_get_pulse_correlation_control_matrix = "if self.is_cached('control_matrix_pc'): return self._control_matrix_pc ; raise util.CalculationError('Could not get the pulse correlation control matrix since it ' + 'was not computed during concatenation. Please run the ' + \"concatenation again with 'calc_pulse_correlation_FF' set to \" + 'True.')" := rfl
