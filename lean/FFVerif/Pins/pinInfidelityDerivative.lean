/- Source pin: the statements of the Python function as the hand-written model was written for.
The literal is maintained by hand (tools/refresh_pins.py after a deliberate change of /repo); the
left-hand side is regenerated from /repo on every run.  An edit of the function breaks this
obligation; the property's search then looks for a concrete failing input. -/
import FFVerif.Gen.Pins

theorem FFVerif.Pins.pinInfidelityDerivative : FFVerif.Gen.pinInfidelityDerivative = "n_idx = util.get_indices_from_identifiers(pulse.n_oper_identifiers, n_oper_identifiers) ; spectrum = util.parse_spectrum(spectrum, omega, n_idx) ; filter_function_deriv = pulse.get_filter_function_derivative(omega, control_identifiers, n_oper_identifiers, n_coeffs_deriv) ; integrand = np.einsum('...o,...tho->...tho', spectrum, filter_function_deriv) ; infid_deriv = util.integrate(integrand, omega) / (2 * np.pi * pulse.d) ; return infid_deriv" := rfl
