/- Source pin: the statements of a cache-relevant method of PulseSequence as the cache state machine
(Model/Cache.lean) was written for.  The literal is maintained by hand (tools/refresh_pins.py after a
deliberate change of /repo); the left-hand side is regenerated from /repo on every run. -/
import FFVerif.Gen.CacheSets

theorem FFVerif.C07.body_diagonalize : FFVerif.Gen.body_diagonalize = "if not all((self.is_cached(attr) for attr in ('eigvals', 'eigvecs', 'propagators'))): hamiltonian = np.einsum('ijk,il->ljk', self.c_opers, self.c_coeffs) self.eigvals, self.eigvecs, self.propagators = numeric.diagonalize(hamiltonian, self.dt) ; self.total_propagator = self.propagators[-1]" := rfl
