/- Source pin: the statements of a cache-relevant method of PulseSequence as the cache state machine
(Model/Cache.lean) was written for.  The literal is maintained by hand (tools/refresh_pins.py after a
deliberate change of /repo); the left-hand side is regenerated from /repo on every run. -/
import FFVerif.Gen.CacheSets

theorem FFVerif.C07.body_get_pulse_correlation_filter_function : FFVerif.Gen.body_get_pulse_correlation_filter_function = "if which == 'fidelity': if self.is_cached('filter_function_pc'): return self._filter_function_pc elif self.is_cached('filter_function_pc_gen'): return self._filter_function_pc_gen ; if self.is_cached('control_matrix_pc'): F_pc = numeric.calculate_pulse_correlation_filter_function(self._control_matrix_pc, which=which) if which == 'fidelity': self._filter_function_pc = F_pc else: self._filter_function_pc_gen = F_pc return F_pc ; raise util.CalculationError('Could not get the pulse correlation filter function since it ' + 'was not computed during concatenation. Please run the ' + \"concatenation again with 'calc_pulse_correlation_FF' set to True.\")" := rfl
