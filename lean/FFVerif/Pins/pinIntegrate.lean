/- Source pin: the statements of the Python function as the hand-written model was written for.
The literal is maintained by hand (tools/refresh_pins.py after a deliberate change of /repo); the
left-hand side is regenerated from /repo on every run.  An edit of the function breaks this
obligation; the property's search then looks for a concrete failing input. -/
import FFVerif.Gen.Pins

theorem FFVerif.Pins.pinIntegrate : FFVerif.Gen.pinIntegrate = "dx = np.diff(x) if x is not None else dx ; ret = f[..., 1:] + f[..., :-1] ; ret *= dx ; return ret.sum(axis=-1) / 2" := rfl
