/- Source pin: the statements of a cache-relevant method of PulseSequence as the cache state machine
(Model/Cache.lean) was written for.  The literal is maintained by hand (tools/refresh_pins.py after a
deliberate change of /repo); the left-hand side is regenerated from /repo on every run. -/
import FFVerif.Gen.CacheSets

theorem FFVerif.C07.body_get_control_matrix : FFVerif.Gen.body_get_control_matrix = "if np.array_equal(self.omega, omega): if self.is_cached('control_matrix'): return self._control_matrix elif self.is_cached('control_matrix_pc'): self._control_matrix = self._control_matrix_pc.sum(axis=0) return self._control_matrix else: self.cleanup('frequency dependent') ; self.diagonalize() ; control_matrix = numeric.calculate_control_matrix_from_scratch(self.eigvals, self.eigvecs, self.propagators, omega, self.basis, self.n_opers, self.n_coeffs, self.dt, self.t, show_progressbar=show_progressbar, cache_intermediates=cache_intermediates) ; if cache_intermediates: control_matrix, intermediates = control_matrix self._intermediates.update(**intermediates) ; self.cache_control_matrix(omega, control_matrix) ; return self._control_matrix" := rfl
