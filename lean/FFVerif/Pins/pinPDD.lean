/- Source pin: the statements of the Python function as the hand-written model was written for.
The literal is maintained by hand (tools/refresh_pins.py after a deliberate change of /repo); the
left-hand side is regenerated from /repo on every run.  An edit of the function breaks this
obligation; the property's search then looks for a concrete failing input. -/
import FFVerif.Gen.Pins

theorem FFVerif.Pins.pinPDD : FFVerif.Gen.pinPDD = "if n % 2 == 0: return 2 * np.tan(z / (2 * n + 2)) ** 2 * np.cos(z / 2) ** 2 else: return 2 * np.tan(z / (2 * n + 2)) ** 2 * np.sin(z / 2) ** 2" := rfl
