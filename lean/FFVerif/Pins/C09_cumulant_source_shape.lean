/- Source pin moved out of Props/C09.lean so that an edit of the pinned function breaks only this
obligation (and not the build of the property's theorems). -/
import FFVerif.Gen.Constants
import FFVerif.Gen.Einsum
import FFVerif.Gen.CacheSets
import FFVerif.Model.Cumulant

namespace FFVerif.C09
open FFVerif

/-- **Source shape.**  The branch selector, the shortcut's statements, the eight contraction
strings with their signs and the `/ 2` of the general branch, and the operand order of the
contractions are pinned to the current source text. -/
theorem cumulant_source_shape :
    Gen.cumulantShortcutTest = "d == 2 and pulse.basis.btype in ('Pauli', 'GGM') and (pulse.basis == Basis.pauli(1))" ∧
    Gen.cumulantShortcutBody = "cumulant_function = np.zeros(decay_amplitudes.shape, decay_amplitudes.dtype) ; diag_mask = np.zeros((N, N), dtype=bool) ; diag_mask[1:, 1:] = ~np.eye(N - 1, dtype=bool) ; cumulant_function[..., diag_mask] = decay_amplitudes.swapaxes(-1, -2)[..., diag_mask] ; diag_deque = deque((False, True, True)) ; for i in range(1, N): diag_idx = [False] + list(diag_deque) cumulant_function[..., i, i] = -decay_amplitudes[..., diag_idx, diag_idx].sum(axis=-1) diag_deque.rotate() ; if second_order: cumulant_function[..., 1:, 1:] -= frequency_shifts[..., 1:, 1:] cumulant_function[..., 1:, 1:] += frequency_shifts[..., 1:, 1:].swapaxes(-1, -2)" ∧
    Gen.cumulantGeneralBody = "traces = pulse.basis.four_element_traces ; cumulant_function = -(+oe.contract('...kl,klji->...ij', decay_amplitudes, traces, backend='sparse') - oe.contract('...kl,kjli->...ij', decay_amplitudes, traces, backend='sparse') - oe.contract('...kl,kilj->...ij', decay_amplitudes, traces, backend='sparse') + oe.contract('...kl,kijl->...ij', decay_amplitudes, traces, backend='sparse')) / 2 ; if second_order: cumulant_function -= (+oe.contract('...kl,klji->...ij', frequency_shifts, traces, backend='sparse') - oe.contract('...kl,lkji->...ij', frequency_shifts, traces, backend='sparse') - oe.contract('...kl,klij->...ij', frequency_shifts, traces, backend='sparse') + oe.contract('...kl,lkij->...ij', frequency_shifts, traces, backend='sparse')) / 2" ∧
    [Gen.numeric_calculate_cumulant_function_0_subscripts,
      Gen.numeric_calculate_cumulant_function_1_subscripts,
      Gen.numeric_calculate_cumulant_function_2_subscripts,
      Gen.numeric_calculate_cumulant_function_3_subscripts,
      Gen.numeric_calculate_cumulant_function_4_subscripts,
      Gen.numeric_calculate_cumulant_function_5_subscripts,
      Gen.numeric_calculate_cumulant_function_6_subscripts,
      Gen.numeric_calculate_cumulant_function_7_subscripts]
      = ["...kl,klji->...ij", "...kl,kjli->...ij", "...kl,kilj->...ij", "...kl,kijl->...ij",
         "...kl,klji->...ij", "...kl,lkji->...ij", "...kl,klij->...ij", "...kl,lkij->...ij"] ∧
    Gen.numeric_calculate_cumulant_function_0_args = ["decay_amplitudes", "traces"] ∧
    Gen.numeric_calculate_cumulant_function_4_args = ["frequency_shifts", "traces"] ∧
    Model.fourElementTracesSubscripts = "iab,jbc,kcd,lda->ijkl" :=
  ⟨rfl, rfl, rfl, rfl, rfl, rfl, rfl⟩

end FFVerif.C09
