/- Source pin: the statements of the Python function as the hand-written model was written for.
The literal is maintained by hand (tools/refresh_pins.py after a deliberate change of /repo); the
left-hand side is regenerated from /repo on every run.  An edit of the function breaks this
obligation; the property's search then looks for a concrete failing input. -/
import FFVerif.Gen.Pins

theorem FFVerif.Pins.pinControlMatrixFromAtomic : FFVerif.Gen.pinControlMatrixFromAtomic = "n = len(control_matrix_atomic) ; expr = oe.contract_expression('ijo,jk->iko', control_matrix_atomic.shape[1:], propagators_liouville.shape[1:]) ; if which == 'total': control_matrix = np.zeros(control_matrix_atomic.shape[1:], dtype=complex) for g in util.progressbar_range(n, show_progressbar=show_progressbar, desc='Calculating control matrix'): control_matrix += expr(phases[g] * control_matrix_atomic[g], propagators_liouville[g]) else: control_matrix = np.zeros(control_matrix_atomic.shape, dtype=complex) for g in util.progressbar_range(n, show_progressbar=show_progressbar, desc='Calculating control matrix'): control_matrix[g] = expr(phases[g] * control_matrix_atomic[g], propagators_liouville[g], out=control_matrix[g]) ; return control_matrix" := rfl
