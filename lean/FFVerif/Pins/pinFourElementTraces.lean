/- Source pin: the statements of the Python function as the hand-written model was written for.
The literal is maintained by hand (tools/refresh_pins.py after a deliberate change of /repo); the
left-hand side is regenerated from /repo on every run.  An edit of the function breaks this
obligation; the property's search then looks for a concrete failing input. -/
import FFVerif.Gen.Pins

theorem FFVerif.Pins.pinFourElementTraces : FFVerif.Gen.pinFourElementTraces = "if self._four_element_traces is None: path = [(0, 1), (0, 1), (0, 1)] if self.btype == 'Pauli' and self.d <= 12: self._four_element_traces = COO.from_numpy(oe.contract('iab,jbc,kcd,lda->ijkl', *(self,) * 4, optimize=path)) else: self._four_element_traces = oe.contract('iab,jbc,kcd,lda->ijkl', *(self.sparse,) * 4, backend='sparse', optimize=path) ; return self._four_element_traces" := rfl
