/- Source pin: the statements of the Python function as the hand-written model was written for.
The literal is maintained by hand (tools/refresh_pins.py after a deliberate change of /repo); the
left-hand side is regenerated from /repo on every run.  An edit of the function breaks this
obligation; the property's search then looks for a concrete failing input. -/
import FFVerif.Gen.Pins

theorem FFVerif.Pins.pinUDD : FFVerif.Gen.pinUDD = "return np.abs(np.sum([(-1) ** k * np.exp(1j * z / 2 * np.cos(np.pi * k / (n + 1))) for k in range(-n - 1, n + 1)], axis=0)) ** 2 / 2" := rfl
