/- Source pin: the statements of a cache-relevant method of PulseSequence as the cache state machine
(Model/Cache.lean) was written for.  The literal is maintained by hand (tools/refresh_pins.py after a
deliberate change of /repo); the left-hand side is regenerated from /repo on every run. -/
import FFVerif.Gen.CacheSets

theorem FFVerif.C07.body_cache_control_matrix : FFVerif.Gen.body_cache_control_matrix = "if control_matrix is None: control_matrix = self.get_control_matrix(omega, show_progressbar, cache_intermediates) ; self._invalidate_frequency_dependent(omega) ; self.omega = omega ; if control_matrix.ndim == 4: self._control_matrix_pc = control_matrix else: self._control_matrix = control_matrix ; self.cache_total_phases(omega) ; if not self.is_cached('total_propagator_liouville'): self.total_propagator_liouville = liouville_representation(self.total_propagator, self.basis)" := rfl
