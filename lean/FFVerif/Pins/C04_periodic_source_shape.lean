/- Source pin moved out of Props/C04.lean so that an edit of the pinned function breaks only this
obligation (and not the build of the property's theorems). -/
import FFVerif.Gen.Constants
import FFVerif.Gen.Einsum
import FFVerif.Gen.CacheSets

namespace FFVerif.C04
open FFVerif

/-- **Source pin**: the statements of `calculate_control_matrix_periodic` as read by the translator
are the ones this model was written for (determinant test with `np.isclose(·, 0)`, linear solve of
`M X = 1 - T^G` where flagged invertible, `eye + sum(accumulate(repeat(T, G-1), matmul))`
elsewhere, `B @ S` per frequency). Any edit of that function breaks this obligation. -/
theorem periodic_source_shape :
    Gen.periodicInvertibleTest = "np.isclose(nla.det(M), 0)" ∧
    Gen.periodicBody = "eye = np.eye(total_propagator_liouville.shape[0]) ; T = np.multiply.outer(phases, total_propagator_liouville) ; M = eye - T ; if check_invertible: invertible = ~np.isclose(nla.det(M), 0) else: invertible = np.array(True) ; S = np.empty((*phases.shape, *total_propagator_liouville.shape), dtype=complex) ; S[invertible] = nla.solve(M[invertible], eye - nla.matrix_power(T[invertible], repeats)) ; if (~invertible).any(): S[~invertible] = eye + sum(accumulate(repeat(T[~invertible], repeats - 1), np.matmul)) ; control_matrix_tot = (control_matrix.transpose(2, 0, 1) @ S).transpose(1, 2, 0) ; return control_matrix_tot" :=
  ⟨rfl, rfl⟩

end FFVerif.C04
