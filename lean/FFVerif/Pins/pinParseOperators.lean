/- Source pin: the statements of the Python function as the hand-written model was written for.
The literal is maintained by hand (tools/refresh_pins.py after a deliberate change of /repo); the
left-hand side is regenerated from /repo on every run.  An edit of the function breaks this
obligation; the property's search then looks for a concrete failing input. -/
import FFVerif.Gen.Pins

theorem FFVerif.Pins.pinParseOperators : FFVerif.Gen.pinParseOperators = "parsed_opers = [] ; for oper in opers: if isinstance(oper, ndarray): parsed_opers.append(oper.squeeze()) elif hasattr(oper, 'full'): parsed_opers.append(oper.full()) elif hasattr(oper, 'to_array'): parsed_opers.append(oper.to_array()) elif hasattr(oper, 'todense'): parsed_opers.append(oper.todense()) elif hasattr(oper, 'data') and hasattr(oper, 'dexp'): parsed_opers.append(oper.data) else: raise TypeError(f'Expected operators in {err_loc} to be NumPy arrays or QuTiP Qobjs!') ; parsed_opers = np.asarray(parsed_opers, dtype=complex) ; if parsed_opers.ndim > 3: raise ValueError(f'Expected operators in {err_loc} to be two-dimensional!') ; if len(set(parsed_opers.shape[-2:])) != 1: raise ValueError(f'Expected operators in {err_loc} to be square!') ; return parsed_opers" := rfl
