/-
Model of `numeric.error_transfer_matrix` as a whole and of the argument plumbing / branch selection
at the top of `numeric.calculate_cumulant_function` (Mathlib-free, executable at IEEE doubles,
reasoned about at ℝ/ℂ in `FFVerif/Props/C09EtmFn.lean`).

`scipy.linalg.expm` is an ORACLE: the model returns the array that is handed to `sla.expm`
(`cumulant_function.sum(axis=tuple(range(cumulant_function.ndim - 2)))`), or the class of the
exception raised for a rejected argument combination.

`error_transfer_matrix` (statements pinned in `Gen.pinErrorTransferMatrix`):

    if cumulant_function is None:
        if pulse is None or spectrum is None or omega is None: raise ValueError('Require either …')
        cumulant_function = calculate_cumulant_function(pulse, spectrum, omega, n_oper_identifiers,
            'total', second_order, show_progressbar=…, memory_parsimonious=…, cache_intermediates=…)
    try:
        error_transfer_matrix = sla.expm(cumulant_function.sum(axis=tuple(range(ndim - 2))))
    except AttributeError: raise TypeError('cumulant_function invalid type …')
    except ValueError:     raise ValueError('cumulant_function invalid shape …')

`calculate_cumulant_function` (top):

    if spectrum is None and omega is None:
        if decay_amplitudes is None or (frequency_shifts is None and second_order): raise ValueError
    if which == 'correlations' and second_order: raise ValueError
    if cache_intermediates is None: cache_intermediates = second_order
    if decay_amplitudes is None: decay_amplitudes = calculate_decay_amplitudes(…)
    if second_order:
        if frequency_shifts is None: frequency_shifts = calculate_frequency_shifts(…)
        if frequency_shifts.shape != decay_amplitudes.shape: raise ValueError
    if d == 2 and pulse.basis.btype in ('Pauli', 'GGM') and pulse.basis == Basis.pauli(1):
        <single-qubit shortcut>    (Model.cumulantSingleQubit on the last two axes)
    else:
        <general branch>           (Model.cumulantGeneral on the last two axes)
    return cumulant_function.real

Arrays whose number of leading axes is not fixed (`decay_amplitudes` has shape `(m, N, N)`,
`(m, m, N, N)`, `(G, G, m, N, N)` or `(G, G, m, m, N, N)`; a user-supplied `cumulant_function` may
have any number of leading axes) are `Stack`s: nested `Vector`s indexed by the list of leading
dimensions.  The callees `calculate_decay_amplitudes` / `calculate_frequency_shifts` are the models
`Model.decayAmplitudesSel2/3` (`Model/Integrand.lean`) and `Model.frequencyShifts1/2/3`
(`Model/Shifts.lean`).
-/
import FFVerif.Core.Mat
import FFVerif.Gen.Constants
import FFVerif.Gen.Pins
import FFVerif.Model.Proto
import FFVerif.Model.Cumulant
import FFVerif.Model.Integrand
import FFVerif.Model.Shifts

namespace FFVerif.Model.EtmFn
open FFVerif FFVerif.Model

/-! ### Arrays with an arbitrary list of leading axes -/

/-- an array of shape `sh + (shape of α)`: nested vectors along the leading axes `sh` -/
def Stack (α : Type) : List Nat → Type
  | [] => α
  | n :: ns => Vector (Stack α ns) n

namespace Stack
variable {α β γ : Type}

/-- apply `f` on the trailing axes (the `...` of `oe.contract('...kl,klji->...ij', …)`) -/
def map (f : α → β) : (sh : List Nat) → Stack α sh → Stack β sh
  | [], x => f x
  | n :: ns, v => Vector.map (map f ns) (show Vector (Stack α ns) n from v)

/-- combine two arrays of the same leading shape on the trailing axes -/
def zipWith (f : α → β → γ) : (sh : List Nat) → Stack α sh → Stack β sh → Stack γ sh
  | [], x, y => f x y
  | n :: ns, v, w => Vector.ofFn fun i : Fin n =>
      zipWith f ns ((show Vector (Stack α ns) n from v)[i]) ((show Vector (Stack β ns) n from w)[i])

/-- `x.sum(axis=tuple(range(len(sh))))` of the trailing-axes quantity `f`: nested sums in axis
order (NumPy's summation order over several axes is an implementation detail; the sums agree up to
rounding) -/
def sum [Zero β] [Add β] (f : α → β) : (sh : List Nat) → Stack α sh → β
  | [], x => f x
  | n :: ns, v => fsum n fun i => sum f ns ((show Vector (Stack α ns) n from v)[i])

/-- number of leading index tuples -/
def size : List Nat → Nat
  | [] => 1
  | n :: ns => n * size ns

/-- row-major read: `leaf off` builds the trailing block that starts at block number `off` -/
def ofFlat (leaf : Nat → α) : (sh : List Nat) → Nat → Stack α sh
  | [], off => leaf off
  | n :: ns, off => Vector.ofFn fun i : Fin n => ofFlat leaf ns (off + i.1 * size ns)

/-- row-major write -/
def flatten (f : α → Array Float → Array Float) : (sh : List Nat) → Stack α sh → Array Float →
    Array Float
  | [], x, acc => f x acc
  | n :: ns, v, acc =>
    (show Vector (Stack α ns) n from v).toArray.foldl (fun acc x => flatten f ns x acc) acc

end Stack

/-- an ndarray with trailing block type `α` and run-time leading shape -/
structure Arr (α : Type) where
  shape : List Nat
  data : Stack α shape

/-! ### Exceptions -/

/-- the rejections of `error_transfer_matrix` / `calculate_cumulant_function` -/
inductive Err
  /-- `ValueError('Require either precomputed cumulant function or pulse, spectrum, and omega …')` -/
  | requireCumulantOrPulse
  /-- `ValueError('Require either spectrum and frequencies or precomputed decay amplitudes …')` -/
  | requireSpectrumOrAmplitudes
  /-- `ValueError('Cannot compute correlation cumulant function for second order terms')` -/
  | correlationsSecondOrder
  /-- `ValueError('Frequency shifts not same shape as decay amplitudes')` -/
  | shiftsShape
  /-- `TypeError('cumulant_function invalid type: …')` (from `AttributeError`: no `.sum`/`.ndim`) -/
  | invalidType
  /-- `ValueError('cumulant_function invalid shape: …')` (from `expm`'s `LinAlgError`) -/
  | invalidShape
  /-- exactly one of `spectrum`, `omega` is `None` and a callee that needs both is entered: an
  exception escapes from inside the callee (`TypeError: object of type 'NoneType' has no len()` for
  `omega=None`, `AttributeError: 'NoneType' object has no attribute 'ndim'` for `spectrum=None`) -/
  | calleeNone
  deriving DecidableEq, Repr, Inhabited

def Err.name : Err → String
  | .requireCumulantOrPulse => "require-cumulant-or-pulse"
  | .requireSpectrumOrAmplitudes => "require-spectrum-or-amplitudes"
  | .correlationsSecondOrder => "correlations-second-order"
  | .shiftsShape => "shifts-shape"
  | .invalidType => "invalid-type"
  | .invalidShape => "invalid-shape"
  | .calleeNone => "callee-none"

/-- Python class of the exception -/
def Err.pyClass : Err → String
  | .invalidType => "TypeError"
  | .calleeNone => "TypeError|AttributeError"
  | _ => "ValueError"

/-! ### Branch selection of `calculate_cumulant_function` -/

/-- `pulse.basis.btype`: the two labels the selector mentions, and every other string -/
inductive BType | pauli | ggm | other
  deriving DecidableEq, Repr, Inhabited

/-- `pulse.basis == Basis.pauli(1)` (`Basis.__eq__`): `False` unless the shapes agree
(`(N, d, d) == (4, 2, 2)`), else `np.allclose(…)`, whose outcome `close` is an input. -/
def basisEqPauli (N d : Nat) (close : Bool) : Bool := N == 4 && d == 2 && close

/-- the selector `d == 2 and pulse.basis.btype in ('Pauli', 'GGM') and pulse.basis ==
Basis.pauli(1)` (`Gen.cumulantShortcutTest`, the form after the repair of F34) -/
def shortcutTaken (N d : Nat) (bt : BType) (close : Bool) : Bool :=
  d == 2 && (bt == .pauli || bt == .ggm) && basisEqPauli N d close

/-- the selector as it stands in the source -/
def shortcutTestSource : String := Gen.cumulantShortcutTest

inductive Which | total | correlations
  deriving DecidableEq, Repr, Inhabited

section
variable {R K : Type}
  [Zero R] [One R] [Add R] [Mul R] [Neg R] [Sub R] [Div R] [NatCast R] [RealOps R]
  [Zero K] [One K] [Add K] [Mul K] [Neg K] [Sub K] [Div K] [CplxOps R K]

/-- the single-qubit shortcut on an `N × N` block with `N = 4` -/
def singleQubitAt {N : Nat} (h : N = 4) (Gamma : Mat K N N) (Delta : Option (Mat K N N)) :
    Mat K N N := by
  subst h
  exact cumulantSingleQubit Gamma Delta

/-- the `if … else` on the last two axes, before `.real`.  (`shortcut = true` forces
`basis.shape == (4, 2, 2)`, so the inner `else` is never reached from `shortcutTaken`.) -/
def cumulantLeaf {N : Nat} (shortcut : Bool) (T : Ten4 K N N N N) (Gamma : Mat K N N)
    (Delta : Option (Mat K N N)) : Mat K N N :=
  if shortcut then
    if h : N = 4 then singleQubitAt h Gamma Delta else cumulantGeneral Gamma Delta T
  else cumulantGeneral Gamma Delta T

/-- `calculate_cumulant_function(pulse, spectrum, omega, n_oper_identifiers, which, second_order,
decay_amplitudes, frequency_shifts, show_progressbar, memory_parsimonious, cache_intermediates)`.
* `shortcut` — outcome of the selector (`shortcutTaken`), `T = pulse.basis.four_element_traces`;
* `hasSpectrum`, `hasOmega` — `spectrum is not None`, `omega is not None`;
* `gammaArg`, `deltaArg` — the arguments `decay_amplitudes=`, `frequency_shifts=` (any dtype:
  entries in `K`);
* `gammaCalc ()`, `deltaCalc ()` — what `calculate_decay_amplitudes(pulse, spectrum, omega,
  n_oper_identifiers, which, show_progressbar, cache_intermediates, memory_parsimonious)` and
  `calculate_frequency_shifts(pulse, spectrum, omega, n_oper_identifiers, show_progressbar)` return
  (evaluated only where the Python calls them).
`show_progressbar`, `memory_parsimonious`, `cache_intermediates` are only handed to the callees. -/
def cumulantFunction {N : Nat} (shortcut : Bool) (T : Ten4 K N N N N)
    (hasSpectrum hasOmega : Bool) (which : Which) (secondOrder : Bool)
    (gammaArg deltaArg : Option (Arr (Mat K N N)))
    (gammaCalc deltaCalc : Unit → Arr (Mat K N N)) : Except Err (Arr (Mat R N N)) :=
  if !hasSpectrum && !hasOmega && (gammaArg.isNone || (deltaArg.isNone && secondOrder)) then
    .error .requireSpectrumOrAmplitudes
  else if which == .correlations && secondOrder then .error .correlationsSecondOrder
  else if gammaArg.isNone && !(hasSpectrum && hasOmega) then .error .calleeNone
  else
    let G : Arr (Mat K N N) := match gammaArg with
      | some g => g
      | none => gammaCalc ()
    if secondOrder then
      if deltaArg.isNone && !(hasSpectrum && hasOmega) then .error .calleeNone
      else
        let D : Arr (Mat K N N) := match deltaArg with
          | some d => d
          | none => deltaCalc ()
        if h : D.shape = G.shape then
          .ok ⟨G.shape, Stack.zipWith (fun g d => re2 (cumulantLeaf shortcut T g (some d))) G.shape
            G.data (h ▸ D.data)⟩
        else .error .shiftsShape
    else
      .ok ⟨G.shape, Stack.map (fun g => re2 (cumulantLeaf shortcut T g none)) G.shape G.data⟩

/-! ### `error_transfer_matrix` -/

/-- the argument `cumulant_function=` -/
inductive CumArg (R : Type)
  /-- an object without `.sum` / `.ndim` (list, tuple, scalar, …) -/
  | notArray
  /-- a 0-d ndarray: `sum(axis=())` leaves it alone and `expm` (SciPy ≥ 1.9) treats it as `1 × 1` -/
  | scalar (x : R)
  /-- a 1-d ndarray: `range(-1)` is empty, `expm` raises `LinAlgError` (a `ValueError`) -/
  | oneD
  /-- an ndarray with `ndim ≥ 2`: leading shape `sh`, trailing shape `(r, c)` -/
  | array (sh : List Nat) (r c : Nat) (data : Stack (Mat R r c) sh)

/-- a matrix with run-time shape -/
structure Mat2 (R : Type) where
  r : Nat
  c : Nat
  data : Mat R r c

/-- `cumulant_function.sum(axis=tuple(range(cumulant_function.ndim - 2)))`: everything except the
last two axes is summed -/
def sumLeading {r c : Nat} (sh : List Nat) (data : Stack (Mat R r c) sh) : Mat R r c :=
  Mat.ofFn fun i j => Stack.sum (fun M : Mat R r c => M[i][j]) sh data

/-- the `try:` block: what reaches `sla.expm` and is accepted by it (square last two axes), or the
exception -/
def expmArgOf : CumArg R → Except Err (Mat2 R)
  | .notArray => .error .invalidType
  | .scalar x => .ok ⟨1, 1, #v[#v[x]]⟩
  | .oneD => .error .invalidShape
  | .array sh r c data => if r = c then .ok ⟨r, c, sumLeading sh data⟩ else .error .invalidShape

/-- what `calculate_cumulant_function` reads off the `PulseSequence` for `which='total'` -/
structure PulseData (K : Type) (nA N d nO : Nat) where
  /-- `pulse.basis` -/
  basis : Vector (Mat K d d) N
  /-- `pulse.basis.btype` -/
  btype : BType
  /-- outcome of `np.allclose(pulse.basis, Basis.pauli(1))` if the shapes agree -/
  close : Bool
  /-- `pulse.is_cached('filter_function_gen')` -/
  ffGenCached : Bool
  /-- `pulse.get_control_matrix(omega, show_progressbar, cache_intermediates)` -/
  B : Ten3 K nA N nO
  /-- `pulse.get_filter_function(omega, which='generalized')` (read iff `ffGenCached`) -/
  Fgen : Ten5 K nA nA N N nO
  /-- `pulse.get_filter_function(omega, order=2)` (read iff `second_order`) -/
  F2 : Ten5 K nA nA N N nO

/-- embed a real array as a complex one (`oe.contract` of the real `decay_amplitudes` with the
complex `traces`) -/
def complexify {N : Nat} (sh : List Nat) (x : Stack (Mat R N N) sh) : Stack (Mat K N N) sh :=
  Stack.map (Mat.map (CplxOps.ofReal : R → K)) sh x

/-- `calculate_decay_amplitudes(pulse, spectrum, omega, n_oper_identifiers, 'total', …)` -/
def gammaTotal {nA N d nO m : Nat} (pars : Bool) (omega : Vec R nO) (p : PulseData K nA N d nO)
    (idx : Vec (Fin nA) m) : Spectrum K m nO → Arr (Mat R N N)
  | .one S => ⟨[m], decayAmplitudesSel2 p.ffGenCached pars omega p.B p.Fgen idx
      (replicateSpectrum S)⟩
  | .perOp S => ⟨[m], decayAmplitudesSel2 p.ffGenCached pars omega p.B p.Fgen idx S⟩
  | .cross S => ⟨[m, m], decayAmplitudesSel3 p.ffGenCached pars omega p.B p.Fgen idx S⟩

/-- `calculate_frequency_shifts(pulse, spectrum, omega, n_oper_identifiers, show_progressbar)` -/
def deltaTotal {nA N d nO m : Nat} (omega : Vec R nO) (p : PulseData K nA N d nO)
    (idx : Vec (Fin nA) m) : Spectrum K m nO → Arr (Mat R N N)
  | .one S => ⟨[m], frequencyShifts1 omega p.F2 idx S⟩
  | .perOp S => ⟨[m], frequencyShifts2 omega p.F2 idx S⟩
  | .cross S => ⟨[m, m], frequencyShifts3 omega p.F2 idx S⟩

def Arr.complexify {N : Nat} (a : Arr (Mat R N N)) : Arr (Mat K N N) :=
  ⟨a.shape, EtmFn.complexify a.shape a.data⟩

/-- the call `calculate_cumulant_function(pulse, spectrum, omega, n_oper_identifiers, 'total',
second_order, show_progressbar=…, memory_parsimonious=…, cache_intermediates=…)` made by
`error_transfer_matrix` (`idx = util.get_indices_from_identifiers(…)` resolved, spectrum parsed) -/
def cumulantFromPulse {nA N d nO m : Nat} (p : PulseData K nA N d nO) (S : Spectrum K m nO)
    (omega : Vec R nO) (idx : Vec (Fin nA) m) (secondOrder pars : Bool) :
    Except Err (Arr (Mat R N N)) :=
  cumulantFunction (shortcutTaken N d p.btype p.close) (fourElementTraces p.basis) true true .total
    secondOrder none none
    (fun _ => (gammaTotal pars omega p idx S).complexify)
    (fun _ => (deltaTotal omega p idx S).complexify)

/-- **`error_transfer_matrix(pulse, spectrum, omega, n_oper_identifiers, second_order,
cumulant_function, show_progressbar, memory_parsimonious, cache_intermediates)`** up to the call of
`sla.expm`: the argument of `expm`, or the exception.  `none` = the Python `None`.
`showProgressbar` and `cacheIntermediates` are accepted and (as in the source, where they only reach
`get_control_matrix` / the progress bar) do not enter the value. -/
def etmFn {nA N d nO m : Nat} (pulse : Option (PulseData K nA N d nO))
    (spectrum : Option (Spectrum K m nO)) (omega : Option (Vec R nO)) (idx : Vec (Fin nA) m)
    (secondOrder : Bool) (cum : Option (CumArg R)) (_showProgressbar pars _cacheIntermediates : Bool) :
    Except Err (Mat2 R) :=
  match cum with
  | some c => expmArgOf c
  | none =>
    match pulse, spectrum, omega with
    | some p, some S, some om =>
      match cumulantFromPulse p S om idx secondOrder pars with
      | .error e => .error e
      | .ok Kfn => expmArgOf (.array Kfn.shape N N Kfn.data)
    | _, _, _ => .error .requireCumulantOrPulse

end

/-- the source statements this file mirrors (checked against the repository by the pin machinery) -/
def errorTransferMatrixSource : String := Gen.pinErrorTransferMatrix

/-! ### Driver component -/

section Driver
open FFVerif.Proto

/-- real `r × c` block number `off` of flat row-major real data -/
def blockR (a : Array Float) (r c : Nat) (off : Nat) : Mat Float r c := matR a (off * r * c) r c
/-- complex `r × c` block number `off` of flat row-major complex data -/
def blockC (a : Array Float) (r c : Nat) (off : Nat) : Mat CF r c := matC a (off * r * c) r c

def parseShape (s : String) : List Nat :=
  if s == "-" || s.isEmpty then [] else (s.splitOn ",").map fun t => t.toNat!

def showShape (s : List Nat) : String :=
  if s.isEmpty then "-" else ",".intercalate (s.map toString)

def flatRMat {r c : Nat} (M : Mat Float r c) (acc : Array Float) : Array Float :=
  M.toArray.foldl (fun acc row => acc ++ row.toArray) acc

def parseBType (s : String) : BType :=
  if s == "Pauli" then .pauli else if s == "GGM" then .ggm else .other

def showResult (r : Except Err (Mat2 Float)) : String :=
  match r with
  | .error e => "err " ++ e.name
  | .ok M => "ok " ++ toString M.r ++ " " ++ toString M.c ++ " " ++ showFloats (flatRMat M.data #[])

/-- optional complex array argument `shape data` (`-` `-` = `None`) with trailing `N × N` blocks -/
def parseArrC (N : Nat) (shape data : String) : Option (Arr (Mat CF N N)) :=
  if data == "-" then none else
    let sh := parseShape shape
    some ⟨sh, Stack.ofFlat (blockC (parseFloats data) N N) sh 0⟩

/-- an absent (`-`) generalized / second-order filter function is never read; it is represented by
zeros (no parsing) -/
def ten5COpt (s : String) (nA N nO : Nat) : Ten5 CF nA nA N N nO :=
  if s == "-" then
    Vector.replicate nA (Vector.replicate nA (Vector.replicate N (Vector.replicate N
      (Vector.replicate nO 0))))
  else ten5C (parseFloats s) 0 nA nA N N nO

/-- driver component (`N`, `d`, … plain decimals; arrays as in `Driver.lean`; `-` = absent / `None`;
booleans `0|1`).
* `etmgiven kind(notarray|scalar|oned|array) sh(comma separated | -) r c data(reals)`
  → `ok r c <r*c reals>` | `err <class>`: `error_transfer_matrix(cumulant_function=…)`;
* `etmfn hasPulse hasSpectrum hasOmega second pars shape(1|2|3) d N nA nO m btype(Pauli|GGM|…)
  close ffcached idx(m decimals | -) basis(N*d*d complex) B(nA*N*nO complex | -)
  Fgen(nA*nA*N*N*nO complex | -) F2(same | -) S(complex: nO | m*nO | m*m*nO) omega(nO reals)`
  → `ok N N <N*N reals>` | `err <class>`: `error_transfer_matrix(pulse, spectrum, omega, …)`;
* `cumfn which(total|correlations) second hasSpectrum hasOmega d N btype close basis(N*d*d complex)
  gArgShape gArg dArgShape dArg gCalcShape gCalc dCalcShape dCalc` (complex data, trailing `N × N`)
  → `ok <shape> <reals>` | `err <class>`: `calculate_cumulant_function`. -/
def handleEtmFn (toks : List String) : Option String :=
  let parseIdx (s : String) (n bound : Nat) : Option (Vec (Fin bound) n) :=
    let l : Array Nat := if s == "-" || s.isEmpty then #[] else
      (s.splitOn ",").toArray.map fun t => t.toNat!
    if h : 0 < bound then
      if l.size == n && l.all (fun v => decide (v < bound)) then
        some (Vector.ofFn fun i => ⟨l[i.1]! % bound, Nat.mod_lt _ h⟩)
      else none
    else if hn : n = 0 then some (hn ▸ #v[]) else none
  match toks with
  | ["etmgiven", kind, sh, r, c, data] =>
    let r := r.toNat!; let c := c.toNat!
    let a := parseFloats data
    let arg : CumArg Float :=
      if kind == "notarray" then .notArray
      else if kind == "scalar" then .scalar a[0]!
      else if kind == "oned" then .oneD
      else
        let sh := parseShape sh
        .array sh r c (Stack.ofFlat (blockR a r c) sh 0)
    some (showResult (etmFn (K := CF) (nA := 0) (N := 0) (d := 0) (nO := 0) (m := 0)
      none none none #v[] false (some arg) false false false))
  | ["etmfn", hasPulse, hasSpectrum, hasOmega, second, pars, shape, d, N, nA, nO, m, btype, close,
      ffcached, idx, basis, B, Fgen, F2, S, omega] =>
    let d := d.toNat!; let N := N.toNat!; let nA := nA.toNat!; let nO := nO.toNat!
    let m := m.toNat!
    match parseIdx idx m nA with
    | none => some "err index"
    | some ix =>
      let p : PulseData CF nA N d nO :=
        { basis := ten3C (parseFloats basis) 0 N d d
          btype := parseBType btype
          close := close == "1"
          ffGenCached := ffcached == "1"
          B := if B == "-" then Vector.replicate nA (Vector.replicate N (Vector.replicate nO 0))
            else ten3C (parseFloats B) 0 nA N nO
          Fgen := ten5COpt Fgen nA N nO
          F2 := ten5COpt F2 nA N nO }
      let sa := parseFloats S
      let sp : Spectrum CF m nO :=
        if shape == "1" then .one (vecC sa 0 nO)
        else if shape == "2" then .perOp (matC sa 0 m nO)
        else .cross (ten3C sa 0 m m nO)
      let om : Vec Float nO := vecR (parseFloats omega) 0 nO
      some (showResult (etmFn (if hasPulse == "1" then some p else none)
        (if hasSpectrum == "1" then some sp else none) (if hasOmega == "1" then some om else none)
        ix (second == "1") none false (pars == "1") false))
  | ["cumfn", which, second, hasSpectrum, hasOmega, d, N, btype, close, basis, gArgShape, gArg,
      dArgShape, dArg, gCalcShape, gCalc, dCalcShape, dCalc] =>
    let d := d.toNat!; let N := N.toNat!
    let C : Vector (Mat CF d d) N := ten3C (parseFloats basis) 0 N d d
    let dflt : Arr (Mat CF N N) := ⟨[], Vector.replicate N (Vector.replicate N 0)⟩
    let r : Except Err (Arr (Mat Float N N)) :=
      cumulantFunction (shortcutTaken N d (parseBType btype) (close == "1")) (fourElementTraces C)
        (hasSpectrum == "1") (hasOmega == "1")
        (if which == "correlations" then .correlations else .total) (second == "1")
        (parseArrC N gArgShape gArg) (parseArrC N dArgShape dArg)
        (fun _ => (parseArrC N gCalcShape gCalc).getD dflt)
        (fun _ => (parseArrC N dCalcShape dCalc).getD dflt)
    match r with
    | .error e => some ("err " ++ e.name)
    | .ok a => some ("ok " ++ showShape a.shape ++ " " ++
        showFloats (Stack.flatten flatRMat a.shape a.data #[]))
  | _ => none

end Driver

end FFVerif.Model.EtmFn
