/-
Model of what `pulse_sequence.concatenate_periodic` and `pulse_sequence.concatenate` /
`concatenate_without_filter_function` form for the DEFINITION and PROPAGATOR part of the new pulse
(Mathlib-free, executable at IEEE doubles, reasoned about at ℝ/ℂ in `FFVerif.Props.C04Tile`):

* `np.tile(pulse.dt, repeats)`, `np.tile(pulse.c_coeffs, (1, repeats))` (`tileVec`, `tileCoeffs`);
* `newpulse.tau = repeats*pulse.tau`;
* `newpulse.total_propagator = nla.matrix_power(pulse.total_propagator, repeats)` with NumPy's
  algorithm (`matrixPower`: short cuts for `n ≤ 3`, binary decomposition above);
* `newpulse.total_propagator_liouville`: `concatenate_periodic` does NOT store it; the getter forms
  `liouville_representation(newpulse.total_propagator, basis)` on first access;
* `concatenate`: `util.mdot([pls.total_propagator for pls in pulses][::-1])`
  (`functools.reduce(np.matmul, …)`), `sum(pulse.tau for pulse in pulses)`,
  `np.concatenate(tuple(pulse.dt for pulse in pulses))`.
-/
import FFVerif.Core.Mat
import FFVerif.Model.Proto
import FFVerif.Model.Diag
import FFVerif.Model.Periodic
import FFVerif.Model.Superop
import FFVerif.Model.Concat

namespace FFVerif.Model
open FFVerif

/-! ### `np.tile` -/

/-- `np.tile(v, G)` for a one-dimensional array: entry `r` is `v[r mod n]` -/
def tileVec {α : Type} {n : Nat} (G : Nat) (v : Vector α n) : Vector α (G * n) :=
  Vector.ofFn fun r => v[Fin.lo r]

/-- `np.tile(c, (1, G))` for a two-dimensional array: every row tiled -/
def tileCoeffs {α : Type} {nC n : Nat} (G : Nat) (c : Mat α nC n) : Mat α nC (G * n) :=
  Vector.map (tileVec G) c

/-- coefficient rows of two pulses with a common operator list, one after the other
(`np.concatenate` along the time axis, as `_concatenate_Hamiltonian` fills the rows) -/
def appendCoeffs {α : Type} {nC n1 n2 : Nat} (c1 : Mat α nC n1) (c2 : Mat α nC n2) :
    Mat α nC (n1 + n2) :=
  Vector.ofFn fun i => c1[i] ++ c2[i]

/-! ### `numpy.linalg.matrix_power` -/

section
variable {K : Type} [Zero K] [One K] [Add K] [Mul K]

/-- `result = z if result is None else fmatmul(result, z)` -/
def accMul {d : Nat} (result : Option (Mat K d d)) (z : Mat K d d) : Mat K d d :=
  match result with
  | none => z
  | some r => Mat.mul r z

/-- the loop `while n > 0: z = a if z is None else z @ z; n, bit = divmod(n, 2);
if bit: result = z if result is None else result @ z` of `matrix_power`.  `z` is the value *after*
the first statement of the current iteration, `n` the value before `divmod`. -/
def matrixPowerLoop {d : Nat} : Nat → Mat K d d → Nat → Option (Mat K d d) → Option (Mat K d d)
  | 0, _, _, result => result
  | fuel + 1, z, n, result =>
    let result' : Option (Mat K d d) := if n % 2 = 1 then some (accMul result z) else result
    if n / 2 = 0 then result' else matrixPowerLoop fuel (Mat.mul z z) (n / 2) result'

/-- `numpy.linalg.matrix_power(a, n)` for `n ≥ 0` (NumPy 1.26): identity for `0`, `a`, `a @ a`,
`(a @ a) @ a` for `1, 2, 3`, binary decomposition (LSB first) above. -/
def matrixPower {d : Nat} (a : Mat K d d) (n : Nat) : Mat K d d :=
  if n = 0 then Mat.one
  else if n = 1 then a
  else if n = 2 then Mat.mul a a
  else if n = 3 then Mat.mul (Mat.mul a a) a
  else (matrixPowerLoop n a n none).getD Mat.one

/-- `functools.reduce(np.matmul, arr)` (`util.mdot`); `none` models the `TypeError` of `reduce` on
an empty sequence -/
def mdot {d : Nat} : List (Mat K d d) → Option (Mat K d d)
  | [] => none
  | x :: xs => some (xs.foldl Mat.mul x)

/-- `concatenate`: `util.mdot([pls.total_propagator for pls in pulses][::-1])` -/
def concatTotalPropagator {d : Nat} (Qs : List (Mat K d d)) : Option (Mat K d d) :=
  mdot Qs.reverse

end

/-- `concatenate_without_filter_function`: `newpulse.tau = sum(pulse.tau for pulse in pulses)`
(Python's `sum` starts from the integer `0`) -/
def concatTau {R : Type} [Zero R] [Add R] (taus : List R) : R := taus.foldl (· + ·) 0

/-- `np.concatenate(tuple(pulse.dt for pulse in pulses))` for arrays of individual lengths -/
def concatDt {R : Type} : List ((n : Nat) × Vec R n) → (n : Nat) × Vec R n
  | [] => ⟨0, #v[]⟩
  | ⟨n, v⟩ :: rest => ⟨n + (concatDt rest).1, v ++ (concatDt rest).2⟩

/-! ### what `concatenate_periodic` stores -/

/-- definition / propagator part of `concatenate_periodic(pulse, G)` -/
structure PeriodicDef (R K : Type) (nC nA n d N G : Nat) where
  /-- `np.tile(pulse.dt, repeats)` -/
  dt : Vec R (G * n)
  /-- `np.tile(pulse.c_coeffs, (1, repeats))` -/
  cCoeffs : Mat R nC (G * n)
  /-- `np.tile(pulse.n_coeffs, (1, repeats))` -/
  nCoeffs : Mat R nA (G * n)
  /-- `newpulse.tau = repeats*pulse.tau` (the stored `_tau`; the getter `PulseSequence.tau`
  recomputes `t[-1]` or `dt.sum()` from the tiled `dt` on every access) -/
  tau : R
  /-- `nla.matrix_power(pulse.total_propagator, repeats)` (set when the pulse has a cached control
  matrix; otherwise `total_propagator` is obtained by diagonalizing the tiled pulse) -/
  totalPropagator : Mat K d d
  /-- `newpulse.total_propagator_liouville` as its getter forms it on first access:
  `liouville_representation(newpulse.total_propagator, basis)` -/
  totalLiouville : Mat K N N

section
variable {R K : Type}
  [Zero R] [One R] [Add R] [Mul R] [Neg R] [Sub R] [Div R] [NatCast R] [RealOps R]
  [Zero K] [One K] [Add K] [Mul K] [Neg K] [Sub K] [Div K] [CplxOps R K]

/-- `concatenate_periodic(pulse, G)`, definition / propagator part.  Inputs: the pulse's
coefficients and durations, `pulse.tau`, `pulse.total_propagator`, the basis (`castReal` = the
`hermitian=basis.isherm` switch of `basis.expand`). -/
def concatPeriodicDef {nC nA n d N : Nat} (G : Nat) (cCoeffs : Mat R nC n) (nCoeffs : Mat R nA n)
    (dt : Vec R n) (tauP : R) (Q : Mat K d d) (basis : Vector (Mat K d d) N) (castReal : Bool) :
    PeriodicDef R K nC nA n d N G where
  dt := tileVec G dt
  cCoeffs := tileCoeffs G cCoeffs
  nCoeffs := tileCoeffs G nCoeffs
  tau := (G : R) * tauP
  totalPropagator := matrixPower Q G
  totalLiouville := liouville (matrixPower Q G) basis castReal

end

/-! ### the record `calculate_control_matrix_from_scratch` reads from a diagonalized pulse -/

section
variable {R K : Type}
  [Zero R] [One R] [Add R] [Mul R] [Neg R] [Sub R] [Div R] [RealOps R]
  [Zero K] [One K] [Add K] [Mul K] [Neg K] [Sub K] [Div K] [CplxOps R K]

/-- the `PulseData` record of a pulse after `diagonalize`: eigen-data as returned by `eigh`,
`propagators[:-1]`, `t[:-1]`, `total_propagator = propagators[-1]`, `tau = t[-1]` — all computed by
the model of `numeric.diagonalize` / `PulseSequence.t` from the eigen-data and the durations -/
def PulseData.ofDiag {n d nA : Nat} (eigvals : Mat R n d) (eigvecs : Vector (Mat K d d) n)
    (nCoeffs : Mat R nA n) (dt : Vec R n) : PulseData R K d nA where
  nG := n
  eigvals := eigvals
  eigvecs := eigvecs
  props := Vector.ofFn fun i => (propagators eigvals eigvecs dt)[i.1]
  nCoeffs := nCoeffs
  dt := dt
  t := Vector.ofFn fun i => (times dt)[i.1]
  Qtot := totalPropagator eigvals eigvecs dt
  tau := Model.tau dt

end

open FFVerif.Proto in
/-- driver component.
* `tileper G nC nA n d N castReal c_coeffs(nC*n) n_coeffs(nA*n) dt(n) tau Q(d*d complex)
  basis(N*d*d complex)` → `ok` followed by, concatenated: `dt (G*n)`, `c_coeffs (nC*G*n)`,
  `n_coeffs (nA*G*n)`, stored `tau`, `t` of the new `dt` (`G*n+1`), `t[-1]`, `dt.sum()`,
  `total_propagator (d*d complex)`, `total_propagator_liouville (N*N complex)`,
  `Mat.pow L G` with `L = liouville(Q)` (`N*N complex`), `Mat.pow Q G` (`d*d complex`);
* `tileham G nC n d c_opers(nC*d*d complex) c_coeffs(nC*n)` → `ok <hamiltonian of the tiled
  coefficients, G*n*d*d complex>`;
* `concattp P d Q(P*d*d complex)` → `ok <mdot(Q[::-1]), d*d complex>` / `err empty`;
* `concatliou P N L(P*N*N complex)` → `ok <L of concatenate, P*N*N complex>`;
* `concatdef P ns(comma separated lengths) dts(all dt, flattened) taus(P)` → `ok` followed by the
  concatenated `dt`, its `t`, `t[-1]`, `sum(taus)`. -/
def handleTile (toks : List String) : Option String :=
  match toks with
  | ["tileper", G, nC, nA, n, d, N, cast, cC, nCo, dt, tauP, Q, basis] =>
    let G := G.toNat!; let nC := nC.toNat!; let nA := nA.toNat!; let n := n.toNat!
    let d := d.toNat!; let N := N.toNat!
    let q : Mat CF d d := matC (parseFloats Q) 0 d d
    let b : Vector (Mat CF d d) N := ten3C (parseFloats basis) 0 N d d
    let D : PeriodicDef Float CF nC nA n d N G :=
      concatPeriodicDef G (matR (parseFloats cC) 0 nC n) (matR (parseFloats nCo) 0 nA n)
        (vecR (parseFloats dt) 0 n) (f0 tauP) q b (cast == "1")
    let flatR2 {m k : Nat} (a : Mat Float m k) : Array Float :=
      a.toArray.foldl (fun acc r => acc ++ r.toArray) #[]
    let out : Array Float :=
      D.dt.toArray ++ flatR2 D.cCoeffs ++ flatR2 D.nCoeffs ++ #[D.tau]
        ++ (times D.dt).toArray ++ #[tau D.dt, tauSum D.dt]
        ++ flatC2 D.totalPropagator ++ flatC2 D.totalLiouville
        ++ flatC2 (Mat.pow (liouville q b (cast == "1")) G) ++ flatC2 (Mat.pow q G)
    some ("ok " ++ showFloats out)
  | ["tileham", G, nC, n, d, cOpers, cC] =>
    let G := G.toNat!; let nC := nC.toNat!; let n := n.toNat!; let d := d.toNat!
    let r : Ten3 CF (G * n) d d := hamiltonian (ten3C (parseFloats cOpers) 0 nC d d)
      (tileCoeffs G (matR (parseFloats cC) 0 nC n))
    some ("ok " ++ showFloats (flatC3 r))
  | ["concattp", P, d, Q] =>
    let P := P.toNat!; let d := d.toNat!
    let qs : Vector (Mat CF d d) P := ten3C (parseFloats Q) 0 P d d
    match concatTotalPropagator qs.toList with
    | some r => some ("ok " ++ showFloats (flatC2 r))
    | none => some "err empty"
  | ["concatliou", P, N, L] =>
    let P := P.toNat!; let N := N.toNat!
    let lt : Vector (Mat CF N N) P := ten3C (parseFloats L) 0 P N N
    some ("ok " ++ showFloats (flatC3 (concatL lt)))
  | ["concatdef", _P, ns, dts, taus] =>
    let lens : List Nat := if ns == "-" then [] else (ns.splitOn ",").map String.toNat!
    let a := parseFloats dts
    let rec build (ls : List Nat) (off : Nat) : List ((n : Nat) × Vec Float n) :=
      match ls with
      | [] => []
      | n :: rest => ⟨n, vecR a off n⟩ :: build rest (off + n)
    let c := concatDt (build lens 0)
    let out : Array Float :=
      c.2.toArray ++ (times c.2).toArray ++ #[tau c.2, concatTau (parseFloats taus).toList]
    some ("ok " ++ showFloats out)
  | _ => none

end FFVerif.Model
