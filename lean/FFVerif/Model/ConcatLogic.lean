/-
Decision logic of `filter_functions.pulse_sequence.concatenate`: WHICH filter-function
computation is performed, on WHICH frequency grid, or which exception is raised — as a function
of the cache states of the input pulses and of the options.  No numerics.

Abstraction (what the branch conditions of `concatenate` look at):
* per input pulse (`PulseState`): `is_cached('total_propagator')`, `is_cached('control_matrix')`
  and the cached frequency grid `pulse.omega` (`none` = `None`, i.e. `is_cached('omega')` is
  `False`; grids are represented by ids, equal ids <-> equal `tobytes()` <-> equal hash in
  `util.all_array_equal`, hash collisions ignored);
* the call (`Opts`): `calc_pulse_correlation_FF`, `calc_filter_function` (`None`/`True`/`False`),
  `omega=` (id of the grid passed, `none` = not passed), and the two facts the code derives from
  operators and basis: `equal_n_opers = (n_opers_present.sum(axis=0) > 1).any()` (some noise
  operator of the concatenated pulse is present in at least two input pulses) and
  `newpulse.basis.iscomplete`.
The pulses are assumed compatible (`concatenate_without_filter_function` does not raise), except
that the empty tuple is kept: `concatenate_without_filter_function(())` raises `ValueError`
("incompatible Hamiltonian shapes", the set of shapes is empty).  For a single pulse
`equal_n_opers` is `False` in the real code; the harness must pass `equalNOpers = 0` then.

The source is followed statement by statement, in its order; every `return newpulse` and every
`raise` is one constructor application below.  Python line numbers refer to `pulse_sequence.py`
of the checkout the model was written against (function `concatenate`).

Mathlib-free; executed by the driver (`handleConcatLogic`) and reasoned about in `Props/C03d`.
-/

namespace FFVerif.Model.ConcatLogic

/-- cache state of one input pulse, as far as `concatenate` looks at it -/
structure PulseState where
  /-- `pulse.is_cached('total_propagator')` -/
  tpCached : Bool
  /-- `pulse.is_cached('control_matrix')` -/
  cmCached : Bool
  /-- id of `pulse.omega`; `none` = `pulse.omega is None` (`is_cached('omega')` false) -/
  omega : Option Nat
deriving DecidableEq, Repr, Inhabited

/-- options of the call and the derived facts -/
structure Opts where
  /-- `calc_pulse_correlation_FF` -/
  calcPc : Bool
  /-- `calc_filter_function` (`None` / `True` / `False`) -/
  calcFF : Option Bool
  /-- id of the grid passed as `omega=`, `none` = `omega is None` -/
  omegaGiven : Option Nat
  /-- `equal_n_opers`: some noise operator is present in at least two of the pulses -/
  equalNOpers : Bool
  /-- `newpulse.basis.iscomplete` -/
  basisComplete : Bool
deriving DecidableEq, Repr, Inhabited

/-- exception classes.  `indexError` (`np.nonzero(mask)[0][0]` on an all-`False` mask) and
`typeError` (frequencies `None` handed to the calculation) are the classes the statements WOULD
raise if they were reached in such a state; `Props/C03d.no_other_errors` proves they are not. -/
inductive Err | valueError | indexError | attributeError | typeError
deriving DecidableEq, Repr, Inhabited

def Err.name : Err → String
  | .valueError => "ValueError"
  | .indexError => "IndexError"
  | .attributeError => "AttributeError"
  | .typeError => "TypeError"

/-- which filter-function computation is performed -/
inductive FFKind
  /-- no filter function computed (`return newpulse` before any calculation) -/
  | none
  /-- `newpulse.cache_filter_function(omega)`: control matrix of the whole pulse from scratch -/
  | fromScratch (g : Nat)
  /-- incomplete basis and pulse correlations: one control matrix from scratch per input pulse,
  stacked, `cache_filter_function(omega, control_matrix)` -/
  | pcFromScratch (g : Nat)
  /-- control matrices of the inputs (cached ones reused) combined with
  `calculate_control_matrix_from_atomic`; `pc` = `'correlations'` instead of `'total'` -/
  | fromAtomic (g : Nat) (pc : Bool)
deriving DecidableEq, Repr, Inhabited

structure Decision where
  /-- `newpulse.total_propagator` was set by `concatenate` itself: before any filter-function
  work because all inputs had it cached, or later on the atomic path (where it is set
  unconditionally).  (After the call the attribute can be cached in more cases, as a side effect
  of `diagonalize()` inside `cache_filter_function`; that is not part of the decision.) -/
  tpSet : Bool
  ff : FFKind
deriving DecidableEq, Repr, Inhabited

/-- `itertools.compress(data, selectors)` -/
def compress {α : Type} : List α → List Bool → List α
  | x :: xs, b :: bs => if b then x :: compress xs bs else compress xs bs
  | _, _ => []

/-- `(pls.omega.tobytes() for pls in …)` consumed in order: `None.tobytes()` raises
`AttributeError` at the first pulse without cached frequencies -/
def tobytesAll : List PulseState → Except Err (List Nat)
  | [] => .ok []
  | p :: ps =>
    match p.omega with
    | none => .error .attributeError
    | some g =>
      match tobytesAll ps with
      | .ok l => .ok (g :: l)
      | .error e => .error e

/-- `util.all_array_equal`: `len(set(hash(i.tobytes()) for i in it)) == 1` — in particular
`False` for an empty iterable -/
def allArrayEqual (l : List Nat) : Bool := l.eraseDups.length == 1

/-- `np.nonzero(mask)[0][0]`: index of the first `True`; `none` = `IndexError` -/
def firstTrue : List Bool → Option Nat
  | [] => none
  | b :: bs => if b then some 0 else (firstTrue bs).map (· + 1)

/-- The block `if omega is None: …` (l. 1765–1799).  `.ok none` = one of its `return newpulse`
(no filter function), `.ok (some g)` = fall through with `omega = g`. -/
def chooseOmega (ps : List PulseState) (o : Opts) : Except Err (Option Nat) :=
  match o.omegaGiven with
  | some g => .ok (some g)                                        -- `omega is None` false
  | none =>
    -- cached_ctrl_mat = [pls.is_cached('control_matrix') for pls in pulses]
    let cachedCm : List Bool := ps.map (·.cmCached)
    -- cached_omega = [pls.is_cached('omega') for pls in pulses]   (only in the `else`)
    let cachedOm : List Bool := ps.map (·.omega.isSome)
    -- if any(cached_ctrl_mat): equal_omega = all_array_equal(pls.omega for pls in compress(…))
    -- else:                    the same over compress(pulses, cached_omega)
    let sel := if cachedCm.any id then compress ps cachedCm else compress ps cachedOm
    match tobytesAll sel with
    | .error e => .error e
    | .ok bs =>
      let equalOmega := allArrayEqual bs
      if !equalOmega then
        -- if calc_filter_function: raise ValueError
        if o.calcFF == some true then .error .valueError
        -- if calc_pulse_correlation_FF: raise ValueError
        else if o.calcPc then .error .valueError
        -- return newpulse
        else .ok none
      -- if calc_filter_function is None and not calc_pulse_correlation_FF:
      --     if not equal_n_opers or not any(cached_ctrl_mat): return newpulse
      else if o.calcFF == none && !o.calcPc && (!o.equalNOpers || !cachedCm.any id) then .ok none
      else
        -- ind = np.nonzero(cached_ctrl_mat)[0][0] if any(cached_ctrl_mat)
        --       else np.nonzero(cached_omega)[0][0]
        match firstTrue (if cachedCm.any id then cachedCm else cachedOm) with
        | none => .error .indexError
        | some ind =>
          -- omega = pulses[ind].omega
          match ps[ind]? with
          | none => .error .indexError
          | some p =>
            match p.omega with
            | some g => .ok (some g)
            | none => .error .typeError

/-- The tail of `concatenate` after the frequencies are fixed (l. 1801–1876). -/
def compute (allTp : Bool) (o : Opts) (g : Nat) : Decision :=
  -- if (not equal_n_opers or not newpulse.basis.iscomplete) and not calc_pulse_correlation_FF:
  if (!o.equalNOpers || !o.basisComplete) && !o.calcPc then ⟨allTp, .fromScratch g⟩
  -- if not newpulse.basis.iscomplete:
  else if !o.basisComplete then ⟨allTp, .pcFromScratch g⟩
  -- atomic path; `if not newpulse.is_cached('total_propagator'): newpulse.total_propagator = …`
  else ⟨true, .fromAtomic g o.calcPc⟩

/-- `concatenate` after the single-pulse shortcut: from the call of
`concatenate_without_filter_function` on (l. 1732–1876). -/
def concatGeneral (ps : List PulseState) (o : Opts) : Except Err Decision :=
  match ps with
  -- concatenate_without_filter_function(()) raises ValueError
  | [] => .error .valueError
  | _ :: _ =>
    -- if all(pls.is_cached('total_propagator') …): newpulse.total_propagator = …
    let allTp := ps.all (·.tpCached)
    -- if calc_filter_function is False and not calc_pulse_correlation_FF: return newpulse
    if o.calcFF == some false && !o.calcPc then .ok ⟨allTp, .none⟩
    else
      match chooseOmega ps o with
      | .error e => .error e
      | .ok none => .ok ⟨allTp, .none⟩
      | .ok (some g) => .ok (compute allTp o g)

/-- `concatenate(pulses, calc_pulse_correlation_FF, calc_filter_function, which, omega)`.

One pulse is deep-copied only if no calculation is forced
(`not calc_filter_function`: `None` or `False`) and no correlations are requested; otherwise it
takes the general path like any other tuple.  For ONE pulse the real `equal_n_opers` is always
`False` (no noise operator is present in two pulses): the harness must pass `equalNOpers = 0` for
single-pulse inputs (the model keeps the flag as an input and does not correct it). -/
def concatLogic (ps : List PulseState) (o : Opts) : Except Err Decision :=
  match ps with
  -- if len(pulses) == 1 and not calc_filter_function and not calc_pulse_correlation_FF:
  --     return copy.deepcopy(pulses[0])
  | [p] =>
    if !(o.calcFF == some true) && !o.calcPc then .ok ⟨p.tpCached, .none⟩
    else concatGeneral [p] o
  | _ => concatGeneral ps o

/-! ### driver component

`concatlogic <pulses> <calcPc 0|1> <calcFF -|0|1> <omegaGiven -|id> <equalNOpers 0|1>
<basisComplete 0|1>`, pulses joined by `|`, each `tp,cm,omega` (`0|1,0|1,-|id`); the empty tuple
of pulses is written `-`.  Answers: `ok <tpSet 0|1> none`, `ok <tpSet> scratch:<g>`,
`ok <tpSet> pcscratch:<g>`, `ok <tpSet> atomic:<g>:<pc 0|1>`, `err <ExceptionClass>`,
`err bad-request`. -/

private def pB (s : String) : Option Bool :=
  if s == "0" then some false else if s == "1" then some true else none

private def pOptNat (s : String) : Option (Option Nat) :=
  if s == "-" then some none else s.toNat?.map some

private def pOptB (s : String) : Option (Option Bool) :=
  if s == "-" then some none else (pB s).map some

private def pPulse (s : String) : Option PulseState :=
  match s.splitOn "," with
  | [tp, cm, om] => do pure { tpCached := ← pB tp, cmCached := ← pB cm, omega := ← pOptNat om }
  | _ => none

private def pPulses (s : String) : Option (List PulseState) :=
  if s == "-" then some [] else (s.splitOn "|").mapM pPulse

private def b01 (b : Bool) : String := if b then "1" else "0"

def showDecision (d : Decision) : String :=
  "ok " ++ b01 d.tpSet ++ " " ++
    match d.ff with
    | .none => "none"
    | .fromScratch g => "scratch:" ++ toString g
    | .pcFromScratch g => "pcscratch:" ++ toString g
    | .fromAtomic g pc => "atomic:" ++ toString g ++ ":" ++ b01 pc

def handleConcatLogic (toks : List String) : Option String :=
  match toks with
  | ["concatlogic", ps, pc, cf, og, en, bc] =>
    let r : Option String := do
      let o : Opts := { calcPc := ← pB pc, calcFF := ← pOptB cf, omegaGiven := ← pOptNat og,
                        equalNOpers := ← pB en, basisComplete := ← pB bc }
      match concatLogic (← pPulses ps) o with
      | .ok d => pure (showDecision d)
      | .error e => pure ("err " ++ e.name)
    some (r.getD "err bad-request")
  | "concatlogic" :: _ => some "err bad-request"
  | _ => none

end FFVerif.Model.ConcatLogic
