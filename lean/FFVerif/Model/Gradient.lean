/-
Model of the integral kernels and of the selection / assembly algebra of
`filter_functions/gradient.py` (and of `PulseSequence.get_filter_function_derivative`).
Mathlib-free, executable at IEEE doubles, reasoned about at ℝ/ℂ (Props/C11).

## `_derivative_integral(E, eigvals, dt, out)` — derivation of the closed forms

Array code (shapes: `E (nO)`, `eigvals (d)`, `out (nO, d, d, d, d)`):

    dE[i,j]        = ev[i] - ev[j]                                  (d, d)
    EdE[o,i,j]     = E[o] + dE[i,j]                                 (nO, d, d)
    EdEdE[o,i,j,l] = EdE[o,i,j] + dE[p_l,q_l]                       (nO, d, d, L)
        where l enumerates (row-major) the L pairs (p,q) with  NOT |dE[p,q]| < 1e-7.

Write `x = EdE[o,i,j]`, `Ω = dE[p,q]`, `y = x + Ω`, and `m(v) := |v| < 1e-7`.

*Case `Ω_pq ≈ 0`* (the `tmp1`/`tmp2` juggling):

    tmp1 = e^{i x dt} / x                       (garbage where m(x): `np.divide(…, where=)`)
    tmp2 = tmp1 - 1/x = (e^{i x dt} - 1)/x      ;  tmp2[m(x)] = i·dt
    tmp1 = tmp1·(-i·dt) + tmp2/x
         = -i·dt·e^{i x dt}/x + (e^{i x dt} - 1)/x²   ;  tmp1[m(x)] = dt²/2
    out[:, mask_dE] = tmp1[:, None]

`out[:, mask_dE]` indexes axes 1,2 of `out` with the boolean `(d,d)` mask and has shape
`(nO, L₀, d, d)`; `tmp1[:, None]` (shape `(nO,1,d,d)`) is broadcast along the pair axis.  Hence

    out[o, p, q, i, j] = tmp1[o, i, j]          for every pair (p,q) with m(dE[p,q]).

*Case `Ω_pq ≉ 0`*:

    tmp1[o,i,j,l] = (1 - e^{i y dt})/y          ;  tmp1[m(y)] = -i·dt
    tmp1         += tmp2[..., None]             (the masked `tmp2` from above)
    out[:, ~mask_dE] = (tmp1 / dE[~mask_dE]).transpose(0, 3, 1, 2)

`tmp1 / dE[~mask_dE]` divides along the last (pair) axis `l`; the transpose moves that axis to
position 1, matching the shape `(nO, L, d, d)` of `out[:, ~mask_dE]`.  Hence

    out[o, p_l, q_l, i, j] = ( (1 - e^{i y dt})/y + (e^{i x dt} - 1)/x ) / Ω_{p_l q_l}.

**Index convention.**  In `out[o, i1, i2, i3, i4]`:
  * `(i1, i2) = (p, q)` is the pair of the *second* energy difference `Ω_pq = ev[i1] - ev[i2]`
    (the one the `mask_dE` case split is about; inner integral);
  * `(i3, i4) = (m, n)` is the pair combined with the frequency, `x = E[o] + ev[i3] - ev[i4]`
    (outer integral).

Both branches are (Props/C11 `derivativeIntegral_exact`) the nested integral

    out[o,p,q,m,n] = ∫₀^dt e^{i (E_o + λ_m - λ_n) t} ( ∫₀^t e^{i (λ_p - λ_q) s} ds ) dt ,

which is the docstring formula `𝕀^{(mn)}_{pq}` of `_control_matrix_at_timestep_derivative`
(with the docstring's `Δω_{nm}` being the code's `ev[i3] - ev[i4]`).

All three masks are ABSOLUTE (`np.abs(·) < 1e-7`, not multiplied by `dt`), unlike the mask of
`numeric._first_order_integral` and of `_liouville_derivative`.
-/
import FFVerif.Core.Mat
import FFVerif.Gen.Einsum
import FFVerif.Gen.Constants
import FFVerif.Model.Proto

namespace FFVerif.Model
open FFVerif

section
variable {R K : Type}
  [Zero R] [One R] [Add R] [Mul R] [Neg R] [Sub R] [Div R] [NatCast R] [RealOps R]
  [Zero K] [One K] [Add K] [Mul K] [Neg K] [Sub K] [Div K] [CplxOps R K]

/-- the guard shape of `gradient.py`: `np.abs(v) < thr` (`true` = the limit value is written) -/
def gradMask (thr v : R) : Bool := RealOps.lt (RealOps.abs v) thr

/-- `tmp2[o,m,n]` of `_derivative_integral`: `(e^{i x dt} - 1)/x` computed as
`e^{i x dt}/x - 1/x`, and `i·dt` where `|x| < thr`. (`= i ∫₀^dt e^{i x s} ds`.) -/
def derivIntegralTmp2 (thr x dt : R) : K :=
  if gradMask thr x then CplxOps.I * CplxOps.ofReal dt
  else CplxOps.expI (x * dt) / CplxOps.ofReal x - CplxOps.ofReal (1 / x)

/-- `tmp1[o,m,n,l]` of the case `Omega_pq != 0` before `tmp2` is added: `(1 - e^{i y dt})/y`
with `y = EdEdE`, and `-i·dt` where `|y| < thr`. (`= -i ∫₀^dt e^{i y s} ds`.) -/
def derivIntegralTmp1 (thr y dt : R) : K :=
  if gradMask thr y then -CplxOps.I * CplxOps.ofReal dt
  else (1 - CplxOps.expI (y * dt)) / CplxOps.ofReal y

/-- ONE entry `out[o, p, q, m, n]` of `gradient._derivative_integral(E, eigvals, dt, out)` with
`E = E[o]`, `Omn = ev[m] - ev[n]` (combined with the frequency: `x = EdE = E + Omn`),
`Opq = ev[p] - ev[q]` (second energy difference), following the masks and the operation order
of the array code (see the derivation in the header of this file). -/
def derivativeIntegralEntry (thr : R) (E Omn Opq dt : R) : K :=
  let x : R := E + Omn
  let tmp2 : K := derivIntegralTmp2 thr x dt
  if gradMask thr Opq then
    -- case Omega_pq == 0 :  out[:, mask_dE] = tmp1[:, None]
    if gradMask thr x then CplxOps.ofReal (dt * dt / ((2 : Nat) : R))
    else
      CplxOps.expI (x * dt) / CplxOps.ofReal x * (-CplxOps.I * CplxOps.ofReal dt)
        + tmp2 / CplxOps.ofReal x
  else
    -- case Omega_pq != 0 :  out[:, ~mask_dE] = (tmp1 / dE[~mask_dE]).transpose(0, 3, 1, 2)
    (derivIntegralTmp1 thr (x + Opq) dt + tmp2) / CplxOps.ofReal Opq

/-- `gradient._derivative_integral(E, eigvals, dt, out)`, shape `(nO, d, d, d, d)`,
`out[o][p][q][m][n]`. -/
def derivativeIntegral {nO d : Nat} (thr : R) (E : Vec R nO) (ev : Vec R d) (dt : R) :
    Vector (Ten4 K d d d d) nO :=
  Vector.ofFn fun o => Vector.ofFn fun p => Vector.ofFn fun q => Vector.ofFn fun m =>
    Vector.ofFn fun n => derivativeIntegralEntry thr E[o] (ev[m] - ev[n]) (ev[p] - ev[q]) dt

/-- one entry of `A_mat` in `_liouville_derivative`: `dt` where `|x·dt| < thr`
(`x = omega_diff[g,m,n] = ev[m] - ev[n]`), else `1j*(1 - cexp(x*dt))/x`. -/
def liouvilleA (thr : R) (x dt : R) : K :=
  if gradMask thr (x * dt) then CplxOps.ofReal dt
  else CplxOps.I * (1 - CplxOps.expI (x * dt)) / CplxOps.ofReal x

/-- `A_mat[g]` for one segment, shape `(d, d)` -/
def liouvilleAMat {d : Nat} (thr : R) (ev : Vec R d) (dt : R) : Mat K d d :=
  Mat.ofFn fun m n => liouvilleA thr (ev[m] - ev[n]) dt

/-- `gradient.calculate_filter_function_derivative(ctrlmat, ctrlmat_deriv)`
`= 2*np.einsum('ako,hotak->atho', ctrlmat.conj(), ctrlmat_deriv).real`;
`B (nA, nK, nO)`, `dB (nH, nO, nT, nA, nK)`, result `(nA, nT, nH, nO)` real. -/
def ffDerivative {nA nK nO nH nT : Nat} (B : Ten3 K nA nK nO)
    (dB : Vector (Vector (Vector (Vector (Vector K nK) nA) nT) nO) nH) :
    Vector (Vector (Vector (Vector R nO) nH) nT) nA :=
  (Gen.gradient_calculate_filter_function_derivative_0
      (Vector.map (Vector.map (Vector.map CplxOps.conj)) B) dB).map
    (Vector.map (Vector.map (Vector.map fun z => ((2 : Nat) : R) * CplxOps.re z)))

/-- the sensitivity-derivative term of `_control_matrix_at_timestep_derivative`:
`(n_coeffs_deriv / n_coeffs[:, None])[:, None, :, None] * ctrlmat_step[:, :, None]` for one entry
`[a, k, h, o]`: `ds = n_coeffs_deriv[a, h]`, `s = n_coeffs[a]`, `c = ctrlmat_step[a, k, o]`. -/
def sensitivityTerm (ds s : R) (c : K) : K := CplxOps.ofReal (ds / s) * c

/-! ### `infidelity_derivative`: selection, integrand, trapezoid rule -/

/-- `x[idx]` (NumPy integer-array indexing along the first axis) -/
def selectRows {α : Type} {n k : Nat} (idx : Vector (Fin n) k) (v : Vector α n) : Vector α k :=
  Vector.ofFn fun i => v[idx[i]]

/-- `util.integrate(f, x)` along the last axis:
`((f[1:] + f[:-1]) * np.diff(x)).sum() / 2` -/
def integrate {nO : Nat} (f : Vec R nO) (x : Vec R nO) : R :=
  (fsum (nO - 1) fun i =>
    (f[i.1 + 1]'(by omega) + f[i.1]'(by omega)) * (x[i.1 + 1]'(by omega) - x[i.1]'(by omega)))
    / ((2 : Nat) : R)

/-- `util.integrate(integrand, omega) / (2*np.pi*pulse.d)` for one `(t, h)` slab -/
def infidTail {nT nH nO : Nat} (d : Nat) (omega : Vec R nO) (integrand : Ten3 R nT nH nO) :
    Mat R nT nH :=
  integrand.map (Vector.map fun f =>
    integrate f omega / (((2 : Nat) : R) * RealOps.pi * ((d : Nat) : R)))

/-- last two lines of `infidelity_derivative` for a spectrum of shape `(n_omega,)`:
in `'...o,...tho->...tho'` the first ellipsis is empty and the second one is the noise-operator
axis, i.e. the rank-0 instance of the generated contraction is applied to every row `a`. -/
def infidelityDerivative0 {nA nT nH nO : Nat} (d : Nat) (omega : Vec R nO) (S : Vec R nO)
    (dF : Vector (Ten3 R nT nH nO) nA) : Ten3 R nA nT nH :=
  dF.map fun dFa => infidTail d omega (Gen.gradient_infidelity_derivative_1_e0 S dFa)

/-- … for a spectrum of shape `(k, n_omega)`, `k` = number of SELECTED noise operators
(`util.parse_spectrum(spectrum, omega, n_idx)` broadcasts to `(len(n_idx), n_omega)`); rank-1
instance of the generated contraction. -/
def infidelityDerivative1 {nA nT nH nO : Nat} (d : Nat) (omega : Vec R nO) (S : Mat R nA nO)
    (dF : Vector (Ten3 R nT nH nO) nA) : Ten3 R nA nT nH :=
  (Gen.gradient_infidelity_derivative_1_e1 S dF).map (infidTail d omega)

/-- `PulseSequence.get_filter_function_derivative`, the part after the oracles: the control
matrix is sliced with `n_idx` (`get_control_matrix(omega)[n_idx]`), the control-matrix derivative
`dBsel` is computed by `calculate_derivative_of_control_matrix_from_scratch` from the SELECTED
noise operators / coefficients / control operators (an input here), and both go into
`calculate_filter_function_derivative`. -/
def getFilterFunctionDerivative {nAll nA nK nO nH nT : Nat} (nIdx : Vector (Fin nAll) nA)
    (Bfull : Ten3 K nAll nK nO)
    (dBsel : Vector (Vector (Vector (Vector (Vector K nK) nA) nT) nO) nH) :
    Vector (Vector (Vector (Vector R nO) nH) nT) nA :=
  ffDerivative (selectRows nIdx Bfull) dBsel

end

/-- `util.get_indices_from_identifiers(all_identifiers, identifiers)`: `None` ↦ all indices in
stored order; a list ↦ the index of every requested identifier, in the REQUESTED order;
unknown identifier ↦ `none` (`ValueError`). -/
def indicesFromIdentifiers (all : List String) (ids : Option (List String)) : Option (List Nat) :=
  match ids with
  | none => some (List.range all.length)
  | some l => l.mapM fun s => all.idxOf? s

/-- the shape check of `n_coeffs_deriv` in `get_filter_function_derivative`:
`np.shape(n_coeffs_deriv) == (len(n_idx), len(c_idx), len(self))`; `none` = not given. -/
def nCoeffsDerivShapeOk (actual : Option (List Nat)) (nSel cSel nDt : Nat) : Bool :=
  match actual with
  | none => true
  | some sh => sh == [nSel, cSel, nDt]

/-! ### driver -/

open FFVerif.Proto

/-- parse a Python float literal of the forms `1e-07`, `2.5e-3`, `0.001`, `3` -/
def parsePyFloat (s : String) : Option Float :=
  let (mant, ex) : String × String :=
    match s.splitOn "e" with
    | [m, e] => (m, e)
    | _ => (s, "0")
  let (ip, fp) : String × String :=
    match mant.splitOn "." with
    | [i, f] => (i, f)
    | _ => (mant, "")
  let expo : Option Int :=
    if ex.startsWith "-" then (ex.drop 1).toNat?.map fun n => -(n : Int)
    else if ex.startsWith "+" then (ex.drop 1).toNat?.map fun n => (n : Int)
    else ex.toNat?.map fun n => (n : Int)
  match (ip ++ fp).toNat?, expo with
  | some m, some e =>
    let e' : Int := e - fp.length
    some (if e' < 0 then Float.ofScientific m true e'.natAbs else Float.ofScientific m false e'.natAbs)
  | _, _ => none

/-- the thresholds of the three masks of `_derivative_integral`, parsed from the generated source
text (`none` if a comparison is not of the shape `np.abs(<name>) < <literal>`). -/
def derivIntegralThresholds : Option (List Float) :=
  (Gen.gradDerivIntegralMasks.splitOn " ; ").mapM fun c =>
    match c.splitOn " < " with
    | [lhs, thr] => if lhs.startsWith "np.abs(" then parsePyFloat thr else none
    | _ => none

/-- the threshold of the `A_mat` mask of `_liouville_derivative`, parsed from the generated
source text (statement `mask = np.abs(omega_diff * dt_broadcast) < <literal>`). -/
def liouvilleAThreshold : Option Float :=
  (Gen.gradLiouvilleDerivBody.splitOn " ; ").findSome? fun c =>
    match c.splitOn " < " with
    | [lhs, thr] =>
      if lhs == "mask = np.abs(omega_diff * dt_broadcast)" then parsePyFloat thr else none
    | _ => none

def flatR1 {n} (v : Vec Float n) : Array Float := v.toArray
def flatR2 {m n} (v : Mat Float m n) : Array Float := v.toArray.foldl (fun acc r => acc ++ flatR1 r) #[]
def flatR3 {p m n} (v : Ten3 Float p m n) : Array Float :=
  v.toArray.foldl (fun acc r => acc ++ flatR2 r) #[]
def flatR4 {q p m n} (v : Ten4 Float q p m n) : Array Float :=
  v.toArray.foldl (fun acc r => acc ++ flatR3 r) #[]

/-- Requests (arrays as in `Driver.lean`: comma separated UInt64 bit patterns, complex interleaved):

* `dint nO d dt E(nO reals) ev(d reals)` → `ok <(nO,d,d,d,d) complex, row-major>` =
  `_derivative_integral(E, ev, dt, out)`; the threshold is the one in the source
  (`err thr` if the three masks are not `np.abs(·) < c` with one common literal `c`);
* `amat d dt ev(d reals)` → `ok <(d,d) complex>` = `A_mat[g]` of `_liouville_derivative`;
* `ffd nA nK nO nH nT B(nA,nK,nO complex) dB(nH,nO,nT,nA,nK complex)` → `ok <(nA,nT,nH,nO) reals>`
  = `calculate_filter_function_derivative(B, dB)`;
* `infd rank nA nT nH nO d omega(nO reals) S dF(nA,nT,nH,nO reals)` → `ok <(nA,nT,nH) reals>`,
  last two lines of `infidelity_derivative`; `rank = 0`: `S (nO)`, `rank = 1`: `S (nA,nO)`. -/
def handleGradient (toks : List String) : Option String :=
  match toks with
  | ["dint", nO, d, dt, E, ev] =>
    let nO := nO.toNat!; let d := d.toNat!
    match derivIntegralThresholds with
    | some [t1, t2, t3] =>
      if t1 == t2 && t2 == t3 then
        let r : Vector (Ten4 CF d d d d) nO :=
          derivativeIntegral t1 (vecR (parseFloats E) 0 nO) (vecR (parseFloats ev) 0 d) (f0 dt)
        some ("ok " ++ showFloats (flatC5 r))
      else some "err thr"
    | _ => some "err thr"
  | ["amat", d, dt, ev] =>
    let d := d.toNat!
    match liouvilleAThreshold with
    | some thr =>
      let r : Mat CF d d := liouvilleAMat thr (vecR (parseFloats ev) 0 d) (f0 dt)
      some ("ok " ++ showFloats (flatC2 r))
    | none => some "err thr"
  | ["ffd", nA, nK, nO, nH, nT, B, dB] =>
    let nA := nA.toNat!; let nK := nK.toNat!; let nO := nO.toNat!; let nH := nH.toNat!
    let nT := nT.toNat!
    let b : Ten3 CF nA nK nO := ten3C (parseFloats B) 0 nA nK nO
    let a := parseFloats dB
    let db : Vector (Vector (Vector (Vector (Vector CF nK) nA) nT) nO) nH :=
      Vector.ofFn fun h => Vector.ofFn fun o =>
        ten3C a (((h.1 * nO + o.1) * nT) * nA * nK) nT nA nK
    let r : Vector (Vector (Vector (Vector Float nO) nH) nT) nA := ffDerivative b db
    some ("ok " ++ showFloats (flatR4 r))
  | ["infd", rank, nA, nT, nH, nO, d, omega, S, dF] =>
    let nA := nA.toNat!; let nT := nT.toNat!; let nH := nH.toNat!; let nO := nO.toNat!
    let d := d.toNat!
    let om : Vec Float nO := vecR (parseFloats omega) 0 nO
    let a := parseFloats dF
    let df : Vector (Ten3 Float nT nH nO) nA :=
      Vector.ofFn fun i => Vector.ofFn fun t => matR a ((i.1 * nT + t.1) * nH * nO) nH nO
    let r : Ten3 Float nA nT nH :=
      if rank == "0" then infidelityDerivative0 d om (vecR (parseFloats S) 0 nO) df
      else infidelityDerivative1 d om (matR (parseFloats S) 0 nA nO) df
    some ("ok " ++ showFloats (flatR3 r))
  | _ => none

end FFVerif.Model
