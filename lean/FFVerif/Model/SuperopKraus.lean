/-
Model additions for `filter_functions/superoperator.py` (Mathlib-free, executable):

* `liouvilleOfKraus` — the Liouville representation `S_ij = Σ_m w_m tr(C_i A_m C_j A_m†)` of a map
  `ρ ↦ Σ_m w_m A_m ρ A_m†` given by Kraus operators `A_m` with real weights `w_m` (what a user of
  `liouville_is_CP` / `liouville_to_choi` builds from `liouville_representation` of the single
  operators; all `w_m ≥ 0`: a completely positive map);
* `liouvilleRepr` — `liouville_representation` WITH the branch of the source: the closed-form
  Gell-Mann expansion `basis.ggm_expand` (taken for `btype == 'GGM' and d > 12 and
  basis == Basis.ggm(d)`) or the generic `basis.expand`;
* `liouvilleStack` — `liouville_representation` of a stack `U[z]` (the `...` of the einsum string
  instantiated with one batch axis);
* `totalLiouville` — the cached `total_propagator_liouville` of a pulse
  (`liouville_representation(self.total_propagator, self.basis)`), and of a concatenation
  (`util.mdot([pls.total_propagator for pls in pulses][::-1])`).
-/
import FFVerif.Core.Mat
import FFVerif.Gen.Einsum
import FFVerif.Model.Superop
import FFVerif.Model.Basis
import FFVerif.Model.Proto

namespace FFVerif.Model
open FFVerif

section
variable {R K : Type}
  [Zero R] [One R] [Add R] [Mul R] [Neg R] [Sub R] [Div R] [NatCast R] [RealOps R]
  [Zero K] [One K] [Add K] [Mul K] [Neg K] [Sub K] [Div K] [CplxOps R K]

/-- Liouville representation of the Kraus map `ρ ↦ Σ_m w_m A_m ρ A_m†`:
`S = Σ_m w_m · liouville_representation(A_m, basis)` (the real weights are promoted to complex
numbers, the sum runs in the order of the operators). -/
def liouvilleOfKraus {d N n : Nat} (w : Vec R n) (A : Vector (Mat K d d) n)
    (C : Vector (Mat K d d) N) (castReal : Bool) : Mat K N N :=
  let Ls : Vector (Mat K N N) n := A.map fun a => liouville a C castReal
  Mat.ofFn fun i j => fsum n fun m => CplxOps.ofReal w[m] * Ls[m][i][j]

/-- the branch condition of `liouville_representation`:
`basis.btype == 'GGM' and basis.d > 12 and basis == _b.Basis.ggm(basis.d)`; the label and the
result of the comparison `Basis.__eq__` are inputs. -/
def closedFormCond (btypeGGM : Bool) (d : Nat) (eqGGM : Bool) : Bool :=
  btypeGGM && decide (d > 12) && eqGGM

/-- `superoperator.liouville_representation(U, basis)` with both code paths: the conjugated basis
`einsum('...ba,ibc,...cd->...iad', U.conj(), basis, U)` is formed from the basis that was passed;
it is then expanded by `ggm_expand(conjugated_basis, hermitian=basis.isherm)` (closed form, does
not look at the basis again) or by `expand(conjugated_basis, basis, hermitian=basis.isherm)`. -/
def liouvilleRepr {d : Nat} (U : Mat K d d) (C : Vector (Mat K d d) (d * d))
    (closedForm hermitian : Bool) : Mat K (d * d) (d * d) :=
  let cb : Vector (Mat K d d) (d * d) :=
    Gen.superoperator_liouville_representation_0_e0 (Mat.map CplxOps.conj U) C U
  if closedForm then Vector.ofFn fun i => ggmExpand (R := R) cb[i] false hermitian
  else Vector.ofFn fun i => expand cb[i] C hermitian

/-- `liouville_representation(U, basis)` for a stack `U` of shape `(Z, d, d)`: the batch instance
of the einsum, then `basis.expand` (`np.tensordot` over the last two axes) on every slice. -/
def liouvilleStack {d N Z : Nat} (Us : Vector (Mat K d d) Z) (C : Vector (Mat K d d) N)
    (castReal : Bool) : Vector (Mat K N N) Z :=
  let cb : Vector (Vector (Mat K d d) N) Z :=
    Gen.superoperator_liouville_representation_0_e1
      (Us.map (Mat.map CplxOps.conj)) C Us
  Vector.ofFn fun z => Vector.ofFn fun i => expand cb[z][i] C castReal

/-- the loop of `functools.reduce(np.matmul, [Q_{n-1}, …, Q_0])` after the first element: the
accumulator is multiplied FROM THE RIGHT by `Q[k-1]`, …, `Q[0]` in this order. -/
def mdotGo {d n : Nat} (Q : Vector (Mat K d d) n) : Nat → Mat K d d → Mat K d d
  | 0, acc => acc
  | k + 1, acc => if h : k < n then mdotGo Q k (Mat.mul acc Q[k]) else mdotGo Q k acc

/-- `util.mdot([pls.total_propagator for pls in pulses][::-1])` of `concatenate`
(`functools.reduce(np.matmul, …)`): `((Q_{n-1} @ Q_{n-2}) @ …) @ Q_0`, `Q_0` alone for one pulse.
The empty product is the identity (the Python raises for an empty list of pulses). -/
def mdotRev {d : Nat} : {n : Nat} → Vector (Mat K d d) n → Mat K d d
  | 0, _ => Mat.one
  | n + 1, Q => mdotGo Q n Q[n]

/-- the `total_propagator_liouville` cached by `concatenate`:
`liouville_representation(newpulse.total_propagator, newpulse.basis)` with
`newpulse.total_propagator = util.mdot([pls.total_propagator for pls in pulses][::-1])`. -/
def concatTotalLiouville {d N n : Nat} (Q : Vector (Mat K d d) n) (C : Vector (Mat K d d) N)
    (castReal : Bool) : Mat K N N :=
  liouville (mdotRev Q) C castReal

end

/-! ### driver component -/

open FFVerif.Proto in
/-- driver component.
`liouville_kraus d N n cast w(n real) A(n*d*d complex) C(N*d*d complex)` → `ok <(N,N) complex>`;
`liouville_repr d closed(0/1) herm(0/1) U(d*d complex) C(d²*d*d complex)` → `ok <(d²,d²) complex>`;
`liouville_stack d N Z cast Us(Z*d*d complex) C(N*d*d complex)` → `ok <(Z,N,N) complex>`;
`concat_total_liouville d N n cast Q(n*d*d complex) C(N*d*d complex)` → `ok <(N,N) complex>`. -/
def handleSuperopKraus (toks : List String) : Option String :=
  match toks with
  | ["liouville_kraus", d, N, n, cast, w, A, C] =>
    let d := d.toNat!; let N := N.toNat!; let n := n.toNat!
    let r : Mat CF N N := liouvilleOfKraus (vecR (parseFloats w) 0 n)
      (ten3C (parseFloats A) 0 n d d) (ten3C (parseFloats C) 0 N d d) (cast == "1")
    some ("ok " ++ showFloats (flatC2 r))
  | ["liouville_repr", d, closed, herm, U, C] =>
    let d := d.toNat!
    let r : Mat CF (d * d) (d * d) := liouvilleRepr (R := Float) (matC (parseFloats U) 0 d d)
      (ten3C (parseFloats C) 0 (d * d) d d) (closed == "1") (herm == "1")
    some ("ok " ++ showFloats (flatC2 r))
  | ["liouville_stack", d, N, Z, cast, Us, C] =>
    let d := d.toNat!; let N := N.toNat!; let Z := Z.toNat!
    let r : Vector (Mat CF N N) Z := liouvilleStack (ten3C (parseFloats Us) 0 Z d d)
      (ten3C (parseFloats C) 0 N d d) (cast == "1")
    some ("ok " ++ showFloats (flatC3 r))
  | ["concat_total_liouville", d, N, n, cast, Q, C] =>
    let d := d.toNat!; let N := N.toNat!; let n := n.toNat!
    let r : Mat CF N N := concatTotalLiouville (ten3C (parseFloats Q) 0 n d d)
      (ten3C (parseFloats C) 0 N d d) (cast == "1")
    some ("ok " ++ showFloats (flatC2 r))
  | _ => none

end FFVerif.Model
