/-
Model of `filter_functions/basis.py` (Mathlib-free, executable at IEEE doubles, reasoned about at
ℝ/ℂ in `FFVerif.Props.C14`): the constructors `Basis.pauli`, `Basis.ggm`, the closed-form
expansion `ggm_expand`, the flag properties `isherm`, `isorthonorm`, `istraceless`, and the
assembling step of `_full_from_partial`.  (`expand` itself is `Model.expand` in `Model/Superop`.)

Oracles (inputs of the model): `np.linalg.matrix_rank` (`iscomplete`), `scipy.linalg.null_space`
(`_full_from_partial`).

Numerical conventions that are mirrored on purpose:
* NumPy divides a complex number by a real one (`complex128 / float64`, the real is promoted to a
  complex number with zero imaginary part) with Smith's algorithm, which for a real divisor `s`
  evaluates `(a·(1/s), b·(1/s))` — *not* `(a/s, b/s)`.  `rscale (1/s)` below is that operation.
  Real arrays divided by a real (`hermitian=True` in `ggm_expand`) use true division.
* `int(d*(d-1)/2)`, `(j*(2*d - j - 3)/2).astype(int)`: the float quotients are exact integers
  (for every `d < 2^26`), modelled by `Nat` division.
-/
import FFVerif.Core.Mat
import FFVerif.Gen.Einsum
import FFVerif.Model.Superop
import FFVerif.Model.Proto

namespace FFVerif.Model
open FFVerif

section
variable {R K : Type}
  [Zero R] [One R] [Add R] [Mul R] [Neg R] [Sub R] [Div R] [NatCast R] [RealOps R]
  [Zero K] [One K] [Add K] [Mul K] [Neg K] [Sub K] [Div K] [CplxOps R K]

/-- multiplication of a complex matrix by a real scalar (promoted to a complex number) -/
def rscale {m n : Nat} (x : R) (A : Mat K m n) : Mat K m n := Mat.smul (CplxOps.ofReal x) A

/-- `util.paulis = (I, X, Y, Z)` (unnormalised) -/
def paulis : Vector (Mat K 2 2) 4 :=
  #v[#v[#v[1, 0], #v[0, 1]],
     #v[#v[0, 1], #v[1, 0]],
     #v[#v[0, -CplxOps.I], #v[CplxOps.I, 0]],
     #v[#v[1, 0], #v[0, -1]]]

/-- the one-qubit Pauli basis `(I, X, Y, Z)/√2` -/
def pauli1 : Vector (Mat K 2 2) 4 :=
  (paulis (K := K)).map (rscale ((1 : R) / RealOps.sqrt ((2 : Nat) : R)))

/-- Kronecker product, `util.tensor(A, B)` for two square matrices:
`einsum('ab,cd->acbd').reshape(m*n, m*n)`, i.e. entry `[(a,c),(b,d)] = A[a][b] * B[c][d]` with
row-major flattening of the index pairs (the left factor is the major digit). -/
def kronMat {m n : Nat} (A : Mat K m m) (B : Mat K n n) : Mat K (m * n) (m * n) :=
  Mat.ofFn fun r c => A[Fin.hi r][Fin.hi c] * B[Fin.lo r][Fin.lo c]

/-- `util.tensor(*util.paulis[combinations], rank=2)` of `Basis.pauli(n)`, *before* the
normalisation: element `r` (base-4 digits `r = (q_0 … q_{n-1})`, first qubit most significant, the
order of `np.indices((4,)*n).reshape(n, 4**n)`) is `σ_{q_0} ⊗ … ⊗ σ_{q_{n-1}}`.  The recursion
splits off the *last* qubit, `(σ_{q_0} ⊗ … ⊗ σ_{q_{n-2}}) ⊗ σ_{q_{n-1}}` with `r = 4·hi + lo`
(`4^(n+1) = 4^n * 4` and `2^(n+1) = 2^n * 2` hold by definition, so no casts are needed); the
Kronecker product is associative and every entry is a product of `n` numbers from `{0, ±1, ±i}`,
so the tree-shaped evaluation order of `util.tensor` gives the same values.
(`n = 0`: the Python raises `IndexError` in `util.tensor()`; the model returns the `1 × 1`
identity.) -/
def pauliRaw : (n : Nat) → Vector (Mat K (2 ^ n) (2 ^ n)) (4 ^ n)
  | 0 => #v[Mat.one]
  | n + 1 =>
    let prev := pauliRaw n
    (Vector.ofFn fun r : Fin (4 ^ n * 4) => kronMat prev[Fin.hi r] (paulis (K := K))[Fin.lo r] :
      Vector (Mat K (2 ^ n * 2) (2 ^ n * 2)) (4 ^ n * 4))

/-- `Basis.pauli(n)`: `sigma /= np.sqrt(2**n)` (complex divided by real, see the header). -/
def pauliBasis (n : Nat) : Vector (Mat K (2 ^ n) (2 ^ n)) (4 ^ n) :=
  (pauliRaw (K := K) n).map (rscale ((1 : R) / RealOps.sqrt ((2 ^ n : Nat) : R)))

/-! ### Generalized Gell-Mann basis -/

/-- `n_sym = int(d*(d - 1)/2)` -/
def nSym (d : Nat) : Nat := d * (d - 1) / 2

/-- `j = np.repeat(np.arange(d - 1), np.arange(d - 1, 0, -1))`: `j` repeated `d-1-j` times -/
def ggmJ (d : Nat) : List Nat := (List.range (d - 1)).flatMap fun j => List.replicate (d - 1 - j) j

/-- entry `p` of `k = np.arange(1, n_sym+1) - (j*(2*d - j - 3)/2).astype(int)` given `j = j[p]` -/
def ggmKof (d j p : Nat) : Nat := p + 1 - j * (2 * d - j - 3) / 2

/-- `(j[p], k[p])`, the `p`-th pair of the upper triangle in the NumPy index arithmetic -/
def ggmPair (d : Nat) (J : List Nat) (p : Nat) : Nat × Nat :=
  let j := J.getD p 0
  (j, ggmKof d j p)

/-- `inv_sqrt2 = 1/np.sqrt(2)` -/
def invSqrt2 : R := (1 : R) / RealOps.sqrt ((2 : Nat) : R)

/-- entry `[a][b]` of element `e` of `Basis.ggm(d)`; `J = ggmJ d` (computed once).
* `e = 0`: `np.eye(d)/np.sqrt(d)`;
* `1 ≤ e ≤ n_sym` (`sym_rng`): `inv_sqrt2` at `(j,k)` and `(k,j)`;
* `n_sym < e ≤ 2 n_sym`: `-1j*inv_sqrt2` at `(j,k)`, `1j*inv_sqrt2` at `(k,j)`;
* `e = 2 n_sym + l`, `1 ≤ l ≤ d-1`: diagonal `1` for `a < l`, `-l` at `a = l`, divided (complex by
  real) by `sqrt(l*(l+1))`. -/
def ggmEntry (d : Nat) (J : List Nat) (e a b : Nat) : K :=
  let ns := nSym d
  if e = 0 then
    if a = b then CplxOps.ofReal ((1 : R) / RealOps.sqrt ((d : Nat) : R)) else 0
  else if e ≤ ns then
    let jk := ggmPair d J (e - 1)
    if (a = jk.1 ∧ b = jk.2) ∨ (a = jk.2 ∧ b = jk.1) then CplxOps.ofReal (invSqrt2 (R := R)) else 0
  else if e ≤ 2 * ns then
    let jk := ggmPair d J (e - 1 - ns)
    if a = jk.1 ∧ b = jk.2 then (-CplxOps.I) * CplxOps.ofReal (invSqrt2 (R := R))
    else if a = jk.2 ∧ b = jk.1 then CplxOps.I * CplxOps.ofReal (invSqrt2 (R := R))
    else 0
  else
    let l := e - 2 * ns
    let s : R := (1 : R) / RealOps.sqrt ((l * (l + 1) : Nat) : R)
    if a = b then
      if a < l then CplxOps.ofReal s * 1
      else if a = l then CplxOps.ofReal s * CplxOps.ofReal (-((l : Nat) : R))
      else 0
    else 0

/-- `Basis.ggm(d)`: `(d², d, d)` -/
def ggmBasis (d : Nat) : Vector (Mat K d d) (d * d) :=
  let J := ggmJ d
  Vector.ofFn fun e => Mat.ofFn fun a b => ggmEntry d J e.1 a.1 b.1

/-- bounds-checked entry (the Python indices are always in range; `0` otherwise) -/
def matAt {m n : Nat} (M : Mat K m n) (a b : Nat) : K :=
  if h : a < m ∧ b < n then M[a][b] else 0

/-- `cast(x)/s` resp. `x /= cast(s)` of `ggm_expand`: with `hermitian` the real part is divided by
the real `s` (true division, result real); otherwise a complex number is divided by a real one
(Smith: multiplication by `1/s`). -/
def castDiv (hermitian : Bool) (z : K) (s : R) : K :=
  if hermitian then CplxOps.ofReal (CplxOps.re z / s)
  else CplxOps.ofReal ((1 : R) / s) * z

/-- coefficient `e` of `ggm_expand(M, traceless, hermitian)` for one matrix `M` -/
def ggmCoeff {d : Nat} (M : Mat K d d) (J : List Nat) (traceless hermitian : Bool) (e : Nat) : K :=
  let ns := nSym d
  if e = 0 then
    if traceless then 0
    else castDiv hermitian (Gen.basis_ggm_expand_0_e0 M) (RealOps.sqrt ((d : Nat) : R))
  else if e ≤ ns then
    let jk := ggmPair d J (e - 1)
    castDiv hermitian (matAt M jk.1 jk.2 + matAt M jk.2 jk.1) (RealOps.sqrt ((2 : Nat) : R))
  else if e ≤ 2 * ns then
    let jk := ggmPair d J (e - 1 - ns)
    castDiv hermitian (CplxOps.I * (matAt M jk.1 jk.2 - matAt M jk.2 jk.1))
      (RealOps.sqrt ((2 : Nat) : R))
  else
    let l := e - 2 * ns
    -- `M[diag_idx].cumsum(axis=-1)[l-1] - l*M[l, l]`
    castDiv hermitian
      ((fsum l fun i => matAt M i.1 i.1) - CplxOps.ofReal ((l : Nat) : R) * matAt M l l)
      (RealOps.sqrt ((l * (l + 1) : Nat) : R))

/-- `ggm_expand(M, traceless, hermitian)` for one square matrix: the `d²` closed-form
coefficients (as complex numbers; real ones have zero imaginary part). -/
def ggmExpand {d : Nat} (M : Mat K d d) (traceless hermitian : Bool) : Vec K (d * d) :=
  let J := ggmJ d
  Vector.ofFn fun e => ggmCoeff M J traceless hermitian e.1

/-! ### Flags -/

/-- `x != 0` on reals -/
def rnz (x : R) : Bool := RealOps.lt x 0 || RealOps.lt 0 x
/-- `z != 0` on complex numbers -/
def cnz (z : K) : Bool := rnz (CplxOps.re z) || rnz (CplxOps.im z)
/-- `np.abs(z)` -/
def cabs (z : K) : R :=
  RealOps.sqrt (CplxOps.re z * CplxOps.re z + CplxOps.im z * CplxOps.im z)

/-- Boolean `∀ i < n` -/
def allFin (n : Nat) (p : Fin n → Bool) : Bool := (List.finRange n).all p

/-- `Basis.isherm`: `self.H == self`, i.e. `np.allclose(self.H, self, atol=self._atol, rtol=0)`:
`|conj(C_k[b][a]) - C_k[a][b]| ≤ atol` for all entries (`atol = eps·d³` in the source). -/
def isHermFlag {d N : Nat} (C : Vector (Mat K d d) N) (atol : R) : Bool :=
  allFin N fun k => allFin d fun a => allFin d fun b =>
    RealOps.le (cabs (CplxOps.conj C[k][b][a] - C[k][a][b])) atol

/-- Gram matrix `U.conj() @ U.T` of `isorthonorm`, `U = self.reshape((dim, -1))` -/
def gram {d N : Nat} (C : Vector (Mat K d d) N) : Mat K N N :=
  Mat.ofFn fun i j => fsum (d * d) fun x =>
    CplxOps.conj C[i][Fin.hi x][Fin.lo x] * C[j][Fin.hi x][Fin.lo x]

/-- `Basis.isorthonorm` INCLUDING the shortcut of the source: a single element is reported
orthonormal without looking at its norm; otherwise
`np.allclose(U.conj() @ U.T, identity, atol=eps·(d²)³, rtol=0)`. -/
def isOrthonormFlag {d N : Nat} (C : Vector (Mat K d d) N) (atol : R) : Bool :=
  if N = 1 then true
  else
    let G := gram C
    allFin N fun i => allFin N fun j =>
      RealOps.le (cabs (G[i][j] - (if i = j then 1 else 0))) atol

/-- `util.remove_float_errors` on one real number: zeroed when `≤ atol` in modulus -/
def tidyR (atol x : R) : R := if RealOps.le (RealOps.abs x) atol then 0 else x

/-- `util.remove_float_errors(trace, d**2)` followed by `.nonzero()` on one complex trace: real and
imaginary part are tidied separately (`atol = eps·d²`) -/
def traceNz (atol : R) (z : K) : Bool :=
  rnz (tidyR atol (CplxOps.re z)) || rnz (tidyR atol (CplxOps.im z))

/-- the identity test of `istraceless` on the single element with non-zero trace:
`diag_equal.all() and offdiag_nonzero[0].size == 0` with `diag_equal = np.diag(elem) == elem[0, 0]`
and `offdiag_nonzero = elem[~np.eye(d, dtype=bool)].nonzero()`: all diagonal entries equal the
first one and ALL off-diagonal entries are exactly zero. -/
def identityTest {d : Nat} (E : Mat K d d) : Bool :=
  (allFin d fun a => !cnz (E[a][a] - matAt E 0 0)) &&
  (allFin d fun a => allFin d fun b => a = b || !cnz E[a][b])

/-- `Basis.istraceless` for a 3-d basis array: the (tidied) traces are all zero, or exactly one
is non-zero and that element passes `identityTest`. -/
def isTracelessFlag {d N : Nat} (C : Vector (Mat K d d) N) (atol : R) : Bool :=
  let tr : Vec K N := Gen.basis_Basis_istraceless_0_e1 C
  let nz : List (Fin N) := (List.finRange N).filter fun k => traceNz atol tr[k]
  match nz with
  | [] => true
  | [k] => identityTest C[k]
  | _ => false

/-! ### `_full_from_partial`: acceptance tests and assembling step -/

/-- the acceptance tests of `_full_from_partial` on the (already normalised) elements:
`if not elems.isorthonorm: raise ValueError`; `traceless is None` → `traceless = elems.istraceless`;
`traceless and not elems.istraceless` → `ValueError`.  Returns the effective `traceless`. -/
def fromPartialGate {d N : Nat} (C : Vector (Mat K d d) N) (atolOrth atolTr : R)
    (traceless : Option Bool) : Except String Bool :=
  if !isOrthonormFlag C atolOrth then .error "ValueError: not orthonormal"
  else match traceless with
    | none => .ok (isTracelessFlag C atolTr)
    | some true =>
      if !isTracelessFlag C atolTr then .error "ValueError: not traceless" else .ok true
    | some false => .ok false



/-- `basis = np.einsum('ij,jkl', coeffs, ggm)` with `coeffs = np.concatenate((coeffs,
sla.null_space(coeffs).T))`: `coeffs` are the expansion coefficients of the (normalised) supplied
elements, `nullT` is the oracle output (transposed null-space basis). -/
def fromPartialCombine {d m q n : Nat} (coeffs : Mat K m n) (nullT : Mat K q n)
    (G : Vector (Mat K d d) n) : Vector (Mat K d d) (m + q) :=
  Gen.basis__full_from_partial_0 (coeffs ++ nullT) G

/-- the `traceless` variant: `np.concatenate((Id, basis))` -/
def fromPartialTraceless {d m q n : Nat} (Id : Mat K d d) (coeffs : Mat K m n) (nullT : Mat K q n)
    (G : Vector (Mat K d d) n) : Vector (Mat K d d) (1 + (m + q)) :=
  #v[Id] ++ fromPartialCombine coeffs nullT G

end

/-! ### driver component -/

open FFVerif.Proto in
/-- driver component.
`pauli n` → `ok <(4^n, 2^n, 2^n) complex>`;
`ggm d` → `ok <(d², d, d) complex>`;
`ggm_expand d traceless(0/1) hermitian(0/1) M(d*d complex)` → `ok <d² complex coefficients>`;
`expand d N cast(0/1) M(d*d complex) C(N*d*d complex)` → `ok <N complex coefficients>`;
`basis_flags d N atolHerm atolOrth atolTr C(N*d*d complex)` → `ok <isherm isorthonorm istraceless>`
(three characters `0`/`1`). -/
def handleBasis (toks : List String) : Option String :=
  match toks with
  | ["pauli", n] =>
    let n := n.toNat!
    let r : Vector (Mat CF (2 ^ n) (2 ^ n)) (4 ^ n) := pauliBasis n
    some ("ok " ++ showFloats (flatC3 r))
  | ["ggm", d] =>
    let d := d.toNat!
    let r : Vector (Mat CF d d) (d * d) := ggmBasis d
    some ("ok " ++ showFloats (flatC3 r))
  | ["ggm_expand", d, tl, herm, M] =>
    let d := d.toNat!
    let r : Vec CF (d * d) := ggmExpand (matC (parseFloats M) 0 d d) (tl == "1") (herm == "1")
    some ("ok " ++ showFloats (flatC1 r))
  | ["expand", d, N, cast, M, C] =>
    let d := d.toNat!; let N := N.toNat!
    let r : Vec CF N := expand (matC (parseFloats M) 0 d d) (ten3C (parseFloats C) 0 N d d)
      (cast == "1")
    some ("ok " ++ showFloats (flatC1 r))
  | ["basis_flags", d, N, aH, aO, aT, C] =>
    let d := d.toNat!; let N := N.toNat!
    let c : Vector (Mat CF d d) N := ten3C (parseFloats C) 0 N d d
    some ("ok " ++ showBools #[isHermFlag c (f0 aH), isOrthonormFlag c (f0 aO),
      isTracelessFlag c (f0 aT)])
  | _ => none

end FFVerif.Model
