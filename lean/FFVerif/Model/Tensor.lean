/-
Discrete model of the tensor-product helpers of `util.py` (`tensor`, `tensor_insert`,
`tensor_merge`, `tensor_transpose`) and of the Pauli index maps of `basis.py`
(`equivalent_pauli_basis_elements`, `remap_pauli_basis_elements`).

Level of abstraction: *factor lists and axis letters*.  A product chain is a list of factor labels;
a rank-`r` product of `ndim` factors, reshaped the way the Python does before every einsum call
(`arr.reshape(*arr.shape[:-rank], *flat_arr_dims)`), has `r*ndim` axes, axis `q*ndim + k` being
slot `q` (matrix index slot) of factor `k`.  The einsum subscripts strings are modelled as lists of
*letter indices* into `string.ascii_letters` (`0..25 = 'a'..'z'`, `26..51 = 'A'..'Z'`), NumPy
`reshape` / `ravel_multi_index` / `indices` as row-major mixed-radix (de)coding.

Mathlib-free; executed by the driver (component `tinsert`, `tmerge`, …) and reasoned about in
`Props/C16`.
-/

namespace FFVerif.Model.Tensor

/-! ### generic list helpers (Python slicing, stable sorting) -/

/-- Python `l[a:b]` for non-negative `a`, `b` (clipped at the end of the list). -/
def slice {α} (l : List α) (a b : Nat) : List α := (l.take b).drop a

/-- Python `l[:k] + [a] + l[k:]` (also `list.insert(k, a)` for `0 ≤ k`). -/
def insertAt {α} (l : List α) (k : Nat) (a : α) : List α := l.take k ++ a :: l.drop k

/-- insert `x` in front of the first element `y` with `le x y` -/
def insertBy {α} (le : α → α → Bool) (x : α) : List α → List α
  | [] => [x]
  | y :: ys => if le x y then x :: y :: ys else y :: insertBy le x ys

/-- Stable sort (Python's `sorted`): insertion sort, processing the list from the right so that
of two equivalent elements the one that came first stays first. -/
def stableSort {α} (le : α → α → Bool) : List α → List α
  | [] => []
  | x :: xs => insertBy le x (stableSort le xs)

/-- cut a list into `n` consecutive chunks of width `w` (row-major `reshape` of the axis list) -/
def chunks {α} (w : Nat) : Nat → List α → List (List α)
  | 0, _ => []
  | n + 1, l => l.take w :: chunks w n (l.drop w)

/-! ### position normalisation (`tensor_insert`, `tensor_merge`) -/

/-- `divmod(p, ndim) if p != ndim else (0, p)` followed by the check `div in (-1, 0)`.
Python's `divmod` floors (`Int.fdiv`, `Int.fmod`); a zero divisor raises. -/
def normPos (ndim : Nat) (p : Int) : Except String Nat :=
  if p = (ndim : Int) then .ok ndim
  else if ndim = 0 then .error "ZeroDivisionError"
  else
    let div := Int.fdiv p ndim
    let m := Int.fmod p ndim
    if div = -1 ∨ div = 0 then .ok m.toNat else .error "IndexError"

/-- normalise all positions; the first failure (in list order) is reported.  (In `tensor_insert`
the `IndexError` is raised inside the sorted loop, the `ZeroDivisionError` in the comprehension;
the two cannot occur for the same `ndim`, so the error class is the same.) -/
def normAll (ndim : Nat) : List Int → Except String (List Nat)
  | [] => .ok []
  | p :: ps =>
    match normPos ndim p with
    | .error e => .error e
    | .ok q =>
      match normAll ndim ps with
      | .error e => .error e
      | .ok qs => .ok (q :: qs)

/-! ### `tensor`: binary-tree evaluation order -/

/-- `tuple(binary_tensor(*args[i:i+2]) for i in range(0, n, 2))` on chains: the Kronecker product
of two chains is the concatenated chain (`'...ab,...cd->...acbd'` + row-major reshape: the left
operand is the major digit in every slot). -/
def pairUp {α} : List (List α) → List (List α)
  | a :: b :: rest => (a ++ b) :: pairUp rest
  | l => l

/-- one pass of the `while n > 1` loop: `args[:bit] + pairs(args[bit:])`, `bit = n % 2` -/
def tensorStep {α} (l : List (List α)) : List (List α) :=
  let bit := l.length % 2
  l.take bit ++ pairUp (l.drop bit)

def tensorLoop {α} : Nat → List (List α) → List (List α)
  | 0, l => l
  | fuel + 1, l => if l.length > 1 then tensorLoop fuel (tensorStep l) else l

/-- factor order of `tensor(*args)` where every argument is itself a chain; `none` = `args[0]`
raises `IndexError` for an empty argument list. -/
def tensorChain {α} (args : List (List α)) : Option (List α) :=
  (tensorLoop args.length args).head?

/-! ### `tensor_insert` -/

/-- the sort of `tensor_insert`: `sorted(zip(pos, divs, args, counter), key=itemgetter(0))`,
i.e. stable, by normalised position only -/
def sortByPos {α} (l : List (Nat × α)) : List (Nat × α) :=
  stableSort (fun a b => decide (a.1 ≤ b.1)) l

/-- the loop `for i, (p, …, arg, …) in enumerate(sorted(…)): result = insert(result, arg, p+i)`
at the level of factor orders (`i` = number of factors already inserted). -/
def insertLoop {α} (i : Nat) (chain : List α) : List (Nat × α) → List α
  | [] => chain
  | (p, a) :: rest => insertLoop (i + 1) (insertAt chain (p + i) a) rest

/-- sorted `(normalised position, argument counter)` pairs of `tensor_insert` for a sequence `pos`
-/
def insertOrder (ndim : Nat) (pos : List Int) : Except String (List (Nat × Nat)) :=
  match normAll ndim pos with
  | .error e => .error e
  | .ok np => .ok (sortByPos (np.zip (List.range np.length)))

/-- factor order of `tensor_insert(tensor(*chain), *ins, pos=pos)` for a *sequence* `pos` -/
def insertResult (chain ins : List Nat) (pos : List Int) : Except String (List Nat) :=
  if ins.length = 0 then .error "ValueError"
  else if pos.length ≠ ins.length then .error "ValueError"
  else
    match normAll chain.length pos with
    | .error e => .error e
    | .ok np => .ok (insertLoop 0 chain (sortByPos (np.zip ins)))

/-- factor order of `tensor_insert(tensor(*chain), *ins, pos=p)` for an *integer* `pos`: the
arguments are tensored together first (`tensor(*args)`) and inserted as one block. -/
def insertResultInt (chain ins : List Nat) (p : Int) : Except String (List Nat) :=
  if ins.length = 0 then .error "ValueError"
  else
    match normPos chain.length p with
    | .error e => .error e
    | .ok q =>
      let block := (tensorChain (ins.map fun a => [a])).getD []
      .ok (chain.take q ++ block ++ chain.drop q)

/-! #### the einsum subscripts of one insertion and the dims bookkeeping -/

/-- `len(string.ascii_letters)` -/
def nLetters : Nat := 52

/-- `string.ascii_letters` as letter indices -/
def letters : List Nat := List.range nLetters

/-- `_tensor_insert_subscripts(ndim, pos, rank)`: `(ins_chars, arr_chars, output chars)`.
`ins_chars[i]` with `i ≥ len(ins_chars)` would raise; here it contributes nothing. -/
def insertSubscripts (ndim pos rank : Nat) : List Nat × List Nat × List Nat :=
  let insChars := slice letters 0 rank
  let arrChars := slice letters rank ((ndim + 1) * rank)
  let out := slice arrChars 0 pos ++ (List.range rank).flatMap fun i =>
    insChars[i]?.toList ++ slice arrChars (pos + i * ndim) (pos + (i + 1) * ndim)
  (insChars, arrChars, out)

/-- what an axis letter of `_tensor_insert_subscripts` stands for -/
inductive Axis where
  /-- slot `slot` of the inserted tensor -/
  | ins (slot : Nat)
  /-- slot `slot` of the `factor`-th factor of `arr` (axis `slot*ndim + factor` of
  `reshaped_arr`, since `flat_arr_dims` is slot-major) -/
  | arr (slot factor : Nat)
deriving DecidableEq, Repr

def letterAxis (ndim rank c : Nat) : Axis :=
  if c < rank then .ins c else .arr ((c - rank) / ndim) ((c - rank) % ndim)

/-- the output axes of one insertion, cut into the `rank` groups of `ndim+1` axes that the final
`reshape(outshape)` flattens into one slot each -/
def insertOutSlots (ndim pos rank : Nat) : List (List Axis) :=
  (chunks (ndim + 1) rank (insertSubscripts ndim pos rank).2.2).map
    (·.map (letterAxis ndim rank))

/-- "which factor sits at which chain position" of one slot: `none` = the inserted tensor,
`some k` = factor `k` of `arr`; the outer `none` = the group contains an axis of another slot
(the result would not be a Kronecker chain). -/
def slotFactors (q : Nat) : List Axis → Option (List (Option Nat))
  | [] => some []
  | .ins s :: rest =>
    if s = q then (slotFactors q rest).map (none :: ·) else none
  | .arr s k :: rest =>
    if s = q then (slotFactors q rest).map (some k :: ·) else none

/-- One state of the insertion loop: the true factor order of `result`, the factor order whose
dimensions `carr_dims` lists (the bookkeeping), and the split position handed to
`single_tensor_insert`. -/
structure InsState (α : Type) where
  chain : List α
  dims : List α
  split : Nat
deriving Repr, DecidableEq

/-- The loop of `tensor_insert` with the `carr_dims` bookkeeping: the factor goes to `p+i` in the
product but its dimensions are recorded at `p` (`axis.insert(p, d)`).  Returns the states *at the
moment of each call* of `single_tensor_insert` and the final pair. -/
def insertTrace {α} (i : Nat) (chain dims : List α) :
    List (Nat × α) → List (InsState α) × List α × List α
  | [] => ([], chain, dims)
  | (p, a) :: rest =>
    let r := insertTrace (i + 1) (insertAt chain (p + i) a) (insertAt dims p a) rest
    (⟨chain, dims, p + i⟩ :: r.1, r.2)

/-! ### row-major (mixed radix) flattening -/

def prod : List Nat → Nat
  | [] => 1
  | d :: ds => d * prod ds

/-- `np.ravel_multi_index(digits, dims)` / the flat index after `reshape` -/
def mixedRadixEncode : List Nat → List Nat → Nat
  | _ :: ds, x :: xs => x * prod ds + mixedRadixEncode ds xs
  | _, _ => 0

/-- `np.unravel_index(n, dims)` / row `n` of `np.indices(dims).reshape(len(dims), -1).T` -/
def mixedRadixDecode : List Nat → Nat → List Nat
  | [], _ => []
  | _ :: ds, n => n / prod ds :: mixedRadixDecode ds (n % prod ds)

/-- digit tuple within bounds -/
def inBounds : List Nat → List Nat → Bool
  | [], [] => true
  | d :: ds, x :: xs => decide (x < d) && inBounds ds xs
  | _, _ => false

/-- Destination (flat index inside one slot of the result) of element `x` of a slot of `arr` and
element `y` of the same slot of the inserted tensor (dimension `e`), when `arr`'s slot is reshaped
with the dimension list `D` and the new axis is put at position `pos`:
`'…->… D[:pos] e D[pos:]'` followed by the flattening `reshape`. -/
def splitInsertIndex (D : List Nat) (pos e x y : Nat) : Nat :=
  let digits := mixedRadixDecode D x
  mixedRadixEncode (D.take pos ++ e :: D.drop pos) (digits.take pos ++ y :: digits.drop pos)

/-! ### `tensor_merge` -/

/-- character code of `string.ascii_letters[i]`: lower case (97…) first, then upper case (65…).
(Only the third component of the sort tuples; never decisive, see `mergeLe`.) -/
def letterCode (i : Nat) : Nat := if i < 26 then 97 + i else 39 + i

/-- tuple comparison `(p, j, ch) <= (p', j', ch')` used by
`sorted(zip(norm_pos, range(ins_ndim), ins_part))`: by position, ties by the index `j` of the
factor in `ins` (the letter would only be compared for equal `j`, which does not occur). -/
def mergeLe (a b : Nat × (Nat × Nat)) : Bool :=
  decide (a.1 < b.1) || (a.1 == b.1 &&
    (decide (a.2.1 < b.2.1) || (a.2.1 == b.2.1 && decide (letterCode a.2.2 ≤ letterCode b.2.2))))

/-- the sorted `(p, ins_p)` pairs of one slot (`insNdim = ins_ndim`, `part = ins_part`) -/
def mergeSorted (np part : List Nat) (insNdim : Nat) : List (Nat × Nat) :=
  (stableSort mergeLe (np.zip ((List.range insNdim).zip part))).map fun x => (x.1, x.2.2)

/-- `out_chars` of `tensor_merge` slot by slot, for already normalised positions -/
def mergeOutSlots (arrNdim insNdim rank : Nat) (np : List Nat) : List (List Nat) :=
  let insChars := slice letters 0 (insNdim * rank)
  let arrChars := slice letters (insNdim * rank) ((insNdim + arrNdim) * rank)
  (List.range rank).map fun r =>
    let arrPart := slice arrChars (r * arrNdim) ((r + 1) * arrNdim)
    let insPart := slice insChars (r * insNdim) ((r + 1) * insNdim)
    insertLoop 0 arrPart (mergeSorted np insPart insNdim)

/-- factor label of a letter of `tensor_merge` -/
def mergeLetterFactor (chain ins : List Nat) (rank c : Nat) : Nat :=
  if c < ins.length * rank then ins.getD (c % ins.length) 0
  else chain.getD ((c - ins.length * rank) % chain.length) 0

/-- factor order of every slot of `tensor_merge(tensor(*chain), tensor(*ins), pos)`.
Order of the checks as in the source: `len(pos) != ins_ndim` → `ValueError`; then the positions are
normalised (`IndexError`, `ZeroDivisionError`); `ValueError` when more letters are needed than
`ascii_letters` has (einsum rejects the truncated subscripts). -/
def mergeSlots (chain ins : List Nat) (pos : List Int) (rank : Nat) :
    Except String (List (List Nat)) :=
  if pos.length ≠ ins.length then .error "ValueError"
  else
    match normAll chain.length pos with
    | .error e => .error e
    | .ok np =>
      if (ins.length + chain.length) * rank > nLetters then .error "ValueError"
      else .ok ((mergeOutSlots chain.length ins.length rank np).map
        (·.map (mergeLetterFactor chain ins rank)))

/-- factor order of `tensor_merge` (the order of the first slot; all slots are ordered alike,
`C16.mergeSlots_spec`; `[]` for the degenerate `rank = 0`). -/
def mergeResult (chain ins : List Nat) (pos : List Int) (rank : Nat := 2) :
    Except String (List Nat) :=
  match mergeSlots chain ins pos rank with
  | .error e => .error e
  | .ok ss => .ok (ss.headD [])

/-! ### `tensor_transpose` -/

/-- `[r*ndim + o for r in range(rank) for o in order]` (without the broadcast axes) -/
def transposeAxes (rank ndim : Nat) (order : List Nat) : List Nat :=
  (List.range rank).flatMap fun r => order.map fun o => r * ndim + o

/-- NumPy's check of a `transpose` argument: right length, in range, no repetition -/
def validAxes (axes : List Nat) (n : Nat) : Bool :=
  axes.length == n && axes.all (· < n) && decide axes.Nodup

/-- `sorted(order) == list(range(ndim))` -/
def orderIsRange (order : List Nat) (ndim : Nat) : Bool :=
  stableSort (fun a b => decide (a ≤ b)) order == List.range ndim

/-- factor order of `tensor_transpose(tensor(*chain), order)` for non-negative entries: the guard
`sorted(order) != list(range(ndim))` → `ValueError`, then NumPy's own check of the axes list (which
then always passes, `C16.transposeResult_spec`); new position `j` holds the old factor `order[j]`.
-/
def transposeResult (chain order : List Nat) (rank : Nat := 2) : Except String (List Nat) :=
  if !orderIsRange order chain.length then .error "ValueError"
  else if validAxes (transposeAxes rank chain.length order) (rank * chain.length) then
    .ok (order.map fun o => chain.getD o 0)
  else .error "ValueError"

/-- integer entries: a negative entry makes `sorted(order) != list(range(ndim))` -/
def transposeResultInt (chain : List Nat) (order : List Int) (rank : Nat := 2) :
    Except String (List Nat) :=
  if order.any (fun o => decide (o < 0)) then .error "ValueError"
  else transposeResult chain (order.map Int.toNat) rank

/-! ### Pauli basis index maps (`basis.py`) -/

/-- `equivalent_pauli_basis_elements(idx, N)`: the broadcast shape is `4` for the qubits in `idx`
and `1` otherwise; `ravel()` enumerates it row-major; the value is
`ravel_multi_index(multi_index, [4]*N)`. -/
def equivalentPauli (idx : List Nat) (N : Nat) : List Nat :=
  let shape := (List.range N).map fun i => if i ∈ idx then 4 else 1
  (List.range (prod shape)).map fun j =>
    mixedRadixEncode (List.replicate N 4) (mixedRadixDecode shape j)

/-- `remap_pauli_basis_elements(order, N)` (entries of `order` assumed `< N`, length `N`; see
`remapPauliChecked`) -/
def remapPauli (order : List Nat) (N : Nat) : List Nat :=
  let dims := List.replicate N 4
  (List.range (4 ^ N)).map fun x =>
    let tup := mixedRadixDecode dims x
    mixedRadixEncode dims (order.map fun i => tup.getD i 0)

/-- with the exceptions: `idx_tup[i]` out of range → `IndexError`; `ravel_multi_index` with a
multi-index of the wrong length → `ValueError`. -/
def remapPauliChecked (order : List Nat) (N : Nat) : Except String (List Nat) :=
  if order.any (· ≥ N) then .error "IndexError"
  else if order.length ≠ N then .error "ValueError"
  else .ok (remapPauli order N)

/-! ### driver -/

def parseInts (s : String) : List Int :=
  if s == "_" || s == "[]" || s.isEmpty then [] else
  (s.splitOn ",").map fun t => t.toInt!

def showNats (l : List Nat) : String := ",".intercalate (l.map toString)

def showRes : Except String (List Nat) → String
  | .ok l => "ok " ++ showNats l
  | .error e => "err " ++ e

/-- Requests (integers decimal, lists comma separated, `_` = empty list):
* `tinsert chainLen posList nArgs` — sequence `pos`;
* `tinsert_int chainLen p nArgs` — integer `pos`;
* `tmerge chainLen posList nIns [rank]` (rank defaults to 2);
* `tslots chainLen posList nIns rank` — per-slot orders `ok a,b;c,d`;
* `ttranspose chainLen orderList [rank]`;
* `pauli_equiv N idxList`, `pauli_remap N orderList`.
Chain factors are labelled `0..chainLen-1`, inserted ones `chainLen..`. -/
def handleTensor (toks : List String) : Option String :=
  let lab (c n : Nat) : List Nat := List.range' c n
  match toks with
  | ["tinsert", c, pos, n] =>
    let c := c.toNat!; let n := n.toNat!
    some (showRes (insertResult (List.range c) (lab c n) (parseInts pos)))
  | ["tinsert_int", c, p, n] =>
    let c := c.toNat!; let n := n.toNat!
    some (showRes (insertResultInt (List.range c) (lab c n) p.toInt!))
  | ["tmerge", c, pos, n] =>
    let c := c.toNat!; let n := n.toNat!
    some (showRes (mergeResult (List.range c) (lab c n) (parseInts pos) 2))
  | ["tmerge", c, pos, n, r] =>
    let c := c.toNat!; let n := n.toNat!
    some (showRes (mergeResult (List.range c) (lab c n) (parseInts pos) r.toNat!))
  | ["tslots", c, pos, n, r] =>
    let c := c.toNat!; let n := n.toNat!
    some (match mergeSlots (List.range c) (lab c n) (parseInts pos) r.toNat! with
      | .ok ss => "ok " ++ ";".intercalate (ss.map showNats)
      | .error e => "err " ++ e)
  | "ttranspose" :: c :: order :: rest =>
    let c := c.toNat!
    let rank := match rest with | [r] => r.toNat! | _ => 2
    some (showRes (transposeResultInt (List.range c) (parseInts order) rank))
  | ["pauli_equiv", N, idx] =>
    some ("ok " ++ showNats (equivalentPauli ((parseInts idx).filterMap
      fun i => if 0 ≤ i then some i.toNat else none) N.toNat!))
  | ["pauli_remap", N, order] =>
    let ord := parseInts order
    if ord.all (fun o => decide (0 ≤ o)) then
      some (showRes (remapPauliChecked (ord.map Int.toNat) N.toNat!))
    else some "err unsupported-negative-order"
  | _ => none

end FFVerif.Model.Tensor
