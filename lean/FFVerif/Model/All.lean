/- Dispatcher for the driver components of the discrete models (extended per property). -/
import FFVerif.Model.Numeric
import FFVerif.Model.Cache

namespace FFVerif.Model

def handleMore (toks : List String) : String :=
  match toks with
  | ["cache", init, ops] => Cache.handleCache init ops
  | _ => "err bad-op"

end FFVerif.Model
