/- Dispatcher for the driver components of the discrete models (extended per property). -/
import FFVerif.Model.Numeric
import FFVerif.Model.Cache
import FFVerif.Model.Proto
import FFVerif.Model.Periodic
import FFVerif.Model.Superop
import FFVerif.Model.Analytic
import FFVerif.Model.Diag
import FFVerif.Model.Tensor
import FFVerif.Model.SecondOrder
import FFVerif.Model.Gradient
import FFVerif.Model.GradientAsm
import FFVerif.Model.Pulse
import FFVerif.Model.Concat
import FFVerif.Model.Basis
import FFVerif.Model.Cumulant
import FFVerif.Model.CacheTrace
import FFVerif.Model.Effects
import FFVerif.Model.Validate
import FFVerif.Model.ConcatLogic
import FFVerif.Model.ExtendLogic
import FFVerif.Model.Registers
import FFVerif.Model.SuperopKraus
import FFVerif.Model.RemapDef
import FFVerif.Model.Tile
import FFVerif.Model.Shifts
import FFVerif.Model.Integrand
import FFVerif.Model.IntegrandShape
import FFVerif.Model.GradientInfid
import FFVerif.Model.ExtendAsm
import FFVerif.Model.TensorNum
import FFVerif.Model.EtmFn

namespace FFVerif.Model
open FFVerif FFVerif.Proto

def handleMore (toks : List String) : String :=
  match toks with
  | ["cache", init, ops] => Cache.handleCache init ops
  | ["periodic", mode, nA, N, nO, G, B, phases, L] =>
    -- B (nA,N,nO), phases (nO), L (N,N); mode = spec | fallback
    let nA := nA.toNat!; let N := N.toNat!; let nO := nO.toNat!; let G := G.toNat!
    let b : Ten3 CF nA N nO := ten3C (parseFloats B) 0 nA N nO
    let ph : Vec CF nO := vecC (parseFloats phases) 0 nO
    let l : Mat CF N N := matC (parseFloats L) 0 N N
    let S : Vector (Mat CF N N) nO := Vector.ofFn fun o =>
      let T := Mat.smul ph[o] l
      if mode == "fallback" then periodicFallback T G else geomSum T G
    "ok " ++ showFloats (flatC3 (periodicApply b S))
  | ["liouville", d, N, cast, U, C] =>
    let d := d.toNat!; let N := N.toNat!
    let r : Mat CF N N := liouville (matC (parseFloats U) 0 d d) (ten3C (parseFloats C) 0 N d d)
      (cast == "1")
    "ok " ++ showFloats (flatC2 r)
  | ["choi", d, N, S, C] =>
    let d := d.toNat!; let N := N.toNat!
    let r := liouvilleToChoi (matC (parseFloats S) 0 N N) (ten3C (parseFloats C) 0 N d d)
    "ok " ++ showFloats (flatC2 r)
  | ["fromatomic", mode, nP, nA, N, nO, tphases, Bat, Ltot] =>
    -- concatenate: phases = cumprod of the pulses' total phases, L = cumulative Liouville
    -- propagators, then calculate_control_matrix_from_atomic (mode total|correlations|pcff)
    let nP := nP.toNat!; let nA := nA.toNat!; let N := N.toNat!; let nO := nO.toNat!
    let tp : Mat CF nP nO := matC (parseFloats tphases) 0 nP nO
    let bat : Vector (Ten3 CF nA N nO) nP := Vector.ofFn fun g =>
      ten3C (parseFloats Bat) (g.1 * nA * N * nO) nA N nO
    let lt : Vector (Mat CF N N) nP := ten3C (parseFloats Ltot) 0 nP N N
    let ph := concatPhases tp
    let l := concatL lt
    if mode == "total" then "ok " ++ showFloats (flatC3 (controlMatrixFromAtomic ph bat l))
    else if mode == "correlations" then
      "ok " ++ showFloats (flatC4 (controlMatrixFromAtomicCorr ph bat l))
    else
      let c := controlMatrixFromAtomicCorr ph bat l
      "ok " ++ showFloats (flatC5 (pulseCorrelationFFFid c))
  | ["analytic", fam, n, z] =>
    let n := n.toNat!; let z := f0 z
    let v : Float :=
      if fam == "FID" then Analytic.FID z else if fam == "SE" then Analytic.SE z
      else if fam == "PDD" then Analytic.PDD z n else if fam == "CPMG" then Analytic.CPMG z n
      else if fam == "CDD" then Analytic.CDD z n else Analytic.UDD (K := CF) z n
    "ok " ++ showFloats #[v]
  | toks =>
    -- components that live in their own model files
    let handlers : List (List String → Option String) := [handleDiag, Tensor.handleTensor, handleSecondOrder, handleGradient, handleGradientAsm, Pulse.handlePulse, handleBasis, handleCumulant, Cache.handleCacheTrace, Effects.handleEffects, Validate.handleValidate, ConcatLogic.handleConcatLogic, ExtendLogic.handleExtendLogic, Registers.handleRegisters, handleSuperopKraus, RemapDef.handleRemapDef, handleSuperop, handleTile, handleShifts, handleIntegrand, IntegrandShape.handleIntegrandShape, handleGradientInfid, ExtendAsm.handleExtendAsm, TensorNum.handleTensorNum, EtmFn.handleEtmFn]
    match handlers.findSome? (fun h => h toks) with
    | some r => r
    | none => "err bad-op"

end FFVerif.Model
