/- Dispatcher for the driver components of the discrete models (extended per property). -/
import FFVerif.Model.Numeric

namespace FFVerif.Model

def handleMore (toks : List String) : String :=
  match toks with
  | _ => "err bad-op"

end FFVerif.Model
