/- Line-protocol helpers shared by the driver components (Mathlib-free). -/
import FFVerif.Core.Mat
import FFVerif.Core.Mask

namespace FFVerif.Proto
open FFVerif

def parseFloats (s : String) : Array Float :=
  if s == "-" || s.isEmpty then #[] else
  (s.splitOn ",").toArray.map fun t => Float.ofBits (t.toNat!).toUInt64

def showFloats (a : Array Float) : String :=
  ",".intercalate (a.toList.map fun x => toString x.toBits.toNat)

def showBools (a : Array Bool) : String :=
  String.ofList (a.toList.map fun b => if b then '1' else '0')

/-- real tensors from flat row-major data -/
def vecR (a : Array Float) (off n : Nat) : Vec Float n := Vector.ofFn fun i => a[off + i.1]!
def matR (a : Array Float) (off m n : Nat) : Mat Float m n :=
  Vector.ofFn fun i => vecR a (off + i.1 * n) n
def cAt (a : Array Float) (i : Nat) : CF := ⟨a[2*i]!, a[2*i+1]!⟩
def vecC (a : Array Float) (off n : Nat) : Vec CF n := Vector.ofFn fun i => cAt a (off + i.1)
def matC (a : Array Float) (off m n : Nat) : Mat CF m n :=
  Vector.ofFn fun i => vecC a (off + i.1 * n) n
def ten3C (a : Array Float) (off p m n : Nat) : Ten3 CF p m n :=
  Vector.ofFn fun i => matC a (off + i.1 * m * n) m n

def flatC1 {n} (v : Vec CF n) : Array Float := v.toArray.foldl (fun acc z => (acc.push z.re).push z.im) #[]
def flatC2 {m n} (v : Mat CF m n) : Array Float := v.toArray.foldl (fun acc r => acc ++ flatC1 r) #[]
def flatC3 {p m n} (v : Ten3 CF p m n) : Array Float := v.toArray.foldl (fun acc r => acc ++ flatC2 r) #[]
def flatC4 {q p m n} (v : Ten4 CF q p m n) : Array Float := v.toArray.foldl (fun acc r => acc ++ flatC3 r) #[]
def flatC5 {r q p m n} (v : Vector (Ten4 CF q p m n) r) : Array Float :=
  v.toArray.foldl (fun acc r => acc ++ flatC4 r) #[]


def maskKindOf (s : String) : MaskKind :=
  if s == "absGt" then .absGt else if s == "neZero" then .neZero else .absTimesDtGt

def f0 (s : String) : Float := (parseFloats s)[0]!

end FFVerif.Proto
