/-
Model of `numeric.calculate_frequency_shifts` and of the filter-function branch of
`numeric._get_integrand` that it uses (`which_pulse='total'`, `which_FF='generalized'`,
`filter_function=…`, `control_matrix=None`).  Mathlib-free, executable at IEEE doubles, reasoned
about at ℝ/ℂ in `FFVerif/Props/C10Shifts.lean`.

The statements mirrored are pinned in `Gen.pinFrequencyShifts`:

    idx = util.get_indices_from_identifiers(pulse.n_oper_identifiers, n_oper_identifiers)
    filter_function_2 = pulse.get_filter_function(omega, order=2, …)
    integrand = _get_integrand(spectrum, omega, idx, which_pulse='total', which_FF='generalized',
                               filter_function=filter_function_2)
    frequency_shifts = util.integrate(integrand, omega)/(2*np.pi)

The second-order filter function `F2` (shape `(n_nops, n_nops, N, N, n_omega)`, model
`Model.secondOrderFF` / `Model.secondOrderFFFromScratch`), the index list `idx` and the PARSED
spectrum (`util.parse_spectrum` only broadcasts and checks) are inputs.

`_get_integrand`, branch `filter_function is not None`, `which_FF == 'generalized'`:

    filter_function = np.moveaxis(filter_function, source=[-5, -4], destination=[-3, -2])
    spectrum.ndim in (1, 2):
        integrand = filter_function[..., tuple(idx), tuple(idx), :]*spectrum
        integrand = np.moveaxis(integrand, source=-2, destination=-4)
    spectrum.ndim == 3:
        integrand = filter_function[..., idx[:, None], idx, :]*spectrum
        integrand = np.moveaxis(integrand, source=[-3, -2], destination=[-5, -4])
    return integrand.real

There is no einsum on this branch (the generated contractions `Gen.numeric__get_integrand_*` belong
to the control-matrix branch, modelled in `Model/Cumulant.lean`); the three steps are written out
below one by one.
-/
import FFVerif.Core.Mat
import FFVerif.Gen.Pins
import FFVerif.Model.Proto
import FFVerif.Model.Numeric
import FFVerif.Model.Cumulant
import FFVerif.Model.SecondOrder

namespace FFVerif.Model
open FFVerif

section
variable {R K : Type}
  [Zero R] [One R] [Add R] [Mul R] [Neg R] [Sub R] [Div R] [NatCast R] [RealOps R]
  [Zero K] [One K] [Add K] [Mul K] [Neg K] [Sub K] [Div K] [CplxOps R K]

/-- `np.moveaxis(filter_function, source=[-5, -4], destination=[-3, -2])` on a rank-5 array:
`(a, b, k, l, o) ↦ (k, l, a, b, o)`. -/
def moveNoiseAxesBack {nA nB N M nO : Nat} (F : Ten5 K nA nB N M nO) : Ten5 K N M nA nB nO :=
  Vector.ofFn fun k => Vector.ofFn fun l => Vector.ofFn fun a => Vector.ofFn fun b => F[a][b][k][l]

/-- `filter_function[..., tuple(idx), tuple(idx), :]*spectrum` for a parsed spectrum of shape
`(len(idx), n_omega)` (advanced indexing with two equal index tuples picks the DIAGONAL pairs
`(idx[a], idx[a])`; the product broadcasts over the two leading basis axes):
shape `(N, M, len(idx), n_omega)`. -/
def ffTimesSpectrumDiag {nA m N M nO : Nat} (Fm : Ten5 K N M nA nA nO) (idx : Vec (Fin nA) m)
    (S : Mat K m nO) : Ten4 K N M m nO :=
  Vector.ofFn fun k => Vector.ofFn fun l => Vector.ofFn fun a => Vector.ofFn fun o =>
    Fm[k][l][idx[a]][idx[a]][o] * S[a][o]

/-- `np.moveaxis(integrand, source=-2, destination=-4)` on a rank-4 array:
`(k, l, a, o) ↦ (a, k, l, o)`. -/
def moveNoiseAxisFront {m N M nO : Nat} (I : Ten4 K N M m nO) : Ten4 K m N M nO :=
  Vector.ofFn fun a => Vector.ofFn fun k => Vector.ofFn fun l => I[k][l][a]

/-- `filter_function[..., idx[:, None], idx, :]*spectrum` for a parsed spectrum of shape
`(len(idx), len(idx), n_omega)` (all pairs `(idx[a], idx[b])`): shape
`(N, M, len(idx), len(idx), n_omega)`. -/
def ffTimesSpectrumFull {nA m N M nO : Nat} (Fm : Ten5 K N M nA nA nO) (idx : Vec (Fin nA) m)
    (S : Ten3 K m m nO) : Ten5 K N M m m nO :=
  Vector.ofFn fun k => Vector.ofFn fun l => Vector.ofFn fun a => Vector.ofFn fun b =>
    Vector.ofFn fun o => Fm[k][l][idx[a]][idx[b]][o] * S[a][b][o]

/-- `np.moveaxis(integrand, source=[-3, -2], destination=[-5, -4])` on a rank-5 array:
`(k, l, a, b, o) ↦ (a, b, k, l, o)`. -/
def moveNoiseAxesFront {m n N M nO : Nat} (I : Ten5 K N M m n nO) : Ten5 K m n N M nO :=
  Vector.ofFn fun a => Vector.ofFn fun b => Vector.ofFn fun k => Vector.ofFn fun l => I[k][l][a][b]

/-- `_get_integrand(spectrum, omega, idx, 'total', 'generalized', filter_function=F)` for
`spectrum.ndim == 2` (`S : (len(idx), n_omega)`): shape `(len(idx), N, M, n_omega)`, real. -/
def integrandFF2 {nA m N M nO : Nat} (F : Ten5 K nA nA N M nO) (idx : Vec (Fin nA) m)
    (S : Mat K m nO) : Ten4 R m N M nO :=
  Vector.map (Vector.map (Vector.map (Vector.map CplxOps.re)))
    (moveNoiseAxisFront (ffTimesSpectrumDiag (moveNoiseAxesBack F) idx S))

/-- the same for `spectrum.ndim == 3` (`S : (len(idx), len(idx), n_omega)`): shape
`(len(idx), len(idx), N, M, n_omega)`, real. -/
def integrandFF3 {nA m N M nO : Nat} (F : Ten5 K nA nA N M nO) (idx : Vec (Fin nA) m)
    (S : Ten3 K m m nO) : Ten5 R m m N M nO :=
  Vector.map (Vector.map (Vector.map (Vector.map (Vector.map CplxOps.re))))
    (moveNoiseAxesFront (ffTimesSpectrumFull (moveNoiseAxesBack F) idx S))

/-- `calculate_frequency_shifts(pulse, spectrum, omega, n_oper_identifiers)` for a spectrum of shape
`(len(idx), n_omega)` (one per noise operator), given `F2 = pulse.get_filter_function(omega,
order=2)`: `util.integrate(integrand, omega)/(2*np.pi)`, shape `(len(idx), N, N)`. -/
def frequencyShifts2 {nA m N nO : Nat} (omega : Vec R nO) (F2 : Ten5 K nA nA N N nO)
    (idx : Vec (Fin nA) m) (S : Mat K m nO) : Ten3 R m N N :=
  let I := integrandFF2 F2 idx S
  Vector.ofFn fun a => Vector.ofFn fun k => Vector.ofFn fun l =>
    integrateR omega I[a][k][l] / twoPi

/-- the same for a single spectrum of shape `(n_omega,)`: `parse_spectrum` leaves it 1-d and the
product `filter_function[..., tuple(idx), tuple(idx), :]*spectrum` broadcasts it along the
noise-operator axis. -/
def frequencyShifts1 {nA m N nO : Nat} (omega : Vec R nO) (F2 : Ten5 K nA nA N N nO)
    (idx : Vec (Fin nA) m) (S : Vec K nO) : Ten3 R m N N :=
  frequencyShifts2 omega F2 idx (Vector.ofFn fun _ => S)

/-- the same for a cross-spectral matrix `(len(idx), len(idx), n_omega)`: shape
`(len(idx), len(idx), N, N)`. -/
def frequencyShifts3 {nA m N nO : Nat} (omega : Vec R nO) (F2 : Ten5 K nA nA N N nO)
    (idx : Vec (Fin nA) m) (S : Ten3 K m m nO) : Vector (Vector (Mat R N N) m) m :=
  let I := integrandFF3 F2 idx S
  Vector.ofFn fun a => Vector.ofFn fun b => Vector.ofFn fun k => Vector.ofFn fun l =>
    integrateR omega I[a][b][k][l] / twoPi

end

/-- the source statements this file mirrors (checked against the repository by the pin machinery) -/
def frequencyShiftsSource : String := Gen.pinFrequencyShifts

/-! ### Driver component -/

open FFVerif.Proto in
/-- driver component (`nA`, `N`, … plain decimals; arrays as in `Driver.lean`; `-` = absent).
* `shifts shape(1|2|3) nA N nO m idx(m decimals, comma separated | -) F2(nA*nA*N*N*nO complex)
  S(complex: nO | m*nO | m*m*nO) omega(nO reals)` → `ok <reals: m*N*N (shape 1, 2) | m*m*N*N>`:
  `calculate_frequency_shifts` from the second-order filter function;
* `shiftsfs shape kind thr nG d nO nA nK m idx eigvals eigvecs props omega basis nopers ncoeffs dt t
  S` → the same with `F2 = secondOrderFFFromScratch …` (fields as in the `sofs` request): the whole
  path from the diagonalised pulse to the frequency shifts without cached intermediates. -/
def handleShifts (toks : List String) : Option String :=
  let parseIdx (s : String) (n bound : Nat) : Option (Vec (Fin bound) n) :=
    let l : Array Nat := if s == "-" || s.isEmpty then #[] else
      (s.splitOn ",").toArray.map fun t => t.toNat!
    if h : 0 < bound then
      if l.size == n && l.all (fun v => decide (v < bound)) then
        some (Vector.ofFn fun i => ⟨l[i.1]! % bound, Nat.mod_lt _ h⟩)
      else none
    else if hn : n = 0 then some (hn ▸ #v[]) else none
  let flatR3 {p m n : Nat} (v : Ten3 Float p m n) : Array Float :=
    v.toArray.foldl (fun acc r => r.toArray.foldl (fun acc r => acc ++ r.toArray) acc) #[]
  let run {nA N nO m : Nat} (shape : String) (om : Vec Float nO) (f2 : Ten5 CF nA nA N N nO)
      (ix : Vec (Fin nA) m) (sa : Array Float) : String :=
    if shape == "3" then
      let r := frequencyShifts3 om f2 ix (ten3C sa 0 m m nO)
      "ok " ++ showFloats (r.toArray.foldl (fun acc x => acc ++ flatR3 x) #[])
    else if shape == "1" then
      "ok " ++ showFloats (flatR3 (frequencyShifts1 om f2 ix (vecC sa 0 nO)))
    else
      "ok " ++ showFloats (flatR3 (frequencyShifts2 om f2 ix (matC sa 0 m nO)))
  match toks with
  | ["shifts", shape, nA, N, nO, m, idx, F2, S, omega] =>
    let nA := nA.toNat!; let N := N.toNat!; let nO := nO.toNat!; let m := m.toNat!
    match parseIdx idx m nA with
    | none => some "err index"
    | some ix =>
      let fa := parseFloats F2
      let f2 : Ten5 CF nA nA N N nO := Vector.ofFn fun a => ten4C fa (a.1 * nA * N * N * nO) nA N N nO
      some (run shape (vecR (parseFloats omega) 0 nO) f2 ix (parseFloats S))
  | ["shiftsfs", shape, kind, thr, nG, d, nO, nA, nK, m, idx, eigvals, eigvecs, props, omega, basis,
      nopers, ncoeffs, dt, t, S] =>
    let nG := nG.toNat!; let d := d.toNat!; let nO := nO.toNat!; let nA := nA.toNat!
    let nK := nK.toNat!; let m := m.toNat!
    match parseIdx idx m nA with
    | none => some "err index"
    | some ix =>
      let om : Vec Float nO := vecR (parseFloats omega) 0 nO
      let f2 : Ten5 CF nA nA nK nK nO := secondOrderFFFromScratch (maskKindOf kind) (f0 thr)
        (matR (parseFloats eigvals) 0 nG d) (ten3C (parseFloats eigvecs) 0 nG d d)
        (ten3C (parseFloats props) 0 nG d d) om
        (ten3C (parseFloats basis) 0 nK d d) (ten3C (parseFloats nopers) 0 nA d d)
        (matR (parseFloats ncoeffs) 0 nA nG) (vecR (parseFloats dt) 0 nG) (vecR (parseFloats t) 0 nG)
      some (run shape om f2 ix (parseFloats S))
  | _ => none

end FFVerif.Model
