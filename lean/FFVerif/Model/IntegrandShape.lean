/-
Shape-level model of `numeric._get_integrand` with its exception classes (Mathlib-free, executable;
reasoned about in `FFVerif/Props/C08Integrand.lean`, `integrand_rejects_iff`).

`Model/Integrand.lean` models the VALUES for calls with exactly one source of the documented shape.
This file models the SAME function on arbitrary argument shapes, abstracted to what decides whether
and which exception is raised and what shape comes back: arrays are their shapes, `idx` is the
list of (non-negative) indices, the Hermiticity test of `parse_spectrum` is a Boolean input.
Statement by statement:

    if control_matrix is not None: …                     (nothing can fail: np.conj / identity)
    else:
        if which_FF == 'generalized':
            filter_function = np.moveaxis(filter_function, [-5, -4], [-3, -2])
                 -> AxisError (a ValueError AND an IndexError) if filter_function.ndim < 5; for
                    `filter_function=None` the array has dimension 0: AxisError
    spectrum = util.parse_spectrum(spectrum, omega, idx)     -> ValueError (`Validate.parseSpectrum`)
    if spectrum.ndim in (1, 2):
        if filter_function is not None:                       (ALSO when control_matrix is given)
            filter_function[..., tuple(idx), tuple(idx), :]   -> IndexError (rank < 3, index out of range)
            … * spectrum                                      -> ValueError (not broadcastable)
            np.moveaxis(integrand, -2, -4)  ('generalized')   -> AxisError (rank < 4)
        else:
            ctrl_left[..., idx, :, :]    -> UnboundLocalError if control_matrix is None, IndexError
            np.einsum(einsum_str, …)     -> ValueError (ranks / dimensions do not fit)
    else: (spectrum.ndim == 3) the same with `[..., idx[:, None], idx, :]`,
          `np.moveaxis(integrand, [-3, -2], [-5, -4])` and the einsum strings without ellipsis.

`np.einsum` broadcasts dimensions of size 1 also for NAMED subscripts, and `*` broadcasts: a source
whose frequency axis has length 1 (or a spectrum of length 1) is not rejected.
-/
import FFVerif.Gen.Einsum
import FFVerif.Model.Integrand
import FFVerif.Model.Validate

namespace FFVerif.Model.IntegrandShape
open FFVerif FFVerif.Model

/-- exception classes raised inside `_get_integrand` -/
inductive Err
  | valueError
  | indexError
  /-- `numpy.exceptions.AxisError`: subclass of `ValueError` and of `IndexError` -/
  | axisError
  /-- `UnboundLocalError` (a `NameError`): `ctrl_left` was never assigned -/
  | unboundLocalError
deriving DecidableEq, Repr, Inhabited

def Err.name : Err → String
  | .valueError => "ValueError"
  | .indexError => "IndexError"
  | .axisError => "AxisError"
  | .unboundLocalError => "UnboundLocalError"

/-- `isinstance(e, ValueError)` -/
def Err.isValueError : Err → Bool
  | .valueError | .axisError => true
  | _ => false

inductive WhichPulse | total | correlations deriving DecidableEq, Repr, Inhabited
inductive WhichFF | fidelity | generalized deriving DecidableEq, Repr, Inhabited

/-- the argument `control_matrix` when it is not `None` -/
inductive CM
  /-- one `ndarray` of this shape -/
  | single (s : List Nat)
  /-- a list / tuple of two `ndarray`s -/
  | pair (l r : List Nat)
deriving DecidableEq, Repr, Inhabited

/-- `ctrl_left, ctrl_right` (shapes) -/
def CM.sides : CM → List Nat × List Nat
  | .single s => (s, s)
  | .pair l r => (l, r)

structure Args where
  /-- `spectrum.shape` -/
  spectrum : List Nat
  /-- `np.allclose(S, S.conj().swapaxes(0, 1))` on the broadcast spectrum (looked at for three axes) -/
  herm : Bool
  /-- `len(omega)` -/
  nOmega : Nat
  /-- `idx` (an integer `ndarray`, entries ≥ 0) -/
  idx : List Nat
  whichPulse : WhichPulse
  whichFF : WhichFF
  controlMatrix : Option CM
  /-- `filter_function.shape` -/
  filterFunction : Option (List Nat)
deriving Repr, Inhabited

/-! ### numpy shape calculus -/

/-- broadcasting of two axis lengths -/
def bdim (a b : Nat) : Option Nat :=
  if a = b then some a else if a = 1 then some b else if b = 1 then some a else none

/-- broadcasting of two shapes given LAST AXIS FIRST -/
def bshapeRev : List Nat → List Nat → Option (List Nat)
  | [], t => some t
  | a :: s, [] => some (a :: s)
  | a :: s, b :: t =>
    match bdim a b, bshapeRev s t with
    | some c, some r => some (c :: r)
    | _, _ => none

/-- `np.broadcast_shapes(s, t)` -/
def bshape (s t : List Nat) : Option (List Nat) := (bshapeRev s.reverse t.reverse).map List.reverse

/-- split off the last `k` axes -/
def splitLast (s : List Nat) (k : Nat) : Option (List Nat × List Nat) :=
  if k ≤ s.length then some (s.take (s.length - k), s.drop (s.length - k)) else none

/-- `np.moveaxis(x, source=[-5, -4], destination=[-3, -2])`: `(…, a, b, k, l, o) ↦ (…, k, l, a, b, o)` -/
def moveBack (s : List Nat) : Except Err (List Nat) :=
  match splitLast s 5 with
  | some (lead, [a, b, k, l, o]) => .ok (lead ++ [k, l, a, b, o])
  | _ => .error .axisError

/-- `np.moveaxis(x, source=-2, destination=-4)`: `(…, k, l, a, o) ↦ (…, a, k, l, o)` -/
def moveFront4 (s : List Nat) : Except Err (List Nat) :=
  match splitLast s 4 with
  | some (lead, [k, l, a, o]) => .ok (lead ++ [a, k, l, o])
  | _ => .error .axisError

/-- `np.moveaxis(x, source=[-3, -2], destination=[-5, -4])`: `(…, k, l, a, b, o) ↦ (…, a, b, k, l, o)` -/
def moveFront5 (s : List Nat) : Except Err (List Nat) :=
  match splitLast s 5 with
  | some (lead, [k, l, a, b, o]) => .ok (lead ++ [a, b, k, l, o])
  | _ => .error .axisError

/-- number of elements of an array of this shape -/
def shapeSize (s : List Nat) : Nat := s.foldl (· * ·) 1

/-- the bounds check of numpy's advanced indexing (numpy 1.26): an out-of-range index raises
`IndexError` — unless the indexing RESULT contains no elements (some other axis has length 0),
in which case only a `DeprecationWarning` is issued ("Out of bound index found. This was previously
ignored when the indexing result contained no elements. In the future the index error will be
raised."). -/
def indexOK (idx : List Nat) (bounds : List Nat) (result : List Nat) : Bool :=
  bounds.all (fun n => idx.all (· < n)) || shapeSize result == 0

/-- `x[..., tuple(idx), tuple(idx), :]` -/
def indexDiag (s idx : List Nat) : Except Err (List Nat) :=
  match splitLast s 3 with
  | some (lead, [n1, n2, o]) =>
    if indexOK idx [n1, n2] (lead ++ [idx.length, o]) then .ok (lead ++ [idx.length, o])
    else .error .indexError
  | _ => .error .indexError

/-- `x[..., idx[:, None], idx, :]` -/
def indexFull (s idx : List Nat) : Except Err (List Nat) :=
  match splitLast s 3 with
  | some (lead, [n1, n2, o]) =>
    if indexOK idx [n1, n2] (lead ++ [idx.length, idx.length, o]) then
      .ok (lead ++ [idx.length, idx.length, o])
    else .error .indexError
  | _ => .error .indexError

/-- `x[..., idx, :, :]` -/
def indexOps (s idx : List Nat) : Except Err (List Nat) :=
  match splitLast s 3 with
  | some (lead, [n, k, o]) =>
    if indexOK idx [n] (lead ++ [idx.length, k, o]) then .ok (lead ++ [idx.length, k, o])
    else .error .indexError
  | _ => .error .indexError

/-- `x * y` -/
def mulShape (s t : List Nat) : Except Err (List Nat) :=
  match bshape s t with
  | some r => .ok r
  | none => .error .valueError

def ofOpt (o : Option (List Nat)) : Except Err (List Nat) :=
  match o with
  | some r => .ok r
  | none => .error .valueError

/-- the einsum string of the branch (`spectrum.ndim in (1, 2)`) — the generated constants -/
def subscripts12 : WhichPulse → WhichFF → String
  | .correlations, .fidelity => Gen.numeric__get_integrand_0_subscripts
  | .correlations, .generalized => Gen.numeric__get_integrand_1_subscripts
  | .total, .fidelity => Gen.numeric__get_integrand_2_subscripts
  | .total, .generalized => Gen.numeric__get_integrand_3_subscripts

/-- the einsum string of the branch (`spectrum.ndim == 3`) -/
def subscripts3 : WhichPulse → WhichFF → String
  | .correlations, .fidelity => Gen.numeric__get_integrand_4_subscripts
  | .correlations, .generalized => Gen.numeric__get_integrand_5_subscripts
  | .total, .fidelity => Gen.numeric__get_integrand_6_subscripts
  | .total, .generalized => Gen.numeric__get_integrand_7_subscripts

/-- shape semantics of `np.einsum` for the four strings with ellipsis
`'[g]...ko,...o,[h]...{k|l}o->[gh]...[kl]o'`: the named axes are taken from the ends, what is left
is the ellipsis (broadcast over the three operands, right-aligned); axes with the same name must
be broadcastable (equal, or one of them of length 1). -/
def einsum12 (wp : WhichPulse) (wf : WhichFF) (L S R : List Nat) : Except Err (List Nat) :=
  match splitLast L 2, splitLast S 1, splitLast R 2 with
  | some (preL, [k1, o1]), some (ellS, [o2]), some (preR, [k3, o3]) =>
    let named : Except Err (List Nat × List Nat × List Nat) :=
      match wp with
      | .total => .ok ([], preL, preR)
      | .correlations =>
        match preL, preR with
        | g :: eL, h :: eR => .ok ([g, h], eL, eR)
        | _, _ => .error .valueError
    match named with
    | .error e => .error e
    | .ok (gh, ellL, ellR) =>
      match (bshape ellL ellS).bind (bshape · ellR), (bdim o1 o2).bind (bdim · o3) with
      | some ell, some o =>
        match wf with
        | .fidelity =>
          match bdim k1 k3 with
          | some _ => .ok (gh ++ ell ++ [o])
          | none => .error .valueError
        | .generalized => .ok (gh ++ ell ++ [k1, k3, o])
      | _, _ => .error .valueError
  | _, _, _ => .error .valueError

/-- shape semantics of `np.einsum` for the four strings without ellipsis
`'[g]ako,abo,[h]b{k|l}o->[gh]ab[kl]o'`: the ranks must be exactly those of the string. -/
def einsum3 (wp : WhichPulse) (wf : WhichFF) (L S R : List Nat) : Except Err (List Nat) :=
  let core (gh : List Nat) (L S R : List Nat) : Except Err (List Nat) :=
    match L, S, R with
    | [a1, k1, o1], [a2, b2, o2], [b3, k3, o3] =>
      match bdim a1 a2, bdim b2 b3, (bdim o1 o2).bind (bdim · o3) with
      | some a, some b, some o =>
        match wf with
        | .fidelity =>
          match bdim k1 k3 with
          | some _ => .ok (gh ++ [a, b, o])
          | none => .error .valueError
        | .generalized => .ok (gh ++ [a, b, k1, k3, o])
      | _, _, _ => .error .valueError
    | _, _, _ => .error .valueError
  match wp with
  | .total => core [] L S R
  | .correlations =>
    match L, R with
    | g :: L', h :: R' => core [g, h] L' S R'
    | _, _ => .error .valueError

/-! ### `_get_integrand` -/

/-- `_get_integrand(spectrum, omega, idx, which_pulse, which_FF, control_matrix, filter_function)`:
the shape of the result or the class of the exception raised. -/
def integrandShape (A : Args) : Except Err (List Nat) :=
  -- head: `if control_matrix is not None: … else: if which_FF == 'generalized': moveaxis`
  let head : Except Err (Option (List Nat)) :=
    match A.controlMatrix, A.filterFunction, A.whichFF with
    | some _, f, _ => .ok f
    | none, some f, .generalized => (moveBack f).map some
    | none, some f, .fidelity => .ok (some f)
    | none, none, .generalized => .error .axisError
    | none, none, .fidelity => .ok none
  match head with
  | .error e => .error e
  | .ok ff =>
    match Validate.parseSpectrum A.spectrum A.idx.length A.nOmega A.herm with
    | .error _ => .error .valueError
    | .ok S =>
      if S.length ≤ 2 then
        match ff with
        | some f =>
          match indexDiag f A.idx with
          | .error e => .error e
          | .ok x =>
            match mulShape x S with
            | .error e => .error e
            | .ok y => match A.whichFF with
              | .generalized => moveFront4 y
              | .fidelity => .ok y
        | none =>
          match A.controlMatrix with
          | none => .error .unboundLocalError
          | some cm =>
            match indexOps cm.sides.1 A.idx, indexOps cm.sides.2 A.idx with
            | .ok L, .ok R => einsum12 A.whichPulse A.whichFF L S R
            | .error e, _ => .error e
            | _, .error e => .error e
      else
        match ff with
        | some f =>
          match indexFull f A.idx with
          | .error e => .error e
          | .ok x =>
            match mulShape x S with
            | .error e => .error e
            | .ok y => match A.whichFF with
              | .generalized => moveFront5 y
              | .fidelity => .ok y
        | none =>
          match A.controlMatrix with
          | none => .error .unboundLocalError
          | some cm =>
            match indexOps cm.sides.1 A.idx, indexOps cm.sides.2 A.idx with
            | .ok L, .ok R => einsum3 A.whichPulse A.whichFF L S R
            | .error e, _ => .error e
            | _, .error e => .error e

/-! ### documented shapes -/

/-- leading pulse axes of the control matrix: `()` for `total`, `(G,)` for `correlations` -/
def leadCM (wp : WhichPulse) (G : Nat) : List Nat :=
  match wp with
  | .total => []
  | .correlations => [G]

/-- leading pulse axes of a filter function / of the result -/
def leadFF (wp : WhichPulse) (G : Nat) : List Nat :=
  match wp with
  | .total => []
  | .correlations => [G, G]

/-- basis axes of a generalized filter function / of the result -/
def basisAxes (wf : WhichFF) (Nl N : Nat) : List Nat :=
  match wf with
  | .fidelity => []
  | .generalized => [Nl, N]

/-- documented shape of `control_matrix`: `([G,] n_nops, N, n_omega)` -/
def docCM (wp : WhichPulse) (G nA N nO : Nat) : List Nat := leadCM wp G ++ [nA, N, nO]

/-- documented shape of `filter_function`: `([G, G,] n_nops, n_nops, [Nl, N,] n_omega)` -/
def docFF (wp : WhichPulse) (wf : WhichFF) (G nA Nl N nO : Nat) : List Nat :=
  leadFF wp G ++ [nA, nA] ++ basisAxes wf Nl N ++ [nO]

/-- documented shape of the result: `([G, G,] m, [m,] [Nl, N,] n_omega)` (`cross` ⇔
`spectrum.ndim == 3`) -/
def docOut (wp : WhichPulse) (wf : WhichFF) (cross : Bool) (G m Nl N nO : Nat) : List Nat :=
  leadFF wp G ++ (if cross then [m, m] else [m]) ++ basisAxes wf Nl N ++ [nO]

/-! ### Driver component -/

/-- driver component.  Shapes: comma separated decimals, `s` = `()` (rank 0), `-` = `None`.
`integrandshape wp(total|correlations) wf(fidelity|generalized) nOmega herm(0|1) idx(decimals | -)
spectrumShape cmL cmR ffShape` (`cmR = =` means a single array `cmL`)
→ `ok <shape>` (`s` for rank 0) or `err <exception class>`. -/
def handleIntegrandShape (toks : List String) : Option String :=
  let pShape (s : String) : Option (List Nat) :=
    if s == "s" then some [] else (s.splitOn ",").mapM (·.toNat?)
  let showShape (l : List Nat) : String :=
    if l.isEmpty then "s" else ",".intercalate (l.map toString)
  match toks with
  | ["integrandshape", wp, wf, nOmega, herm, idx, spec, cmL, cmR, ffs] =>
    let r : Option String := do
      let sp ← pShape spec
      let ix ← (if idx == "-" then some [] else pShape idx)
      let cm ← (if cmL == "-" then some none
        else if cmR == "=" then (pShape cmL).map (fun s => some (CM.single s))
        else do
          let l ← pShape cmL
          let r ← pShape cmR
          pure (some (CM.pair l r)))
      let f ← (if ffs == "-" then some none else (pShape ffs).map some)
      let A : Args := {
        spectrum := sp, herm := herm == "1", nOmega := ← nOmega.toNat?, idx := ix,
        whichPulse := if wp == "correlations" then .correlations else .total,
        whichFF := if wf == "generalized" then .generalized else .fidelity,
        controlMatrix := cm, filterFunction := f }
      pure (match integrandShape A with
        | .ok s => "ok " ++ showShape s
        | .error e => "err " ++ e.name)
    some (r.getD "err bad-request")
  | _ => none

end FFVerif.Model.IntegrandShape
