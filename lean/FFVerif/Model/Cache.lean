/-
Model of the caching logic of `PulseSequence` (pulse_sequence.py): the cached attributes are
abstracted to *tags* recording for which frequency grid a value was computed; the physical
definition of the pulse is immutable and does not appear.  Grids are identified by naturals
(`np.array_equal` ↔ equality of identifiers).  The attribute sets cleared by `cleanup` are the
lists the translator reads from the source (`Gen.CacheSets`).

Mathlib-free; executed by the driver (component `cache`) and reasoned about in `Props/C07`.
-/
import FFVerif.Gen.CacheSets

namespace FFVerif.Model.Cache

abbrev Grid := Nat

/-- cached state of one pulse object. `some g` = cached, computed for grid `g`. -/
structure Obj where
  omega : Option Grid := none
  eigvals : Bool := false
  eigvecs : Bool := false
  props : Bool := false
  totProp : Bool := false
  totPropL : Bool := false
  phases : Option Grid := none
  cm : Option Grid := none
  cmPc : Option Grid := none
  ff : Option Grid := none
  ffGen : Option Grid := none
  ffPc : Option Grid := none
  ffPcGen : Option Grid := none
  /-- second order filter function: grid it is tagged with, and whether every ingredient
  (the cached intermediates it consumed) had been computed for that same grid -/
  ff2 : Option (Grid × Bool) := none
  -- the `_intermediates` dict
  iNOps : Bool := false          -- n_opers_transformed   (frequency independent)
  iBasis : Bool := false         -- basis_transformed     (frequency independent)
  iPhase : Option Grid := none   -- phase_factors
  iFoInt : Option Grid := none   -- first_order_integral
  iCmStep : Option Grid := none  -- control_matrix_step
deriving DecidableEq, Repr, Inhabited

inductive Which | fidelity | generalized
deriving DecidableEq, Repr

inductive Mode | conservative | greedy | freq | all
deriving DecidableEq, Repr

/-- public operations -/
inductive Op where
  | diagonalize
  | getCM (g : Grid) (ci : Bool)
  | cacheCM (g : Grid) (pc : Bool)              -- explicit `cache_control_matrix(omega, cm)`
  | getFF (g : Grid) (w : Which) (order2 : Bool) (ci : Bool)
  | cacheFFvalue (g : Grid) (w : Which) (order2 : Bool)   -- `cache_filter_function(ω, filter_function=F)`
  | cacheFFfromCM (g : Grid) (w : Which) (pc : Bool)      -- `cache_filter_function(ω, control_matrix=B)`
  | cacheFFcompute (g : Grid) (w : Which) (order2 ci : Bool) -- `cache_filter_function(ω)` (computes)
  | cacheCMcompute (g : Grid) (ci : Bool)                 -- `cache_control_matrix(ω)` (computes)
  | getPcFF (w : Which)
  | getPcCM
  | getPhases (g : Grid)
  | cachePhases (g : Grid)
  | deriv (g : Grid)
  | totPropL
  | eigAccess                                   -- property access eigvals / eigvecs / propagators
  | totPropAccess
  | cleanup (m : Mode)
  | infidelity (g : Grid) (tracelessBasis : Bool) (correlations : Bool) (identityComponent : Bool)
  | decayAmps (g : Grid) (correlations : Bool) (ci : Bool)
  | cumulant (g : Grid) (secondOrder : Bool)
deriving DecidableEq, Repr

/-- what a call hands back -/
inductive Ret where
  | unit
  | plain                                       -- a frequency independent value
  | val (g : Grid) (fresh : Bool)               -- a frequency dependent value computed for `g`
  | calcError
  | valueError
deriving DecidableEq, Repr

def eqOmega (s : Obj) (g : Grid) : Bool := s.omega == some g

/-- `cleanup`: attribute names from the source; `'omega'` is the property whose setter clears
`_omega`; `_intermediates` is re-initialised to an empty dict; pops remove dict entries. -/
def clear (attrs pops : List String) (s : Obj) : Obj :=
  let has := fun a => attrs.contains a
  let inter := has "_intermediates"
  { omega := if has "omega" then none else s.omega
    eigvals := if has "_eigvals" then false else s.eigvals
    eigvecs := if has "_eigvecs" then false else s.eigvecs
    props := if has "_propagators" then false else s.props
    totProp := if has "_total_propagator" then false else s.totProp
    totPropL := if has "_total_propagator_liouville" then false else s.totPropL
    phases := if has "_total_phases" then none else s.phases
    cm := if has "_control_matrix" then none else s.cm
    cmPc := if has "_control_matrix_pc" then none else s.cmPc
    ff := if has "_filter_function" then none else s.ff
    ffGen := if has "_filter_function_gen" then none else s.ffGen
    ffPc := if has "_filter_function_pc" then none else s.ffPc
    ffPcGen := if has "_filter_function_pc_gen" then none else s.ffPcGen
    ff2 := if has "_filter_function_2" then none else s.ff2
    iNOps := if inter then false else s.iNOps
    iBasis := if inter then false else s.iBasis
    iPhase := if inter || pops.contains "phase_factors" then none else s.iPhase
    iFoInt := if inter || pops.contains "first_order_integral" then none else s.iFoInt
    iCmStep := if inter || pops.contains "control_matrix_step" then none else s.iCmStep }

def cleanup (m : Mode) (s : Obj) : Obj :=
  match m with
  | .conservative => clear Gen.cleanup_conservative_attrs Gen.cleanup_conservative_pops s
  | .greedy => clear Gen.cleanup_greedy_attrs Gen.cleanup_greedy_pops s
  | .freq => clear Gen.cleanup_freq_attrs Gen.cleanup_freq_pops s
  | .all => clear Gen.cleanup_all_attrs Gen.cleanup_all_pops s

def diagonalize (s : Obj) : Obj :=
  let s := if s.eigvals && s.eigvecs && s.props then s
           else { s with eigvals := true, eigvecs := true, props := true }
  { s with totProp := true }

/-- access to `self.total_propagator` (property: diagonalises when missing) -/
def needTotProp (s : Obj) : Obj := if s.totProp then s else diagonalize s

/-- access to `self.eigvals / eigvecs / propagators` -/
def needEig (s : Obj) : Obj :=
  if s.eigvals && s.eigvecs && s.props then s else diagonalize s

/-- `_invalidate_frequency_dependent(omega)` -/
def invalidate (g : Grid) (s : Obj) : Obj :=
  match s.omega with
  | some h => if h == g then s else cleanup .freq s
  | none => s

/-- `cache_total_phases(omega)` (phases computed from `tau`) -/
def cachePhases (g : Grid) (s : Obj) : Obj :=
  let s := invalidate g s
  { s with omega := some g, phases := some g }

/-- `cache_control_matrix(omega, control_matrix)` with a supplied matrix for grid `g` -/
def cacheCM (g : Grid) (pc : Bool) (s : Obj) : Obj :=
  let s := invalidate g s
  let s := { s with omega := some g }
  let s := if pc then { s with cmPc := some g } else { s with cm := some g }
  let s := cachePhases g s
  if s.totPropL then s else { needTotProp s with totPropL := true }

/-- the from-scratch branch of `get_control_matrix`: diagonalise, compute, optionally keep the
intermediates, cache control matrix / phases / Liouville propagator -/
def computeCM (g : Grid) (ci : Bool) (s : Obj) : Obj :=
  let s := diagonalize s
  let s := if ci then { s with iNOps := true, iBasis := true, iPhase := some g,
                               iFoInt := some g, iCmStep := some g } else s
  cacheCM g false s

def retOfTag (t : Option Grid) : Ret :=
  match t with | some h => .val h true | none => .calcError

/-- `get_control_matrix(omega, cache_intermediates=ci)`; returns the tag of the value served -/
def getCM (g : Grid) (ci : Bool) (s : Obj) : Obj × Ret :=
  if eqOmega s g then
    match s.cm with
    | some h => (s, .val h true)
    | none => match s.cmPc with
      | some h => ({ s with cm := some h }, .val h true)
      | none => let s := computeCM g ci s; (s, retOfTag s.cm)
  else
    let s := computeCM g ci (cleanup .freq s)
    (s, retOfTag s.cm)

/-- second order filter function is computed from the eigensystem and, when *both*
`basis_transformed` and `control_matrix_step` are in the dict, from those cached arrays -/
def ff2Fresh (g : Grid) (s : Obj) : Bool :=
  if s.iBasis then (match s.iCmStep with | some h => h == g | none => true) else true

def setFF (g : Grid) (w : Which) (s : Obj) : Obj :=
  match w with
  | .fidelity => { s with ff := some g }
  | .generalized => { s with ff := some g, ffGen := some g }

/-- `cache_filter_function(omega, control_matrix=…, which, order)` with `filter_function=None`,
called by the getter (`cm` already obtained for `g` when `order == 1`) or directly -/
def cacheFFcomputed (g : Grid) (w : Which) (order2 ci : Bool) (s : Obj) : Obj :=
  let s := invalidate g s
  if order2 then
    let s := needEig s
    let fr := ff2Fresh g s
    { s with omega := some g, ff2 := some (g, fr) }
  else
    let s := (getCM g ci s).1
    let s := cacheCM g false s
    setFF g w { s with omega := some g }

/-- the tag (grid, ingredients-fresh) of the cached filter function of the requested kind -/
def ffTag (w : Which) (order2 : Bool) (s : Obj) : Option (Grid × Bool) :=
  if order2 then s.ff2
  else match w with
    | .fidelity => s.ff.map fun h => (h, true)
    | .generalized => s.ffGen.map fun h => (h, true)

def retOfTag2 (t : Option (Grid × Bool)) : Ret :=
  match t with | some p => .val p.1 p.2 | none => .calcError

/-- `get_filter_function(omega, which, order, cache_intermediates)` -/
def getFF (g : Grid) (w : Which) (order2 ci : Bool) (s : Obj) : Obj × Ret :=
  if eqOmega s g then
    match ffTag w order2 s with
    | some p => (s, .val p.1 p.2)
    | none => let s := cacheFFcomputed g w order2 ci s; (s, retOfTag2 (ffTag w order2 s))
  else
    let s := cacheFFcomputed g w order2 ci (cleanup .freq s)
    (s, retOfTag2 (ffTag w order2 s))

def cacheFFvalue (g : Grid) (w : Which) (order2 : Bool) (s : Obj) : Obj :=
  let s := invalidate g s
  let s := { s with omega := some g }
  if order2 then { s with ff2 := some (g, true) } else setFF g w s

def cacheFFfromCM (g : Grid) (w : Which) (pc : Bool) (s : Obj) : Obj :=
  let s := invalidate g s
  let s := cacheCM g pc s
  let s := if pc then
      (match w with
       | .fidelity => { s with ffPc := some g }
       | .generalized => { s with ffPc := some g, ffPcGen := some g })
    else s
  setFF g w { s with omega := some g }

def getPcFF (w : Which) (s : Obj) : Obj × Ret :=
  let cached := match w with | .fidelity => s.ffPc | .generalized => s.ffPcGen
  match cached with
  | some h => (s, .val h true)
  | none => match s.cmPc with
    | some h => (match w with
                 | .fidelity => { s with ffPc := some h }
                 | .generalized => { s with ffPcGen := some h }, .val h true)
    | none => (s, .calcError)

def getPhases (g : Grid) (s : Obj) : Obj × Ret :=
  if eqOmega s g then
    match s.phases with
    | some h => (s, .val h true)
    | none => let s := cachePhases g s; (s, retOfTag s.phases)
  else
    let s := cachePhases g (cleanup .freq s)
    (s, retOfTag s.phases)

/-- `get_filter_function_derivative`: control matrix first (with intermediates), then the cached
`n_opers_transformed` / `first_order_integral` are read; `self.propagators / eigvals / eigvecs` are
read for the gradient routine (the properties diagonalise when the control matrix came from the
cache of an undiagonalised pulse, e.g. a concatenation) -/
def deriv (g : Grid) (s : Obj) : Obj × Ret :=
  let (s, r) := getCM g true s
  let fr := match s.iFoInt with | some h => h == g | none => true
  (needEig s, match r with | .val h f => .val h (f && fr) | r => r)

def totPropLGet (s : Obj) : Obj :=
  if s.totPropL then s else { needTotProp s with totPropL := true }

def decayAmps (g : Grid) (correlations ci : Bool) (s : Obj) : Obj × Ret :=
  if correlations then
    -- pulse-correlation quantities: a cached grid different from the requested one is an error
    let go : Obj × Ret :=
      match s.ffPcGen with
      | some h => (s, .val h true)
      | none => (s, match s.cmPc with | some h => .val h true | none => .calcError)
    match s.omega with
    | some h => if h == g then go else (s, .valueError)
    | none => go
  else if s.ffGen.isSome then getFF g .generalized false false s  -- (`cache_intermediates` is not passed on)
  else getCM g ci s

/-- `infidelity(…, which='correlations')` after the frequency check.  Non-traceless basis: the
pulse-correlation control matrix is contracted with the trace tensor (nothing is written).
Traceless basis: the pulse-correlation filter function (cached from the control matrix when
missing); the identity component of noise operators with a trace (`idc`) is subtracted with the
pulse-correlation control matrix, and cannot be when only the filter function is left (e.g. after
`cleanup('greedy')`): `CalculationError`. -/
def infidelityCorr (tl idc : Bool) (s : Obj) : Obj × Ret :=
  if tl then
    ((getPcFF .fidelity s).1,
     match (getPcFF .fidelity s).2 with
     | .val h f => if idc && s.cmPc.isNone then .calcError else .val h f
     | r => r)
  else (s, match s.cmPc with | some h => .val h true | none => .calcError)

def step (s : Obj) : Op → Obj × Ret
  | .diagonalize => (diagonalize s, .unit)
  | .getCM g ci => getCM g ci s
  | .cacheCM g pc => (cacheCM g pc s, .unit)
  | .getFF g w o2 ci => getFF g w o2 ci s
  | .cacheFFvalue g w o2 => (cacheFFvalue g w o2 s, .unit)
  | .cacheFFfromCM g w pc => (cacheFFfromCM g w pc s, .unit)
  | .cacheFFcompute g w o2 ci => (cacheFFcomputed g w o2 ci s, .unit)
  | .cacheCMcompute g ci => (cacheCM g false (getCM g ci s).1, .unit)
  | .getPcFF w => getPcFF w s
  | .getPcCM => (s, match s.cmPc with | some h => .val h true | none => .calcError)
  | .getPhases g => getPhases g s
  | .cachePhases g => (cachePhases g s, .unit)
  | .deriv g => deriv g s
  | .totPropL => (totPropLGet s, .plain)
  | .eigAccess => (needEig s, .plain)
  | .totPropAccess => (needTotProp s, .plain)
  | .cleanup m => (cleanup m s, .unit)
  | .infidelity g tl corr idc =>
    if corr then
      match s.omega with
      | some h => if h == g then infidelityCorr tl idc s else (s, .valueError)
      | none => infidelityCorr tl idc s
    else if tl then
      -- traceless basis: fidelity filter function, then the control matrix (to subtract the
      -- identity component; a cache hit unless the control matrix had been cleaned up)
      let (s, r) := getFF g .fidelity false false s
      ((getCM g false s).1, r)
    else getCM g false s
  | .decayAmps g corr ci => decayAmps g corr ci s
  | .cumulant g so =>
    let (s, r) := decayAmps g false so s
    if so then
      let (s, r2) := getFF g .generalized true false s
      (s, match r, r2 with
          | .val h f, .val h2 f2 => .val h (f && f2 && h == h2)
          | .val _ _, r2 => r2
          | r, _ => r)
    else (s, r)

/-- the grid an operation requests a frequency dependent value for (if any) -/
def Op.grid : Op → Option Grid
  | .getCM g _ | .getFF g _ _ _ | .getPhases g | .deriv g | .infidelity g _ false _
  | .decayAmps g false _ | .cumulant g _ => some g
  | _ => none

def run (s : Obj) (ops : List Op) : Obj := ops.foldl (fun s op => (step s op).1) s


/-! ### several objects: copies -/

/-- operations on a heap of pulse objects: an operation on object `i`, or a (shallow or deep) copy
of object `i` appended as a new object.  After the repair of `__copy__` both kinds of copy own
their intermediates dict, so the model duplicates the state. -/
inductive HOp where
  | on (i : Nat) (op : Op)
  | copy (i : Nat)
  | deepcopy (i : Nat)
deriving Repr

def hstep (h : List Obj) : HOp → List Obj × Ret
  | .on i op =>
    match h[i]? with
    | some s => let r := step s op; (h.set i r.1, r.2)
    | none => (h, .unit)
  | .copy i | .deepcopy i =>
    match h[i]? with
    | some s => (h ++ [s], .unit)
    | none => (h, .unit)

def hrun (h : List Obj) (ops : List HOp) : List Obj := ops.foldl (fun h op => (hstep h op).1) h

/-! ### line protocol (driver component `cache`) -/

def showTag : Option Grid → String
  | none => "-"
  | some g => toString g

def showB (b : Bool) : String := if b then "1" else "0"

def Obj.show (s : Obj) : String :=
  " ".intercalate [showTag s.omega, showB s.eigvals, showB s.eigvecs, showB s.props,
    showB s.totProp, showB s.totPropL, showTag s.phases, showTag s.cm, showTag s.cmPc,
    showTag s.ff, showTag s.ffGen, showTag s.ffPc, showTag s.ffPcGen,
    (match s.ff2 with | none => "-" | some (g, f) => toString g ++ (if f then "+" else "!")),
    showB s.iNOps, showB s.iBasis, showTag s.iPhase, showTag s.iFoInt, showTag s.iCmStep]

def Ret.show : Ret → String
  | .unit => "unit"
  | .plain => "plain"
  | .val g f => "val" ++ toString g ++ (if f then "+" else "!")
  | .calcError => "CalculationError"
  | .valueError => "ValueError"

def parseTag (t : String) : Option Grid := if t == "-" then none else some t.toNat!
def parseB (t : String) : Bool := t == "1"
def parseWhich (t : String) : Which := if t == "g" then .generalized else .fidelity

def Obj.parse (t : List String) : Obj :=
  match t with
  | [om, e1, e2, e3, tp, tpl, ph, cm, cmpc, ff, ffg, ffpc, ffpcg, ff2, i1, i2, i3, i4, i5] =>
    { omega := parseTag om, eigvals := parseB e1, eigvecs := parseB e2, props := parseB e3,
      totProp := parseB tp, totPropL := parseB tpl, phases := parseTag ph, cm := parseTag cm,
      cmPc := parseTag cmpc, ff := parseTag ff, ffGen := parseTag ffg, ffPc := parseTag ffpc,
      ffPcGen := parseTag ffpcg,
      ff2 := (if ff2 == "-" then none
              else some ((ff2.dropEnd 1).toString.toNat!, ff2.endsWith "+")),
      iNOps := parseB i1, iBasis := parseB i2, iPhase := parseTag i3, iFoInt := parseTag i4,
      iCmStep := parseTag i5 }
  | _ => {}

def parseOp (t : String) : Option Op :=
  match t.splitOn ":" with
  | ["diagonalize"] => some .diagonalize
  | ["getCM", g, ci] => some (.getCM g.toNat! (parseB ci))
  | ["cacheCM", g, pc] => some (.cacheCM g.toNat! (parseB pc))
  | ["getFF", g, w, o2, ci] => some (.getFF g.toNat! (parseWhich w) (parseB o2) (parseB ci))
  | ["cacheFFvalue", g, w, o2] => some (.cacheFFvalue g.toNat! (parseWhich w) (parseB o2))
  | ["cacheFFfromCM", g, w, pc] => some (.cacheFFfromCM g.toNat! (parseWhich w) (parseB pc))
  | ["cacheFFcompute", g, w, o2, ci] =>
    some (.cacheFFcompute g.toNat! (parseWhich w) (parseB o2) (parseB ci))
  | ["cacheCMcompute", g, ci] => some (.cacheCMcompute g.toNat! (parseB ci))
  | ["getPcFF", w] => some (.getPcFF (parseWhich w))
  | ["getPcCM"] => some .getPcCM
  | ["getPhases", g] => some (.getPhases g.toNat!)
  | ["cachePhases", g] => some (.cachePhases g.toNat!)
  | ["deriv", g] => some (.deriv g.toNat!)
  | ["totPropL"] => some .totPropL
  | ["eigAccess"] => some .eigAccess
  | ["totPropAccess"] => some .totPropAccess
  | ["cleanup", m] => some (.cleanup (if m == "conservative" then .conservative
      else if m == "greedy" then .greedy else if m == "freq" then .freq else .all))
  | ["infidelity", g, tl, corr, idc] =>
    some (.infidelity g.toNat! (parseB tl) (parseB corr) (parseB idc))
  | ["decayAmps", g, corr, ci] => some (.decayAmps g.toNat! (parseB corr) (parseB ci))
  | ["cumulant", g, so] => some (.cumulant g.toNat! (parseB so))
  | _ => none

def parseHOp (t : String) : Option HOp :=
  match t.splitOn "@" with
  | ["copy", i] => some (.copy i.toNat!)
  | ["deepcopy", i] => some (.deepcopy i.toNat!)
  | [i, op] => (parseOp op).map (.on i.toNat!)
  | _ => none

/-- `cache <initial state, 19 tokens joined by ','> <hop>;<hop>;…` → after every step
`<index of the touched object>=<state>|<ret>` joined by `;` -/
def handleCache (init : String) (ops : String) : String := Id.run do
  let mut h : List Obj := [Obj.parse (init.splitOn ",")]
  let mut out : Array String := #[]
  for t in ops.splitOn ";" do
    match parseHOp t with
    | none => return "err bad-op " ++ t
    | some hop =>
      let (h', r) := hstep h hop
      h := h'
      let i := match hop with | .on i _ => i | _ => h.length - 1
      out := out.push (toString i ++ "=" ++ (h[i]?.getD {}).show ++ "|" ++ r.show)
  return "ok " ++ ";".intercalate out.toList

end FFVerif.Model.Cache
