/-
Model of the numerical assembly of the control matrix and of the fidelity filter function in
`pulse_sequence.extend` (Pauli path, `cache_filter_function` true):

```
control_matrix = np.zeros((n_nops_new, (d_per_qubit**N)**2, len(omega)), dtype=complex)
for ind, pulse in zip(idx, pulses):
    basis_idx = equivalent_pauli_basis_elements(ind, N)
    n_oper_idx = slice(n_ops_counter, n_ops_counter + n_nops); n_ops_counter += n_nops
    scaling_factor = d_per_qubit**(N - len(ind))
    control_matrix[n_oper_idx, basis_idx] = pulse.get_control_matrix(omega)*np.sqrt(scaling_factor)
if additional_noise_Hamiltonian is not None:
    control_matrix[n_ops_counter:] = numeric.calculate_control_matrix_from_scratch(…newpulse…)
filter_function = numeric.calculate_filter_function(control_matrix)
newpulse.cache_control_matrix(omega, control_matrix[n_sort_idx])
newpulse.cache_filter_function(omega, filter_function=filter_function[n_sort_idx[:, None],
                                                                      n_sort_idx[None, :]])
```

`d_per_qubit = 2` (the Pauli path).  Inputs of the model: per mapped pulse the ascending qubit tuple
`ind` and the cached control matrix `(n_nops, 4^len(ind), n_omega)`; the rows of the additional noise
Hamiltonian are `Model.controlMatrixFromScratch` of the register pulse (`additionalRows`); the final
`argsort` of the identifiers (`n_sort_idx`, modelled in `Model/RemapDef`) is an input list.

Mathlib-free; executed by the driver (component `extendasm`) and reasoned about in
`Props/C05Nfold`.
-/
import FFVerif.Model.Numeric
import FFVerif.Model.Tensor
import FFVerif.Model.Basis
import FFVerif.Model.Proto

namespace FFVerif.Model.ExtendAsm
open FFVerif FFVerif.Model FFVerif.Model.Tensor

/-- NumPy fancy-index assignment `out[idxs] = src` along the first axis, executed entry by entry
in list order (a later entry overwrites an earlier one): `out[idxs[j]] = src[j₀ + j]`.  Indices
outside the array (NumPy: `IndexError`) are ignored; they do not occur for
`equivalent_pauli_basis_elements(ind, N)` with `ind ⊆ range(N)`. -/
def scatterSet {α : Type} {M n : Nat} (src : Vector α n) :
    List Nat → Nat → Vector α M → Vector α M
  | [], _, out => out
  | k :: rest, j, out =>
    scatterSet src rest (j + 1) (if h : j < n then out.setIfInBounds k src[j] else out)

/-- one mapped pulse as the filter-function part of `extend` sees it: the (ascending) qubit tuple
`ind` and `pulse.get_control_matrix(omega)` of shape `(n_nops, 4^len(ind), n_omega)` -/
structure MappedPulse (K : Type) (nO : Nat) where
  idx : List Nat
  nA : Nat
  cm : Ten3 K nA (4 ^ idx.length) nO

section
variable {R K : Type}
  [Zero R] [One R] [Add R] [Mul R] [Neg R] [Sub R] [Div R] [NatCast R] [RealOps R]
  [Zero K] [One K] [Add K] [Mul K] [Neg K] [Sub K] [Div K] [CplxOps R K]

/-- `np.sqrt(scaling_factor)`, `scaling_factor = d_per_qubit**(N - len(ind))` -/
def scaleOf (N len : Nat) : R := RealOps.sqrt (((2 ^ (N - len) : Nat) : R))

/-- `row * np.sqrt(scaling_factor)` (complex array times real scalar) -/
def scaleRow {m nO : Nat} (s : R) (row : Mat K m nO) : Mat K m nO :=
  Mat.ofFn fun j o => row[j][o] * CplxOps.ofReal s

/-- one row of the assembled control matrix: zeros, then the scaled row of the pulse written to
the columns `basis_idx = equivalent_pauli_basis_elements(ind, N)` -/
def extendRow {nO : Nat} (N : Nat) (idx : List Nat) (row : Mat K (4 ^ idx.length) nO) :
    Mat K (4 ^ N) nO :=
  scatterSet (scaleRow (scaleOf (R := R) N idx.length) row) (equivalentPauli idx N) 0
    (Vector.replicate (4 ^ N) (Vector.replicate nO 0))

/-- the block of rows `control_matrix[n_oper_idx]` of one mapped pulse -/
def extendRows {nO : Nat} (N : Nat) (p : MappedPulse K nO) : Vector (Mat K (4 ^ N) nO) p.nA :=
  Vector.ofFn fun a => extendRow (R := R) N p.idx p.cm[a]

/-- `n_ops_counter` after the loop over the pulses -/
def totalRows {nO : Nat} : List (MappedPulse K nO) → Nat
  | [] => 0
  | p :: ps => p.nA + totalRows ps

/-- the rows of all mapped pulses, in the order of `pulses = multi_qubit_pulses +
single_qubit_pulses` -/
def pulseRows {nO : Nat} (N : Nat) :
    (ps : List (MappedPulse K nO)) → Vector (Mat K (4 ^ N) nO) (totalRows ps)
  | [] => #v[]
  | p :: ps => extendRows (R := R) N p ++ pulseRows N ps

/-- **`control_matrix` of `extend` before the final sort**: the rows of the mapped pulses followed by
the rows `add` of the additional noise Hamiltonian (`nAdd = 0` when there is none). -/
def extendControlMatrix {nO nAdd : Nat} (N : Nat) (ps : List (MappedPulse K nO))
    (add : Ten3 K nAdd (4 ^ N) nO) : Ten3 K (totalRows ps + nAdd) (4 ^ N) nO :=
  pulseRows (R := R) N ps ++ add

/-- **`filter_function` of `extend` before the final sort**:
`numeric.calculate_filter_function(control_matrix)`; contains the cross-correlation blocks between
different pulses and with the additional noise Hamiltonian. -/
def extendFilterFunction {nO nAdd : Nat} (N : Nat) (ps : List (MappedPulse K nO))
    (add : Ten3 K nAdd (4 ^ N) nO) : Ten3 K (totalRows ps + nAdd) (totalRows ps + nAdd) nO :=
  filterFunctionFid (extendControlMatrix (R := R) N ps add)

/-- the rows of the additional noise Hamiltonian: `calculate_control_matrix_from_scratch` on the
register pulse (its eigen-data and cumulative propagators are those `extend` has just assembled or
`diagonalize` has computed; they are inputs here), `Basis.pauli(N)`; `kind`, `thr` = guard of
`_first_order_integral` (the driver passes `Gen.firstOrderMaskKind`, `Gen.firstOrderMaskThr`). -/
def additionalRows {nG nO nAdd : Nat} (kind : MaskKind) (thr : R) (N : Nat) (eigvals : Mat R nG (2 ^ N))
    (eigvecs props : Vector (Mat K (2 ^ N) (2 ^ N)) nG) (omega : Vec R nO)
    (nOpers : Vector (Mat K (2 ^ N) (2 ^ N)) nAdd) (nCoeffs : Mat R nAdd nG) (dt t : Vec R nG) :
    Ten3 K nAdd (4 ^ N) nO :=
  controlMatrixFromScratch kind thr eigvals eigvecs
    props omega (pauliBasis (K := K) N) nOpers nCoeffs dt t

end

/-- `arr[n_sort_idx]` (gather along the first axis; an index outside the array — NumPy:
`IndexError` — yields `dflt`) -/
def gatherRows {α : Type} {n : Nat} (v : Vector α n) (perm : List Nat) (dflt : α) : Vector α n :=
  Vector.ofFn fun i => (v[perm.getD i.1 0]?).getD dflt

/-- `filter_function[n_sort_idx[:, None], n_sort_idx[None, :]]` -/
def gatherBoth {α : Type} {n m : Nat} (F : Vector (Vector (Vector α m) n) n) (perm : List Nat)
    (dflt : α) : Vector (Vector (Vector α m) n) n :=
  Vector.ofFn fun a => Vector.ofFn fun b =>
    ((F[perm.getD a.1 0]?).bind fun r => r[perm.getD b.1 0]?).getD (Vector.replicate m dflt)

/-! ### driver component `extendasm` -/

open FFVerif.Proto

def parseNats (s : String) : List Nat :=
  if s == "_" || s == "-" || s.isEmpty then [] else (s.splitOn ",").map (·.toNat!)

/-- parse the mapped pulses: `idxs` is `;`-separated lists of qubits, `nAs` the row counts, `cms`
the concatenated control matrices (complex, each `(nA, 4^len, nO)`) -/
def parsePulses (nO : Nat) (idxs : List (List Nat)) (nAs : List Nat) (data : Array Float) :
    List (MappedPulse CF nO) :=
  let rec go : List (List Nat) → List Nat → Nat → List (MappedPulse CF nO)
    | idx :: is, nA :: ns, off =>
      { idx := idx, nA := nA, cm := ten3C data off nA (4 ^ idx.length) nO }
        :: go is ns (off + nA * 4 ^ idx.length * nO)
    | _, _, _ => []
  go idxs nAs 0

/-- Requests:
* `extendasm cm N nO idxs nAs cms sortIdx` → `ok <cached control matrix, (n, 4^N, nO) complex>
  <cached filter function, (n, n, nO) complex>` (two payloads separated by a blank), without
  additional noise Hamiltonian; `idxs` = `;`-separated comma lists of qubits (`_` = none),
  `nAs` comma list, `cms` the concatenated complex control matrices, `sortIdx` = `n_sort_idx`;
* `extendasm cmadd N nO idxs nAs cms sortIdx nG nAdd eigvals eigvecs props omega nopers ncoeffs dt t`
  → the same with the additional rows computed from scratch on the register data. -/
def handleExtendAsm (toks : List String) : Option String :=
  let idxsOf (s : String) : List (List Nat) :=
    if s == "_" || s.isEmpty then [] else (s.splitOn ";").map parseNats
  match toks with
  | ["extendasm", "cm", N, nO, idxs, nAs, cms, sortIdx] =>
    let N := N.toNat!; let nO := nO.toNat!
    let ps := parsePulses nO (idxsOf idxs) (parseNats nAs) (parseFloats cms)
    let add : Ten3 CF 0 (4 ^ N) nO := #v[]
    let cm := extendControlMatrix (R := Float) N ps add
    let ff := extendFilterFunction (R := Float) N ps add
    let perm := parseNats sortIdx
    let z : CF := 0
    some ("ok " ++ showFloats (flatC3 (gatherRows cm perm (Vector.replicate _ (Vector.replicate _ z))))
      ++ " " ++ showFloats (flatC3 (gatherBoth ff perm z)))
  | ["extendasm", "cmadd", N, nO, idxs, nAs, cms, sortIdx, nG, nAdd, eigvals, eigvecs, props, omega,
      nopers, ncoeffs, dt, t] =>
    let N := N.toNat!; let nO := nO.toNat!; let nG := nG.toNat!; let nAdd := nAdd.toNat!
    let ps := parsePulses nO (idxsOf idxs) (parseNats nAs) (parseFloats cms)
    let add : Ten3 CF nAdd (4 ^ N) nO := additionalRows Gen.firstOrderMaskKind
      (Gen.firstOrderMaskThr (R := Float)) N (matR (parseFloats eigvals) 0 nG (2 ^ N))
      (ten3C (parseFloats eigvecs) 0 nG (2 ^ N) (2 ^ N)) (ten3C (parseFloats props) 0 nG (2 ^ N) (2 ^ N))
      (vecR (parseFloats omega) 0 nO) (ten3C (parseFloats nopers) 0 nAdd (2 ^ N) (2 ^ N))
      (matR (parseFloats ncoeffs) 0 nAdd nG) (vecR (parseFloats dt) 0 nG) (vecR (parseFloats t) 0 nG)
    let cm := extendControlMatrix (R := Float) N ps add
    let ff := extendFilterFunction (R := Float) N ps add
    let perm := parseNats sortIdx
    let z : CF := 0
    some ("ok " ++ showFloats (flatC3 (gatherRows cm perm (Vector.replicate _ (Vector.replicate _ z))))
      ++ " " ++ showFloats (flatC3 (gatherBoth ff perm z)))
  | _ => none

end FFVerif.Model.ExtendAsm
