/-
Model of the fidelity/cumulant layer of `filter_functions/numeric.py` (Mathlib-free, executable at
IEEE doubles, reasoned about at ℝ/ℂ in `FFVerif.Props.C08` / `FFVerif.Props.C09`):

* `util.integrateC` (trapezoid),
* `Basis.four_element_traces`,
* `numeric._get_integrand` (control-matrix paths, `which_pulse='total'`) and
  `numeric.calculate_decay_amplitudes` (plain and memory-parsimonious),
* `numeric.calculate_cumulant_function` (single-qubit shortcut and general trace-tensor branch),
* `numeric.infidelity` (`which='total'`, both branches on `basis.istraceless`).

The control matrix `B` (shape `(n_nops, N, n_omega)`), the parsed spectrum and — for the traceless
branch of `infidelity` — the output of `_identity_element_index` are inputs.
-/
import FFVerif.Core.Mat
import FFVerif.Gen.Einsum
import FFVerif.Gen.Constants
import FFVerif.Model.Proto
import FFVerif.Model.Numeric

namespace FFVerif.Model
open FFVerif

/-- Subscripts of the contraction in `Basis.four_element_traces` (basis.py).
NOTE: the translator currently emits no `Gen` definition for this site (the property getter is
shadowed by its `.setter` of the same qualified name), so `fourElementTraces` below is written by
hand in the shape the generator would produce; this constant records the string it mirrors. -/
def fourElementTracesSubscripts : String := "iab,jbc,kcd,lda->ijkl"

section
variable {R K : Type}
  [Zero R] [One R] [Add R] [Mul R] [Neg R] [Sub R] [Div R] [NatCast R] [RealOps R]
  [Zero K] [One K] [Add K] [Mul K] [Neg K] [Sub K] [Div K] [CplxOps R K]

/-! ### `util.integrateC` -/

/-- `util.integrateC(f, x)` on the last axis, generic in the value type `F` (`emb` embeds the real
grid spacings, `two` is the divisor):
`dx = np.diff(x); ret = f[..., 1:] + f[..., :-1]; ret *= dx; return ret.sum(axis=-1)/2`. -/
def integrateWith {F : Type} [Zero F] [Add F] [Mul F] [Div F] (emb : R → F) (two : F) {n : Nat}
    (x : Vec R n) (f : Vec F n) : F :=
  (fsum (n - 1) fun i =>
    (f[i.1 + 1]'(by have := i.2; omega) + f[i.1]'(by have := i.2; omega))
      * emb (x[i.1 + 1]'(by have := i.2; omega) - x[i.1]'(by have := i.2; omega))) / two

/-- `util.integrateC` for a complex-valued integrand -/
def integrateC {n : Nat} (x : Vec R n) (f : Vec K n) : K :=
  integrateWith (CplxOps.ofReal : R → K) (CplxOps.ofReal ((2 : Nat) : R)) x f

/-- `util.integrateC` for a real-valued integrand (all uses in `numeric.py`: `_get_integrand`
returns `integrand.real`) -/
def integrateR {n : Nat} (x : Vec R n) (f : Vec R n) : R :=
  integrateWith (fun r : R => r) ((2 : Nat) : R) x f

/-! ### `Basis.four_element_traces` -/

/-- `oe.contract('iab,jbc,kcd,lda->ijkl', C, C, C, C)` : `T[i][j][k][l] = tr(C_i C_j C_k C_l)` -/
def fourElementTraces {N d : Nat} (C : Vector (Mat K d d) N) : Ten4 K N N N N :=
  Gen.basis_Basis_four_element_traces_0 C C C C

/-! ### `_get_integrand` and `calculate_decay_amplitudes` (`which='total'`, control-matrix path) -/

/-- `x.conj()` on a rank-3 array -/
def conj3 {a b c : Nat} (B : Ten3 K a b c) : Ten3 K a b c :=
  Vector.map (Vector.map (Vector.map CplxOps.conj)) B

/-- fancy indexing of the leading axis `B[idx]` -/
def selectRowsC {α : Type} {nA m : Nat} (idx : Vec (Fin nA) m) (B : Vector α nA) : Vector α m :=
  Vector.ofFn fun a => B[idx[a]]

/-- `2*np.pi` -/
def twoPi : R := ((2 : Nat) : R) * RealOps.pi

/-- `_get_integrand(spectrum, omega, idx, 'total', 'generalized', control_matrix=[left, right])`
for `spectrum.ndim == 2` (parsed spectrum `S` of shape `(len(idx), n_omega)`):
`np.einsum('...ko,...o,...lo->...klo', conj(left)[..., idx, :, :], S, right[..., idx, :, :]).real`,
shape `(len(idx), Nl, N, n_omega)`.  `left`/`right` are passed already indexed. -/
def integrandGenLR {m Nl N nO : Nat} (Bl : Ten3 K m Nl nO) (Br : Ten3 K m N nO) (S : Mat K m nO) :
    Vector (Vector (Vector (Vec R nO) N) Nl) m :=
  Vector.map (Vector.map (Vector.map (Vector.map CplxOps.re)))
    (Gen.numeric__get_integrand_3_e1 (conj3 Bl) S Br)

/-- `calculate_decay_amplitudes(…, which='total', memory_parsimonious=False)` through the
control-matrix path for a spectrum of shape `(len(idx), n_omega)` (one per noise operator):
`util.integrateC(integrand, omega)/(2*np.pi)`, shape `(len(idx), N, N)`. -/
def decayAmplitudes2 {nA m N nO : Nat} (omega : Vec R nO) (B : Ten3 K nA N nO)
    (idx : Vec (Fin nA) m) (S : Mat K m nO) : Ten3 R m N N :=
  let Bs := selectRowsC idx B
  let I := integrandGenLR Bs Bs S
  Vector.ofFn fun a => Vector.ofFn fun k => Vector.ofFn fun l =>
    integrateR omega I[a][k][l] / twoPi

/-- the same for a single spectrum of shape `(n_omega,)`: `parse_spectrum` leaves it 1-d and the
ellipsis of `'...ko,...o,...lo->...klo'` broadcasts it along the noise-operator axis. -/
def decayAmplitudes1 {nA m N nO : Nat} (omega : Vec R nO) (B : Ten3 K nA N nO)
    (idx : Vec (Fin nA) m) (S : Vec K nO) : Ten3 R m N N :=
  decayAmplitudes2 omega B idx (Vector.ofFn fun _ => S)

/-- the memory-parsimonious loop of `calculate_decay_amplitudes` (spectrum `(len(idx), n_omega)`):
for every `k` the integrand is set up with `control_matrix=[B[..., k:k+1, :], B]` and
`decay_amplitudes[..., k:k+1, :] = util.integrateC(integrand, omega)/(2*np.pi)`. -/
def decayAmplitudes2Pars {nA m N nO : Nat} (omega : Vec R nO) (B : Ten3 K nA N nO)
    (idx : Vec (Fin nA) m) (S : Mat K m nO) : Ten3 R m N N :=
  let Bs := selectRowsC idx B
  let rows : Vector (Vector (Mat R 1 N) m) N := Vector.ofFn fun k =>
    -- `control_matrix[..., k:k+1, :]` (sliced before the `idx` selection, which acts on axis -3)
    let Bl : Ten3 K m 1 nO := selectRowsC idx (Vector.map (fun Ba => (#v[Ba[k]] : Mat K 1 nO)) B)
    let I := integrandGenLR Bl Bs S
    Vector.ofFn fun a => Vector.ofFn fun z => Vector.ofFn fun l =>
      integrateR omega I[a][z][l] / twoPi
  Vector.ofFn fun a => Vector.ofFn fun k => Vector.ofFn fun l => rows[k][a][0][l]

/-- `_get_integrand(…, 'total', 'generalized', control_matrix=[left, right])` for
`spectrum.ndim == 3` (`S` of shape `(len(idx), len(idx), n_omega)`):
`np.einsum('ako,abo,blo->abklo', …).real`. -/
def integrandGen3LR {m Nl N nO : Nat} (Bl : Ten3 K m Nl nO) (Br : Ten3 K m N nO)
    (S : Ten3 K m m nO) : Vector (Vector (Vector (Vector (Vec R nO) N) Nl) m) m :=
  Vector.map (Vector.map (Vector.map (Vector.map (Vector.map CplxOps.re))))
    (Gen.numeric__get_integrand_7 (conj3 Bl) S Br)

/-- `calculate_decay_amplitudes(…, which='total')` for a cross-spectral matrix, shape
`(len(idx), len(idx), N, N)`. -/
def decayAmplitudes3 {nA m N nO : Nat} (omega : Vec R nO) (B : Ten3 K nA N nO)
    (idx : Vec (Fin nA) m) (S : Ten3 K m m nO) : Vector (Vector (Mat R N N) m) m :=
  let Bs := selectRowsC idx B
  let I := integrandGen3LR Bs Bs S
  Vector.ofFn fun a => Vector.ofFn fun b => Vector.ofFn fun k => Vector.ofFn fun l =>
    integrateR omega I[a][b][k][l] / twoPi

/-- memory-parsimonious loop for a cross-spectral matrix -/
def decayAmplitudes3Pars {nA m N nO : Nat} (omega : Vec R nO) (B : Ten3 K nA N nO)
    (idx : Vec (Fin nA) m) (S : Ten3 K m m nO) : Vector (Vector (Mat R N N) m) m :=
  let Bs := selectRowsC idx B
  let rows : Vector (Vector (Vector (Mat R 1 N) m) m) N := Vector.ofFn fun k =>
    let Bl : Ten3 K m 1 nO := selectRowsC idx (Vector.map (fun Ba => (#v[Ba[k]] : Mat K 1 nO)) B)
    let I := integrandGen3LR Bl Bs S
    Vector.ofFn fun a => Vector.ofFn fun b => Vector.ofFn fun z => Vector.ofFn fun l =>
      integrateR omega I[a][b][z][l] / twoPi
  Vector.ofFn fun a => Vector.ofFn fun b => Vector.ofFn fun k => Vector.ofFn fun l =>
    rows[k][a][b][0][l]

/-! ### `calculate_cumulant_function` -/

/-- the complex `2` by which `oe.contract(…)` results are divided -/
def twoK : K := CplxOps.ofReal ((2 : Nat) : R)

/-- general (trace-tensor) branch, first-order statement, for ONE pair of noise sources:
`-( + c('...kl,klji->...ij') - c('...kl,kjli->...ij') - c('...kl,kilj->...ij')
    + c('...kl,kijl->...ij') ) / 2` with operands `(decay_amplitudes, traces)`. -/
def cumulantFirst {N : Nat} (Gamma : Mat K N N) (T : Ten4 K N N N N) : Mat K N N :=
  let c0 := Gen.numeric_calculate_cumulant_function_0_e0 Gamma T
  let c1 := Gen.numeric_calculate_cumulant_function_1_e0 Gamma T
  let c2 := Gen.numeric_calculate_cumulant_function_2_e0 Gamma T
  let c3 := Gen.numeric_calculate_cumulant_function_3_e0 Gamma T
  Mat.ofFn fun i j => (-(c0[i][j] - c1[i][j] - c2[i][j] + c3[i][j])) / (twoK : K)

/-- general branch, the term subtracted when `second_order`:
`( + c('...kl,klji->...ij') - c('...kl,lkji->...ij') - c('...kl,klij->...ij')
   + c('...kl,lkij->...ij') ) / 2` with operands `(frequency_shifts, traces)`. -/
def cumulantSecondTerm {N : Nat} (Delta : Mat K N N) (T : Ten4 K N N N N) : Mat K N N :=
  let c4 := Gen.numeric_calculate_cumulant_function_4_e0 Delta T
  let c5 := Gen.numeric_calculate_cumulant_function_5_e0 Delta T
  let c6 := Gen.numeric_calculate_cumulant_function_6_e0 Delta T
  let c7 := Gen.numeric_calculate_cumulant_function_7_e0 Delta T
  Mat.ofFn fun i j => (c4[i][j] - c5[i][j] - c6[i][j] + c7[i][j]) / (twoK : K)

/-- general branch of `calculate_cumulant_function` before the final `.real`
(`Delta = none` ⇔ `second_order=False`) -/
def cumulantGeneral {N : Nat} (Gamma : Mat K N N) (Delta : Option (Mat K N N))
    (T : Ten4 K N N N N) : Mat K N N :=
  let K1 := cumulantFirst Gamma T
  match Delta with
  | none => K1
  | some D =>
    let K2 := cumulantSecondTerm D T
    Mat.ofFn fun i j => K1[i][j] - K2[i][j]

/-- `deque.rotate()` on a deque of length 3 (rotate right by one) -/
def dequeRotate (v : Vector Bool 3) : Vector Bool 3 := #v[v[2], v[0], v[1]]

/-- state of `diag_deque` at the start of loop iteration `i = n + 1` -/
def diagDeque : Nat → Vector Bool 3
  | 0 => #v[false, true, true]
  | n + 1 => dequeRotate (diagDeque n)

/-- `diag_idx = [False] + list(diag_deque)` in iteration `i` (`i ≥ 1`) -/
def diagIdx (i : Nat) (k : Fin 4) : Bool :=
  if h : k.1 = 0 then false else (diagDeque (i - 1))[k.1 - 1]'(by have := k.2; omega)

/-- single-qubit shortcut of `calculate_cumulant_function` (selected by the test recorded in
`Gen.cumulantShortcutTest`), for ONE pair of noise sources, before the
final `.real`; `N = 4` (`diag_idx` has length 4):
* `cumulant_function[..., diag_mask] = decay_amplitudes.swapaxes(-1, -2)[..., diag_mask]` with
  `diag_mask[1:, 1:] = ~eye(3)`: `K_ij = Γ_ji` for `i ≠ j`, `i, j ≥ 1`;
* `K_ii = -decay_amplitudes[..., diag_idx, diag_idx].sum(-1)` for `i ≥ 1`;
* `if second_order: K[1:, 1:] -= Δ[1:, 1:]; K[1:, 1:] += Δ[1:, 1:].swapaxes(-1, -2)`;
* everything else stays `0`. -/
def cumulantSingleQubit (Gamma : Mat K 4 4) (Delta : Option (Mat K 4 4)) : Mat K 4 4 :=
  let K1 : Mat K 4 4 := Mat.ofFn fun i j =>
    if i.1 = 0 ∨ j.1 = 0 then 0
    else if i = j then -(fsum 4 fun k => if diagIdx i.1 k then Gamma[k][k] else 0)
    else Gamma[j][i]
  match Delta with
  | none => K1
  | some D => Mat.ofFn fun i j =>
    if i.1 = 0 ∨ j.1 = 0 then K1[i][j] else K1[i][j] - D[i][j] + D[j][i]

/-! ### `infidelity` (`which='total'`) -/

/-- `traces_diag = (sparse.diagonal(traces, axis1=2, axis2=3).sum(-1)
                  - sparse.diagonal(traces, axis1=1, axis2=3).sum(-1))`:
`[k][l] = Σ_i T[k][l][i][i] - Σ_i T[k][i][l][i]`. -/
def tracesDiag {N : Nat} (T : Ten4 K N N N N) : Mat K N N :=
  Mat.ofFn fun k l => (fsum N fun i => T[k][l][i][i]) - (fsum N fun i => T[k][i][l][i])

/-- the variable `filter_function` of `infidelity(which='total')`, shape `(n_nops, n_nops, n_omega)`.
* `not basis.istraceless`: `einsum('ako,blo,kl->abo', B.conj(), B, traces_diag)/pulse.d`;
* else: `get_filter_function(which='fidelity')` and, `if identity_idx.size`, minus
  `einsum('ako,bko->abo', Bi.conj(), Bi)` with `Bi = B[:, identity_idx]`.
`idIdx` is the output of `_identity_element_index(basis)`. -/
def fidelityFF {nA N nO q : Nat} (istraceless : Bool) (d : Nat) (B : Ten3 K nA N nO)
    (T : Ten4 K N N N N) (idIdx : Vec (Fin N) q) : Ten3 K nA nA nO :=
  if !istraceless then
    let F := Gen.numeric_infidelity_0 (conj3 B) B (tracesDiag T)
    Vector.map (Vector.map (Vector.map fun z => z / (CplxOps.ofReal ((d : Nat) : R) : K))) F
  else
    let F := filterFunctionFid B
    if q = 0 then F
    else
      let Bi : Ten3 K nA q nO := Vector.map (fun Ba => Vector.ofFn fun r => Ba[idIdx[r]]) B
      let G := Gen.numeric_infidelity_1 (conj3 Bi) Bi
      Vector.ofFn fun a => Vector.ofFn fun b => Vector.ofFn fun o => F[a][b][o] - G[a][b][o]

/-- tail of `infidelity` for `spectrum.ndim == 2` (`S : (len(idx), n_omega)`):
`integrand = (filter_function[tuple(idx), tuple(idx), :]*spectrum).real`,
`infid = util.integrateC(integrand, omega)/(2*np.pi*pulse.d)`. -/
def infidelityDiag {nA m nO : Nat} (omega : Vec R nO) (F : Ten3 K nA nA nO)
    (idx : Vec (Fin nA) m) (S : Mat K m nO) (d : Nat) : Vec R m :=
  Vector.ofFn fun a =>
    integrateR omega (Vector.ofFn fun o => CplxOps.re (F[idx[a]][idx[a]][o] * S[a][o]))
      / (twoPi * ((d : Nat) : R))

/-- tail of `infidelity` for `spectrum.ndim == 3`:
`integrand = (filter_function[idx[:, None], idx, :]*spectrum).real`. -/
def infidelityFull {nA m nO : Nat} (omega : Vec R nO) (F : Ten3 K nA nA nO)
    (idx : Vec (Fin nA) m) (S : Ten3 K m m nO) (d : Nat) : Mat R m m :=
  Vector.ofFn fun a => Vector.ofFn fun b =>
    integrateR omega (Vector.ofFn fun o => CplxOps.re (F[idx[a]][idx[b]][o] * S[a][b][o]))
      / (twoPi * ((d : Nat) : R))

/-- `infidelity(pulse, S, omega, which='total')` from the control matrix, spectrum `(len(idx), n_omega)` -/
def infidelityFromCM2 {nA N nO q m : Nat} (istraceless : Bool) (d : Nat) (omega : Vec R nO)
    (B : Ten3 K nA N nO) (T : Ten4 K N N N N) (idIdx : Vec (Fin N) q) (idx : Vec (Fin nA) m)
    (S : Mat K m nO) : Vec R m :=
  infidelityDiag omega (fidelityFF (R := R) istraceless d B T idIdx) idx S d

/-- the same for a single spectrum `(n_omega,)` (broadcast by `filter_function[…]*spectrum`) -/
def infidelityFromCM1 {nA N nO q m : Nat} (istraceless : Bool) (d : Nat) (omega : Vec R nO)
    (B : Ten3 K nA N nO) (T : Ten4 K N N N N) (idIdx : Vec (Fin N) q) (idx : Vec (Fin nA) m)
    (S : Vec K nO) : Vec R m :=
  infidelityFromCM2 istraceless d omega B T idIdx idx (Vector.ofFn fun _ => S)

/-- the same for a cross-spectral matrix `(len(idx), len(idx), n_omega)` -/
def infidelityFromCM3 {nA N nO q m : Nat} (istraceless : Bool) (d : Nat) (omega : Vec R nO)
    (B : Ten3 K nA N nO) (T : Ten4 K N N N N) (idIdx : Vec (Fin N) q) (idx : Vec (Fin nA) m)
    (S : Ten3 K m m nO) : Mat R m m :=
  infidelityFull omega (fidelityFF (R := R) istraceless d B T idIdx) idx S d

/-! ### `infidelity` (`which='correlations'`) -/

/-- `np.einsum('gako,hblo,kl->ghabo', x0, x1, x2)` — the contraction of the `which='correlations'`
branch of `infidelity` for non-traceless bases (repo commit f209498).
NOTE: hand-written in the generator's shape because this copy of `Gen/Einsum.lean` predates that
commit; after regeneration it is `Gen.numeric_infidelity_3` (and the `'gako,hbko->ghabo'` site used
below moves from `Gen.numeric_infidelity_3` to `Gen.numeric_infidelity_3`). -/
def pcTraceContraction {n_g n_a n_k n_o n_h n_b n_l : Nat}
    (x0 : Vector (Ten3 K n_a n_k n_o) n_g) (x1 : Vector (Ten3 K n_b n_l n_o) n_h)
    (x2 : Mat K n_k n_l) : Vector (Vector (Ten3 K n_a n_b n_o) n_h) n_g :=
  Gen.numeric_infidelity_2 x0 x1 x2

def pcTraceContractionSubscripts : String := Gen.numeric_infidelity_2_subscripts

/-- the variable `filter_function` of `infidelity(which='correlations')`, shape
`(G, G, n_nops, n_nops, n_omega)`; `Bpc = pulse.get_pulse_correlation_control_matrix()`
(`(G, n_nops, N, n_omega)`), `pcCached = pulse.is_cached('control_matrix_pc')`.
* `not basis.istraceless`: `einsum('gako,hblo,kl->ghabo', Bpc.conj(), Bpc, traces_diag)/pulse.d`;
* else `get_pulse_correlation_filter_function()` = `einsum('gako,hbko->ghabo', Bpc.conj(), Bpc)`;
* then, `if identity_idx.size and pcCached`, minus `einsum('gako,hbko->ghabo', Bi.conj(), Bi)` with
  `Bi = Bpc[:, :, identity_idx]`. -/
def fidelityFFpc {G nA N nO q : Nat} (istraceless : Bool) (d : Nat)
    (Bpc : Vector (Ten3 K nA N nO) G) (T : Ten4 K N N N N) (idIdx : Vec (Fin N) q)
    (pcCached : Bool) : Vector (Vector (Ten3 K nA nA nO) G) G :=
  let F : Vector (Vector (Ten3 K nA nA nO) G) G :=
    if !istraceless then
      let F0 := pcTraceContraction (Vector.map conj3 Bpc) Bpc (tracesDiag T)
      Vector.map (Vector.map (Vector.map (Vector.map (Vector.map
        fun z => z / (CplxOps.ofReal ((d : Nat) : R) : K))))) F0
    else
      Gen.numeric_calculate_pulse_correlation_filter_function_0 (Vector.map conj3 Bpc) Bpc
  if q ≠ 0 ∧ pcCached then
    let Bi : Vector (Ten3 K nA q nO) G :=
      Vector.map (Vector.map fun Ba => Vector.ofFn fun r => Ba[idIdx[r]]) Bpc
    let Gs := Gen.numeric_infidelity_3 (Vector.map conj3 Bi) Bi
    Vector.ofFn fun g => Vector.ofFn fun h => Vector.ofFn fun a => Vector.ofFn fun b =>
      Vector.ofFn fun o => F[g][h][a][b][o] - Gs[g][h][a][b][o]
  else F

/-- `infidelity(…, which='correlations')`, cross-spectral matrix: per pair of pulses `(g, h)` the
same tail as for `which='total'` (`filter_function[..., idx[:, None], idx, :]*spectrum`). -/
def infidelityPC3 {G nA N nO q m : Nat} (istraceless : Bool) (d : Nat) (omega : Vec R nO)
    (Bpc : Vector (Ten3 K nA N nO) G) (T : Ten4 K N N N N) (idIdx : Vec (Fin N) q)
    (pcCached : Bool) (idx : Vec (Fin nA) m) (S : Ten3 K m m nO) :
    Vector (Vector (Mat R m m) G) G :=
  let F := fidelityFFpc (R := R) istraceless d Bpc T idIdx pcCached
  Vector.ofFn fun g => Vector.ofFn fun h => infidelityFull omega F[g][h] idx S d

/-- the same for one spectrum per noise operator (`filter_function[..., tuple(idx), tuple(idx), :]`) -/
def infidelityPC2 {G nA N nO q m : Nat} (istraceless : Bool) (d : Nat) (omega : Vec R nO)
    (Bpc : Vector (Ten3 K nA N nO) G) (T : Ten4 K N N N N) (idIdx : Vec (Fin N) q)
    (pcCached : Bool) (idx : Vec (Fin nA) m) (S : Mat K m nO) :
    Vector (Vector (Vec R m) G) G :=
  let F := fidelityFFpc (R := R) istraceless d Bpc T idIdx pcCached
  Vector.ofFn fun g => Vector.ofFn fun h => infidelityDiag omega F[g][h] idx S d

/-- `PulseSequence.get_control_matrix` of a concatenated pulse in terms of the pulse-correlation
control matrix: `control_matrix_pc.sum(axis=0)` -/
def totalControlMatrix {G nA N nO : Nat} (Bpc : Vector (Ten3 K nA N nO) G) : Ten3 K nA N nO :=
  Vector.ofFn fun a => Vector.ofFn fun k => Vector.ofFn fun o => fsum G fun g => Bpc[g][a][k][o]

end

/-! ### Driver component -/

open FFVerif.Proto in
/-- driver component (`a`, `N`, … are plain decimals; arrays as in `Driver.lean`; `-` = absent).
* `integrateC n x(n reals) f(n complex)` → `ok <1 complex>`;
* `traces4 N d C(N*d*d complex)` → `ok <N⁴ complex>`;
* `cumulant N mode(general|single) Gamma(N*N complex) Delta(N*N complex | -) T(N⁴ complex | -)`
  → `ok <N*N complex>` (one pair of noise sources, before `.real`; `single` requires `N = 4`);
* `decay shape(1|2|3) pars(0|1) nA N nO m idx(m decimals, comma separated | -) B(nA*N*nO complex)
  S(complex: nO | m*nO | m*m*nO) omega(nO reals)` → `ok <reals: m*N*N (shape 1, 2) | m*m*N*N>`;
* `infid shape(1|2|3) istraceless(0|1) d nA N nO q m idx idIdx(q decimals | -) B T(N⁴ complex | -)
  S omega` → `ok <reals: m (shape 1, 2) | m*m>`;
* `infidpc shape istraceless(0|1) pcCached(0|1) d G nA N nO q m idx idIdx Bpc(G*nA*N*nO complex)
  T S omega` → `ok <reals: G*G*m (shape 1, 2) | G*G*m*m>` (`which='correlations'`). -/
def handleCumulant (toks : List String) : Option String :=
  let parseIdx (s : String) (n bound : Nat) : Option (Vec (Fin bound) n) :=
    let l : Array Nat := if s == "-" || s.isEmpty then #[] else
      (s.splitOn ",").toArray.map fun t => t.toNat!
    if h : 0 < bound then
      if l.size == n && l.all (fun v => decide (v < bound)) then
        some (Vector.ofFn fun i => ⟨l[i.1]! % bound, Nat.mod_lt _ h⟩)
      else none
    else if hn : n = 0 then some (hn ▸ #v[]) else none
  let flatR3 {p m n : Nat} (v : Ten3 Float p m n) : Array Float :=
    v.toArray.foldl (fun acc r => r.toArray.foldl (fun acc r => acc ++ r.toArray) acc) #[]
  match toks with
  | ["integrate", n, x, f] =>
    let n := n.toNat!
    let r : CF := integrateC (vecR (parseFloats x) 0 n) (vecC (parseFloats f) 0 n)
    some ("ok " ++ showFloats #[r.re, r.im])
  | ["traces4", N, d, C] =>
    let N := N.toNat!; let d := d.toNat!
    let r : Ten4 CF N N N N := fourElementTraces (ten3C (parseFloats C) 0 N d d)
    some ("ok " ++ showFloats (flatC4 r))
  | ["cumulant", N, mode, Gamma, Delta, T] =>
    let N := N.toNat!
    let g : Mat CF N N := matC (parseFloats Gamma) 0 N N
    let dl : Option (Mat CF N N) := if Delta == "-" then none else some (matC (parseFloats Delta) 0 N N)
    if mode == "single" then
      if h : N = 4 then
        some ("ok " ++ showFloats (flatC2 (cumulantSingleQubit (h ▸ g) (h ▸ dl))))
      else some "err index"
    else
      let ta := parseFloats T
      let t : Ten4 CF N N N N := Vector.ofFn fun i => ten3C ta (i.1 * N * N * N) N N N
      some ("ok " ++ showFloats (flatC2 (cumulantGeneral (R := Float) g dl t)))
  | ["decay", shape, pars, nA, N, nO, m, idx, B, S, omega] =>
    let nA := nA.toNat!; let N := N.toNat!; let nO := nO.toNat!; let m := m.toNat!
    match parseIdx idx m nA with
    | none => some "err index"
    | some ix =>
      let b : Ten3 CF nA N nO := ten3C (parseFloats B) 0 nA N nO
      let om : Vec Float nO := vecR (parseFloats omega) 0 nO
      let sa := parseFloats S
      if shape == "3" then
        let s : Ten3 CF m m nO := ten3C sa 0 m m nO
        let r := if pars == "1" then decayAmplitudes3Pars om b ix s else decayAmplitudes3 om b ix s
        some ("ok " ++ showFloats (r.toArray.foldl (fun acc x => acc ++ flatR3 x) #[]))
      else
        let s : Mat CF m nO := if shape == "1" then Vector.ofFn fun _ => vecC sa 0 nO
          else matC sa 0 m nO
        let r := if pars == "1" then decayAmplitudes2Pars om b ix s else decayAmplitudes2 om b ix s
        some ("ok " ++ showFloats (flatR3 r))
  | ["infid", shape, istl, d, nA, N, nO, q, m, idx, idIdx, B, T, S, omega] =>
    let d := d.toNat!; let nA := nA.toNat!; let N := N.toNat!; let nO := nO.toNat!
    let q := q.toNat!; let m := m.toNat!
    match parseIdx idx m nA, parseIdx idIdx q N with
    | some ix, some iq =>
      let b : Ten3 CF nA N nO := ten3C (parseFloats B) 0 nA N nO
      let om : Vec Float nO := vecR (parseFloats omega) 0 nO
      let ta := parseFloats T
      let t : Ten4 CF N N N N := Vector.ofFn fun i => ten3C ta (i.1 * N * N * N) N N N
      let sa := parseFloats S
      let tl := istl == "1"
      if shape == "3" then
        let r : Mat Float m m := infidelityFromCM3 tl d om b t iq ix (ten3C sa 0 m m nO)
        some ("ok " ++ showFloats (r.toArray.foldl (fun acc x => acc ++ x.toArray) #[]))
      else
        let s : Mat CF m nO := if shape == "1" then Vector.ofFn fun _ => vecC sa 0 nO
          else matC sa 0 m nO
        let r : Vec Float m := infidelityFromCM2 tl d om b t iq ix s
        some ("ok " ++ showFloats r.toArray)
    | _, _ => some "err index"
  | ["infidpc", shape, istl, cached, d, G, nA, N, nO, q, m, idx, idIdx, Bpc, T, S, omega] =>
    let d := d.toNat!; let G := G.toNat!; let nA := nA.toNat!; let N := N.toNat!
    let nO := nO.toNat!; let q := q.toNat!; let m := m.toNat!
    match parseIdx idx m nA, parseIdx idIdx q N with
    | some ix, some iq =>
      let ba := parseFloats Bpc
      let b : Vector (Ten3 CF nA N nO) G := Vector.ofFn fun g => ten3C ba (g.1 * nA * N * nO) nA N nO
      let om : Vec Float nO := vecR (parseFloats omega) 0 nO
      let ta := parseFloats T
      let t : Ten4 CF N N N N := Vector.ofFn fun i => ten3C ta (i.1 * N * N * N) N N N
      let sa := parseFloats S
      let tl := istl == "1"; let pc := cached == "1"
      if shape == "3" then
        let r := infidelityPC3 tl d om b t iq pc ix (ten3C sa 0 m m nO)
        some ("ok " ++ showFloats (r.toArray.foldl (fun acc x => x.toArray.foldl
          (fun acc y => y.toArray.foldl (fun acc z => acc ++ z.toArray) acc) acc) #[]))
      else
        let s : Mat CF m nO := if shape == "1" then Vector.ofFn fun _ => vecC sa 0 nO
          else matC sa 0 m nO
        let r := infidelityPC2 tl d om b t iq pc ix s
        some ("ok " ++ showFloats (r.toArray.foldl (fun acc x => x.toArray.foldl
          (fun acc y => acc ++ y.toArray) acc) #[]))
    | _, _ => some "err index"
  | _ => none

end FFVerif.Model
