/-
Effect model for property C18 ("computations never modify caller-owned data").

A theorem cannot observe Python aliasing; what can be stated is the *frame argument*: memory is a
set of cells, each with an owner; a call is abstracted to the set of cells it writes; if no call
writes a caller-owned cell, every caller-owned cell has the same content after any history.  The
premise — which cells a call of the public API may write — is the table `declaredWrites`, obtained
by reading the source (every entry names the lines looked at) and compared by the harness with the
*measured* write set (fingerprints of all reachable arrays before / after a call) through the
driver component `effects`.

Mathlib-free.
-/

namespace FFVerif.Model.Effects

/-! ### cells, worlds, effects -/

inductive Owner where
  | callerArg          -- arrays / objects the caller passes in
  | returnedEarlier    -- arrays handed out to the caller by earlier calls
  | pulseDefinition    -- the physical definition of a pulse (operators, coefficients, dt, basis)
  | pulseCache         -- cached attributes of a pulse / lazily computed attributes of a basis
  | fresh              -- allocated by the call itself
deriving DecidableEq, Repr

structure Cell where
  id : Nat
  owner : Owner
deriving DecidableEq, Repr

/-- owned by the caller: must be bit-identical after every computation -/
def Owner.callerOwned : Owner → Bool
  | .callerArg | .returnedEarlier | .pulseDefinition => true
  | .pulseCache | .fresh => false

/-- cell id ↦ content version -/
abbrev World := Nat → Nat

/-- an effect-annotated operation: the cells it writes -/
structure EOp where
  writes : List Nat
deriving Repr

/-- executing an operation bumps the version of exactly the written cells -/
def apply (w : World) (op : EOp) : World :=
  fun i => if op.writes.contains i then w i + 1 else w i

def run (w : World) (h : List EOp) : World := h.foldl apply w

/-- number of operations of a history that write cell `i` -/
def writeCount (i : Nat) (h : List EOp) : Nat := h.countP (fun op => op.writes.contains i)

/-- the operation writes only cells that the layout `cells` does not attribute to the caller -/
def EOp.FrameSafe (cells : List Cell) (op : EOp) : Prop :=
  ∀ i ∈ op.writes, ∀ c ∈ cells, c.id = i → c.owner = .pulseCache ∨ c.owner = .fresh

/-! ### the declared write sets of the public API -/

/-- kinds of cells the harness fingerprints -/
inductive CellKind where
  | argArray      -- array / sequence / dict arguments (operators, coefficients, dt, omega, spectrum,
                  -- identifiers, qubit mappings, precomputed decay amplitudes, intermediates dict …)
  | argBasisData  -- the elements (array data) of a `Basis` passed as argument or as `self`
  | outArg        -- an explicit `out=` / buffer argument
  | returned      -- the *contents* of arrays handed out by earlier calls (cached control matrix,
                  -- filter functions, phases, eigensystem, propagators, …)
  | pulseDef      -- c_opers, n_opers, identifiers, c_coeffs, n_coeffs, dt, d, basis of a pulse
  | pulseCache    -- the cache *slots* of a pulse: `_t`, `_tau`, `_omega`, `_eigvals`, `_eigvecs`,
                  -- `_propagators`, `_total_*`, `_control_matrix*`, `_filter_function*`,
                  -- `_intermediates` (rebinding a slot / inserting or popping a dict key)
  | basisCache    -- lazily computed attributes of a `Basis`: `_isherm`, `_isorthonorm`,
                  -- `_istraceless`, `_iscomplete`, `_sparse`, `_four_element_traces`
  | fresh         -- newly allocated results (arrays, new pulses, new bases)
deriving DecidableEq, Repr

def CellKind.owner : CellKind → Owner
  | .argArray | .argBasisData | .outArg => .callerArg
  | .returned => .returnedEarlier
  | .pulseDef => .pulseDefinition
  | .pulseCache | .basisCache => .pulseCache
  | .fresh => .fresh

def CellKind.name : CellKind → String
  | .argArray => "argArray"
  | .argBasisData => "argBasisData"
  | .outArg => "outArg"
  | .returned => "returned"
  | .pulseDef => "pulseDef"
  | .pulseCache => "pulseCache"
  | .basisCache => "basisCache"
  | .fresh => "fresh"

def CellKind.all : List CellKind :=
  [.argArray, .argBasisData, .outArg, .returned, .pulseDef, .pulseCache, .basisCache, .fresh]

/-- is the call an in-place helper? -/
inductive InPlace where
  | no             -- a computation: must not write caller-owned cells
  | documented     -- documented to work in place (`copy=False`, `out=`, cachers, `cleanup`, `tidyup`)
  | undocumented   -- writes a caller-owned cell without saying so: a finding
deriving DecidableEq, Repr

def InPlace.name : InPlace → String
  | .no => "no" | .documented => "documented" | .undocumented => "undocumented"

/-- the public API (one constructor per call shape with a distinct write set) -/
inductive ApiCall where
  -- pulse_sequence.PulseSequence
  | psInit | psEq | psGetitem | psCopy | psDeepcopy | psIsCached | psTau | psDiagonalize
  | psGetControlMatrix | psCacheControlMatrix | psGetPcControlMatrix
  | psGetFilterFunction | psCacheFilterFunction | psGetPcFilterFunction
  | psGetFilterFunctionDerivative | psGetTotalPhases | psCacheTotalPhases
  | psEigAccess | psTotalPropagatorLiouville | psCleanup | psPropagatorAtArbT
  -- pulse_sequence module functions
  | concatenateWithoutFF | concatenate | concatenatePeriodic | remap | extend
  -- numeric
  | numDiagonalize | numControlMatrixFromScratch | numControlMatrixFromScratchOut
  | numControlMatrixFromAtomic | numControlMatrixPeriodic | numNoiseOperatorsFromScratch
  | numNoiseOperatorsFromAtomic | numFilterFunction | numPcFilterFunction
  | numSecondOrderFilterFunction | numDecayAmplitudes | numFrequencyShifts
  | numCumulantFunction | numErrorTransferMatrix | numInfidelity
  -- gradient
  | gradControlMatrixDerivative | gradFilterFunctionDerivative | gradInfidelityDerivative
  -- basis
  | basisNew | basisPauli | basisGgm | basisFromPartial | basisNormalizeInPlace
  | basisNormalizeCopy | basisTidyup | basisProperties | basisNormalizeFn | basisExpand
  | basisGgmExpand
  -- util
  | utilTensor | utilTensorInsert | utilTensorMerge | utilTensorTranspose | utilCexp
  | utilCexpOut | utilRemoveFloatErrors | utilIntegrate | utilMdot | utilDotHS | utilOperEquiv
  | utilGetSampleFrequencies | utilParseSpectrum
  -- superoperator
  | supLiouvilleRepresentation | supLiouvilleToChoi | supLiouvilleIsCP | supLiouvilleIsCCP
deriving DecidableEq, Repr

def ApiCall.all : List ApiCall :=
  [.psInit, .psEq, .psGetitem, .psCopy, .psDeepcopy, .psIsCached, .psTau, .psDiagonalize,
   .psGetControlMatrix, .psCacheControlMatrix, .psGetPcControlMatrix,
   .psGetFilterFunction, .psCacheFilterFunction, .psGetPcFilterFunction,
   .psGetFilterFunctionDerivative, .psGetTotalPhases, .psCacheTotalPhases,
   .psEigAccess, .psTotalPropagatorLiouville, .psCleanup, .psPropagatorAtArbT,
   .concatenateWithoutFF, .concatenate, .concatenatePeriodic, .remap, .extend,
   .numDiagonalize, .numControlMatrixFromScratch, .numControlMatrixFromScratchOut,
   .numControlMatrixFromAtomic, .numControlMatrixPeriodic, .numNoiseOperatorsFromScratch,
   .numNoiseOperatorsFromAtomic, .numFilterFunction, .numPcFilterFunction,
   .numSecondOrderFilterFunction, .numDecayAmplitudes, .numFrequencyShifts,
   .numCumulantFunction, .numErrorTransferMatrix, .numInfidelity,
   .gradControlMatrixDerivative, .gradFilterFunctionDerivative, .gradInfidelityDerivative,
   .basisNew, .basisPauli, .basisGgm, .basisFromPartial, .basisNormalizeInPlace,
   .basisNormalizeCopy, .basisTidyup, .basisProperties, .basisNormalizeFn, .basisExpand,
   .basisGgmExpand,
   .utilTensor, .utilTensorInsert, .utilTensorMerge, .utilTensorTranspose, .utilCexp,
   .utilCexpOut, .utilRemoveFloatErrors, .utilIntegrate, .utilMdot, .utilDotHS, .utilOperEquiv,
   .utilGetSampleFrequencies, .utilParseSpectrum,
   .supLiouvilleRepresentation, .supLiouvilleToChoi, .supLiouvilleIsCP, .supLiouvilleIsCCP]

/-- the Python name under which the harness asks for a call -/
def ApiCall.name : ApiCall → String
  | .psInit => "PulseSequence.__init__"
  | .psEq => "PulseSequence.__eq__"
  | .psGetitem => "PulseSequence.__getitem__"
  | .psCopy => "PulseSequence.__copy__"
  | .psDeepcopy => "PulseSequence.__deepcopy__"
  | .psIsCached => "PulseSequence.is_cached"
  | .psTau => "PulseSequence.tau"
  | .psDiagonalize => "PulseSequence.diagonalize"
  | .psGetControlMatrix => "PulseSequence.get_control_matrix"
  | .psCacheControlMatrix => "PulseSequence.cache_control_matrix"
  | .psGetPcControlMatrix => "PulseSequence.get_pulse_correlation_control_matrix"
  | .psGetFilterFunction => "PulseSequence.get_filter_function"
  | .psCacheFilterFunction => "PulseSequence.cache_filter_function"
  | .psGetPcFilterFunction => "PulseSequence.get_pulse_correlation_filter_function"
  | .psGetFilterFunctionDerivative => "PulseSequence.get_filter_function_derivative"
  | .psGetTotalPhases => "PulseSequence.get_total_phases"
  | .psCacheTotalPhases => "PulseSequence.cache_total_phases"
  | .psEigAccess => "PulseSequence.propagators"
  | .psTotalPropagatorLiouville => "PulseSequence.total_propagator_liouville"
  | .psCleanup => "PulseSequence.cleanup"
  | .psPropagatorAtArbT => "PulseSequence.propagator_at_arb_t"
  | .concatenateWithoutFF => "concatenate_without_filter_function"
  | .concatenate => "concatenate"
  | .concatenatePeriodic => "concatenate_periodic"
  | .remap => "remap"
  | .extend => "extend"
  | .numDiagonalize => "numeric.diagonalize"
  | .numControlMatrixFromScratch => "numeric.calculate_control_matrix_from_scratch"
  | .numControlMatrixFromScratchOut => "numeric.calculate_control_matrix_from_scratch(out=)"
  | .numControlMatrixFromAtomic => "numeric.calculate_control_matrix_from_atomic"
  | .numControlMatrixPeriodic => "numeric.calculate_control_matrix_periodic"
  | .numNoiseOperatorsFromScratch => "numeric.calculate_noise_operators_from_scratch"
  | .numNoiseOperatorsFromAtomic => "numeric.calculate_noise_operators_from_atomic"
  | .numFilterFunction => "numeric.calculate_filter_function"
  | .numPcFilterFunction => "numeric.calculate_pulse_correlation_filter_function"
  | .numSecondOrderFilterFunction => "numeric.calculate_second_order_filter_function"
  | .numDecayAmplitudes => "numeric.calculate_decay_amplitudes"
  | .numFrequencyShifts => "numeric.calculate_frequency_shifts"
  | .numCumulantFunction => "numeric.calculate_cumulant_function"
  | .numErrorTransferMatrix => "numeric.error_transfer_matrix"
  | .numInfidelity => "numeric.infidelity"
  | .gradControlMatrixDerivative => "gradient.calculate_derivative_of_control_matrix_from_scratch"
  | .gradFilterFunctionDerivative => "gradient.calculate_filter_function_derivative"
  | .gradInfidelityDerivative => "gradient.infidelity_derivative"
  | .basisNew => "Basis.__new__"
  | .basisPauli => "Basis.pauli"
  | .basisGgm => "Basis.ggm"
  | .basisFromPartial => "Basis.from_partial"
  | .basisNormalizeInPlace => "Basis.normalize(copy=False)"
  | .basisNormalizeCopy => "Basis.normalize(copy=True)"
  | .basisTidyup => "Basis.tidyup"
  | .basisProperties => "Basis.properties"
  | .basisNormalizeFn => "basis.normalize"
  | .basisExpand => "basis.expand"
  | .basisGgmExpand => "basis.ggm_expand"
  | .utilTensor => "util.tensor"
  | .utilTensorInsert => "util.tensor_insert"
  | .utilTensorMerge => "util.tensor_merge"
  | .utilTensorTranspose => "util.tensor_transpose"
  | .utilCexp => "util.cexp"
  | .utilCexpOut => "util.cexp(out=)"
  | .utilRemoveFloatErrors => "util.remove_float_errors"
  | .utilIntegrate => "util.integrate"
  | .utilMdot => "util.mdot"
  | .utilDotHS => "util.dot_HS"
  | .utilOperEquiv => "util.oper_equiv"
  | .utilGetSampleFrequencies => "util.get_sample_frequencies"
  | .utilParseSpectrum => "util.parse_spectrum"
  | .supLiouvilleRepresentation => "superoperator.liouville_representation"
  | .supLiouvilleToChoi => "superoperator.liouville_to_choi"
  | .supLiouvilleIsCP => "superoperator.liouville_is_CP"
  | .supLiouvilleIsCCP => "superoperator.liouville_is_cCP"

/-- **Declared write sets**, obtained by reading the source (line numbers of the tree at commit
278118a).  A kind is listed when some admissible call of that shape can write a cell of the kind;
the harness checks `measured ⊆ declared` and, for caller-owned kinds, `declared ⊆ measured` on at
least one call.  `fresh` cells are not observable by a before/after fingerprint. -/
def declaredWrites : ApiCall → List CellKind
  -- pulse_sequence.py:252-305; `_parse_args` 1216-1257 keeps `np.asarray(dt)` (1225: the caller's
  -- array object itself, no write); `_parse_Hamiltonian` 1260-1314 copies the identifier tuple to
  -- a list (1280) before `identifiers[i] = …` (1299/1302); operators / coefficients are copied by
  -- `np.asarray(list)` and fancy indexing `[idx]` (1314)
  | .psInit => [.fresh]
  -- 311-392; `_join_equal_segments` 1196-1213: `dt[new] += pulse.dt[old]` (1207) acts on the copy
  -- made by `np.delete` (1205)
  | .psEq => [.fresh]
  -- 397-414: new pulse sharing c_opers / identifiers / basis; coefficient and dt views
  | .psGetitem => [.fresh]
  -- 416-424 (`__dict__.update`, own `_intermediates` dict)
  | .psCopy => [.fresh]
  -- 426-430
  | .psDeepcopy => [.fresh]
  -- 443-471
  | .psIsCached => []
  -- 473-504: the getters of `t` / `tau` / `duration` assign `self._t` / `self._tau`
  | .psTau => [.pulseCache, .fresh]
  -- 506-515
  | .psDiagonalize => [.pulseCache, .fresh]
  -- 517-568: returns `self._control_matrix` itself (543, 547, 568); slots are only rebound
  -- (`self._control_matrix = …sum(axis=0)` 546, `_intermediates.update` 564, 566);
  -- `cache_control_matrix` → `liouville_representation` (607) → `basis.isherm`
  -- (superoperator.py:84/86) caches a flag on the pulse's Basis
  | .psGetControlMatrix => [.pulseCache, .basisCache, .fresh]
  -- 570-608: stores the supplied matrix object (600/602), `self.omega = omega` keeps
  -- `np.asarray(omega)` (1082); nothing is written *into* an array; `basis.isherm` via 607
  | .psCacheControlMatrix => [.pulseCache, .basisCache, .fresh]
  -- 610-620
  | .psGetPcControlMatrix => []
  -- 623-720 (order 1 goes through `get_control_matrix` / `cache_control_matrix`)
  | .psGetFilterFunction => [.pulseCache, .basisCache, .fresh]
  -- 723-809: `F_pc.trace`, `F_pc.sum`, `filter_function.trace` allocate; slots rebound
  | .psCacheFilterFunction => [.pulseCache, .basisCache, .fresh]
  -- 812-880
  | .psGetPcFilterFunction => [.pulseCache, .fresh]
  -- 882-964: `[n_idx]` fancy-indexes (copies) the cached control matrix (945) and
  -- `n_opers_transformed` (955); `first_order_integral` is passed on and only read
  -- (gradient.py:491 `integral = first_order_integral[g]`, 333 `ctrlmat_expr(…, integral, …)`)
  | .psGetFilterFunctionDerivative => [.pulseCache, .basisCache, .fresh]
  -- 966-978
  | .psGetTotalPhases => [.pulseCache, .fresh]
  -- 980-998
  | .psCacheTotalPhases => [.pulseCache, .fresh]
  -- 1008-1058 (properties `eigvals`, `eigvecs`, `propagators`, `total_propagator`)
  | .psEigAccess => [.pulseCache, .fresh]
  -- 1060-1067 (`liouville_representation` 1064 → `basis.isherm`)
  | .psTotalPropagatorLiouville => [.pulseCache, .basisCache, .fresh]
  -- 1100-1171: `setattr(self, attr, None)` / `dict()` / `_intermediates.pop`
  | .psCleanup => [.pulseCache]
  -- 1173-1193: `idx[idx < 0] = 0` (1186) acts on the fresh `np.searchsorted(...) - 1`
  | .psPropagatorAtArbT => [.pulseCache, .fresh]
  -- 1582-1662: reads the definitions; `pulse.tau` (1656) assigns `_tau` of every input pulse
  | .concatenateWithoutFF => [.pulseCache, .fresh]
  -- 1665-1849: getters on the input pulses (1804 `get_total_phases`, 1812
  -- `total_propagator_liouville`, 1822 `get_control_matrix`, 1827 `eigvals` …);
  -- `newpulse.basis.iscomplete` (1794) caches on the Basis shared with `pulses[0]`;
  -- `control_matrix_atomic[i, idx] = …` (1822/1826) and `L[i] = …` (1812) fill fresh arrays
  | .concatenate => [.pulseCache, .basisCache, .fresh]
  -- 1852-1943 (`newpulse.cache_filter_function` 1941 on the Basis shared with `pulse`)
  | .concatenatePeriodic => [.pulseCache, .basisCache, .fresh]
  -- 1946-2079: getters only on cached values for the cached grid (hits);
  -- `remapped_pulse.total_propagator_liouville[perm.T, perm] = …` (2070, allocated 2067) and
  -- `remapped_control_matrix[…] = …` (2076, allocated 2075) fill `np.empty_like` arrays;
  -- `remapped_pulse.cache_control_matrix` (2077) on the Basis shared with `pulse`
  | .remap => [.basisCache, .fresh]
  -- 2082-2578: `eigvals += …` (2475, 2488) on `np.zeros` (2466); `control_matrix[…] = …`
  -- (2550, 2558) on `np.zeros` (2536); `_merge_attrs` copies the qubit list (`qubits.copy()`
  -- 1477) before `bisect.insort` (1489); getters on the input pulses (2475 `pulse.eigvals`,
  -- 2550 `get_control_matrix`)
  | .extend => [.pulseCache, .basisCache, .fresh]
  -- numeric.py:1687-1740 (`nla.eigh` 1720 without overwrite; `cumulative[…] = …` 1735-1737 on
  -- `np.empty`)
  | .numDiagonalize => [.fresh]
  -- 697-856: all buffers `np.empty` / `np.zeros` (808-821); with `cache_intermediates` the
  -- returned intermediates are the freshly allocated cache arrays (849-854)
  | .numControlMatrixFromScratch => [.fresh]
  -- 809-810, 846 `out += sum_buf`: accumulates into the supplied `out`
  | .numControlMatrixFromScratchOut => [.outArg, .fresh]
  -- 626-694 (`control_matrix += …` 685, `out=control_matrix[g]` 692 on `np.zeros`)
  | .numControlMatrixFromAtomic => [.fresh]
  -- 859-930 (`S[invertible] = …` 924 on `np.empty`)
  | .numControlMatrixPeriodic => [.fresh]
  -- 456-623
  | .numNoiseOperatorsFromScratch => [.fresh]
  -- 377-453 (`noise_operators += …` 449 on `np.zeros` 441)
  | .numNoiseOperatorsFromAtomic => [.fresh]
  -- 1389-1442
  | .numFilterFunction => [.fresh]
  -- 1623-1684
  | .numPcFilterFunction => [.fresh]
  -- 1445-1620: the `intermediates` dict and its arrays are only read (1555-1566, 1595-1596);
  -- `ctrlmat_step[:] = 0` (1587) only in the branch that allocated it (1574)
  | .numSecondOrderFilterFunction => [.fresh]
  -- 1170-1312: getters; `decay_amplitudes[..., k:k+1, :] = …` (1310) on `np.empty` (1308)
  | .numDecayAmplitudes => [.pulseCache, .basisCache, .fresh]
  -- 1315-1385
  | .numFrequencyShifts => [.pulseCache, .fresh]
  -- 933-1166: `cumulant_function[…] -= / += …` (1118-1119) on `np.zeros` (1098),
  -- `cumulant_function -= …` (1158) on the fresh contraction result (1135); supplied
  -- `decay_amplitudes` / `frequency_shifts` only read; `pulse.basis.four_element_traces` (1122)
  | .numCumulantFunction => [.pulseCache, .basisCache, .fresh]
  -- 1742-1863
  | .numErrorTransferMatrix => [.pulseCache, .basisCache, .fresh]
  -- 1867-2165: `filter_function = filter_function - np.einsum(…)` (2120, 2145) allocates (the
  -- minuend is the cached `_filter_function`, an in-place `-=` would corrupt it);
  -- `pulse.basis.istraceless` (2099, 2130), `four_element_traces` (2103, 2132)
  | .numInfidelity => [.pulseCache, .basisCache, .fresh]
  -- gradient.py:372-513: `intermediates` only read (466-468, 491); all outputs `np.empty`;
  -- `liouville_representation(propagators[:-1], basis)` (475) → `basis.isherm`
  | .gradControlMatrixDerivative => [.basisCache, .fresh]
  -- 516-546
  | .gradFilterFunctionDerivative => [.fresh]
  -- 549-667
  | .gradInfidelityDerivative => [.pulseCache, .basisCache, .fresh]
  -- basis.py:159-190: a `Basis` argument is *viewed* (165-166, 180: shares memory with the
  -- caller's object, attributes are set on the view only); anything else is copied by
  -- `util.parse_operators` (util.py:250 `np.asarray(list, dtype=complex)`)
  | .basisNew => [.fresh]
  -- 385-418 (`sigma /= normalization` 416 on a fresh tensor product)
  | .basisPauli => [.fresh]
  -- 420-481
  | .basisGgm => [.fresh]
  -- 483-613: `_full_from_partial` normalises a copy (547-548, repaired by a3bcfa9)
  | .basisFromPartial => [.fresh]
  -- 368-373 `self /= _norm(self)`; the lazily cached flags are *not* reset
  | .basisNormalizeInPlace => [.argBasisData]
  -- 370-371, 623-640
  | .basisNormalizeCopy => [.fresh]
  -- 375-383 `self.real[…] = 0`, `self.imag[…] = 0`
  | .basisTidyup => [.argBasisData]
  -- 246-362 (`isherm`, `isorthonorm`, `istraceless`, `iscomplete`, `sparse`,
  -- `four_element_traces`; `H`, `T` are views)
  | .basisProperties => [.basisCache, .fresh]
  -- 623-640
  | .basisNormalizeFn => [.fresh]
  -- 643-691: `coefficients /= …` (689) and `remove_float_errors(coefficients)` (691) act on the
  -- fresh `np.tensordot` result (687); `basis.isherm` (685)
  | .basisExpand => [.basisCache, .fresh]
  -- 694-774 (`coeffs[…] = …` on `np.zeros` 760)
  | .basisGgmExpand => [.fresh]
  -- util.py:329-432 (a single argument is returned as is: `return args[0]` 432)
  | .utilTensor => [.fresh]
  -- 435-606: `result = arr.copy()` (579); `arr_dims` and `pos` are deep-copied (581-582) before
  -- `axis.insert(p, d)` (604)
  | .utilTensorInsert => [.fresh]
  -- 609-760
  | .utilTensorMerge => [.fresh]
  -- 763-850: for the identity order the result is a view of `arr` (842)
  | .utilTensorTranspose => [.fresh]
  -- 134-160
  | .utilCexp => [.fresh]
  -- 157-159: `np.cos(x, out=out.real)`, `np.sin(x, out=out.imag)`
  | .utilCexpOut => [.outArg]
  -- 887-916: `np.asanyarray(arr)` (895) does not copy; `arr[np.abs(arr) <= atol] = 0` (905),
  -- `arr.real[…] = 0` / `arr.imag[…] = 0` (907-908); returns the same array.  Not documented.
  | .utilRemoveFloatErrors => [.argArray]
  -- 858-884: `ret *= dx` (883) on the fresh sum (882)
  | .utilIntegrate => [.fresh]
  -- 853-855
  | .utilMdot => [.fresh]
  -- 981-1030
  | .utilDotHS => [.fresh]
  -- 919-978 (`eps *= …` 962 is a Python float)
  | .utilOperEquiv => [.fresh]
  -- 1033-1071: `pulse.tau`
  | .utilGetSampleFrequencies => [.pulseCache, .fresh]
  -- 192-205 (`np.broadcast_to`: a read-only view of the caller's spectrum)
  | .utilParseSpectrum => [.fresh]
  -- superoperator.py:49-86: `basis.isherm` (83, 86)
  | .supLiouvilleRepresentation => [.basisCache, .fresh]
  -- 89-137
  | .supLiouvilleToChoi => [.fresh]
  -- 140-199
  | .supLiouvilleIsCP => [.fresh]
  -- 202-276 (`Omega[::d+1] = …` 258 on `np.zeros`)
  | .supLiouvilleIsCCP => [.fresh]

/-- which calls are in-place helpers -/
def inPlace : ApiCall → InPlace
  | .basisNormalizeInPlace => .documented        -- `copy: bool = False`
  | .basisTidyup => .documented                  -- returns `None`, "Wraps util.remove_float_errors"
  | .utilCexpOut => .documented                  -- `out`: "A location into which the result is stored"
  | .numControlMatrixFromScratchOut => .documented
  | .utilRemoveFloatErrors => .undocumented      -- "Clean up arr …", returns the array it modified
  | _ => .no

/-- in-place helpers on the pulse's *own cache* (not caller-owned data): listed for the report -/
def cacheMutators : List ApiCall :=
  [.psCacheControlMatrix, .psCacheFilterFunction, .psCacheTotalPhases, .psCleanup, .psDiagonalize]

def ApiCall.ofName (n : String) : Option ApiCall := ApiCall.all.find? fun c => c.name == n

/-! ### line protocol (driver component `effects`)

`effects <ApiCall name>` → `ok <comma separated cell kinds>` (an empty set prints `ok -`);
`effects list` → `ok <names joined by ;>`;
`effects-inplace <name>` → `ok no|documented|undocumented`;
`effects-owner <cell kind>` → `ok callerOwned|libraryOwned`. -/
def handleEffects (toks : List String) : Option String :=
  match toks with
  | ["effects", "list"] => some ("ok " ++ ";".intercalate (ApiCall.all.map ApiCall.name))
  | ["effects", n] =>
    match ApiCall.ofName n with
    | none => some ("err unknown-api-call " ++ n)
    | some c =>
      let ks := (declaredWrites c).map CellKind.name
      some ("ok " ++ (if ks.isEmpty then "-" else ",".intercalate ks))
  | ["effects-inplace", n] =>
    match ApiCall.ofName n with
    | none => some ("err unknown-api-call " ++ n)
    | some c => some ("ok " ++ (inPlace c).name)
  | ["effects-owner", k] =>
    match CellKind.all.find? fun c => c.name == k with
    | none => some ("err unknown-cell-kind " ++ k)
    | some c => some ("ok " ++ (if c.owner.callerOwned then "callerOwned" else "libraryOwned"))
  | _ => none

end FFVerif.Model.Effects
