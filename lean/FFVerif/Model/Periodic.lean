/-
Model of `numeric.calculate_control_matrix_periodic` / `calculate_control_matrix_from_atomic`
(Mathlib-free).  The linear solve of the invertible branch is an oracle (its result `X` is an
input with the contract `(1 - T) X = 1 - T^G`); the fallback branch and the specification
`Σ_{g<G} T^g` are executable.
-/
import FFVerif.Core.Mat
import FFVerif.Gen.Einsum

namespace FFVerif.Model
open FFVerif

section
variable {K : Type} [Zero K] [One K] [Add K] [Mul K]

/-- `itertools.accumulate(xs, f)` -/
def accumulate {α : Type} (f : α → α → α) : List α → List α
  | [] => []
  | x :: xs => List.scanl f x xs

def Mat.pow {n : Nat} (T : Mat K n n) : Nat → Mat K n n
  | 0 => Mat.one
  | k + 1 => Mat.mul (Mat.pow T k) T

def Mat.sumList {n : Nat} (l : List (Mat K n n)) : Mat K n n :=
  l.foldl Mat.add (Mat.ofFn fun _ _ => 0)

/-- fallback branch: `eye + sum(accumulate(repeat(T, repeats-1), np.matmul))` -/
def periodicFallback {n : Nat} (T : Mat K n n) (G : Nat) : Mat K n n :=
  Mat.add Mat.one (Mat.sumList (accumulate Mat.mul (List.replicate (G - 1) T)))

/-- specification: the finite geometric series `Σ_{g<G} T^g` -/
def geomSum {n : Nat} (T : Mat K n n) (G : Nat) : Mat K n n :=
  Mat.sumList ((List.range G).map (Mat.pow T))

/-- `S` of `calculate_control_matrix_periodic` for one frequency: the solve result `X` where the
determinant test flags `I - T` invertible, the explicit sum elsewhere -/
def periodicS {n : Nat} (invertible : Bool) (X : Mat K n n) (T : Mat K n n) (G : Nat) :
    Mat K n n :=
  if invertible then X else periodicFallback T G

/-- `control_matrix_tot = (control_matrix.transpose(2,0,1) @ S).transpose(1,2,0)`:
for every frequency `o`, `B[:, :, o] @ S[o]` -/
def periodicApply {nA N nO : Nat} (B : Ten3 K nA N nO) (S : Vector (Mat K N N) nO) :
    Ten3 K nA N nO :=
  Vector.ofFn fun a => Vector.ofFn fun k => Vector.ofFn fun o =>
    fsum N fun j => B[a][j][o] * S[o][j][k]

/-- `calculate_control_matrix_from_atomic(phases, control_matrix_atomic, propagators_liouville,
which='correlations')`: per pulse `g` the generated contraction `ijo,jk->iko` of
`phases[g]*control_matrix_atomic[g]` with `propagators_liouville[g]` -/
def controlMatrixFromAtomicCorr {nP nA N nO : Nat} (phases : Mat K nP nO)
    (Bat : Vector (Ten3 K nA N nO) nP) (L : Vector (Mat K N N) nP) :
    Vector (Ten3 K nA N nO) nP :=
  Vector.ofFn fun g =>
    let scaled : Ten3 K nA N nO :=
      Vector.ofFn fun a => Vector.ofFn fun j => Vector.ofFn fun o => phases[g][o] * Bat[g][a][j][o]
    Gen.numeric_calculate_control_matrix_from_atomic_0 scaled L[g]

/-- `which='total'`: the sum over pulses -/
def controlMatrixFromAtomic {nP nA N nO : Nat} (phases : Mat K nP nO)
    (Bat : Vector (Ten3 K nA N nO) nP) (L : Vector (Mat K N N) nP) : Ten3 K nA N nO :=
  let c := controlMatrixFromAtomicCorr phases Bat L
  Vector.ofFn fun a => Vector.ofFn fun k => Vector.ofFn fun o => fsum nP fun g => c[g][a][k][o]

end
end FFVerif.Model
