/-
Discrete (bookkeeping) model of `PulseSequence` construction, equality, slicing and of the
Hamiltonian bookkeeping of concatenation (pulse_sequence.py: `_parse_Hamiltonian`, `__eq__`,
`_join_equal_segments`, `__getitem__`, `__deepcopy__`, `_concatenate_Hamiltonian`,
`concatenate_without_filter_function`).

Abstraction (numerics are abstracted away):
* an operator is an opaque value with decidable equality: a `Nat` "operator id" (equal arrays ↔
  equal ids; the Python matches operators by hashing their bytes, collisions are ignored);
* coefficients and durations are integers, compared exactly (`np.array_equal`; the `np.allclose`
  on the durations in `__eq__` is modelled by EXACT equality);
* identifiers are `String`s; NumPy orders unicode strings lexicographically by code point, which
  is Lean's `<` on `String`;
* a Hamiltonian is a list of `Term`s (operator, identifier, coefficient row), i.e. the three
  parallel arrays `*_opers`, `*_oper_identifiers`, `*_coeffs` zipped.  Re-indexing the three
  arrays with the same `argsort` permutation is sorting the list of terms by identifier.
  `np.argsort` (quicksort) is not stable; the model sorts stably.  The difference is only visible
  for duplicate identifiers, which the constructor rejects.

Mathlib-free; executed by the driver (component `pulse`, see `handlePulse` at the end for the
text encoding) and reasoned about in `Props/C17`, `Props/C03a`.
-/

namespace FFVerif.Model.Pulse

/-- one operator of a Hamiltonian with its identifier and its coefficient row -/
structure Term where
  op : Nat
  id : String
  coeffs : List Int
deriving DecidableEq, Repr, Inhabited

/-- the defining attributes of a `PulseSequence` (`d` is implied by the operators) -/
structure PulseData where
  cTerms : List Term
  nTerms : List Term
  dt : List Int
  basis : Nat
deriving DecidableEq, Repr, Inhabited

/-! ### sorting by identifier (`np.argsort(identifiers)` + fancy indexing) -/

/-- insert `a` into a list sorted by `key`, in front of the first element whose key is not
smaller than `key a` (so that `sortBy` is stable) -/
def insertBy {α : Type} (key : α → String) (a : α) : List α → List α
  | [] => [a]
  | b :: bs => if key b < key a then b :: insertBy key a bs else a :: b :: bs

/-- stable insertion sort by a string key -/
def sortBy {α : Type} (key : α → String) : List α → List α
  | [] => []
  | a :: as => insertBy key a (sortBy key as)

/-! ### `_parse_Hamiltonian` -/

/-- `f'A_{i}'` / `f'B_{i}'` -/
def defaultId (pre : String) (i : Nat) : String := pre ++ "_" ++ toString i

/-- Identifier filling of `_parse_Hamiltonian`.  Input terms are `(operator, identifier?, coeffs)`.
Every missing identifier is replaced by the default of its listing position.  (The source has two
branches — no identifier given at all / some given — which produce the same strings since the
`'<U4'` truncation of the first branch was removed.) -/
def fillIdentifiers (terms : List (Nat × Option String × List Int)) (pre : String) : List Term :=
  terms.zipIdx.map fun (t, i) => ⟨t.1, t.2.1.getD (defaultId pre i), t.2.2⟩

/-- `_parse_Hamiltonian` without the validation: fill identifiers, sort by identifier. -/
def parseHamiltonian (terms : List (Nat × Option String × List Int)) (pre : String) : List Term :=
  sortBy (·.id) (fillIdentifiers terms pre)

/-- does a list of strings contain a repetition (`len(set(ids)) != len(ids)`) -/
def hasDup : List String → Bool
  | [] => false
  | s :: ss => ss.contains s || hasDup ss

/-- `_parse_Hamiltonian` with its two `ValueError`s: repeated identifiers (checked ONLY when at
least one identifier was given, as in the source) and coefficient rows whose length is not
`n_dt` (checked when `nDt` is given). -/
def parseHamiltonianChecked (terms : List (Nat × Option String × List Int)) (pre : String)
    (nDt : Option Nat := none) : Except String (List Term) :=
  let filled := fillIdentifiers terms pre
  if !(terms.all (fun t => t.2.1.isNone)) && hasDup (filled.map (·.id)) then
    throw "ValueError"
  else if !(match nDt with | some n => filled.all (fun t => t.coeffs.length == n) | none => true) then
    throw "ValueError"
  else pure (sortBy (·.id) filled)

/-! ### `_join_equal_segments` -/

/-- `(np.diff(coeffs) == 0).all(axis=0)[k]` : all rows agree on segments `k` and `k+1` -/
def diffZeroAll (rows : List (List Int)) (k : Nat) : Bool :=
  rows.all fun r => r.getD (k + 1) 0 - r.getD k 0 == 0

/-- `equal_ind`: the indices `k < n_dt - 1` at which control AND noise coefficients of segments
`k`, `k+1` coincide -/
def equalInd (c n : List (List Int)) (nDt : Nat) : List Nat :=
  (List.range (nDt - 1)).filter fun k => diffZeroAll c k && diffZeroAll n k

/-- `np.delete(l, idx)` (positions listed in `idx` are dropped) -/
def deleteIdx {α : Type} (idx : List Nat) (l : List α) : List α := go l 0
where
  go : List α → Nat → List α
    | [], _ => []
    | x :: xs, i => if idx.contains i then go xs (i + 1) else x :: go xs (i + 1)

/-- `zip(equal_ind, equal_ind - np.arange(len(equal_ind)))` -/
def joinPairs (E : List Nat) : List (Nat × Nat) := E.zipIdx.map fun (e, j) => (e, e - j)

/-- the loop `for old, new in …: dt[new] += pulse.dt[old]` -/
def accumulateDt (dtOld : List Int) (pairs : List (Nat × Nat)) (dtNew : List Int) : List Int :=
  pairs.foldl (fun dt (old, new) => dt.modify new (· + dtOld.getD old 0)) dtNew

/-- `_join_equal_segments`: merged control rows, merged noise rows, merged durations (rows in the
stored order of the operators). -/
def joinEqualSegments (p : PulseData) : List (List Int) × List (List Int) × List Int :=
  let c := p.cTerms.map (·.coeffs)
  let n := p.nTerms.map (·.coeffs)
  let E := equalInd c n p.dt.length
  if E.length > 0 then
    (c.map (deleteIdx E), n.map (deleteIdx E), accumulateDt p.dt (joinPairs E) (deleteIdx E p.dt))
  else (c, n, p.dt)

/-! ### `__eq__` -/

/-- `all(f(a, b) for a, b in zip(A, B))` (truncates to the shorter list) -/
def zipAll {α β : Type} (f : α → β → Bool) (a : List α) (b : List β) : Bool :=
  (List.zip a b).all fun (x, y) => f x y

/-- the rows `coeffs[np.argsort(identifiers)]` together with `opers[idx]`, `identifiers[idx]` -/
def reorder (terms : List Term) (rows : List (List Int)) : List Term :=
  sortBy (·.id) (List.zipWith (fun t r => { t with coeffs := r }) terms rows)

/-- `PulseSequence.__eq__` as it is in the source now (durations compared exactly). -/
def pulseEq (A B : PulseData) : Bool :=
  let (cA, nA, dtA) := joinEqualSegments A
  let (cB, nB, dtB) := joinEqualSegments B
  if dtA.length != dtB.length then false
  else if !(zipAll (· == ·) dtA dtB) then false
  else if A.cTerms.length != B.cTerms.length || A.nTerms.length != B.nTerms.length then false
  else
    let scA := reorder A.cTerms cA
    let scB := reorder B.cTerms cB
    let snA := reorder A.nTerms nA
    let snB := reorder B.nTerms nB
    if !(zipAll (fun a b => a.op == b.op) scA scB) then false
    else if !(zipAll (fun a b => a.op == b.op) snA snB) then false
    else if !(zipAll (fun a b => a.id == b.id) scA scB) then false
    else if !(zipAll (fun a b => a.id == b.id) snA snB) then false
    else if !(zipAll (fun a b => a.coeffs == b.coeffs) scA scB) then false
    else if !(zipAll (fun a b => a.coeffs == b.coeffs) snA snB) then false
    else if !(A.basis == B.basis) then false
    else true

/-! ### `__getitem__`, `__deepcopy__` -/

/-- `l[start:stop]` for non-negative `start`, `stop` (clamped like a Python slice) -/
def pySlice {α : Type} (l : List α) (start stop : Nat) : List α := (l.take stop).drop start

/-- `pulse[start:stop]`: operators, identifiers, basis unchanged (and, in Python, SHARED with the
original), every coefficient row and `dt` sliced; `IndexError` for an empty selection. -/
def slice (p : PulseData) (start stop : Nat) : Except String PulseData :=
  let dt := pySlice p.dt start stop
  if dt.isEmpty then throw "IndexError"
  else pure { p with
    cTerms := p.cTerms.map fun t => { t with coeffs := pySlice t.coeffs start stop }
    nTerms := p.nTerms.map fun t => { t with coeffs := pySlice t.coeffs start stop }
    dt := dt }

/-- `pulse[i]` for `i ≥ 0`: NumPy raises `IndexError` when `i` is out of bounds. -/
def index (p : PulseData) (i : Nat) : Except String PulseData :=
  match p.dt[i]? with
  | none => throw "IndexError"
  | some d => pure { p with
      cTerms := p.cTerms.map fun t => { t with coeffs := [t.coeffs.getD i 0] }
      nTerms := p.nTerms.map fun t => { t with coeffs := [t.coeffs.getD i 0] }
      dt := [d] }

/-- `copy.deepcopy(pulse)`: every attribute is copied by value.  Values of the model are
immutable, so the copy IS the original value; absence of shared mutable state is a statement about
the Python heap that has no counterpart here (checked on the Python side). -/
def deepcopy (p : PulseData) : PulseData := p

/-! ### `_concatenate_Hamiltonian` -/

inductive Kind | control | noise
deriving DecidableEq, Repr

/-- distinct elements in order of first occurrence -/
def dedup {α : Type} [BEq α] : List α → List α
  | [] => []
  | x :: xs => x :: (dedup xs).filter (· != x)

/-- `list(accumulate(l))` -/
def accumulate (l : List Nat) (acc : Nat := 0) : List Nat :=
  match l with
  | [] => []
  | x :: xs => (acc + x) :: accumulate xs (acc + x)

/-- `bisect.bisect(l, x)` (= `bisect_right`) for an ascending list: number of entries `≤ x` -/
def bisect (l : List Nat) (x : Nat) : Nat := l.countP (· ≤ x)

/-- `coeff.shape[1]` of the coefficient array of one pulse (0 for an empty Hamiltonian) -/
def segCount (ts : List Term) : Nat := (ts.head?.map (·.coeffs.length)).getD 0

/-- all terms of all pulses, tagged with the position of their pulse
(`all_opers`, `all_identifiers`, `flat_coeffs`; the tag is `bisect(pulse_idx, ind)`, see
`Lemmas/PulseAux: bisect_pulseIdx`) -/
def flatTagged (pulses : List (List Term)) : List (Nat × Term) :=
  pulses.zipIdx.flatMap fun (ts, p) => ts.map fun t => (p, t)

/-- identifiers under which operator `u` occurs (`oper_to_identifier_mapping[u]`) -/
def idsOfOp (flat : List (Nat × Term)) (u : Nat) : List String :=
  dedup ((flat.filter fun x => x.2.op == u).map (·.2.id))

/-- operators carrying identifier `s` (`identifier_to_oper_mapping[s]`) -/
def opsOfId (flat : List (Nat × Term)) (s : String) : List Nat :=
  dedup ((flat.filter fun x => x.2.id == s).map (·.2.op))

/-- identifier of the first occurrence of `u` (`all_identifiers[concat_idx[i]]`) -/
def idOfOp (flat : List (Nat × Term)) (u : Nat) : String :=
  ((flat.find? fun x => x.2.op == u).map (·.2.id)).getD ""

/-- pulse position of the first occurrence of `u`
(`bisect(pulse_idx, hashed_opers.index(u))`) -/
def firstPulse (flat : List (Nat × Term)) (u : Nat) : Nat :=
  ((flat.find? fun x => x.2.op == u).map (·.1)).getD 0

/-- identifier of operator `u` in the concatenated Hamiltonian: a suffix `_p` (pulse position of
the first occurrence) is appended when the identifier is shared with a different operator.
In the source this is the loop over `identifier_to_oper_mapping.items()`; every operator has
exactly one identifier once the first `ValueError` check has passed, hence every slot of
`concat_identifiers` is rewritten at most once and the loop is this map. -/
def newId (flat : List (Nat × Term)) (u : Nat) : String :=
  let s := idOfOp flat u
  if (opsOfId flat s).length > 1 then s ++ "_" ++ toString (firstPulse flat u) else s

/-- the segment block of pulse `ts` (with `n` segments) in the row of operator `u`:
`concat_coeffs[i, seg_idx[seg]:seg_idx[seg+1]] = flat_coeffs[ind]`, `nan` where `u` is absent -/
def blockOf (u : Nat) (ts : List Term) : List (Option Int) :=
  match ts.find? (·.op == u) with
  | some t => t.coeffs.map some
  | none => List.replicate (segCount ts) none

/-- row of operator `u` before the `nan`s are filled -/
def rawRow (pulses : List (List Term)) (u : Nat) : List (Option Int) :=
  pulses.flatMap (blockOf u)

/-- filling of the `nan` entries of one row -/
def fillRow (kind : Kind) (row : List (Option Int)) : Except String (List Int) :=
  match kind with
  | .control => pure (row.map (·.getD 0))
  | .noise =>
    if row.any (·.isNone) then
      match row.filterMap id with
      | [] => throw "IndexError"          -- `nonnan_coeff[0]` of an empty array (unreachable
                                          --  for pulses with at least one segment)
      | x :: xs =>
        if (x :: xs).all (· == x) then pure (row.map (·.getD x)) else throw "ValueError"
    else pure (row.map (·.getD 0))

/-- the finished row of operator `u` (operator, new identifier, filled coefficients) -/
def rowOf (pulses : List (List Term)) (flat : List (Nat × Term)) (kind : Kind) (u : Nat) :
    Except String Term :=
  match fillRow kind (rawRow pulses u) with
  | .ok r => .ok { op := u, id := newId flat u, coeffs := r }
  | .error e => .error e

/-- `_concatenate_Hamiltonian`.  `visit` is the order in which `np.unique` lists the distinct
operators (sorted by hash value in Python, i.e. arbitrary); default: first occurrence.
Returns the terms of the concatenated Hamiltonian sorted by identifier and, per pulse, the mapping
`old identifier ↦ new identifier` (in the order of the pulse's identifiers).

Preconditions of the Python code that are not re-checked (class invariants of the inputs):
identifiers are unique within each pulse; every coefficient row of pulse `p` has the length
`n_dt[p]`. -/
def concatHamiltonian (pulses : List (List Term)) (kind : Kind)
    (visit : List Nat → List Nat := id) :
    Except String (List Term × List (List (String × String))) :=
  let flat := flatTagged pulses
  let uniq := visit (dedup (flat.map (·.2.op)))
  -- Clash: two different identifiers are assigned to the same operator
  if uniq.any (fun u => (idsOfOp flat u).length > 1) then .error "ValueError"
  else
    let mapping := pulses.map fun ts => ts.map fun t => (t.id, newId flat t.op)
    match uniq.mapM (rowOf pulses flat kind) with
    | .error e => .error e
    | .ok rows => .ok (sortBy (·.id) rows, mapping)

/-- `concatenate_without_filter_function` (attributes only): `ValueError` for different bases -/
def concatPulses (pulses : List PulseData) (visit : List Nat → List Nat := id) :
    Except String (PulseData × List (List (String × String)) × List (List (String × String))) := do
  match pulses with
  | [] => throw "ValueError"
  | p0 :: _ =>
    if !(pulses.all (·.basis == p0.basis)) then throw "ValueError"
    let (c, cm) ← concatHamiltonian (pulses.map (·.cTerms)) .control visit
    let (n, nm) ← concatHamiltonian (pulses.map (·.nTerms)) .noise visit
    pure ({ cTerms := c, nTerms := n, dt := pulses.flatMap (·.dt), basis := p0.basis }, cm, nm)

/-! ### driver component `pulse`

Text encoding (no spaces inside a token; identifiers are non-empty strings without ` `, `:`, `;`,
`,`, `|`, `/`, `>`; the one-character identifier `-` stands for "no identifier" and is only
meaningful in `parse` requests):

* ints      `c1,c2,c3`            (decimal, optional leading `-`; the empty list is `_`)
* term      `op:id:ints`          (`op` a decimal operator id)
* ham       `term;term;…`         (the empty Hamiltonian is `_`)
* pulse     `ham/ham/ints/basis`  (control, noise, dt, basis id)
* mapping   `old>new,old>new,…` per pulse, pulses separated by `|` (empty dict: `_`)

Requests (token lists) and answers:
* `pulse parse <control|noise> <ham> [nDt]` → `ok <ham>` | `err ValueError`
* `pulse join <pulse>`                → `ok <rows>/<rows>/<ints>`, rows = `ints;ints;…` (or `_`)
* `pulse eq <pulse> <pulse>`          → `ok 1` | `ok 0`
* `pulse slice <pulse> <start> <stop>`→ `ok <pulse>` | `err IndexError`
* `pulse index <pulse> <i>`           → `ok <pulse>` | `err IndexError`
* `pulse concat <control|noise> <ham>|<ham>|…` → `ok <ham>/<mapping>` | `err ValueError`
* `pulse concatp <pulse>|<pulse>|…`   → `ok <pulse> <mapping control> <mapping noise>` joined by
  `/`, i.e. `ok cham/nham/dt/basis/cmap/nmap` | `err ValueError`
The unique operators are visited in first-occurrence order (the result does not depend on it
when the new identifiers are distinct, `C03a.concat_order_of_unique_irrelevant`).
-/

section Driver

def parseInts (s : String) : Option (List Int) :=
  if s == "_" || s == "" then some [] else (s.splitOn ",").mapM (·.toInt?)

def showInts (l : List Int) : String :=
  if l.isEmpty then "_" else ",".intercalate (l.map toString)

def parseRawTerm (s : String) : Option (Nat × Option String × List Int) :=
  match s.splitOn ":" with
  | [o, i, c] => do
    let o ← o.toNat?
    let c ← parseInts c
    pure (o, if i == "-" then none else some i, c)
  | _ => none

def parseRawHam (s : String) : Option (List (Nat × Option String × List Int)) :=
  if s == "_" || s == "" then some [] else (s.splitOn ";").mapM parseRawTerm

def parseHam (s : String) : Option (List Term) := do
  let l ← parseRawHam s
  pure (l.map fun (o, i, c) => ⟨o, i.getD "-", c⟩)

def showTerm (t : Term) : String := toString t.op ++ ":" ++ t.id ++ ":" ++ showInts t.coeffs

def showHam (l : List Term) : String :=
  if l.isEmpty then "_" else ";".intercalate (l.map showTerm)

def parsePulse (s : String) : Option PulseData :=
  match s.splitOn "/" with
  | [c, n, dt, b] => do
    pure { cTerms := ← parseHam c, nTerms := ← parseHam n, dt := ← parseInts dt, basis := ← b.toNat? }
  | _ => none

def showPulse (p : PulseData) : String :=
  showHam p.cTerms ++ "/" ++ showHam p.nTerms ++ "/" ++ showInts p.dt ++ "/" ++ toString p.basis

def showRows (r : List (List Int)) : String :=
  if r.isEmpty then "_" else ";".intercalate (r.map showInts)

def showMapping (m : List (List (String × String))) : String :=
  "|".intercalate (m.map fun d =>
    if d.isEmpty then "_" else ",".intercalate (d.map fun (a, b) => a ++ ">" ++ b))

def kindOf (s : String) : Option Kind :=
  if s == "control" then some .control else if s == "noise" then some .noise else none

def showExcept {α : Type} (f : α → String) : Except String α → String
  | .ok a => "ok " ++ f a
  | .error e => "err " ++ e

def handlePulse (toks : List String) : Option String :=
  match toks with
  | "pulse" :: rest =>
    some <| (match rest with
    | ["parse", kind, ham] => do
      let k ← kindOf kind
      let h ← parseRawHam ham
      pure (showExcept showHam
        (parseHamiltonianChecked h (if k == Kind.control then "A" else "B")))
    | ["parse", kind, ham, ndt] => do
      let k ← kindOf kind
      let h ← parseRawHam ham
      pure (showExcept showHam
        (parseHamiltonianChecked h (if k == Kind.control then "A" else "B") (some (← ndt.toNat?))))
    | ["join", p] => do
      let p ← parsePulse p
      let (c, n, dt) := joinEqualSegments p
      pure ("ok " ++ showRows c ++ "/" ++ showRows n ++ "/" ++ showInts dt)
    | ["eq", a, b] => do
      pure (if pulseEq (← parsePulse a) (← parsePulse b) then "ok 1" else "ok 0")
    | ["slice", p, a, b] => do
      pure (showExcept showPulse (slice (← parsePulse p) (← a.toNat?) (← b.toNat?)))
    | ["index", p, i] => do
      pure (showExcept showPulse (index (← parsePulse p) (← i.toNat?)))
    | ["concat", kind, hams] => do
      let k ← kindOf kind
      let hs ← (hams.splitOn "|").mapM parseHam
      pure (showExcept (fun (h, m) => showHam h ++ "/" ++ showMapping m) (concatHamiltonian hs k))
    | ["concatp", ps] => do
      let ps ← (ps.splitOn "|").mapM parsePulse
      pure (showExcept (fun (p, cm, nm) => showPulse p ++ "/" ++ showMapping cm ++ "/" ++
        showMapping nm) (concatPulses ps))
    | _ => none).getD "err bad-request"
  | _ => none

end Driver

end FFVerif.Model.Pulse
