/-
Register bookkeeping of `pulse_sequence.extend`: the helpers `_merge_attrs` / `_insert_attrs`
(pulse_sequence.py l. 1480-1524) and the loops of `extend` that call them (l. 2503-2533 for
`eigvecs` / `propagators`, l. 2545-2562 for `total_propagator`; both loops do the same bookkeeping).

Level of abstraction (that of `Model/Tensor.lean`): a tensor-product chain is the list of its
factors, every factor represented by the label of the qubit it lives on.  The multi-qubit block of a
mapped pulse is the list of its qubits *in the tensor order of the pulse's operators* (ascending in
`extend`, which sorts the qubit tuple and `remap`s the pulse accordingly, l. 2287-2299).  The state
of the loop is `Option (chain labels, registers)`; `none` stands for `registers is None` (nothing
tensored yet).  The factor orders produced by `util.tensor_merge` / `util.tensor_insert` are NOT
re-modelled: `Tensor.mergeResult` / `Tensor.insertResultInt` are used (theorems in `Props/C16`).

`bisect.bisect` (= `bisect_right`) and `bisect.insort` (= `insort_right`) are modelled with the real
binary search of the standard library, so that the executable model also agrees with Python on
unsorted `registers` (e.g. when the first block is not ascending).

Mathlib-free; executed by the driver (component `registers`, `reg_merge`, `reg_insert`,
`reg_bisect`, `reg_insort`), reasoned about in `Props/C05e`.
-/
import FFVerif.Model.Tensor

namespace FFVerif.Model.Registers
open FFVerif.Model.Tensor

/-! ### `bisect` -/

/-- The loop of `bisect.bisect_right(a, x, lo, hi)`:
```
while lo < hi:
    mid = (lo + hi) // 2
    if x < a[mid]: hi = mid
    else: lo = mid + 1
return lo
```
(`fuel` bounds the number of iterations; `hi - lo` suffices because the interval shrinks.) -/
def bisectLoop (a : List Nat) (x : Nat) : Nat → Nat → Nat → Nat
  | 0, lo, _ => lo
  | fuel + 1, lo, hi =>
    if lo < hi then
      let mid := (lo + hi) / 2
      if x < a.getD mid 0 then bisectLoop a x fuel lo mid
      else bisectLoop a x fuel (mid + 1) hi
    else lo

/-- `bisect.bisect(a, x)` = `bisect_right(a, x, 0, len(a))` -/
def bisect (a : List Nat) (x : Nat) : Nat := bisectLoop a x a.length 0 a.length

/-- `bisect.insort(a, x)` = `a.insert(bisect_right(a, x), x)` (as a new list) -/
def insort (a : List Nat) (x : Nat) : List Nat := insertAt a (bisect a x) x

/-- `for q in qubits: bisect.insort(registers, q)` -/
def insortAll (regs : List Nat) : List Nat → List Nat
  | [] => regs
  | q :: qs => insortAll (insort regs q) qs

/-! ### `_merge_attrs`, `_insert_attrs` -/

/-- `(chain labels in tensor order, registers)`; `none` = `registers is None` -/
abbrev State := Option (List Nat × List Nat)

/-- the positions handed to `tensor_merge`: `[bisect.bisect(registers, q) for q in qubits]`, all
computed against the registers as they are BEFORE the block is merged -/
def mergePositions (regs qubits : List Nat) : List Int :=
  qubits.map fun q => (bisect regs q : Int)

/-- `_merge_attrs(old_attrs, new_attrs, d_per_qubit, registers, qubits)` on labels.
`registers is None`: `(new_attrs, qubits.copy())`.  Otherwise `tensor_merge(old, new, pos,
arr_dims=[[d]*len(registers)]*2, ins_dims=[[d]*len(pos)]*2)` (rank 2) and the registers are
`insort`ed.  `tensor_merge` takes the number of factors of `arr` from `arr_dims`, i.e. from
`len(registers)`; if that is not the true number of factors of the chain the `reshape` inside
fails (`ValueError`, for `d_per_qubit > 1`) — the positions (all in `[0, len(registers)]`) are
accepted before.  That cannot happen in a run that starts from `none`.
Outside the model: an EMPTY list `registers` that is not `None` (only an empty block `()` could
produce it, which `extend` rejects while parsing): there the helpers call `arr.reshape()` without
a shape — `TypeError` for a 2-d array. -/
def mergeAttrs (st : State) (qubits : List Nat) : Except String State :=
  match st with
  | none => .ok (some (qubits, qubits))
  | some (chain, regs) =>
    if chain.length ≠ regs.length then .error "ValueError"
    else
      match mergeResult chain qubits (mergePositions regs qubits) 2 with
      | .error e => .error e
      | .ok c => .ok (some (c, insortAll regs qubits))

/-- `_insert_attrs(old_attrs, new_attrs, d_per_qubit, registers, qubit)` on labels:
`tensor_insert(old, new, pos=bisect.bisect(registers, qubit), arr_dims=[[d]*len(registers)]*2)`
with an integer `pos` and one argument, then `bisect.insort(registers, qubit)`. -/
def insertAttrs (st : State) (qubit : Nat) : Except String State :=
  match st with
  | none => .ok (some ([qubit], [qubit]))
  | some (chain, regs) =>
    if chain.length ≠ regs.length then .error "ValueError"
    else
      match insertResultInt chain [qubit] (bisect regs qubit : Int) with
      | .error e => .error e
      | .ok c => .ok (some (c, insort regs qubit))

/-! ### the loops of `extend` -/

/-- `for pulse, qubits in zip(multi_qubit_pulses, multi_qubit_idx): … _merge_attrs(…)` -/
def mergeAll (st : State) : List (List Nat) → Except String State
  | [] => .ok st
  | b :: bs =>
    match mergeAttrs st b with
    | .error e => .error e
    | .ok st' => mergeAll st' bs

/-- `for pulse, qubit in zip(single_qubit_pulses, single_qubit_idx): … _insert_attrs(…)` -/
def insertAll (st : State) : List Nat → Except String State
  | [] => .ok st
  | q :: qs =>
    match insertAttrs st q with
    | .error e => .error e
    | .ok st' => insertAll st' qs

/-- `all_qubits.difference(active_qubits)` listed in ascending order.  (`ID_idx =
list(all_qubits.difference(active_qubits))` is a list made from a `set`; CPython lists it in
ascending order for `N ≤ 8` but not always beyond — `N = 9`, active `0..4`: `[8, 5, 6, 7]`.  See
`extendRegistersIdle` and `C05e.idle_order_irrelevant`.) -/
def idleQubits (active : List Nat) (N : Nat) : List Nat :=
  (List.range N).filter fun q => !active.contains q

/-- The loop of `extend` with the list `ID_idx` of idle qubits given explicitly (in the order in
which Python happens to list the set): merge the multi-qubit pulses in the order given, insert the
single-qubit pulses in the order given, then `if ID_idx:` merge ONE identity block
`np.eye(d_per_qubit**len(ID_idx))` for all idle qubits. -/
def extendRegistersIdle (multi : List (List Nat)) (single idle : List Nat) : Except String State :=
  match mergeAll none multi with
  | .error e => .error e
  | .ok s1 =>
    match insertAll s1 single with
    | .error e => .error e
    | .ok s2 => if idle.isEmpty then .ok s2 else mergeAttrs s2 idle

/-- The register bookkeeping of `extend` for `pulses = multi_qubit_pulses + single_qubit_pulses`
mapped to the qubit blocks `multi` (each block in the tensor order of its pulse) and the qubits
`single`, on `N` qubits.  (The argument checks of `extend` — qubit clash, `N` too small — come
before and are not part of this function.) -/
def extendRegisters (multi : List (List Nat)) (single : List Nat) (N : Nat) : Except String State :=
  extendRegistersIdle multi single (idleQubits (multi.flatten ++ single) N)

/-! ### driver -/

def parseNats (s : String) : List Nat :=
  if s == "_" || s.isEmpty then [] else (s.splitOn ",").map String.toNat!

def parseBlocks (s : String) : List (List Nat) :=
  if s == "_" || s.isEmpty then [] else (s.splitOn ";").map parseNats

def showList (l : List Nat) : String := if l.isEmpty then "_" else showNats l

def showState : Except String State → String
  | .ok none => "ok none"
  | .ok (some (c, r)) => "ok " ++ showList c ++ " " ++ showList r
  | .error e => "err " ++ e

def parseState (chain regs : String) : State :=
  if chain == "none" then none else some (parseNats chain, parseNats regs)

/-- Requests (naturals decimal, lists comma separated, `_` = empty list):
* `registers <multi> <single> <N>` — blocks of `multi` separated by `;`; answer
  `ok <chain labels> <registers>` (`ok none` if nothing was tensored) or `err <Class>`;
* `registers <multi> <single> <N> <idle>` — the same with `ID_idx` given explicitly (any order);
* `reg_merge <chain|none> <registers> <qubits>`, `reg_insert <chain|none> <registers> <qubit>` —
  one call of `_merge_attrs` / `_insert_attrs` on an arbitrary state;
* `reg_bisect <list> <x>`, `reg_insort <list> <x>`. -/
def handleRegisters (toks : List String) : Option String :=
  match toks with
  | ["registers", multi, single, n] =>
    some (showState (extendRegisters (parseBlocks multi) (parseNats single) n.toNat!))
  | ["registers", multi, single, _, idle] =>
    some (showState (extendRegistersIdle (parseBlocks multi) (parseNats single) (parseNats idle)))
  | ["reg_merge", chain, regs, qubits] =>
    some (showState (mergeAttrs (parseState chain regs) (parseNats qubits)))
  | ["reg_insert", chain, regs, qubit] =>
    some (showState (insertAttrs (parseState chain regs) qubit.toNat!))
  | ["reg_bisect", l, x] => some ("ok " ++ toString (bisect (parseNats l) x.toNat!))
  | ["reg_insort", l, x] => some ("ok " ++ showList (insort (parseNats l) x.toNat!))
  | _ => none

end FFVerif.Model.Registers
