/-
Model of the concatenation machinery (Mathlib-free, executable):
* `numeric.calculate_pulse_correlation_filter_function` (both kinds, generated contractions) and the
  reductions `F_pc.sum(axis=(0, 1))` / `control_matrix_pc.sum(axis=0)` of `pulse_sequence.py`;
* the wiring of `pulse_sequence.concatenate` after "Get the phase factors …": the cumulative
  product of the total phases and the recursion `L[i] = pulses[i-1].total_propagator_liouville @ L[i-1]`;
* the spectral data of a pulse and of a sequenced pulse (what `diagonalize` returns for the
  concatenated Hamiltonian in exact arithmetic: the per-segment eigendecompositions are those of
  the parts, the cumulative propagators of a later pulse are multiplied from the right by the total
  propagators of the earlier ones, its times are shifted by their total duration).
-/
import FFVerif.Core.Mat
import FFVerif.Gen.Einsum
import FFVerif.Model.Numeric
import FFVerif.Model.Periodic
import FFVerif.Model.Superop

namespace FFVerif.Model
open FFVerif

/-! ### pulse-correlation filter functions -/

section pc
variable {R K : Type} [Zero K] [Add K] [Mul K] [CplxOps R K]

/-- `control_matrix.conj()` for a pulse-correlation control matrix (shape `(n_pls, n_nops, N, n_ω)`) -/
def conjPc {nP nA nK nO : Nat} (B : Vector (Ten3 K nA nK nO) nP) : Vector (Ten3 K nA nK nO) nP :=
  Vector.map (Vector.map (Vector.map (Vector.map CplxOps.conj))) B

/-- `numeric.calculate_pulse_correlation_filter_function(control_matrix, which='fidelity')`:
`einsum('gako,hbko->ghabo', control_matrix.conj(), control_matrix)` -/
def pulseCorrelationFFFid {nP nA nK nO : Nat} (B : Vector (Ten3 K nA nK nO) nP) :=
  Gen.numeric_calculate_pulse_correlation_filter_function_0 (conjPc B) B

/-- `which='generalized'`: `einsum('gako,hblo->ghabklo', control_matrix.conj(), control_matrix)` -/
def pulseCorrelationFFGen {nP nA nK nO : Nat} (B : Vector (Ten3 K nA nK nO) nP) :=
  Gen.numeric_calculate_pulse_correlation_filter_function_1 (conjPc B) B

/-- `F_pc.sum(axis=(0, 1))` of `PulseSequence.cache_filter_function`, fidelity kind -/
def pcSumFid {nP nA nO : Nat} (F : Vector (Vector (Ten3 K nA nA nO) nP) nP) : Ten3 K nA nA nO :=
  Vector.ofFn fun a => Vector.ofFn fun b => Vector.ofFn fun o =>
    fsum nP fun g => fsum nP fun h => F[g][h][a][b][o]

/-- `F_pc.sum(axis=(0, 1))`, generalized kind -/
def pcSumGen {nP nA nK nO : Nat}
    (F : Vector (Vector (Vector (Vector (Ten3 K nK nK nO) nA) nA) nP) nP) :
    Vector (Vector (Ten3 K nK nK nO) nA) nA :=
  Vector.ofFn fun a => Vector.ofFn fun b => Vector.ofFn fun k => Vector.ofFn fun l =>
    Vector.ofFn fun o => fsum nP fun g => fsum nP fun h => F[g][h][a][b][k][l][o]

/-- `self._control_matrix_pc.sum(axis=0)` of `PulseSequence.get_control_matrix` -/
def sumPulses {nP nA nK nO : Nat} (B : Vector (Ten3 K nA nK nO) nP) : Ten3 K nA nK nO :=
  Vector.ofFn fun a => Vector.ofFn fun k => Vector.ofFn fun o => fsum nP fun g => B[g][a][k][o]

end pc

/-! ### wiring of `concatenate` -/

section wiring
variable {K : Type} [Zero K] [One K] [Add K] [Mul K]

/-- row `i` (for one frequency) of
`np.array([ones] + [pls.get_total_phases(omega) for pls in pulses[:-1]]).cumprod(axis=0)`:
`out[0] = 1`, `out[i+1] = out[i] * total_phases[i]` -/
def cumPhase {nP nO : Nat} (tp : Mat K nP nO) (o : Fin nO) : Nat → K
  | 0 => 1
  | i + 1 => if h : i < nP then cumPhase tp o i * tp[i][o] else cumPhase tp o i

/-- `phases` of `concatenate` from the total phases `tp[p][o] = e^{iω_o τ_p}` of the pulses -/
def concatPhases {nP nO : Nat} (tp : Mat K nP nO) : Mat K nP nO :=
  Mat.ofFn fun p o => cumPhase tp o p.1

/-- `L[0] = identity`, `L[i] = pulses[i-1].total_propagator_liouville @ L[i-1]` -/
def cumL {nP N : Nat} (Ltot : Vector (Mat K N N) nP) : Nat → Mat K N N
  | 0 => Mat.one
  | i + 1 => if h : i < nP then Mat.mul Ltot[i] (cumL Ltot i) else cumL Ltot i

/-- `L` of `concatenate` from the total Liouville propagators of the pulses -/
def concatL {nP N : Nat} (Ltot : Vector (Mat K N N) nP) : Vector (Mat K N N) nP :=
  Vector.ofFn fun p => cumL Ltot p.1

end wiring

/-! ### spectral data of pulses and of sequenced pulses -/

/-- what `calculate_control_matrix_from_scratch` reads from a `PulseSequence`: per-segment
eigenvalues, eigenvectors, cumulative propagators `propagators[:-1]`, noise coefficients, `dt`,
segment start times `t[:-1]`; plus the total propagator and the total duration. -/
structure PulseData (R K : Type) (d nA : Nat) where
  nG : Nat
  eigvals : Mat R nG d
  eigvecs : Vector (Mat K d d) nG
  props : Vector (Mat K d d) nG
  nCoeffs : Mat R nA nG
  dt : Vec R nG
  t : Vec R nG
  Qtot : Mat K d d
  tau : R

namespace PulseData

section
variable {R K : Type}
  [Zero R] [One R] [Add R] [Mul R] [Neg R] [Sub R] [Div R] [RealOps R]
  [Zero K] [One K] [Add K] [Mul K] [Neg K] [Sub K] [Div K] [CplxOps R K]
variable {d nA : Nat}

/-- the pulse with no segments (identity propagator, zero duration) -/
def empty : PulseData R K d nA where
  nG := 0
  eigvals := #v[]
  eigvecs := #v[]
  props := #v[]
  nCoeffs := Vector.ofFn fun _ => #v[]
  dt := #v[]
  t := #v[]
  Qtot := Mat.one
  tau := 0

/-- the later pulse as it appears inside a sequence: cumulative propagators multiplied from the
right by the propagator `Qprev` of everything before, times shifted by the elapsed time `T` -/
def shift (B : PulseData R K d nA) (Qprev : Mat K d d) (T : R) : PulseData R K d nA where
  nG := B.nG
  eigvals := B.eigvals
  eigvecs := B.eigvecs
  props := Vector.map (fun Q => Mat.mul Q Qprev) B.props
  nCoeffs := B.nCoeffs
  dt := B.dt
  t := Vector.map (fun x => x + T) B.t
  Qtot := Mat.mul B.Qtot Qprev
  tau := B.tau + T

/-- segment lists put one after the other (no shifting) -/
def append (A B : PulseData R K d nA) : PulseData R K d nA where
  nG := A.nG + B.nG
  eigvals := A.eigvals ++ B.eigvals
  eigvecs := A.eigvecs ++ B.eigvecs
  props := A.props ++ B.props
  nCoeffs := Vector.ofFn fun a => A.nCoeffs[a] ++ B.nCoeffs[a]
  dt := A.dt ++ B.dt
  t := A.t ++ B.t
  Qtot := B.Qtot
  tau := B.tau

/-- the pulse `A` followed by the pulse `B` (`B` given with its own, unshifted data):
total propagator `Q_B Q_A`, duration `τ_A + τ_B` -/
def concat2 (A B : PulseData R K d nA) : PulseData R K d nA :=
  append A (shift B A.Qtot A.tau)

/-- the sequenced pulse of a list of pulses -/
def concatSeq : List (PulseData R K d nA) → PulseData R K d nA
  | [] => empty
  | A :: rest => concat2 A (concatSeq rest)

/-- the `p`-th pulse of a list as it sits inside the sequenced pulse (own segments, cumulative
propagators multiplied from the right by `Q_tot^{(p-1)} ⋯ Q_tot^{(0)}`, times shifted by
`τ₀ + … + τ_{p-1}`); the empty pulse for `p` out of range -/
def seqPart : List (PulseData R K d nA) → Nat → PulseData R K d nA
  | [], _ => empty
  | A :: _, 0 => A
  | A :: rest, q + 1 => (seqPart rest q).shift A.Qtot A.tau

/-- `calculate_control_matrix_from_scratch` on the data of a pulse -/
def cm {nO nK : Nat} (P : PulseData R K d nA) (kind : MaskKind) (thr : R) (omega : Vec R nO)
    (basis : Vector (Mat K d d) nK) (nOpers : Vector (Mat K d d) nA) : Ten3 K nA nK nO :=
  controlMatrixFromScratch kind thr P.eigvals P.eigvecs P.props omega basis nOpers P.nCoeffs
    P.dt P.t

/-- `pls.get_total_phases(omega)`: `e^{iω τ}` -/
def totalPhases {nO : Nat} (P : PulseData R K d nA) (omega : Vec R nO) : Vec K nO :=
  Vector.ofFn fun o => CplxOps.expI (omega[o] * P.tau)

/-- the inputs `concatenate` hands to `calculate_control_matrix_from_atomic` for a list of pulses
with a common list of noise operators: `phases` (cumulative product of the total phases),
`control_matrix_atomic[i] = pulse.get_control_matrix(omega)` (here: from scratch), and `L` built
from `pulse.total_propagator_liouville = liouville_representation(total_propagator, basis)`. -/
def atomicPhases {nO : Nat} (omega : Vec R nO) (ps : List (PulseData R K d nA)) :
    Mat K ps.length nO :=
  Vector.ofFn fun p => ps[p].totalPhases omega

def atomicCMs {nO nK : Nat} (kind : MaskKind) (thr : R) (omega : Vec R nO)
    (basis : Vector (Mat K d d) nK) (nOpers : Vector (Mat K d d) nA)
    (ps : List (PulseData R K d nA)) : Vector (Ten3 K nA nK nO) ps.length :=
  Vector.ofFn fun p => ps[p].cm kind thr omega basis nOpers

def atomicLiou {nK : Nat} (basis : Vector (Mat K d d) nK) (castReal : Bool)
    (ps : List (PulseData R K d nA)) : Vector (Mat K nK nK) ps.length :=
  Vector.ofFn fun p => liouville ps[p].Qtot basis castReal

/-- the control matrix `concatenate` caches for the sequenced pulse (`which='total'`) -/
def concatenateCM {nO nK : Nat} (kind : MaskKind) (thr : R) (omega : Vec R nO)
    (basis : Vector (Mat K d d) nK) (nOpers : Vector (Mat K d d) nA) (castReal : Bool)
    (ps : List (PulseData R K d nA)) : Ten3 K nA nK nO :=
  controlMatrixFromAtomic (concatPhases (atomicPhases omega ps))
    (atomicCMs kind thr omega basis nOpers ps) (concatL (atomicLiou basis castReal ps))

/-- the pulse-correlation control matrix (`calc_pulse_correlation_FF=True`) -/
def concatenateCMCorr {nO nK : Nat} (kind : MaskKind) (thr : R) (omega : Vec R nO)
    (basis : Vector (Mat K d d) nK) (nOpers : Vector (Mat K d d) nA) (castReal : Bool)
    (ps : List (PulseData R K d nA)) : Vector (Ten3 K nA nK nO) ps.length :=
  controlMatrixFromAtomicCorr (concatPhases (atomicPhases omega ps))
    (atomicCMs kind thr omega basis nOpers ps) (concatL (atomicLiou basis castReal ps))

end
end PulseData

end FFVerif.Model
