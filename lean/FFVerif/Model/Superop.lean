/-
Model of `filter_functions/superoperator.py` and of `basis.expand` (Mathlib-free).
-/
import FFVerif.Core.Mat
import FFVerif.Gen.Einsum

namespace FFVerif.Model
open FFVerif

section
variable {R K : Type} [Zero K] [One K] [Add K] [Mul K] [Neg K] [Sub K] [Div K] [CplxOps R K]

/-- `basis.expand(M, basis, normalized=True, hermitian)` for one matrix `M`:
`np.tensordot(M, basis, axes=[(-2, -1), (-1, -2)])`, i.e. `c_j = Σ_ab M_ab (C_j)_ba = tr(M C_j)`;
with `hermitian and basis.isherm` the real part is taken. -/
def expand {d N : Nat} (M : Mat K d d) (C : Vector (Mat K d d) N) (castReal : Bool) : Vec K N :=
  Vector.ofFn fun j =>
    let c : K := fsum d fun a => fsum d fun b => M[a][b] * C[j][b][a]
    if castReal then CplxOps.ofReal (CplxOps.re c) else c

/-- `superoperator.liouville_representation(U, basis)` on the generic path (`basis.expand`):
`conjugated_basis = einsum('...ba,ibc,...cd->...iad', U.conj(), basis, U)`, then expanded. -/
def liouville {d N : Nat} (U : Mat K d d) (C : Vector (Mat K d d) N) (castReal : Bool) :
    Mat K N N :=
  let cb : Vector (Mat K d d) N :=
    Gen.superoperator_liouville_representation_0_e0 (Mat.map CplxOps.conj U) C U
  Vector.ofFn fun i => expand cb[i] C castReal

/-- `superoperator.liouville_to_choi`: `einsum('...ij,jba,icd->...acbd', S, basis, basis)`
reshaped to `(d², d²)` (row index `(a, c)`, column index `(b, d)`, row-major). -/
def liouvilleToChoi {d N : Nat} (S : Mat K N N) (C : Vector (Mat K d d) N) :
    Mat K (d * d) (d * d) :=
  let t : Ten4 K d d d d := Gen.superoperator_liouville_to_choi_0_e0 S C C
  Mat.ofFn fun r c => t[Fin.hi r][Fin.lo r][Fin.hi c][Fin.lo c]

end
end FFVerif.Model
