/-
Model of `filter_functions/superoperator.py` and of `basis.expand` (Mathlib-free).
-/
import FFVerif.Core.Mat
import FFVerif.Gen.Einsum
import FFVerif.Model.Proto

namespace FFVerif.Model
open FFVerif

section
variable {R K : Type} [Zero K] [One K] [Add K] [Mul K] [Neg K] [Sub K] [Div K] [CplxOps R K]

/-- `basis.expand(M, basis, normalized=True, hermitian)` for one matrix `M`:
`np.tensordot(M, basis, axes=[(-2, -1), (-1, -2)])`, i.e. `c_j = Σ_ab M_ab (C_j)_ba = tr(M C_j)`;
with `hermitian and basis.isherm` the real part is taken. -/
def expand {d N : Nat} (M : Mat K d d) (C : Vector (Mat K d d) N) (castReal : Bool) : Vec K N :=
  Vector.ofFn fun j =>
    let c : K := fsum d fun a => fsum d fun b => M[a][b] * C[j][b][a]
    if castReal then CplxOps.ofReal (CplxOps.re c) else c

/-- `superoperator.liouville_representation(U, basis)` on the generic path (`basis.expand`):
`conjugated_basis = einsum('...ba,ibc,...cd->...iad', U.conj(), basis, U)`, then expanded. -/
def liouville {d N : Nat} (U : Mat K d d) (C : Vector (Mat K d d) N) (castReal : Bool) :
    Mat K N N :=
  let cb : Vector (Mat K d d) N :=
    Gen.superoperator_liouville_representation_0_e0 (Mat.map CplxOps.conj U) C U
  Vector.ofFn fun i => expand cb[i] C castReal

/-- `superoperator.liouville_to_choi`: `einsum('...ij,jba,icd->...acbd', S, basis, basis)`
reshaped to `(d², d²)` (row index `(a, c)`, column index `(b, d)`, row-major). -/
def liouvilleToChoi {d N : Nat} (S : Mat K N N) (C : Vector (Mat K d d) N) :
    Mat K (d * d) (d * d) :=
  let t : Ten4 K d d d d := Gen.superoperator_liouville_to_choi_0_e0 S C C
  Mat.ofFn fun r c => t[Fin.hi r][Fin.lo r][Fin.hi c][Fin.lo c]

end

/-! ### `liouville_is_CP` / `liouville_is_cCP` up to the `eigh` oracle -/

section cp
variable {R K : Type}
  [Zero R] [One R] [Add R] [Mul R] [Neg R] [Sub R] [Div R] [NatCast R] [RealOps R]
  [Zero K] [One K] [Add K] [Mul K] [Neg K] [Sub K] [Div K] [CplxOps R K]

/-- the vector of the maximally entangled state in `liouville_is_cCP`:
`Omega = np.zeros(d2, dtype=float); Omega[::d+1] = 1/np.sqrt(d)` (`d2 = d²`, `d = int(sqrt(d2))`;
the model takes `d` from the basis, for which `liouville_to_choi`'s reshape requires `d2 = d²`). -/
def omegaVec (d : Nat) : Vec R (d * d) :=
  Vector.ofFn fun r => if r.1 % (d + 1) = 0 then 1 / RealOps.sqrt ((d : Nat) : R) else 0

/-- `Omega = np.multiply.outer(Omega, Omega)`: the projector `|Ω⟩⟨Ω|` (real array) -/
def omegaState (d : Nat) : Mat R (d * d) (d * d) :=
  let o : Vec R (d * d) := omegaVec d
  Mat.ofFn fun r s => o[r] * o[s]

/-- `Q = np.eye(Omega.shape[-1]) - Omega`: projector onto the complement of `Ω` (real array) -/
def projQ (d : Nat) : Mat R (d * d) (d * d) :=
  let Om : Mat R (d * d) (d * d) := omegaState d
  Mat.ofFn fun r s => (if r = s then 1 else 0) - Om[r][s]

/-- the argument of `eigh` in `liouville_is_cCP`: `Q @ choi @ Q` with
`choi = liouville_to_choi(superoperator, basis)` (the real `Q` is promoted to complex by `@`). -/
def projectedChoi {d N : Nat} (S : Mat K N N) (C : Vector (Mat K d d) N) :
    Mat K (d * d) (d * d) :=
  let Q : Mat K (d * d) (d * d) := Mat.map (CplxOps.ofReal (R := R)) (projQ d)
  Mat.mul (Mat.mul Q (liouvilleToChoi S C)) Q

/-- `np.abs(D).max(axis=-1)` for `n ≥ 1` eigenvalues (NumPy raises on an empty axis) -/
def maxAbs {n : Nat} (D : Vec R n) : R :=
  D.foldl (fun acc x => if RealOps.lt acc (RealOps.abs x) then RealOps.abs x else acc) 0

/-- the default tolerance of both tests:
`atol = basis._atol*np.maximum(1, np.abs(D).max(axis=-1, keepdims=True))`
(`basis._atol = eps·d³` is an input). -/
def defaultAtol {n : Nat} (basisAtol : R) (D : Vec R n) : R :=
  let m : R := maxAbs D
  basisAtol * (if RealOps.lt 1 m then m else 1)

/-- `(D >= -atol).all(axis=-1)` -/
def cpVerdictB {n : Nat} (D : Vec R n) (atol : R) : Bool :=
  D.all fun x => RealOps.le (-atol) x

/-- `liouville_is_CP` / `liouville_is_cCP` after the `eigh` call: `D` are the eigenvalues the
oracle returned (for the Choi matrix, resp. the projected Choi matrix), `atol = none` is the
default `atol=None`. -/
def cpTestAfterEigh {n : Nat} (basisAtol : R) (atol : Option R) (D : Vec R n) : Bool :=
  match atol with
  | none => cpVerdictB D (defaultAtol basisAtol D)
  | some a => cpVerdictB D a

end cp

/-! ### driver component -/

open FFVerif.Proto in
/-- driver component.
`projq d` → `ok <(d², d²) real>` (the array `Q` of `liouville_is_cCP`);
`projchoi d N S(N*N complex) C(N*d*d complex)` → `ok <(d², d²) complex>` (`Q @ choi @ Q`);
`cpverdict n basisAtol atol(- = None) D(n real)` → `ok <0/1>` followed by the tolerance used. -/
def handleSuperop (toks : List String) : Option String :=
  match toks with
  | ["projq", d] =>
    let d := d.toNat!
    let q : Mat Float (d * d) (d * d) := projQ d
    some ("ok " ++ showFloats (q.toArray.foldl (fun acc x => acc ++ x.toArray) #[]))
  | ["projchoi", d, N, S, C] =>
    let d := d.toNat!; let N := N.toNat!
    let r : Mat CF (d * d) (d * d) :=
      projectedChoi (R := Float) (matC (parseFloats S) 0 N N) (ten3C (parseFloats C) 0 N d d)
    some ("ok " ++ showFloats (flatC2 r))
  | ["cpverdict", n, bAtol, atol, D] =>
    let n := n.toNat!
    let dv : Vec Float n := vecR (parseFloats D) 0 n
    let a : Option Float := if atol == "-" then none else some (f0 atol)
    let used : Float := match a with
      | none => defaultAtol (f0 bAtol) dv
      | some x => x
    some ("ok " ++ showBools #[cpTestAfterEigh (f0 bAtol) a dv] ++ " " ++ showFloats #[used])
  | _ => none

end FFVerif.Model
