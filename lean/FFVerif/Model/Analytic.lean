/-
Model of `filter_functions/analytic.py`: closed-form dephasing filter functions (times ω²) of
dynamical-decoupling sequences, as functions of `z = ω τ`.  Mathlib-free.
-/
import FFVerif.Core.Scalars

namespace FFVerif.Model.Analytic
open FFVerif

section
variable {R K : Type} [Zero R] [One R] [Add R] [Mul R] [Neg R] [Sub R] [Div R] [NatCast R]
  [RealOps R] [Zero K] [One K] [Add K] [Mul K] [Neg K] [Sub K] [Div K] [CplxOps R K]

def sq (x : R) : R := x * x
def pow4 (x : R) : R := sq (sq x)
def two : R := ((2 : Nat) : R)

/-- `FID(z) = 2*sin(z/2)**2` -/
def FID (z : R) : R := two * sq (RealOps.sin (z / two))

/-- `SE(z) = 8*sin(z/4)**4` -/
def SE (z : R) : R := ((8 : Nat) : R) * pow4 (RealOps.sin (z / ((4 : Nat) : R)))

/-- `PDD(z, n)` -/
def PDD (z : R) (n : Nat) : R :=
  let t := RealOps.tan (z / ((2 * n + 2 : Nat) : R))
  if n % 2 == 0 then two * sq t * sq (RealOps.cos (z / two))
  else two * sq t * sq (RealOps.sin (z / two))

/-- `CPMG(z, n)` -/
def CPMG (z : R) (n : Nat) : R :=
  let s4 := pow4 (RealOps.sin (z / ((4 : Nat) : R) / (n : R)))
  let c2 := sq (RealOps.cos (z / two / (n : R)))
  if n % 2 == 0 then ((8 : Nat) : R) * s4 * sq (RealOps.sin (z / two)) / c2
  else ((8 : Nat) : R) * s4 * sq (RealOps.cos (z / two)) / c2

/-- `CDD(z, g) = 2**(2g+1) * sin(z/2**(g+1))**2 * prod_{k=1..g} sin(z/2**(k+1))**2` -/
def CDD (z : R) (g : Nat) : R :=
  ((2 ^ (2 * g + 1) : Nat) : R) * sq (RealOps.sin (z / ((2 ^ (g + 1) : Nat) : R))) *
    (List.range g).foldl (fun acc k => acc * sq (RealOps.sin (z / ((2 ^ (k + 2) : Nat) : R)))) 1

/-- `UDD(z, n) = |Σ_{k=-n-1}^{n} (-1)^k exp(i z/2 cos(π k/(n+1)))|² / 2` -/
def UDD (z : R) (n : Nat) : R :=
  let term := fun (k : Int) =>
    let c : R := RealOps.cos (RealOps.pi * (if k < 0 then -((k.natAbs : Nat) : R) else ((k.natAbs : Nat) : R))
                              / ((n + 1 : Nat) : R))
    let e : K := CplxOps.expI (z / two * c)
    if k % 2 == 0 then e else -e
  let s : K := (List.range (2 * n + 2)).foldl (fun acc (j : Nat) => acc + term ((j : Int) - (n : Int) - 1)) 0
  (sq (CplxOps.re s) + sq (CplxOps.im s)) / two

end
end FFVerif.Model.Analytic
