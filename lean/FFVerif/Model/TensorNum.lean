/-
Numeric model of the tensor-product helpers of `util.py` for `rank = 2` without broadcast axes:
`tensor(*args)`, `tensor_transpose`, `tensor_insert`, `tensor_merge` on actual arrays.

Level of abstraction: an n-dimensional array is its shape and its C-contiguous (row-major) buffer
(`NArr`).  `reshape` keeps the buffer, `transpose` and `einsum` build a new buffer entry by entry
through row-major (mixed-radix) index arithmetic (`mixedRadixEncode` / `mixedRadixDecode` of
`Model/Tensor.lean`).  The einsum subscripts are the letter lists that `Model/Tensor.lean` generates
(`insertSubscripts`, `mergeOutSlots`); `einsumOuter` evaluates a two-operand einsum whose letters
all survive into the output (no summed letter, no repeated letter, no ellipsis) — the only kind the
helpers build.  The steps (argument checks, normalisation and sorting of the positions, the
`carr_dims` bookkeeping of `tensor_insert`, the binary-tree order of `tensor`, reshape → einsum /
transpose → reshape) follow the source one by one.

Mathlib-free; executed by the driver (component `tnum`), reasoned about in `Props/C16Kron`.
-/
import FFVerif.Core.Scalars
import FFVerif.Model.Proto
import FFVerif.Model.Tensor

namespace FFVerif.Model.TensorNum
open FFVerif.Model.Tensor

/-- shape and row-major buffer of an array -/
structure NArr (α : Type) where
  shape : List Nat
  data : Array α

instance {α} : Inhabited (NArr α) := ⟨⟨[], #[]⟩⟩

variable {α : Type} [Zero α] [Mul α]

/-- element at flat (row-major) index `n` -/
def NArr.at (X : NArr α) (n : Nat) : α := X.data.getD n 0

/-- array of shape `s` whose element at flat index `n` is `f n` -/
def NArr.ofFn (s : List Nat) (f : Nat → α) : NArr α :=
  ⟨s, Array.ofFn (n := prod s) fun i => f i.1⟩

/-- `arr.reshape(*s)` of a C-contiguous array: same buffer, `ValueError` when the sizes differ -/
def reshape (X : NArr α) (s : List Nat) : Except String (NArr α) :=
  if prod s = prod X.shape then .ok ⟨s, X.data⟩ else .error "ValueError"

/-- `arr.reshape(*s)` with the dimensions passed as separate arguments: `TypeError` for none -/
def reshapeStar (X : NArr α) (s : List Nat) : Except String (NArr α) :=
  if s = [] then .error "TypeError" else reshape X s

/-- `np.einsum('sa,sb->so', A, B)` for subscripts in which every letter occurs exactly once among
the operands and exactly once in the output (an outer product with permuted axes).
`out[i] = A[i restricted to sa] * B[i restricted to sb]`. -/
def einsumOuter (sa sb so : List Nat) (A B : NArr α) : Except String (NArr α) :=
  if sa.length ≠ A.shape.length ∨ sb.length ≠ B.shape.length then .error "ValueError"
  else if !(decide (sa ++ sb).Nodup && decide so.Nodup && so.all (· ∈ sa ++ sb)
      && (sa ++ sb).all (· ∈ so)) then .error "unsupported-subscripts"
  else
    let outShape := so.map fun c => (A.shape ++ B.shape).getD ((sa ++ sb).idxOf c) 0
    .ok (NArr.ofFn outShape fun n =>
      let dg := mixedRadixDecode outShape n
      A.at (mixedRadixEncode A.shape (sa.map fun c => dg.getD (so.idxOf c) 0)) *
      B.at (mixedRadixEncode B.shape (sb.map fun c => dg.getD (so.idxOf c) 0)))

/-- `X.transpose(*axes)` followed by making the result contiguous (the subsequent `reshape` copies):
`out[i_0, …] = X[j]` with `j[axes[k]] = i_k`. -/
def transposeNum (axes : List Nat) (X : NArr α) : Except String (NArr α) :=
  if !validAxes axes X.shape.length then .error "ValueError"
  else
    let outShape := axes.map fun a => X.shape.getD a 0
    .ok (NArr.ofFn outShape fun n =>
      let dg := mixedRadixDecode outShape n
      X.at (mixedRadixEncode X.shape
        ((List.range X.shape.length).map fun m => dg.getD (axes.idxOf m) 0)))

/-! ### `tensor` -/

/-- `while A.ndim < rank: A = A[None, :]` for `rank = 2` -/
def atLeast2 (A : NArr α) : NArr α :=
  match A.shape with
  | [] => ⟨[1, 1], A.data⟩
  | [n] => ⟨[1, n], A.data⟩
  | _ => A

/-- `_tensor_product_shape(shape_A, shape_B, 2)` for two-dimensional operands -/
def productShape (sA sB : List Nat) : Except String (List Nat) :=
  match sA, sB with
  | [a, b], [c, d] => .ok [a * c, b * d]
  | _, _ => .error "unsupported-broadcast"

/-- `binary_tensor(A, B)`: `np.einsum('...ab,...cd->...acbd', A, B).reshape(outshape)` -/
def binaryTensor (A B : NArr α) : Except String (NArr α) := do
  let A := atLeast2 A
  let B := atLeast2 B
  let outshape ← productShape A.shape B.shape
  let E ← einsumOuter [0, 1] [2, 3] [0, 2, 1, 3] A B
  reshape E outshape

/-- `tuple(binary_tensor(*args[i:i+2]) for i in range(0, n, 2))` (even length) -/
def pairUpNum : List (NArr α) → Except String (List (NArr α))
  | a :: b :: rest => do
    let ab ← binaryTensor a b
    let r ← pairUpNum rest
    pure (ab :: r)
  | l => pure l

/-- one pass of the `while n > 1` loop: `args[:bit] + pairs(args[bit:])`, `bit = n % 2` -/
def tensorStepNum (l : List (NArr α)) : Except String (List (NArr α)) := do
  let r ← pairUpNum (l.drop (l.length % 2))
  pure (l.take (l.length % 2) ++ r)

def tensorLoopNum : Nat → List (NArr α) → Except String (List (NArr α))
  | 0, l => pure l
  | fuel + 1, l =>
    if l.length > 1 then do
      let l' ← tensorStepNum l
      tensorLoopNum fuel l'
    else pure l

/-- `util.tensor(*args, rank=2)` -/
def tensorChainNum (args : List (NArr α)) : Except String (NArr α) := do
  let l ← tensorLoopNum args.length args
  match l with
  | a :: _ => pure a
  | [] => .error "IndexError"

/-! ### `tensor_transpose` -/

/-- `_parse_dims_arg(name, dims, 2)` -/
def parseDims (dims : List (List Nat)) : Except String (List Nat × List Nat) :=
  match dims with
  | [r, c] => if r.length = c.length then .ok (r, c) else .error "ValueError"
  | _ => .error "ValueError"

/-- `tensor_transpose(arr, order, arr_dims)` (`rank = 2`, `arr` two-dimensional) -/
def tensorTransposeNum (arr : NArr α) (order : List Int) (arrDims : List (List Nat)) :
    Except String (NArr α) := do
  let (rows, cols) ← parseDims arrDims
  let ndim := rows.length
  if order.any (fun o => decide (o < 0)) then .error "ValueError"
  else
    let order := order.map Int.toNat
    if !orderIsRange order ndim then .error "ValueError"
    else if arr.shape.length ≠ 2 then .error "unsupported-broadcast"
    else do
      let axes := transposeAxes 2 ndim order
      let reshaped ← reshapeStar arr (rows ++ cols)
      let t ← transposeNum axes reshaped
      reshape t arr.shape

/-! ### `tensor_insert` -/

/-- `divmod(p, ndim) if p != ndim else (0, p)` -/
def divmodPos (ndim : Nat) (p : Int) : Except String (Int × Nat) :=
  if p = (ndim : Int) then .ok (0, ndim)
  else if ndim = 0 then .error "ZeroDivisionError"
  else .ok (Int.fdiv p ndim, (Int.fmod p ndim).toNat)

def divmodAll (ndim : Nat) : List Int → Except String (List (Int × Nat))
  | [] => .ok []
  | p :: ps => do
    let q ← divmodPos ndim p
    let qs ← divmodAll ndim ps
    pure (q :: qs)

/-- `single_tensor_insert(arr, ins, arr_dims, pos)` -/
def singleInsertNum (arr ins : NArr α) (rows cols : List Nat) (pos : Nat) :
    Except String (NArr α) := do
  let (sa, sb, so) := insertSubscripts rows.length pos 2
  let outshape ← productShape ins.shape arr.shape
  let reshaped ← reshapeStar arr (rows ++ cols)
  let E ← einsumOuter sa sb so ins reshaped
  reshape E outshape

/-- the loop of `tensor_insert` over the sorted `(p, div, arg)` triples; `i` = loop counter,
`rows`, `cols` = `carr_dims` (recorded at `p`, not at `p + i`, as in the source) -/
def insertLoopNum (i : Nat) (result : NArr α) (rows cols : List Nat) :
    List (Nat × (Int × NArr α)) → Except String (NArr α)
  | [] => .ok result
  | (p, dv, arg) :: rest =>
    if dv ≠ -1 ∧ dv ≠ 0 then .error "IndexError"
    else do
      let r ← singleInsertNum result arg rows cols (p + i)
      match arg.shape with
      | [d0, d1] => insertLoopNum (i + 1) r (insertAt rows p d0) (insertAt cols p d1) rest
      | _ => .error "unsupported-broadcast"

/-- `tensor_insert(arr, *args, pos=pos, arr_dims=arr_dims)` for a *sequence* `pos` -/
def tensorInsertNum (arr : NArr α) (args : List (NArr α)) (pos : List Int)
    (arrDims : List (List Nat)) : Except String (NArr α) :=
  if args.length = 0 then .error "ValueError"
  else if pos.length ≠ args.length then .error "ValueError"
  else do
    let (rows, cols) ← parseDims arrDims
    let dm ← divmodAll rows.length pos
    let triples := (dm.zip args).map fun x => (x.1.2, (x.1.1, x.2))
    insertLoopNum 0 arr rows cols (sortByPos triples)

/-- `tensor_insert(arr, *args, pos=p, arr_dims=arr_dims)` for an *integer* `pos`: several
arguments are tensored first -/
def tensorInsertNumInt (arr : NArr α) (args : List (NArr α)) (p : Int)
    (arrDims : List (List Nat)) : Except String (NArr α) :=
  if args.length = 0 then .error "ValueError"
  else do
    let block ← if args.length > 1 then tensorChainNum args else pure (args.headD default)
    tensorInsertNum arr [block] [p] arrDims

/-! ### `tensor_merge` -/

/-- `tensor_merge(arr, ins, pos, arr_dims, ins_dims)` (`rank = 2`) -/
def tensorMergeNum (arr ins : NArr α) (pos : List Int) (arrDims insDims : List (List Nat)) :
    Except String (NArr α) := do
  let (arows, acols) ← parseDims arrDims
  let (irows, icols) ← parseDims insDims
  let insNdim := irows.length
  let arrNdim := arows.length
  if pos.length ≠ insNdim then .error "ValueError"
  else do
    let np ← normAll arrNdim pos
    let insChars := slice letters 0 (insNdim * 2)
    let arrChars := slice letters (insNdim * 2) ((insNdim + arrNdim) * 2)
    let outChars := (mergeOutSlots arrNdim insNdim 2 np).flatten
    let outshape ← productShape ins.shape arr.shape
    let insR ← reshapeStar ins (irows ++ icols)
    let arrR ← reshapeStar arr (arows ++ acols)
    let E ← einsumOuter insChars arrChars outChars insR arrR
    reshape E outshape

/-! ### driver -/

open FFVerif.Proto in
/-- arrays of the given shapes, stored one after the other in `a` (complex interleaved) -/
def readArrs (a : Array Float) : Nat → List (List Nat) → List (NArr CF)
  | _, [] => []
  | off, s :: ss =>
    let n := prod s
    ⟨s, Array.ofFn (n := n) fun i => cAt a (off + i.1)⟩ :: readArrs a (off + n) ss

def parseNats (s : String) : List Nat := (parseInts s).map Int.toNat

def parseShapes (s : String) : List (List Nat) :=
  if s == "_" || s.isEmpty then [] else (s.splitOn ";").map parseNats

def showArr (r : Except String (NArr CF)) : String :=
  match r with
  | .error e => "err " ++ e
  | .ok X => "ok " ++ showNats X.shape ++ ";" ++
      FFVerif.Proto.showFloats (X.data.foldl (fun acc z => (acc.push z.re).push z.im) #[])

/-- Requests (`shapes` = `r1,c1;r2,c2;…`, `data` = all arrays one after the other, complex
interleaved bit patterns, integer lists comma separated, `_` = empty):
* `tnum chain shapes data`
* `tnum transpose shape data order dims`
* `tnum insert shape data argShapes argData pos dims`, `tnum insert_int … p dims`
* `tnum merge shape data insShape insData pos arrDims insDims`
Answer `ok shape;data`. -/
def handleTensorNum (toks : List String) : Option String :=
  let one (sh dat : String) : NArr CF :=
    (readArrs (FFVerif.Proto.parseFloats dat) 0 [parseNats sh]).headD default
  match toks with
  | ["tnum", "chain", shapes, dat] =>
    some (showArr (tensorChainNum (readArrs (FFVerif.Proto.parseFloats dat) 0 (parseShapes shapes))))
  | ["tnum", "transpose", sh, dat, order, dims] =>
    some (showArr (tensorTransposeNum (one sh dat) (parseInts order) (parseShapes dims)))
  | ["tnum", "insert", sh, dat, ashapes, adat, pos, dims] =>
    some (showArr (tensorInsertNum (one sh dat)
      (readArrs (FFVerif.Proto.parseFloats adat) 0 (parseShapes ashapes)) (parseInts pos)
      (parseShapes dims)))
  | ["tnum", "insert_int", sh, dat, ashapes, adat, p, dims] =>
    some (showArr (tensorInsertNumInt (one sh dat)
      (readArrs (FFVerif.Proto.parseFloats adat) 0 (parseShapes ashapes)) p.toInt!
      (parseShapes dims)))
  | ["tnum", "merge", sh, dat, ish, idat, pos, adims, idims] =>
    some (showArr (tensorMergeNum (one sh dat) (one ish idat) (parseInts pos)
      (parseShapes adims) (parseShapes idims)))
  | _ => none

end FFVerif.Model.TensorNum
