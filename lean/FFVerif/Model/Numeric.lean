/-
Model of the numerical kernels of `filter_functions/numeric.py` (Mathlib-free, executable at
IEEE doubles, reasoned about at ℝ/ℂ).  Function names follow the Python.
-/
import FFVerif.Core.Mat
import FFVerif.Core.Mask
import FFVerif.Gen.Einsum
import FFVerif.Gen.Constants

namespace FFVerif.Model
open FFVerif

section
variable {R K : Type}
  [Zero R] [One R] [Add R] [Mul R] [Neg R] [Sub R] [Div R] [RealOps R]
  [Zero K] [One K] [Add K] [Mul K] [Neg K] [Sub K] [Div K] [CplxOps R K]

/-- truth value of the small-denominator mask of `_first_order_integral` for one entry
(`true` = closed form is evaluated, `false` = the limit value `dt` is written). -/
def firstOrderMask (kind : MaskKind) (thr x dt : R) : Bool :=
  match kind with
  | .absGt => RealOps.lt thr (RealOps.abs x)
  | .absTimesDtGt => RealOps.lt thr (RealOps.abs (x * dt))
  | .neZero => RealOps.lt 0 (RealOps.abs x)

/-- one entry of `numeric._first_order_integral`: `(e^{i x dt} - 1)/(i x)` where the mask holds,
`dt` elsewhere; `x = ω + λ_m - λ_n`. -/
def firstOrderEntry (kind : MaskKind) (thr x dt : R) : K :=
  if firstOrderMask kind thr x dt then
    (CplxOps.expI (x * dt) - 1) / (CplxOps.I * CplxOps.ofReal x)
  else CplxOps.ofReal dt

/-- `numeric._first_order_integral(E, eigvals, dt, …)` : shape (n_omega, d, d) -/
def firstOrderIntegral {nO d : Nat} (kind : MaskKind) (thr : R) (E : Vec R nO) (ev : Vec R d)
    (dt : R) : Ten3 K nO d d :=
  Vector.ofFn fun o => Vector.ofFn fun m => Vector.ofFn fun n =>
    firstOrderEntry kind thr (E[o] + (ev[m] - ev[n])) dt

/-- `numeric.calculate_filter_function(control_matrix, which='generalized')` -/
def filterFunctionGen {nA nK nO : Nat} (B : Ten3 K nA nK nO) :=
  Gen.numeric_calculate_filter_function_1 (Vector.map (Vector.map (Vector.map CplxOps.conj)) B) B

/-- `numeric.calculate_filter_function(control_matrix, which='fidelity')` -/
def filterFunctionFid {nA nK nO : Nat} (B : Ten3 K nA nK nO) :=
  Gen.numeric_calculate_filter_function_0 (Vector.map (Vector.map (Vector.map CplxOps.conj)) B) B

/-- `numeric._transform_by_unitary(unitary, oper)` = `unitary^† oper unitary` -/
def transformByUnitary {d : Nat} (U : Mat K d d) (A : Mat K d d) : Mat K d d :=
  Mat.mul (Mat.adjoint U) (Mat.mul A U)

/-- `numeric.calculate_control_matrix_from_scratch` (the `eigh` output and the cumulative
propagators are inputs, as in the Python).  `t` are the segment start times `t[g]`. -/
def controlMatrixFromScratch {nG d nO nA nK : Nat} (kind : MaskKind) (thr : R)
    (eigvals : Mat R nG d) (eigvecs : Vector (Mat K d d) nG) (props : Vector (Mat K d d) nG)
    (omega : Vec R nO) (basis : Vector (Mat K d d) nK) (nOpers : Vector (Mat K d d) nA)
    (nCoeffs : Mat R nA nG) (dt : Vec R nG) (t : Vec R nG) : Ten3 K nA nK nO :=
  -- eigvecs_propagated[g] = Q_{g-1}^† V_g
  let evp : Vector (Mat K d d) nG := Vector.ofFn fun g => Mat.mul (Mat.adjoint props[g]) eigvecs[g]
  -- per-segment contributions
  let steps : Vector (Ten3 K nA nK nO) nG := Vector.ofFn fun g =>
    let nT : Vector (Mat K d d) nA := Vector.ofFn fun a =>
      Mat.smul (CplxOps.ofReal nCoeffs[a][g]) (transformByUnitary eigvecs[g] nOpers[a])
    let bT : Vector (Mat K d d) nK := Vector.ofFn fun k => transformByUnitary evp[g] basis[k]
    let ph : Vec K nO := Vector.ofFn fun o => CplxOps.expI (omega[o] * t[g])
    let I : Ten3 K nO d d := firstOrderIntegral kind thr omega eigvals[g] dt[g]
    Gen.numeric_calculate_control_matrix_from_scratch_0 ph nT I bT
  Vector.ofFn fun a => Vector.ofFn fun k => Vector.ofFn fun o => fsum nG fun g => steps[g][a][k][o]

end
end FFVerif.Model
