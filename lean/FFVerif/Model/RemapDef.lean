/-
DEFINITION part of `filter_functions.pulse_sequence.remap` and `extend` on abstract pulses:
which operator ends up under which identifier with which coefficient row, in which order, on which
time grid (`dt`, `t`, `tau`), and which exception is raised on the way.  No numerics: what the
tensor helpers do to the operators is recorded in operator TOKENS (numerical content: `Props/C05`,
`C06`, `C16`); which cached quantities are carried over is `Model/ExtendLogic`; the argument checks
in full are `Model/Validate`.

Abstraction (as in `Model/Pulse.lean`): operators are `Nat` ids, identifiers `String`s ordered by
code point (NumPy's order of unicode arrays), coefficients and durations integers.  A pulse here
(`TPulse`) is the `PulseData` of `Model/Pulse` plus the two caches `_t`, `_tau` that `remap` /
`extend` copy.

`np.argsort` on string arrays (default `kind='quicksort'`) IS an insertion sort — hence stable — for
at most 16 elements (NumPy 1.26: `PYA_QS_STACK`/`SMALL_QUICKSORT = 16`; checked by
`corr_c06def.py`: 0 of 200 random tie patterns deviate from `kind='stable'` for n ≤ 16, all deviate
for n ≥ 17).  The model sorts stably (`Pulse.sortBy`, by code points).  The difference is visible
only for EQUAL identifiers, which `remap` and `extend` reject since the repair of that finding
(`Props/C06Def`: `remap_duplicates_rejected`, `extend_duplicates_rejected`; before, they were
accepted silently).

The source is followed statement by statement; Python line numbers refer to `pulse_sequence.py`.

Mathlib-free; executed by the driver (`handleRemapDef` at the end) and reasoned about in
`Props/C06Def`.
-/
import FFVerif.Model.Pulse

namespace FFVerif.Model.RemapDef
open FFVerif.Model.Pulse

/-! ### pulses with their time caches -/

/-- a `PulseSequence` as far as `remap` / `extend` define a new one from it -/
structure TPulse where
  data : PulseData
  /-- `pulse._t` (`none` = `None`: never computed, never set) -/
  tCache : Option (List Int) := none
  /-- `pulse._tau` -/
  tauCache : Option Int := none
deriving DecidableEq, Repr, Inhabited

/-- `dt.cumsum()` started at `acc` -/
def cumsum : List Int → Int → List Int
  | [], _ => []
  | d :: ds, acc => (acc + d) :: cumsum ds (acc + d)

/-- the property `PulseSequence.t` (l. 473): the cache if there is one, else
`np.concatenate(([0], self.dt.cumsum()))` -/
def TPulse.t (p : TPulse) : List Int :=
  match p.tCache with
  | some t => t
  | none => 0 :: cumsum p.data.dt 0

/-- the property `PulseSequence.tau` (l. 486): `self.t[-1]` when `_t` is set (`IndexError` for an
empty array), `self.dt.sum()` otherwise; the cache `_tau` is never read -/
def TPulse.tau (p : TPulse) : Except String Int :=
  match p.tCache with
  | some t => match t.getLast? with
    | some x => .ok x
    | none => .error "IndexError"
  | none => .ok p.data.dt.sum

/-! ### `_map_identifiers` (l. 1527) -/

/-- a Python `dict` with string keys and values, as its item list (keys distinct) -/
abbrev Dict := List (String × String)

/-- `[mapping[identifier] for identifier in identifiers]`; `none` = a key is missing (`KeyError`,
which `_map_identifiers` turns into a `ValueError` since the repair F50) -/
def applyDict (m : Dict) : List String → Option (List String)
  | [] => some []
  | s :: ss =>
    match m.lookup s, applyDict m ss with
    | some v, some vs => some (v :: vs)
    | _, _ => none

/-- `np.argsort(ids)`: the positions `0..n-1` sorted stably by their strings -/
def argsortIds (ids : List String) : List Nat := (sortBy (·.1) ids.zipIdx).map (·.2)

/-- fancy indexing `xs[idx]` along the first axis (indices in range; others are skipped) -/
def gather {α : Type} (xs : List α) (idx : List Nat) : List α := idx.filterMap (xs[·]?)

/-- `_map_identifiers(identifiers, mapping)` → `(remapped_identifiers, sort_idx)` -/
def mapIdentifiers (ids : List String) : Option Dict → Except String (List String × List Nat)
  -- if mapping is None: remapped_identifiers = identifiers; sort_idx = np.arange(len(identifiers))
  | none => .ok (ids, List.range ids.length)
  -- else: np.array([mapping[identifier] for identifier in identifiers]); np.argsort(...)
  | some m =>
    -- try: … except KeyError as err: raise ValueError('Identifier mapping has no entry …') from err
    match applyDict m ids with
    | none => .error "ValueError"
    | some r => .ok (r, argsortIds r)

/-- three parallel arrays zipped to terms (`zip` truncation never happens: equal lengths) -/
def zip3With {α β : Type} (f : α → String → List Int → β) :
    List α → List String → List (List Int) → List β
  | o :: os, i :: is, c :: cs => f o i c :: zip3With f os is cs
  | _, _, _ => []

/-! ### `remap` (l. 1977–2063): the new pulse's defining attributes -/

/-- One Hamiltonian of the remapped pulse.  `tr` is what `util.tensor_transpose(·, order, …)` does
to an operator (on ids); the model is generic in it. -/
def remapHam (tr : Nat → Nat) (mapping : Option Dict) (ts : List Term) :
    Except String (List Term) :=
  -- c_opers = util.tensor_transpose(pulse.c_opers, order, [[d_per_qubit]*N]*2)
  let opers := ts.map fun t => tr t.op
  -- c_oper_identifiers, c_sort_idx = _map_identifiers(pulse.c_oper_identifiers, mapping)
  match mapIdentifiers (ts.map (·.id)) mapping with
  | .error e => .error e
  | .ok (ids, sortIdx) =>
    -- c_opers=c_opers[c_sort_idx], c_oper_identifiers=c_oper_identifiers[c_sort_idx],
    -- c_coeffs=pulse.c_coeffs[c_sort_idx]
    .ok (zip3With Term.mk (gather opers sortIdx) (gather ids sortIdx)
      (gather (ts.map (·.coeffs)) sortIdx))

/-- the mapped identifiers of one Hamiltonian as `_map_identifiers` returns them (before the
gather); `[]` when the mapping misses a key (`remapHam` then fails anyway) -/
def mappedIds (mapping : Option Dict) (ts : List Term) : List String :=
  match mapIdentifiers (ts.map (·.id)) mapping with
  | .error _ => []
  | .ok (ids, _) => ids

/-- control or noise identifiers are repeated (what the constructor rejects) -/
def TPulse.idsDup (p : TPulse) : Bool :=
  hasDup (p.data.cTerms.map (·.id)) || hasDup (p.data.nTerms.map (·.id))

/-- `remap(pulse, order, d_per_qubit, oper_identifier_mapping)` up to the construction of the new
pulse, once the two `tensor_transpose` calls have succeeded (their `ValueError`s:
`Validate.remapChecks`).  Both `_map_identifiers` calls come first (`ValueError` for a missing key), then the check
that the mapped control, then the mapped noise identifiers are unique (`ValueError`; repair of the
finding "identifiers that coincide after the mapping were accepted").
`PulseSequence(c_opers=…, …)` is called with KEYWORD arguments only: `__init__` (l. 271) then sets
the attributes directly — `_parse_args` / `_parse_Hamiltonian` are NOT run, nothing is sorted or
checked again.  `dt`, `d`, `basis` are passed on; `t`, `tau` are copied from the caches. -/
def remapDef (tr : Nat → Nat) (mapping : Option Dict) (p : TPulse) : Except String TPulse :=
  match remapHam tr mapping p.data.cTerms with
  | .error e => .error e
  | .ok c =>
    match remapHam tr mapping p.data.nTerms with
    | .error e => .error e
    | .ok n =>
      -- for identifiers, kind in ((c_oper_identifiers, 'control'), (n_oper_identifiers, 'noise')):
      --     if len(set(identifiers)) != len(identifiers): raise ValueError
      if hasDup (mappedIds mapping p.data.cTerms) then .error "ValueError"
      else if hasDup (mappedIds mapping p.data.nTerms) then .error "ValueError"
      else
        .ok { data := { cTerms := c, nTerms := n, dt := p.data.dt, basis := p.data.basis }
              -- remapped_pulse.t = pulse._t ; remapped_pulse.tau = pulse._tau
              tCache := p.tCache, tauCache := p.tauCache }

/-! ### the cached arrays of `remap` indexed by noise operator (l. 2084–2109) -/

/-- `n_sort_idx.argsort()` (integers; merge sort of core Lean, stable) -/
def argsortNat (s : List Nat) : List Nat :=
  (s.zipIdx.mergeSort fun a b => decide (a.1 ≤ b.1)).map Prod.snd

/-- `F[idx[:, None], idx[None, :]]` -/
def gather2 {α : Type} (F : List (List α)) (idx : List Nat) : List (List α) :=
  gather (F.map fun row => gather row idx) idx

/-- `R[pos] = xs` on top of `R` (`R[pos[a]] = xs[a]`, later writes win) -/
def scatter {α : Type} : List Nat → List α → List (Option α) → List (Option α)
  | j :: js, x :: xs, R => scatter js xs (R.set j (some x))
  | _, _, R => R

/-- `R = np.empty_like(B); R[rowPos[:, None], colPos[None, :]] = B`
(`R[rowPos[a]][colPos[k]] = B[a][k]`; entries never written are `none`) -/
def scatter2 {α : Type} (rowPos colPos : List Nat) (B : List (List α)) (nK : Nat) :
    List (Option (List (Option α))) :=
  scatter rowPos (B.map fun row => scatter colPos row (List.replicate nK none))
    (List.replicate B.length none)

/-! ### `extend` (l. 2257–2488): the new pulse's defining attributes -/

/-- one element of `pulse_to_qubit_mapping` -/
structure Entry where
  pulse : TPulse
  /-- `pulse.d == d_per_qubit ** (number of qubits given)` -/
  dimOk : Bool := true
  /-- the qubits (`[q]` for a bare int) -/
  qubits : List Nat
  /-- given as a bare `int` (not iterable) -/
  bare : Bool := false
  /-- given as a `tuple` (only then can `qubit == sorted_qubit` hold) -/
  isTuple : Bool := true
  /-- the optional third element -/
  mapping : Option Dict := none
deriving DecidableEq, Repr, Inhabited

/-- operator of the extended pulse -/
inductive XOp
  /-- operator `op` of the pulse of entry number `entry`, transposed by `remap` with `order`
  (`none`: `remap` not called), tensor factors then placed on the ascending `qubits`, identities
  elsewhere -/
  | mapped (entry op : Nat) (order : Option (List Nat)) (qubits : List Nat)
  /-- operator `op` of `additional_noise_Hamiltonian` -/
  | additional (op : Nat)
deriving DecidableEq, Repr, Inhabited

structure XTerm where
  op : XOp
  id : String
  coeffs : List Int
deriving DecidableEq, Repr, Inhabited

/-- the defining attributes of the result of `extend` -/
structure XPulse where
  cTerms : List XTerm
  nTerms : List XTerm
  dt : List Int
  tCache : Option (List Int)
  tauCache : Option Int
  /-- number of qubits -/
  N : Nat
  /-- the input pulse itself was returned (l. 2336–2347) -/
  shortcut : Bool
deriving DecidableEq, Repr, Inhabited

/-- an entry after the first loop (l. 2278–2307) -/
structure Placed where
  /-- position in `pulse_to_qubit_mapping` -/
  entry : Nat
  /-- `sorted_pulse` / `pulse`.  Operator ids stay those of the INPUT pulse; that `remap`
  transposed them is recorded in `order`. -/
  pulse : TPulse
  order : Option (List Nat)
  /-- `list(sorted_qubit)` for a multi-qubit pulse, `[qubit]` for a single-qubit pulse -/
  qubits : List Nat
  single : Bool
  mapping : Option Dict
  dimOk : Bool
deriving DecidableEq, Repr, Inhabited

/-- `sorted(zip(qubit, range(len(qubit))))`: pairs in lexicographic order -/
def insertPair (a : Nat × Nat) : List (Nat × Nat) → List (Nat × Nat)
  | [] => [a]
  | b :: bs =>
    if a.1 < b.1 || (a.1 == b.1 && a.2 ≤ b.2) then a :: b :: bs else b :: insertPair a bs
def sortPairs : List (Nat × Nat) → List (Nat × Nat)
  | [] => []
  | a :: as => insertPair a (sortPairs as)

/-- body of the first loop for entry number `i` -/
def placeEntry (i : Nat) (e : Entry) : Except String Placed :=
  -- try: active_qubits_list.extend(qubit)  /  except TypeError: (bare int) single qubit
  -- if len(qubit) == 1: single_qubit_idx.extend(qubit) …
  if e.bare || e.qubits.length == 1 then
    .ok { entry := i, pulse := e.pulse, order := none, qubits := e.qubits, single := true,
          mapping := e.mapping, dimOk := e.dimOk }
  -- sorted_qubit, order = zip(*sorted(zip(qubit, range(len(qubit)))))   (nothing to unpack)
  else if e.qubits.isEmpty then .error "ValueError"
  else
    let sp := sortPairs e.qubits.zipIdx
    let sortedQubit := sp.map (·.1)
    let order := sp.map (·.2)
    -- if qubit == sorted_qubit: sorted_pulse = pulse
    if e.isTuple && e.qubits == sortedQubit then
      .ok { entry := i, pulse := e.pulse, order := none, qubits := sortedQubit, single := false,
            mapping := e.mapping, dimOk := e.dimOk }
    -- else: try: sorted_pulse = remap(pulse, order, d_per_qubit) except ValueError: raise ValueError
    --   (`remap` fails on the dimensions, or — no mapping is passed — on identifiers that are
    --    repeated in the input already, which the class excludes)
    else if !e.dimOk then .error "ValueError"
    else
      match remapDef (fun o => o) none e.pulse with
      | .error x => .error x
      | .ok q =>
        .ok { entry := i, pulse := q, order := some order, qubits := sortedQubit, single := false,
              mapping := e.mapping, dimOk := e.dimOk }

/-- `_default_extend_mapping(identifiers, mapping, qubits)` (l. 1558): the given mapping, or
`{q: q + '_' + ''.join(str of the qubits)}` (both branches of the `try` give this string) -/
def defaultExtendMapping (ids : List String) (mapping : Option Dict) (qubits : List Nat) : Dict :=
  match mapping with
  | some m => m
  | none => ids.map fun q => (q, q ++ "_" ++ String.join (qubits.map toString))

/-- what one pass of the loops l. 2396 / l. 2417 appends to the three lists of one Hamiltonian -/
def placedTerms (ts : List Term) (pl : Placed) : Except String (List XTerm) :=
  let ids := ts.map (·.id)
  -- c_oper_identifier, _ = _map_identifiers(*_default_extend_mapping(ids, id_mapping, qubits))
  match mapIdentifiers ids (some (defaultExtendMapping ids pl.mapping pl.qubits)) with
  | .error e => .error e
  | .ok (newIds, _) =>
    -- c_opers.extend(util.tensor_insert(pulse.c_opers, *[ID]*len(pos), pos=pos, …))   (multi)
    -- c_opers.extend(util.tensor(*(ID_pre + [pulse.c_opers] + ID_post)))               (single)
    -- c_coeffs.extend(pulse.c_coeffs)
    .ok (zip3With XTerm.mk (ts.map fun t => XOp.mapped pl.entry t.op pl.order pl.qubits) newIds
      (ts.map (·.coeffs)))

/-- the loops over `multi_qubit_pulses`, then `single_qubit_pulses`; per pulse the control
identifiers are mapped first, then the noise identifiers (a missing key: `ValueError`, raised here,
i.e. before the duplicate check and before the additional noise Hamiltonian is looked at) -/
def collectTerms : List Placed → Except String (List XTerm × List XTerm)
  | [] => .ok ([], [])
  | pl :: pls =>
    match placedTerms pl.pulse.data.cTerms pl with
    | .error e => .error e
    | .ok c =>
      match placedTerms pl.pulse.data.nTerms pl with
      | .error e => .error e
      | .ok n =>
        match collectTerms pls with
        | .error e => .error e
        | .ok (cs, ns) => .ok (c ++ cs, n ++ ns)

/-- `additional_noise_Hamiltonian` -/
structure Additional where
  /-- the items `[operator, coefficients(, identifier)]` -/
  terms : List (Nat × Option String × List Int)
  /-- `add_n_opers.shape[1:] == (d, d)` -/
  dimOk : Bool := true
deriving DecidableEq, Repr, Inhabited

/-- `len(set(l)) != len(l)` for integers -/
def hasDupNat : List Nat → Bool
  | [] => false
  | s :: ss => ss.contains s || hasDupNat ss

/-- `PulseSequence(c_opers=np.asarray(c_opers)[c_sort_idx], …)` for one Hamiltonian (l. 2473–2482);
keyword arguments: nothing is parsed, sorted or checked again -/
def sortTerms (ts : List XTerm) : List XTerm :=
  let sortIdx := argsortIds (ts.map (·.id))
  zip3With XTerm.mk (gather (ts.map (·.op)) sortIdx) (gather (ts.map (·.id)) sortIdx)
    (gather (ts.map (·.coeffs)) sortIdx)

/-- the returned object when the shortcut of l. 2336 is taken: the (possibly remapped) input -/
def shortcutResult (pl : Placed) (N : Nat) : XPulse :=
  let tok (t : Term) : XTerm := ⟨XOp.mapped pl.entry t.op pl.order pl.qubits, t.id, t.coeffs⟩
  { cTerms := pl.pulse.data.cTerms.map tok, nTerms := pl.pulse.data.nTerms.map tok,
    dt := pl.pulse.data.dt, tCache := pl.pulse.tCache, tauCache := pl.pulse.tauCache, N := N,
    shortcut := true }

/-- the entries numbered from `i` on through the first loop -/
def placeAll : Nat → List Entry → Except String (List Placed)
  | _, [] => .ok []
  | i, e :: es =>
    match placeEntry i e with
    | .error x => .error x
    | .ok pl =>
      match placeAll (i + 1) es with
      | .error x => .error x
      | .ok pls => .ok (pl :: pls)

/-- l. 2309–2334: the checks between the first loop and the shortcut; returns `N` -/
def frontChecks (entries : List Entry) (placed : List Placed) (Ngiven : Option Nat) :
    Except String Nat :=
  let multi := placed.filter (!·.single)
  let single := placed.filter (·.single)
  -- if not all(pulse.d == d_per_qubit for pulse in single_qubit_pulses): raise ValueError
  if !(single.all (·.dimOk)) then .error "ValueError"
  -- if not all(pulse.d == d_per_qubit**len(qubits) for …multi…): raise ValueError
  else if !(multi.all (·.dimOk)) then .error "ValueError"
  else
    let pulses := multi ++ single
    -- if not util.all_array_equal((pulse.dt for pulse in pulses)): raise ValueError
    if !(match pulses with
         | [] => false
         | p :: ps => ps.all (·.pulse.data.dt == p.pulse.data.dt)) then .error "ValueError"
    else
      let active := entries.flatMap (·.qubits)
      -- if len(active_qubits) != len(active_qubits_list): raise ValueError('Qubit clash…')
      if hasDupNat active then .error "ValueError"
      else
        let last := active.foldl max 0
        match Ngiven with
        | none => .ok (last + 1)
        | some n => if last + 1 > n then .error "ValueError" else .ok n

/-- the placed entry `extend` returns unchanged, if any (l. 2336–2347) -/
def shortcutOf (placed : List Placed) (N : Nat) : Option Placed :=
  match placed with
  | [pl] => if pl.single then (if N == 1 then some pl else none)
            else (if N == pl.qubits.length then some pl else none)
  | _ => none

/-- l. 2436–2452: the additional noise Hamiltonian appended to the noise lists -/
def addAdditional (ns : List XTerm) (nDt : Nat) : Option Additional → Except String (List XTerm)
  | none => .ok ns
  | some H =>
    -- noise_args = _parse_Hamiltonian(additional_noise_Hamiltonian, len(pulses[0].dt), 'H_n')
    match parseHamiltonianChecked H.terms "B" (some nDt) with
    | .error e => .error e
    | .ok add =>
      -- if add_n_opers.shape[1:] != (d, d): raise ValueError
      if !H.dimOk then .error "ValueError"
      -- if any(n_oper_id in n_oper_identifiers for n_oper_id in add_n_oper_id): raise ValueError
      else if add.any (fun t => (ns.map (·.id)).contains t.id) then .error "ValueError"
      -- n_opers.extend(add_n_opers); n_coeffs.extend(add_n_coeffs); n_oper_identifiers.extend(…)
      else .ok (ns ++ add.map fun t => ⟨XOp.additional t.op, t.id, t.coeffs⟩)

/-- `extend(pulse_to_qubit_mapping, N, d_per_qubit, additional_noise_Hamiltonian)` with the caching
options at their defaults (their two `ValueError`s, l. 2367 / l. 2385, sit between the shortcut and
the loops and belong to `ExtendLogic` / `Validate`), as far as the DEFINITION of the new pulse goes
(l. 2257–2488). -/
def extendDef (entries : List Entry) (Ngiven : Option Nat) (additional : Option Additional) :
    Except String XPulse :=
  -- pulses, *args = zip_longest(*pulse_to_qubit_mapping)      (nothing to unpack)
  if entries.isEmpty then .error "ValueError"
  else
    match placeAll 0 entries with
    | .error x => .error x
    | .ok placed =>
      match frontChecks entries placed Ngiven with
      | .error x => .error x
      | .ok N =>
        match shortcutOf placed N with
        | some pl => .ok (shortcutResult pl N)
        | none =>
          -- pulses = multi_qubit_pulses + single_qubit_pulses
          let pulses := placed.filter (!·.single) ++ placed.filter (·.single)
          match collectTerms pulses with
          | .error x => .error x
          | .ok (cs, ns) =>
            -- for identifiers, kind in ((c_oper_identifiers, 'control'), (n_oper_identifiers, …)):
            --     if len(set(identifiers)) != len(identifiers): raise ValueError
            if hasDup (cs.map (·.id)) then .error "ValueError"
            else if hasDup (ns.map (·.id)) then .error "ValueError"
            else
            let first := pulses.head?.map (·.pulse)
            let nDt := (first.map (·.data.dt.length)).getD 0
            match addAdditional ns nDt additional with
            | .error x => .error x
            | .ok ns' =>
              .ok { cTerms := sortTerms cs, nTerms := sortTerms ns'
                    -- dt=pulses[0].dt ; newpulse.t = pulses[0]._t ; newpulse.tau = pulses[0]._tau
                    dt := (first.map (·.data.dt)).getD []
                    tCache := first.bind (·.tCache), tauCache := first.bind (·.tauCache)
                    N := N, shortcut := false }

/-- the properties `t`, `tau` of the result -/
def XPulse.t (p : XPulse) : List Int :=
  match p.tCache with
  | some t => t
  | none => 0 :: cumsum p.dt 0
def XPulse.tau (p : XPulse) : Except String Int :=
  match p.tCache with
  | some t => match t.getLast? with
    | some x => .ok x
    | none => .error "IndexError"
  | none => .ok p.dt.sum

/-! ### driver components

Encodings of `Model/Pulse` (`ints`, `ham`, `pulse`; identifiers without blank `:` `;` `,` `|` `/`
`>` `.` `+`), plus
* optional ints / int: `-` for `None`;
* dict: `old>new,old>new,…`, `_` for `{}`, `-` for `None`;
* nats: `q0+q1+…`, `_` for none.

Requests:
* `mapids <ids joined by ,> <dict>` → `ok <ids>/<sort_idx>` | `err ValueError`
* `remapdef <pulse> <tcache> <taucache> <dict>` → `ok <pulse> <tcache> <taucache> <t> <tau|IndexError>`
  | `err ValueError`   (operator ids in the answer are those of the INPUT operators: `tr = id`)
* `extenddef <N|-> <additional raw ham|-> <addDimOk 0|1> <entry>…`, an entry being 7 tokens
  `<pulse> <tcache> <taucache> <dimOk 0|1> <qubits> <form b|t|l> <dict>` →
  `ok <xham>/<xham>/<dt>/<tcache>/<taucache>/<N>/<shortcut 0|1>/<t>/<tau>` | `err <Class>`,
  xterm = `<tok>:<id>:<ints>`, tok = `m.<entry>.<op>.<order nats|->.<qubits nats>` | `a.<op>`
* `cacherows <sort_idx nats> <colPos nats> <nK> <B rows ;-separated ints>` →
  `ok <scattered rows>/<gathered rows>` (rows `;`-separated, `?` for an unwritten entry / row) -/

section Driver

def parseOptInts (s : String) : Option (Option (List Int)) :=
  if s == "-" then some none else (parseInts s).map some

def parseOptInt (s : String) : Option (Option Int) :=
  if s == "-" then some none else s.toInt?.map some

def parseDict (s : String) : Option (Option Dict) :=
  if s == "-" then some none
  else if s == "_" then some (some [])
  else ((s.splitOn ",").mapM fun (kv : String) =>
    match kv.splitOn ">" with
    | [a, b] => some (a, b)
    | _ => none).map some

def parseNats (s : String) : Option (List Nat) :=
  if s == "_" || s == "" then some [] else (s.splitOn "+").mapM (·.toNat?)

def showNats (l : List Nat) : String :=
  if l.isEmpty then "_" else "+".intercalate (l.map toString)

def showOptInts : Option (List Int) → String
  | none => "-"
  | some l => showInts l

def showOptInt : Option Int → String
  | none => "-"
  | some x => toString x

def showTau : Except String Int → String
  | .ok x => toString x
  | .error e => e

def parseBit (s : String) : Option Bool :=
  if s == "0" then some false else if s == "1" then some true else none

def showXOp : XOp → String
  | .mapped e o ord qs =>
    "m." ++ toString e ++ "." ++ toString o ++ "." ++
      (match ord with | none => "-" | some l => showNats l) ++ "." ++ showNats qs
  | .additional o => "a." ++ toString o

def showXTerm (t : XTerm) : String := showXOp t.op ++ ":" ++ t.id ++ ":" ++ showInts t.coeffs

def showXHam (l : List XTerm) : String :=
  if l.isEmpty then "_" else ";".intercalate (l.map showXTerm)

def showXPulse (p : XPulse) : String :=
  "/".intercalate [showXHam p.cTerms, showXHam p.nTerms, showInts p.dt, showOptInts p.tCache,
    showOptInt p.tauCache, toString p.N, if p.shortcut then "1" else "0", showInts p.t,
    showTau p.tau]

def parseEntries : List String → Option (List Entry)
  | [] => some []
  | p :: tc :: tauc :: dimOk :: qs :: form :: dict :: rest => do
    let e : Entry :=
      { pulse := { data := ← parsePulse p, tCache := ← parseOptInts tc, tauCache := ← parseOptInt tauc }
        dimOk := ← parseBit dimOk, qubits := ← parseNats qs, bare := form == "b",
        isTuple := form == "t", mapping := ← parseDict dict }
    let es ← parseEntries rest
    pure (e :: es)
  | _ => none

def showOptRow (r : Option (List (Option Int))) : String :=
  match r with
  | none => "?"
  | some l => if l.isEmpty then "_" else ",".intercalate (l.map fun
      | none => "?"
      | some x => toString x)

def handleRemapDef (toks : List String) : Option String :=
  match toks with
  | ["mapids", ids, dict] =>
    some <| (do
      let ids := if ids == "_" then [] else ids.splitOn ","
      let d ← parseDict dict
      pure (showExcept (fun ((r, s) : List String × List Nat) =>
        (if r.isEmpty then "_" else ",".intercalate r) ++ "/" ++ showNats s)
        (mapIdentifiers ids d))).getD "err bad-request"
  | ["remapdef", p, tc, tauc, dict] =>
    some <| (do
      let tp : TPulse :=
        { data := ← parsePulse p, tCache := ← parseOptInts tc, tauCache := ← parseOptInt tauc }
      let d ← parseDict dict
      pure (showExcept (fun (q : TPulse) => showPulse q.data ++ " " ++ showOptInts q.tCache ++ " " ++
        showOptInt q.tauCache ++ " " ++ showInts q.t ++ " " ++ showTau q.tau)
        (remapDef (fun o => o) d tp))).getD "err bad-request"
  | "extenddef" :: n :: add :: addDim :: rest =>
    some <| (do
      let N ← (if n == "-" then some none else n.toNat?.map some)
      let addDimOk ← parseBit addDim
      let additional : Option Additional ← (if add == "-" then some none
        else (parseRawHam add).map fun h => some ({ terms := h, dimOk := addDimOk } : Additional))
      let entries ← parseEntries rest
      pure (showExcept showXPulse (extendDef entries N additional))).getD "err bad-request"
  | ["cacherows", sortIdx, colPos, nK, rows] =>
    some <| (do
      let s ← parseNats sortIdx
      let c ← parseNats colPos
      let nK ← nK.toNat?
      let B ← (if rows == "_" then some [] else (rows.splitOn ";").mapM parseInts)
      let sc := scatter2 (argsortNat s) c B nK
      let ga := (gather B s).map fun row => scatter c row (List.replicate nK none)
      pure ("ok " ++ ";".intercalate (sc.map showOptRow) ++ "/" ++
        ";".intercalate (ga.map fun r => showOptRow (some r)))).getD "err bad-request"
  | _ => none

end Driver

end FFVerif.Model.RemapDef
