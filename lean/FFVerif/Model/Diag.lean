/-
Model of `numeric.diagonalize`, `PulseSequence.diagonalize`, `PulseSequence.t`, `PulseSequence.tau`
and `PulseSequence.propagator_at_arb_t` (Mathlib-free, executable at IEEE doubles, reasoned about
at ℝ/ℂ in `FFVerif.Props.C02`).

`nla.eigh` is an oracle: its output `eigvals : Mat R nG d`, `eigvecs : Vector (Mat K d d) nG` is
an input of the model; its contract (`C02.IsEigh`) is a hypothesis of the theorems that need it.
-/
import FFVerif.Core.Mat
import FFVerif.Gen.Einsum
import FFVerif.Model.Proto

namespace FFVerif.Model
open FFVerif

/-- `scan f a₀ n` = `[a₀, f 0 a₀, f 1 (f 0 a₀), …]` (`n+1` entries), data-backed: the shape of the
Python loop `out[0] = a₀; for i in range(n): out[i+1] = f(i, out[i])` and of `cumsum`. -/
def scan {α : Type} {N : Nat} (f : Fin N → α → α) (a0 : α) : (n : Nat) → n ≤ N → Vector α (n + 1)
  | 0, _ => #v[a0]
  | n + 1, h =>
    let Q := scan f a0 n (Nat.le_of_succ_le h)
    Q.push (f ⟨n, h⟩ Q[n])

section
variable {R K : Type}
  [Zero R] [One R] [Add R] [Mul R] [Neg R] [Sub R] [Div R] [RealOps R]
  [Zero K] [One K] [Add K] [Mul K] [Neg K] [Sub K] [Div K] [CplxOps R K]

/-- `PulseSequence.diagonalize`: `hamiltonian = np.einsum('ijk,il->ljk', c_opers, c_coeffs)`
(`c_opers` complex `(n_cops, d, d)`, `c_coeffs` real `(n_cops, n_dt)`, promoted to complex by
NumPy), shape `(n_dt, d, d)`. -/
def hamiltonian {nC nG d : Nat} (cOpers : Ten3 K nC d d) (cCoeffs : Mat R nC nG) : Ten3 K nG d d :=
  Gen.pulse_sequence_PulseSequence_diagonalize_0 cOpers
    (Vector.map (Vector.map CplxOps.ofReal) cCoeffs)

/-- middle operand `util.cexp(-np.asarray(dt)*eigvals.T)` of `numeric.diagonalize`, shape
`(d, n_dt)`: entry `[j][l] = exp(i·((-dt[l])·eigvals[l][j]))`. -/
def diagPhases {nG d : Nat} (eigvals : Mat R nG d) (dt : Vec R nG) : Mat K d nG :=
  Mat.ofFn fun j l => CplxOps.expI ((-dt[l]) * eigvals[l][j])

/-- the `piecewise` array of `numeric.diagonalize`:
`np.einsum('lij,jl,lkj->lik', eigvecs, util.cexp(-dt*eigvals.T), eigvecs.conj())`. -/
def piecewise {nG d : Nat} (eigvals : Mat R nG d) (eigvecs : Vector (Mat K d d) nG) (dt : Vec R nG) :
    Vector (Mat K d d) nG :=
  Gen.numeric_diagonalize_0 eigvecs (diagPhases eigvals dt)
    (Vector.map (Vector.map (Vector.map CplxOps.conj)) eigvecs)

/-- the loop `cumulative[0] = identity; cumulative[i+1] = piecewise[i] @ cumulative[i]` -/
def cumulative {nG d : Nat} (P : Vector (Mat K d d) nG) : Vector (Mat K d d) (nG + 1) :=
  scan (fun g Q => Mat.mul P[g] Q) Mat.one nG (Nat.le_refl _)

/-- third return value of `numeric.diagonalize` (the cumulative propagators `Q_0 … Q_{n_dt}`) -/
def propagators {nG d : Nat} (eigvals : Mat R nG d) (eigvecs : Vector (Mat K d d) nG)
    (dt : Vec R nG) : Vector (Mat K d d) (nG + 1) :=
  cumulative (piecewise eigvals eigvecs dt)

/-- `PulseSequence.diagonalize`: `self.total_propagator = self.propagators[-1]` -/
def totalPropagator {nG d : Nat} (eigvals : Mat R nG d) (eigvecs : Vector (Mat K d d) nG)
    (dt : Vec R nG) : Mat K d d :=
  (propagators eigvals eigvecs dt)[nG]

/-- `PulseSequence.t` = `np.concatenate(([0], dt.cumsum()))`.  (Modelled as `t[0] = 0`,
`t[g+1] = t[g] + dt[g]`; `cumsum` starts with `dt[0]` instead of `0 + dt[0]`, which is the same
IEEE double except for the sign of zero when `dt[0] = -0.0`.) -/
def times {nG : Nat} (dt : Vec R nG) : Vec R (nG + 1) :=
  scan (fun g t => t + dt[g]) 0 nG (Nat.le_refl _)

/-- `PulseSequence.tau` when `_t` is populated: `self.t[-1]`. -/
def tau {nG : Nat} (dt : Vec R nG) : R := (times dt)[nG]

/-- `PulseSequence.tau` when `_t` is `None`: `self.dt.sum()` (over ℝ equal to `tau`,
`C02.tau_eq_sum`; at doubles NumPy's `sum` adds pairwise for long arrays, `cumsum` sequentially,
so the two branches of the property can differ in the last bits). -/
def tauSum {nG : Nat} (dt : Vec R nG) : R := fsum nG fun g => dt[g]

/-- number of the first `k` entries of `t` that are strictly less than `x` -/
def countLt {n : Nat} (t : Vec R n) (x : R) : (k : Nat) → k ≤ n → Nat
  | 0, _ => 0
  | k + 1, h => countLt t x k (Nat.le_of_succ_le h) + (if RealOps.lt t[k] x then 1 else 0)

/-- `np.searchsorted(t, x)` (default `side='left'`) for a *sorted* `t`: the number of entries
strictly less than `x`.  (For an unsorted `t` NumPy's binary search returns something else; `t` is
sorted when all `dt ≥ 0`, `C02.times_mono`.) -/
def searchsortedLeft {n : Nat} (t : Vec R n) (x : R) : Nat := countLt t x n (Nat.le_refl _)

/-- `idx = np.searchsorted(self.t, t) - 1; idx[idx < 0] = 0` for one query time (truncated
subtraction on `Nat` is exactly the clamping of `-1` to `0`). -/
def arbIdx {nG : Nat} (dt : Vec R nG) (x : R) : Nat := searchsortedLeft (times dt) x - 1

/-- middle operand `util.cexp((self.t[idx] - t)*self.eigvals[idx].T)` for one query time: shape
`(d, 1)`, entry `[j][0] = exp(i·(t[idx] - x)·eigvals[idx][j])` -/
def arbPhases {d : Nat} (ev : Vec R d) (tIdx x : R) : Mat K d 1 :=
  Mat.ofFn fun j _ => CplxOps.expI ((tIdx - x) * ev[j])

/-- `U_curr` of `propagator_at_arb_t` for one query time -/
def arbUcurr {d : Nat} (ev : Vec R d) (V : Mat K d d) (tIdx x : R) : Mat K d d :=
  (Gen.pulse_sequence_PulseSequence_propagator_at_arb_t_0 (#v[V] : Vector (Mat K d d) 1)
    (arbPhases ev tIdx x)
    (Vector.map (Vector.map (Vector.map CplxOps.conj)) (#v[V] : Vector (Mat K d d) 1)))[0]

/-- `PulseSequence.propagator_at_arb_t(t)` for ONE query time `x` (the Python evaluates the same
expression independently for every entry of the array `t`).  `none` models the `IndexError` that
`self.eigvecs[idx]` raises when `idx = n_dt`, i.e. when `x` is larger than the last edge `t[-1]`
(`self.propagators[idx]` would still be defined there). -/
def propagatorAtArbT {nG d : Nat} (eigvals : Mat R nG d) (eigvecs : Vector (Mat K d d) nG)
    (dt : Vec R nG) (x : R) : Option (Mat K d d) :=
  let idx := arbIdx dt x
  if h : idx < nG then
    let Qprev := (propagators eigvals eigvecs dt)[idx]
    let Ucurr := arbUcurr eigvals[idx] eigvecs[idx] (times dt)[idx] x
    some (Mat.mul Ucurr Qprev)
  else none

end

open FFVerif.Proto in
/-- driver component.
`diag nG d eigvals(nG*d) eigvecs(nG*d*d complex) dt(nG)` → `ok <propagators, (nG+1)*d*d complex>`;
`arbt nG d eigvals eigvecs dt x` → `ok <idx> <U(x), d*d complex>` or `err index` (Python:
`IndexError`, `x` beyond the last edge);
`times nG dt` → `ok <t (nG+1 reals), then tau = t[-1], then dt.sum() (sequential)>`;
`ham nC nG d c_opers(nC*d*d complex) c_coeffs(nC*nG reals)` → `ok <hamiltonian, nG*d*d complex>`. -/
def handleDiag (toks : List String) : Option String :=
  match toks with
  | ["diag", nG, d, eigvals, eigvecs, dt] =>
    let nG := nG.toNat!; let d := d.toNat!
    let r : Vector (Mat CF d d) (nG + 1) := propagators (matR (parseFloats eigvals) 0 nG d)
      (ten3C (parseFloats eigvecs) 0 nG d d) (vecR (parseFloats dt) 0 nG)
    some ("ok " ++ showFloats (flatC3 r))
  | ["arbt", nG, d, eigvals, eigvecs, dt, x] =>
    let nG := nG.toNat!; let d := d.toNat!
    let dtv : Vec Float nG := vecR (parseFloats dt) 0 nG
    let x := f0 x
    match propagatorAtArbT (K := CF) (matR (parseFloats eigvals) 0 nG d)
      (ten3C (parseFloats eigvecs) 0 nG d d) dtv x with
    | some r => some ("ok " ++ toString (arbIdx dtv x) ++ " " ++ showFloats (flatC2 r))
    | none => some "err index"
  | ["times", nG, dt] =>
    let nG := nG.toNat!
    let dtv : Vec Float nG := vecR (parseFloats dt) 0 nG
    some ("ok " ++ showFloats (((times dtv).toArray.push (tau dtv)).push (tauSum dtv)))
  | ["ham", nC, nG, d, cOpers, cCoeffs] =>
    let nC := nC.toNat!; let nG := nG.toNat!; let d := d.toNat!
    let r : Ten3 CF nG d d := hamiltonian (ten3C (parseFloats cOpers) 0 nC d d)
      (matR (parseFloats cCoeffs) 0 nC nG)
    some ("ok " ++ showFloats (flatC3 r))
  | _ => none

end FFVerif.Model
