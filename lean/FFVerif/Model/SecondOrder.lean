/-
Model of `numeric._second_order_integral` and of the assembly loop of
`numeric.calculate_second_order_filter_function` (Mathlib-free, executable at IEEE doubles,
reasoned about at ℝ/ℂ in `FFVerif/Props/C10.lean`).

The model was written for exactly the statements pinned in `Gen.secondOrderMasks` and
`Gen.secondOrderBody` (see `C10.secondOrder_source_shape`).

Index conventions of the Python (broadcasting checked against the source):
  `dE[i,j]      = eigvals[i] - eigvals[j]`
  `dEdE[i,j,m,n] = dE[i,j] + dE[m,n]`
  `EdE[o,m,n]   = E[o] + dE[m,n]`          used as `EdE[:, None, None]`     → `[o,·,·,m,n]`
  `dEE[o,i,j]   = (-E[o]) - (-dE[i,j])`     used as `dEE[..., None, None]`   → `[o,i,j,·,·]`
  `frc_buf1[o,i,j]` broadcast as `[o,i,j,·,·]`, `frc_buf2[i,j,m,n]` broadcast as `[·,i,j,m,n]`.
So `int_buf[o,i,j,m,n]` depends on `E[o]`, `Oij = dE[i,j]`, `Omn = dE[m,n]`, `dt` only.
-/
import FFVerif.Core.Mat
import FFVerif.Gen.Einsum
import FFVerif.Gen.Constants
import FFVerif.Model.Proto
import FFVerif.Model.Numeric

namespace FFVerif.Model
open FFVerif

section
variable {R K : Type}
  [Zero R] [One R] [Add R] [Mul R] [Neg R] [Sub R] [Div R] [OfNat R 2] [RealOps R]
  [Zero K] [One K] [Add K] [Mul K] [Neg K] [Sub K] [Div K] [CplxOps R K]

/-- `np.not_equal(x, 0)` on a real: exact comparison with zero. -/
def neZero (x : R) : Bool := RealOps.lt 0 (RealOps.abs x)

/-- `np.divide(z, x)` for complex `z` and a *real* array `x` (the three divisions of
`_second_order_integral` all divide a complex buffer by a float buffer).  NumPy promotes `x` to
`x + 0j` and its complex division loop (Smith's algorithm, branch `|x.re| ≥ |x.im|`) evaluates
`(z.re * s, z.im * s)` with `s = 1/x`; this is reproduced here (`z * ofReal (1/x)` is, at `CF`,
exactly `(z.re * s, z.im * s)` for finite values).  At ℝ/ℂ this is `z / x`. -/
def divReal (z : K) (x : R) : K := z * CplxOps.ofReal (1 / x)

/-- complex number from real and imaginary part (assignment to `.real` / `.imag`) -/
def mkC (a b : R) : K := CplxOps.ofReal a + CplxOps.I * CplxOps.ofReal b

/-- ONE entry `int_buf[o][i][j][m][n]` of `numeric._second_order_integral` as a function of
`E = ω_o`, `Oij = λ_i - λ_j`, `Omn = λ_m - λ_n` and `dt`, following the statements of the Python
in their order.

* `expm1`  = `exp_buf` after `cexp(dEE*dt)` and `subtract(exp_buf, 1)`     (where `dEE ≠ 0`)
* `frc1`   = `frc_buf1` after `divide(exp_buf, dEE)` / `frc_buf1[~mask_dEE] = 1j*dt`
* `frc2`   = `frc_buf2` after `cexp`, `subtract 1`, `divide dEdE` / `frc_buf2[~mask_dEdE] = 1j*dt`
* where `EdE ≠ 0`: `int_buf = (frc1 - frc2) / EdE`.
* then, where `dEE ≠ 0`, IN PLACE: `exp_buf = (exp_buf + 1) * dt`  (`= dt·e^{i dEE dt}` up to
  rounding: the `-1` of before is undone), `frc_buf1.real += exp_buf.imag`,
  `frc_buf1.imag -= exp_buf.real`, `frc_buf1 /= dEE`.  Since
  `(a + dt·sin) + i (b - dt·cos) = (a + i b) - i·dt·(cos + i sin)`, the buffer now holds

      `frc1' = ( (e^{i dEE dt} - 1)/dEE  -  i·dt·e^{i dEE dt} ) / dEE`

  which is the closed form of `∫₀^dt t e^{i dEE t} dt` (second case of the docstring).  This is
  written to the entries with `EdE = 0 ∧ dEE ≠ 0`.
* entries with `EdE = 0 ∧ dEE = 0` get `dt**2 / 2`.
The three cases are exhaustive and mutually exclusive, and the case-1 write happens before
`frc_buf1` is overwritten, so the order of in-place updates does not leak between cases. -/
def secondOrderEntry (E Oij Omn dt : R) : K :=
  let EdE : R := E + Omn
  let dEE : R := (-E) - (-Oij)
  let dEdE : R := Oij + Omn
  let expm1 : K := CplxOps.expI (dEE * dt) - 1
  let frc1 : K := if neZero dEE then divReal expm1 dEE else CplxOps.I * CplxOps.ofReal dt
  let frc2 : K :=
    if neZero dEdE then divReal (CplxOps.expI (dEdE * dt) - 1) dEdE
    else CplxOps.I * CplxOps.ofReal dt
  if neZero EdE then divReal (frc1 - frc2) EdE
  else if neZero dEE then
    let eb : K := (expm1 + 1) * CplxOps.ofReal dt
    let f : K := mkC (CplxOps.re frc1 + CplxOps.im eb) (CplxOps.im frc1 - CplxOps.re eb)
    divReal f dEE
  else CplxOps.ofReal (dt * dt / 2)

/-- `numeric._second_order_integral(E, eigvals, dt, …)` : shape `(n_omega, d, d, d, d)` -/
def secondOrderIntegral {nO d : Nat} (E : Vec R nO) (ev : Vec R d) (dt : R) :
    Vector (Ten4 K d d d d) nO :=
  Vector.ofFn fun o => Vector.ofFn fun i => Vector.ofFn fun j => Vector.ofFn fun m =>
    Vector.ofFn fun n => secondOrderEntry E[o] (ev[i] - ev[j]) (ev[m] - ev[n]) dt

/-- five-index tensor `[a][b][k][l][o]` -/
abbrev Ten5 (K : Type) (a b c d e : Nat) := Vector (Ten4 K b c d e) a

/-- One loop iteration, "last interval" term:
`n_opers_basis = einsum('akl,ilk->aikl', n_opers_transformed[:, g], basis_transformed)` and
`step_buf = contract('oijmn,akij,blmn->abklo', int_buf, n_opers_basis, n_opers_basis)`. -/
def secondOrderStep {d nO nA nK : Nat} (int2 : Vector (Ten4 K d d d d) nO) (nT : Ten3 K nA d d)
    (bT : Ten3 K nK d d) : Ten5 K nA nA nK nK nO :=
  let nob : Ten4 K nA nK d d := Gen.numeric_calculate_second_order_filter_function_1 nT bT
  Gen.numeric_calculate_second_order_filter_function_0 int2 nob nob

/-- `ctrlmat_step_cumulative` as seen by iteration `g`: it is updated at the END of each
iteration (`ctrlmat_step_cumulative += ctrlmat_step` for `g < G-1`), so at iteration `g` it is
`((0 + cm[0]) + cm[1]) + … + cm[g-1]` (the left fold of `fsum`). -/
def ctrlmatCumulative {nG nO nA nK : Nat} (cm : Vector (Ten3 K nA nK nO) nG) (g : Fin nG) :
    Ten3 K nA nK nO :=
  Vector.ofFn fun b => Vector.ofFn fun l => Vector.ofFn fun o =>
    fsum g.1 fun g' => (cm[g'.1]'(Nat.lt_trans g'.2 g.2))[b][l][o]

/-- One loop iteration, "all intervals up to last" term:
`einsum('ako,blo->abklo', ctrlmat_step.conj(), ctrlmat_step_cumulative)`. -/
def secondOrderCross {nG nO nA nK : Nat} (cm : Vector (Ten3 K nA nK nO) nG) (g : Fin nG) :
    Ten5 K nA nA nK nK nO :=
  Gen.numeric_calculate_second_order_filter_function_2
    (Vector.map (Vector.map (Vector.map CplxOps.conj)) cm[g]) (ctrlmatCumulative cm g)

/-- The loop of `numeric.calculate_second_order_filter_function`, given per segment `g`
* `ints[g]`  = `_second_order_integral(omega, eigvals[g], dt[g], …)`,
* `nT[g]`    = `n_opers_transformed[:, g]`            (shape `(n_nops, d, d)`),
* `bT[g]`    = `basis_transformed` of segment `g`     (shape `(n_basis, d, d)`),
* `cm[g]`    = `ctrlmat_step` of segment `g`          (shape `(n_nops, n_basis, n_omega)`)
(these are produced by `_transform_hamiltonian`, `_transform_by_unitary` and
`calculate_control_matrix_from_scratch` resp. taken from the cache, and are inputs here).

Per iteration: `result += step` (`secondOrderStep`); if `g > 0`: `result += cross`
(`secondOrderCross`).  The accumulation order of `result` is kept:
`(((0 + step₀) + step₁) + cross₁) + step₂ + cross₂ …`. -/
def secondOrderFF {nG d nO nA nK : Nat}
    (ints : Vector (Vector (Ten4 K d d d d) nO) nG) (nT : Vector (Ten3 K nA d d) nG)
    (bT : Vector (Ten3 K nK d d) nG) (cm : Vector (Ten3 K nA nK nO) nG) :
    Ten5 K nA nA nK nK nO :=
  let steps : Vector (Ten5 K nA nA nK nK nO) nG := Vector.ofFn fun g =>
    secondOrderStep ints[g] nT[g] bT[g]
  let cross : Vector (Ten5 K nA nA nK nK nO) nG := Vector.ofFn fun g => secondOrderCross cm g
  Vector.ofFn fun a => Vector.ofFn fun b => Vector.ofFn fun k => Vector.ofFn fun l =>
    Vector.ofFn fun o =>
      Fin.foldl nG (fun acc g =>
        let acc1 := acc + steps[g][a][b][k][l][o]
        if 0 < g.1 then acc1 + cross[g][a][b][k][l][o] else acc1) 0

/-- `numeric.calculate_second_order_filter_function(eigvals, eigvecs, propagators, omega, basis,
n_opers, n_coeffs, dt, intermediates=None)` — the path WITHOUT cached intermediates:
`n_opers_transformed = _transform_hamiltonian(eigvecs, n_opers, n_coeffs)`,
`eigvecs_propagated = _propagate_eigenvectors(propagators[:-1], eigvecs)`, and per segment
`basis_transformed = _transform_by_unitary(eigvecs_propagated[g], basis)`,
`ctrlmat_step = calculate_control_matrix_from_scratch(eigvals[g:g+1], eigvecs[g:g+1],
propagators[g:g+2], omega, basis, n_opers, n_coeffs[:, g:g+1], dt[g:g+1], t=t[g:g+1])`
(a literal one-segment call of the control-matrix model), then the loop `secondOrderFF`.
`props[g] = propagators[g]` (`= Q_{g-1}`), `t[g]` = start time of segment `g`; `kind`/`thr` is
the guard of `_first_order_integral`. -/
def secondOrderFFFromScratch {nG d nO nA nK : Nat} (kind : MaskKind) (thr : R)
    (eigvals : Mat R nG d) (eigvecs : Vector (Mat K d d) nG) (props : Vector (Mat K d d) nG)
    (omega : Vec R nO) (basis : Vector (Mat K d d) nK) (nOpers : Vector (Mat K d d) nA)
    (nCoeffs : Mat R nA nG) (dt : Vec R nG) (t : Vec R nG) : Ten5 K nA nA nK nK nO :=
  let evp : Vector (Mat K d d) nG := Vector.ofFn fun g => Mat.mul (Mat.adjoint props[g]) eigvecs[g]
  let nT : Vector (Ten3 K nA d d) nG := Vector.ofFn fun g => Vector.ofFn fun a =>
    Mat.smul (CplxOps.ofReal nCoeffs[a][g]) (transformByUnitary eigvecs[g] nOpers[a])
  let bT : Vector (Ten3 K nK d d) nG := Vector.ofFn fun g => Vector.ofFn fun k =>
    transformByUnitary evp[g] basis[k]
  let cm : Vector (Ten3 K nA nK nO) nG := Vector.ofFn fun g =>
    controlMatrixFromScratch kind thr #v[eigvals[g]] #v[eigvecs[g]] #v[props[g]] omega basis
      nOpers (Vector.ofFn fun a => #v[nCoeffs[a][g]]) #v[dt[g]] #v[t[g]]
  let ints : Vector (Vector (Ten4 K d d d d) nO) nG := Vector.ofFn fun g =>
    secondOrderIntegral omega eigvals[g] dt[g]
  secondOrderFF ints nT bT cm

end

open FFVerif.Proto in
/-- four-index complex tensor from flat row-major data -/
def ten4C (a : Array Float) (off q p m n : Nat) : Ten4 CF q p m n :=
  Vector.ofFn fun i => ten3C a (off + i.1 * p * m * n) p m n

open FFVerif.Proto in
/-- driver component.
* `soi <nO> <d> <dt> <E> <ev>` : `dt` one real, `E` `nO` reals, `ev` `d` reals →
  `ok <int_buf>` flattened `(nO,d,d,d,d)` complex, interleaved re,im.
* `soff <nG> <d> <nO> <nA> <nK> <dt> <omega> <eigvals> <nT> <bT> <cm>` : `dt` `nG` reals, `omega`
  `nO` reals, `eigvals` `(nG,d)` reals, `nT` `(nG,nA,d,d)` complex (= `n_opers_transformed`
  with the segment axis FIRST), `bT` `(nG,nK,d,d)` complex, `cm` `(nG,nA,nK,nO)` complex →
  `ok <result>` flattened `(nA,nA,nK,nK,nO)` complex.
* `sofs <kind> <thr> <nG> <d> <nO> <nA> <nK> <eigvals> <eigvecs> <props> <omega> <basis> <nopers>
  <ncoeffs> <dt> <t>` : same fields as the `cm` request of the driver (`props` =
  `propagators[:-1]`, `t` = segment start times) → `ok <result>` of the no-intermediates path,
  flattened `(nA,nA,nK,nK,nO)` complex.
Arrays are comma separated UInt64 bit patterns of doubles as everywhere in the protocol. -/
def handleSecondOrder (toks : List String) : Option String :=
  match toks with
  | ["soi", nO, d, dt, E, ev] =>
    let nO := nO.toNat!; let d := d.toNat!
    let r : Vector (Ten4 CF d d d d) nO :=
      secondOrderIntegral (vecR (parseFloats E) 0 nO) (vecR (parseFloats ev) 0 d) (f0 dt)
    some ("ok " ++ showFloats (flatC5 r))
  | ["soff", nG, d, nO, nA, nK, dt, omega, eigvals, nT, bT, cm] =>
    let nG := nG.toNat!; let d := d.toNat!; let nO := nO.toNat!; let nA := nA.toNat!
    let nK := nK.toNat!
    let dtv : Vec Float nG := vecR (parseFloats dt) 0 nG
    let om : Vec Float nO := vecR (parseFloats omega) 0 nO
    let evs : Mat Float nG d := matR (parseFloats eigvals) 0 nG d
    let ints : Vector (Vector (Ten4 CF d d d d) nO) nG := Vector.ofFn fun g =>
      secondOrderIntegral om evs[g] dtv[g]
    let r : Ten5 CF nA nA nK nK nO := secondOrderFF ints (ten4C (parseFloats nT) 0 nG nA d d)
      (ten4C (parseFloats bT) 0 nG nK d d) (ten4C (parseFloats cm) 0 nG nA nK nO)
    some ("ok " ++ showFloats (flatC5 r))
  | ["sofs", kind, thr, nG, d, nO, nA, nK, eigvals, eigvecs, props, omega, basis, nopers, ncoeffs,
      dt, t] =>
    let nG := nG.toNat!; let d := d.toNat!; let nO := nO.toNat!; let nA := nA.toNat!
    let nK := nK.toNat!
    let r : Ten5 CF nA nA nK nK nO := secondOrderFFFromScratch (maskKindOf kind) (f0 thr)
      (matR (parseFloats eigvals) 0 nG d) (ten3C (parseFloats eigvecs) 0 nG d d)
      (ten3C (parseFloats props) 0 nG d d) (vecR (parseFloats omega) 0 nO)
      (ten3C (parseFloats basis) 0 nK d d) (ten3C (parseFloats nopers) 0 nA d d)
      (matR (parseFloats ncoeffs) 0 nA nG) (vecR (parseFloats dt) 0 nG) (vecR (parseFloats t) 0 nG)
    some ("ok " ++ showFloats (flatC5 r))
  | _ => none

end FFVerif.Model
