/-
Model of the ARRAY ASSEMBLY of the control-matrix derivative of `filter_functions/gradient.py`:
`_liouville_derivative`, `_control_matrix_at_timestep_derivative` and
`calculate_derivative_of_control_matrix_from_scratch` (the integral kernels `_derivative_integral`,
`A_mat` are in `Model/Gradient.lean`).  Mathlib-free, executable at IEEE doubles (driver component
`cmderiv`), reasoned about at ℝ/ℂ in `Props/C11Asm.lean`.

## `_control_matrix_at_timestep_derivative` — what the index juggling computes

Write `B = n_opers_transformed[a]` (`= s_a V† B_a V`, the sensitivity is INSIDE), `C =
c_opers_transformed[h]` (`= V† C_h V`), `DI = deriv_integral` (`DI[o,p,q,m,n]`, see the header of
`Model/Gradient.lean`), `d2 = d*d`.  Row-major pairs `(i,k) = i*d + k`.

    K = util.tensor(B[:, None], C[None])            K[a,h][(i,k),(j,l)] = B[i,j]·C[k,l]
    L = util.tensor_transpose(K, (1,0), [[d,d],[d,d]])
                                                    L[a,h][(i,k),(j,l)] = K[a,h][(k,i),(l,j)]
    K.reshape(…, d,d,d,d)[i,k,j,l] = K[(i,k),(j,l)]
    k = np.diagonal(K6, 0, -2, -3)                  k[a,h,i,l,x] = K6[i,x,x,l] = B[i,x]·C[x,l]
    l = np.diagonal(L6, 0, -2, -3)                  l[a,h,i,l,x] = L6[i,x,x,l] = C[i,x]·B[x,l]
    i1 = np.diagonal(DI, 0, -2, -3)                 i1[o,p,n,x] = DI[o,p,x,x,n]
    i2 = np.diagonal(DI, 0, -1, -4)                 i2[o,q,m,x] = DI[o,x,q,m,x]

(`np.diagonal` removes the two axes and appends the diagonal as the LAST axis.)  An `order='F'`
reshape that keeps the leading axes acts on the trailing ones only, first index fastest:

    x.reshape(…, d2, d, order='F')[P, m] = x[P % d, P // d, m]          (x of shape (…, d, d, d))
    y.reshape(…, d, d, order='F')[u, v]  = y[u + d·v]                    (y of shape (…, d2))

Hence, with `R1 = einsum('ahpm,opm->ahop', lF, i1F)`, `R2 = einsum('ahpn,opn->ahop', ksF, i2F)`
(`ks = k.swapaxes(-2,-3)`):

    M[a,h,o,u,v] = R1[a,h,o,u + d·v] - R2[a,h,o,v + d·u]       (the `.swapaxes(-1,-2)` on R2)
                 = Σ_m C[u,m]·B[m,v]·DI[o,u,m,m,v]  -  Σ_n B[u,n]·C[n,v]·DI[o,n,v,u,n]

(`Props/C11Asm.ctrlmatStepM_entry`).  Every intermediate was compared numerically with NumPy
(`corr_c11asm.py` compares the end result).
-/
import FFVerif.Core.Mat
import FFVerif.Core.Mask
import FFVerif.Gen.Einsum
import FFVerif.Gen.Constants
import FFVerif.Model.Proto
import FFVerif.Model.Numeric
import FFVerif.Model.Superop
import FFVerif.Model.Basis
import FFVerif.Model.Gradient

namespace FFVerif.Model
open FFVerif

section
variable {R K : Type}
  [Zero R] [One R] [Add R] [Mul R] [Neg R] [Sub R] [Div R] [NatCast R] [RealOps R]
  [Zero K] [One K] [Add K] [Mul K] [Neg K] [Sub K] [Div K] [CplxOps R K]

/-! ### `_control_matrix_at_timestep_derivative` -/

/-- `util.tensor_transpose(K, (1, 0), [[d, d], [d, d]])` for ONE `(d², d²)` matrix: the two tensor
factors are exchanged, `L[(i,k),(j,l)] = K[(k,i),(l,j)]` (a permutation of the DATA of `K`). -/
def kronSwap {d : Nat} (Km : Mat K (d * d) (d * d)) : Mat K (d * d) (d * d) :=
  Mat.ofFn fun r c => Km[Fin.flat (Fin.lo r) (Fin.hi r)][Fin.flat (Fin.lo c) (Fin.hi c)]

/-- `np.diagonal(K.reshape(d, d, d, d), 0, -2, -3)` for one `(d², d²)` matrix: result `[i][l][x] =
K6[i, x, x, l] = K[(i,x)][(x,l)]` (the diagonal becomes the last axis). -/
def kronDiag {d : Nat} (Km : Mat K (d * d) (d * d)) : Ten3 K d d d :=
  Vector.ofFn fun i => Vector.ofFn fun l => Vector.ofFn fun x => Km[Fin.flat i x][Fin.flat x l]

/-- `i1 = np.diagonal(deriv_integral, 0, -2, -3)` for one frequency: `[p][n][x] = DI[p][x][x][n]` -/
def derivIntDiag1 {d : Nat} (DI : Ten4 K d d d d) : Ten3 K d d d :=
  Vector.ofFn fun p => Vector.ofFn fun n => Vector.ofFn fun x => DI[p][x][x][n]

/-- `i2 = np.diagonal(deriv_integral, 0, -1, -4)` for one frequency: `[q][m][x] = DI[x][q][m][x]` -/
def derivIntDiag2 {d : Nat} (DI : Ten4 K d d d d) : Ten3 K d d d :=
  Vector.ofFn fun q => Vector.ofFn fun m => Vector.ofFn fun x => DI[x][q][m][x]

/-- `x.swapaxes(-2, -3)` of a `(d, d, d)` block -/
def swapAxes23 {d : Nat} (x : Ten3 K d d d) : Ten3 K d d d :=
  Vector.ofFn fun i => Vector.ofFn fun j => Vector.ofFn fun m => x[j][i][m]

/-- `x.reshape(…, d2, d, order='F')` on the trailing `(d, d, d)` block (leading axes are kept):
`[P][m] = x[P % d][P // d][m]`. -/
def reshapeF21 {d : Nat} (x : Ten3 K d d d) : Mat K (d * d) d :=
  Mat.ofFn fun P m => x[Fin.lo P][Fin.hi P][m]

/-- `y.reshape(…, d, d, order='F')` on the trailing `d2` axis: `[u][v] = y[u + d·v]`. -/
def reshapeF12 {d : Nat} (y : Vec K (d * d)) : Mat K d d :=
  Mat.ofFn fun u v => y[Fin.flat v u]

/-- The array `M` of `_control_matrix_at_timestep_derivative`, shape `(n_nops, n_ctrl, n_omega, d,
d)`, statement by statement (`K`, `L`, `k`, `l`, `i1`, `i2`, the two F-order reshaped einsums —
the generated contractions `'ahpm,opm->ahop'`, `'ahpn,opn->ahop'` — and the final `swapaxes`).
`Bt = n_opers_transformed` (sensitivities included), `Ct = c_opers_transformed`,
`DI = deriv_integral`. -/
def ctrlmatStepM {nA nH nO d : Nat} (Bt : Vector (Mat K d d) nA) (Ct : Vector (Mat K d d) nH)
    (DI : Vector (Ten4 K d d d d) nO) : Vector (Vector (Vector (Mat K d d) nO) nH) nA :=
  let Kk : Vector (Vector (Mat K (d * d) (d * d)) nH) nA :=
    Vector.ofFn fun a => Vector.ofFn fun h => kronMat Bt[a] Ct[h]
  let Ll : Vector (Vector (Mat K (d * d) (d * d)) nH) nA := Kk.map (Vector.map kronSwap)
  let k : Vector (Vector (Ten3 K d d d) nH) nA := Kk.map (Vector.map kronDiag)
  let l : Vector (Vector (Ten3 K d d d) nH) nA := Ll.map (Vector.map kronDiag)
  let i1 : Vector (Ten3 K d d d) nO := DI.map derivIntDiag1
  let i2 : Vector (Ten3 K d d d) nO := DI.map derivIntDiag2
  let R1 : Vector (Vector (Vector (Vec K (d * d)) nO) nH) nA :=
    Gen.gradient__control_matrix_at_timestep_derivative_0
      (l.map (Vector.map reshapeF21)) (i1.map reshapeF21)
  let R2 : Vector (Vector (Vector (Vec K (d * d)) nO) nH) nA :=
    Gen.gradient__control_matrix_at_timestep_derivative_1
      (k.map (Vector.map fun x => reshapeF21 (swapAxes23 x))) (i2.map reshapeF21)
  Vector.ofFn fun a => Vector.ofFn fun h => Vector.ofFn fun o =>
    let M1 : Mat K d d := reshapeF12 R1[a][h][o]
    let M2 : Mat K d d := Mat.transpose (reshapeF12 R2[a][h][o])
    Mat.ofFn fun u v => M1[u][v] - M2[u][v]

/-- `ctrlmat_step = ctrlmat_expr(phase_factor, basis_transformed, n_opers_transformed, integral)`
with `ctrlmat_expr = 'o,icd,adc,odc->aio'`, shape `(n_nops, d², n_omega)`. -/
def ctrlmatStep {nA nK nO d : Nat} (ph : Vec K nO) (bT : Vector (Mat K d d) nK)
    (Bt : Vector (Mat K d d) nA) (I1 : Ten3 K nO d d) : Ten3 K nA nK nO :=
  Gen.gradient_calculate_derivative_of_control_matrix_from_scratch_0 ph bT Bt I1

/-- `ctrlmat_step_deriv`, shape `(n_nops, d², n_ctrl, n_omega)`:
`oe.contract('o,jnk,ahokn->ajho', phase_factor, 1j*basis_transformed, M)` and, if
`n_coeffs_deriv` is given (`ncd = some ·`, shape `(n_nops, n_ctrl)` for this time step),
`+= (n_coeffs_deriv / n_coeffs[:, None])[:, None, :, None] * ctrlmat_step[:, :, None]`. -/
def ctrlmatStepDeriv {nA nH nK nO d : Nat} (ph : Vec K nO) (bT : Vector (Mat K d d) nK)
    (M : Vector (Vector (Vector (Mat K d d) nO) nH) nA) (nc : Vec R nA)
    (ncd : Option (Mat R nA nH)) (cstep : Ten3 K nA nK nO) :
    Vector (Vector (Vector (Vec K nO) nH) nK) nA :=
  let ibT : Vector (Mat K d d) nK := bT.map (Mat.smul CplxOps.I)
  let r : Vector (Vector (Vector (Vec K nO) nH) nK) nA :=
    Gen.gradient__control_matrix_at_timestep_derivative_2 ph ibT M
  match ncd with
  | none => r
  | some ds =>
    Vector.ofFn fun a => Vector.ofFn fun j => Vector.ofFn fun h => Vector.ofFn fun o =>
      r[a][j][h][o] + sensitivityTerm ds[a][h] nc[a] cstep[a][j][o]

/-! ### `_liouville_derivative` -/

/-- the zero matrix (`np.zeros`) -/
def zeroMat {m n : Nat} : Mat K m n := Mat.ofFn fun _ _ => 0

/-- entrywise product `A * B` of two arrays -/
def hadamardMat {m n : Nat} (A B : Mat K m n) : Mat K m n := Mat.ofFn fun i j => A[i][j] * B[i][j]

/-- `U_deriv[h][g]` of `_liouville_derivative`, shape `(n_ctrl, n_dt, d, d)`:
`-1j * (propagators[1:] @ propagators[:-1]† @ eigvecs @ (A_mat * c_opers_transformed) @ eigvecs†)`
(matrix products from left to right).  `cT[g][h] = c_opers_transformed[g, h]`. -/
def liouvilleUDeriv {nG nH d : Nat} (thrA : R) (dt : Vec R nG)
    (props : Vector (Mat K d d) (nG + 1)) (eigvecs : Vector (Mat K d d) nG) (eigvals : Mat R nG d)
    (cT : Vector (Vector (Mat K d d) nH) nG) : Vector (Vector (Mat K d d) nG) nH :=
  Vector.ofFn fun h => Vector.ofFn fun g =>
    let P1 : Mat K d d := props[g.1 + 1]'(by omega)
    let P0 : Mat K d d := props[g.1]'(by omega)
    let A : Mat K d d := liouvilleAMat thrA eigvals[g] dt[g]
    Mat.smul (-CplxOps.I)
      (Mat.mul (Mat.mul (Mat.mul (Mat.mul P1 (Mat.adjoint P0)) eigvecs[g])
        (hadamardMat A cT[g][h])) (Mat.adjoint eigvecs[g]))

/-- `U_deriv_transformed[h][g] = propagators[g+1]† @ U_deriv[h][g] @ propagators[g]`,
`g < n_dt - 1` -/
def liouvilleUDerivTransformed {nG nH d : Nat} (props : Vector (Mat K d d) (nG + 1))
    (Ud : Vector (Vector (Mat K d d) nG) nH) : Vector (Vector (Mat K d d) (nG - 1)) nH :=
  Vector.ofFn fun h => Vector.ofFn fun g =>
    Mat.mul (Mat.mul (Mat.adjoint (props[g.1 + 1]'(by omega))) (Ud[h][g.1]'(by omega)))
      (props[g.1]'(by omega))

/-- `propagators_deriv`, shape `(n_ctrl, n_dt - 1, n_dt, d, d)`: zeros, then for `g < n_dt - 1`
`propagators_deriv[:, g, :g+1] = propagators[g+1] @ U_deriv_transformed[:, :g+1]`. -/
def liouvillePropagatorsDeriv {nG nH d : Nat} (props : Vector (Mat K d d) (nG + 1))
    (UdT : Vector (Vector (Mat K d d) (nG - 1)) nH) :
    Vector (Vector (Vector (Mat K d d) nG) (nG - 1)) nH :=
  Vector.ofFn fun h => Vector.ofFn fun t => Vector.ofFn fun s =>
    if hs : s.1 ≤ t.1 then
      Mat.mul (props[t.1 + 1]'(by omega)) (UdT[h][s.1]'(by omega))
    else zeroMat

/-- second operand of the final contraction of `_liouville_derivative`:
`(basis @ propagators[1:-1, None])[:, :, None] @ basis`, entry `[t][j][k] = (C_j Q_{t+1}) C_k`. -/
def liouvilleBQB {nG N d : Nat} (props : Vector (Mat K d d) (nG + 1))
    (basis : Vector (Mat K d d) N) : Vector (Vector (Vector (Mat K d d) N) N) (nG - 1) :=
  Vector.ofFn fun t =>
    let bq : Vector (Mat K d d) N :=
      Vector.ofFn fun j => Mat.mul basis[j] (props[t.1 + 1]'(by omega))
    Vector.ofFn fun j => Vector.ofFn fun k => Mat.mul bq[j] basis[k]

/-- the array `propagators_deriv` of `_liouville_derivative` from the inputs -/
def liouvillePD {nG nH d : Nat} (thrA : R) (dt : Vec R nG)
    (props : Vector (Mat K d d) (nG + 1)) (eigvecs : Vector (Mat K d d) nG) (eigvals : Mat R nG d)
    (cT : Vector (Vector (Mat K d d) nH) nG) :
    Vector (Vector (Vector (Mat K d d) nG) (nG - 1)) nH :=
  liouvillePropagatorsDeriv props
    (liouvilleUDerivTransformed props (liouvilleUDeriv thrA dt props eigvecs eigvals cT))

/-- `gradient._liouville_derivative(dt, propagators, basis, eigvecs, eigvals, c_opers_transformed)`,
shape `(n_dt - 1, n_ctrl, n_dt, d², d²)`, real:
`2 * einsum('htsba,tjkba->thsjk', propagators_deriv.conj(),
(basis @ propagators[1:-1, None])[:, :, None] @ basis).real`. -/
def liouvilleDerivative {nG nH N d : Nat} (thrA : R) (dt : Vec R nG)
    (props : Vector (Mat K d d) (nG + 1)) (basis : Vector (Mat K d d) N)
    (eigvecs : Vector (Mat K d d) nG) (eigvals : Mat R nG d)
    (cT : Vector (Vector (Mat K d d) nH) nG) :
    Vector (Vector (Vector (Mat R N N) nG) nH) (nG - 1) :=
  let pdc : Vector (Vector (Vector (Mat K d d) nG) (nG - 1)) nH :=
    (liouvillePD thrA dt props eigvecs eigvals cT).map
      (Vector.map (Vector.map (Vector.map (Vector.map CplxOps.conj))))
  (Gen.gradient__liouville_derivative_0 pdc (liouvilleBQB props basis)).map
    (Vector.map (Vector.map (Vector.map (Vector.map fun z => ((2 : Nat) : R) * CplxOps.re z))))

/-! ### `calculate_derivative_of_control_matrix_from_scratch` -/

/-- `x[:-1]` for an array with `n + 1` entries along the first axis (`propagators[:-1]`, `t[:-1]`:
what `numeric.calculate_control_matrix_from_scratch` works with) -/
def dropLast {α : Type} {n : Nat} (v : Vector α (n + 1)) : Vector α n :=
  Vector.ofFn fun g : Fin n => v[g.1]'(by omega)


/-- `numeric._transform_by_unitary(eigvecs[g], ops)`: `V† X V` for every operator of a stack -/
def opersTransformed {n d : Nat} (V : Mat K d d) (ops : Vector (Mat K d d) n) :
    Vector (Mat K d d) n :=
  Vector.ofFn fun j => transformByUnitary V ops[j]

/-- `numeric._transform_hamiltonian(eigvecs, n_opers, n_coeffs)[:, g]`: `s_a^{(g)} · V† B_a V` -/
def nOpersTransformed {nA d : Nat} (V : Mat K d d) (nOpers : Vector (Mat K d d) nA)
    (nc : Vec R nA) : Vector (Mat K d d) nA :=
  Vector.ofFn fun a => Mat.smul (CplxOps.ofReal nc[a]) (transformByUnitary V nOpers[a])

/-- ONE pass of the loop `for g in range(n_dt)` of
`calculate_derivative_of_control_matrix_from_scratch`, up to the call of
`_control_matrix_at_timestep_derivative`: from the data of segment `g` (`ev = eigvals[g]`,
`V = eigvecs[g]`, `tg = t[g]`, `dtg = dt[g]`, `nc = n_coeffs[:, g]`, `ncd = n_coeffs_deriv[:, :, g]`)
to `(ctrlmat_step[g], ctrlmat_step_deriv)`.  (The Python transforms the operators for all segments
before the loop; the slices used in pass `g` are the ones computed here.) -/
def cmdStep {d nO nA nH nK : Nat} (kind : MaskKind) (thrF thrD : R) (omega : Vec R nO)
    (ev : Vec R d) (V : Mat K d d) (basis : Vector (Mat K d d) nK) (tg dtg : R)
    (nOpers : Vector (Mat K d d) nA) (nc : Vec R nA) (cOpers : Vector (Mat K d d) nH)
    (ncd : Option (Mat R nA nH)) :
    Ten3 K nA nK nO × Vector (Vector (Vector (Vec K nO) nH) nK) nA :=
  let bT : Vector (Mat K d d) nK := opersTransformed V basis
  let cT : Vector (Mat K d d) nH := opersTransformed V cOpers
  let nT : Vector (Mat K d d) nA := nOpersTransformed V nOpers nc
  let ph : Vec K nO := Vector.ofFn fun o => CplxOps.expI (omega[o] * tg)
  let I1 : Ten3 K nO d d := firstOrderIntegral kind thrF omega ev dtg
  let DI : Vector (Ten4 K d d d d) nO := derivativeIntegral thrD omega ev dtg
  let cs : Ten3 K nA nK nO := ctrlmatStep ph bT nT I1
  let M := ctrlmatStepM nT cT DI
  (cs, ctrlmatStepDeriv ph bT M nc ncd cs)

/-- all passes of the loop: `(ctrlmat_step[g], ctrlmat_step_deriv of pass g)` -/
def cmdSteps {nG d nO nA nH nK : Nat} (kind : MaskKind) (thrF thrD : R) (omega : Vec R nO)
    (eigvals : Mat R nG d) (eigvecs : Vector (Mat K d d) nG) (basis : Vector (Mat K d d) nK)
    (t : Vec R (nG + 1)) (dt : Vec R nG) (nOpers : Vector (Mat K d d) nA) (nCoeffs : Mat R nA nG)
    (cOpers : Vector (Mat K d d) nH) (nCoeffsDeriv : Option (Vector (Mat R nH nG) nA)) :
    Vector (Ten3 K nA nK nO × Vector (Vector (Vector (Vec K nO) nH) nK) nA) nG :=
  Vector.ofFn fun g =>
    cmdStep kind thrF thrD omega eigvals[g] eigvecs[g] basis (t[g.1]'(by omega)) dt[g] nOpers
      (Vector.ofFn fun a => nCoeffs[a][g]) cOpers
      (nCoeffsDeriv.map fun D => Mat.ofFn fun a h => D[a][h][g])

/-- `c_opers_transformed = numeric._transform_hamiltonian(eigvecs, c_opers).swapaxes(0, 1)`,
entry `[g][h] = V_g† C_h V_g` -/
def cOpersTransformedAll {nG nH d : Nat} (eigvecs : Vector (Mat K d d) nG)
    (cOpers : Vector (Mat K d d) nH) : Vector (Vector (Mat K d d) nH) nG :=
  Vector.ofFn fun g => opersTransformed eigvecs[g] cOpers

/-- `gradient.calculate_derivative_of_control_matrix_from_scratch(omega, propagators, eigvals,
eigvecs, basis, t, dt, n_opers, n_coeffs, c_opers, n_coeffs_deriv)` without `intermediates`, result
`ctrlmat_deriv[h][o][g][a][k]`, shape `(n_ctrl, n_omega, n_dt, n_nops, d²)`.

Parameters that are read off the source by the driver: mask kind / threshold of
`numeric._first_order_integral` (`kind`, `thrF`), the common threshold of the three masks of
`_derivative_integral` (`thrD`), the threshold of `A_mat` (`thrA`); `castReal = basis.isherm`
(`liouville_representation` takes the real part of the expansion for a Hermitian basis). -/
def controlMatrixDerivFromScratch {nG d nO nA nH nK : Nat} (kind : MaskKind) (thrF thrD thrA : R)
    (castReal : Bool) (omega : Vec R nO) (props : Vector (Mat K d d) (nG + 1))
    (eigvals : Mat R nG d) (eigvecs : Vector (Mat K d d) nG) (basis : Vector (Mat K d d) nK)
    (t : Vec R (nG + 1)) (dt : Vec R nG) (nOpers : Vector (Mat K d d) nA) (nCoeffs : Mat R nA nG)
    (cOpers : Vector (Mat K d d) nH) (nCoeffsDeriv : Option (Vector (Mat R nH nG) nA)) :
    Vector (Vector (Vector (Mat K nA nK) nG) nO) nH :=
  -- c_opers_transformed[g][h]
  let cT : Vector (Vector (Mat K d d) nH) nG := cOpersTransformedAll eigvecs cOpers
  -- propagators_liouville[g] = liouville_representation(propagators[g], basis), g < n_dt
  let pL : Vector (Mat K nK nK) nG :=
    Vector.ofFn fun g => liouville (props[g.1]'(by omega)) basis castReal
  let pLd : Vector (Vector (Vector (Mat R nK nK) nG) nH) (nG - 1) :=
    liouvilleDerivative thrA dt props basis eigvecs eigvals cT
  -- the loop over the time steps
  let steps := cmdSteps kind thrF thrD omega eigvals eigvecs basis t dt nOpers nCoeffs cOpers
    nCoeffsDeriv
  -- ctrlmat_deriv[:, :, g] = ctrlmat_step_deriv.transpose(2, 3, 0, 1) @ propagators_liouville[g]
  let first : Vector (Vector (Vector (Mat K nA nK) nG) nO) nH :=
    Vector.ofFn fun h => Vector.ofFn fun o => Vector.ofFn fun g =>
      Mat.ofFn fun a k => fsum nK fun j => steps[g].2[a][j][h][o] * pL[g][j][k]
  -- ctrlmat_deriv += oe.contract('tajo,thsjk->hosak', ctrlmat_step[1:], propagators_liouville_deriv)
  let cs1 : Vector (Ten3 K nA nK nO) (nG - 1) :=
    Vector.ofFn fun tt => (steps[tt.1 + 1]'(by omega)).1
  let pLdK : Vector (Vector (Vector (Mat K nK nK) nG) nH) (nG - 1) :=
    pLd.map (Vector.map (Vector.map (Vector.map (Vector.map CplxOps.ofReal))))
  let second : Vector (Vector (Vector (Mat K nA nK) nG) nO) nH :=
    Gen.gradient_calculate_derivative_of_control_matrix_from_scratch_1 cs1 pLdK
  Vector.ofFn fun h => Vector.ofFn fun o => Vector.ofFn fun g =>
    Mat.ofFn fun a k => first[h][o][g][a][k] + second[h][o][g][a][k]

end

/-! ### driver -/

open FFVerif.Proto

/-- `cmderiv nG d nO nA nH nK cast hasNcd eigvals(nG,d) eigvecs(nG,d,d c) props(nG+1,d,d c)
omega(nO) basis(nK,d,d c) n_opers(nA,d,d c) n_coeffs(nA,nG) c_opers(nH,d,d c)
n_coeffs_deriv(nA,nH,nG | -) dt(nG) t(nG+1)` → `ok <(nH,nO,nG,nA,nK) complex>` =
`calculate_derivative_of_control_matrix_from_scratch(…)`; `cast = 1` iff `basis.isherm`; all masks /
thresholds are read off the generated source constants (`err thr` if they do not have the expected
shape). -/
def handleGradientAsm (toks : List String) : Option String :=
  match toks with
  | ["cmderiv", nG, d, nO, nA, nH, nK, cast, hasNcd, eigvals, eigvecs, props, omega, basis, nopers,
      ncoeffs, copers, ncd, dt, t] =>
    let nG := nG.toNat!; let d := d.toNat!; let nO := nO.toNat!; let nA := nA.toNat!
    let nH := nH.toNat!; let nK := nK.toNat!
    match derivIntegralThresholds, liouvilleAThreshold with
    | some [t1, t2, t3], some thrA =>
      if t1 == t2 && t2 == t3 then
        let a := parseFloats ncd
        let ncdv : Option (Vector (Mat Float nH nG) nA) :=
          if hasNcd == "1" then some (Vector.ofFn fun i => matR a (i.1 * nH * nG) nH nG) else none
        let r : Vector (Vector (Vector (Mat CF nA nK) nG) nO) nH :=
          controlMatrixDerivFromScratch Gen.firstOrderMaskKind (Gen.firstOrderMaskThr (R := Float))
            t1 thrA (cast == "1") (vecR (parseFloats omega) 0 nO)
            (ten3C (parseFloats props) 0 (nG + 1) d d) (matR (parseFloats eigvals) 0 nG d)
            (ten3C (parseFloats eigvecs) 0 nG d d) (ten3C (parseFloats basis) 0 nK d d)
            (vecR (parseFloats t) 0 (nG + 1)) (vecR (parseFloats dt) 0 nG)
            (ten3C (parseFloats nopers) 0 nA d d) (matR (parseFloats ncoeffs) 0 nA nG)
            (ten3C (parseFloats copers) 0 nH d d) ncdv
        some ("ok " ++ showFloats (flatC5 r))
      else some "err thr"
    | _, _ => some "err thr"
  | _ => none

end FFVerif.Model
