/-
Exception points of the caching methods of `PulseSequence` (pulse_sequence.py) and of the analysis
functions of numeric.py that drive them (`infidelity`, `calculate_decay_amplitudes`,
`calculate_cumulant_function`), on top of the cache state machine `Model/Cache.lean`.

For every public operation `op`, `trace s op` lists — in program order — the cached state of the
pulse object at every point where the Python method can raise, starting with the entry state
(argument validation happens before any mutation) and ending with the state after normal
completion.  A call that raises leaves the object in one of the listed states.

Exception model (what counts as a raise point).  An exception surfaces at
  * the entry of a public method (validation of arguments, `parse_optional_parameters`,
    `get_indices_from_identifiers`, shape checks),
  * a call of a numerical routine or a NumPy computation, *before* its result is written
    (`numeric.diagonalize`, `numeric.calculate_control_matrix_from_scratch`,
    `numeric.calculate_filter_function`, `numeric.calculate_pulse_correlation_filter_function`,
    `numeric.calculate_second_order_filter_function`, `liouville_representation`, `util.cexp`,
    `ndarray.sum`, `ndarray.trace`, attribute access `control_matrix.ndim` /
    `filter_function.trace` on a caller-supplied array_like, `util.parse_spectrum` /
    `numeric._get_integrand` / `util.integrate` in the analysis functions, the gradient routines),
  * an explicit `raise` (`CalculationError`, `ValueError`).
Plain attribute assignments (`self._x = value`, the property setters, `dict.update`, `dict.pop`,
`setattr` in `cleanup`) do not raise; a run of consecutive assignments is atomic.  The trace
functions below follow the source statement by statement; the comment on each entry names the
statement that can raise in that state.

The only run of assignments whose intermediate state is *not* cache-coherent is, in
`get_control_matrix(omega, cache_intermediates=True)` on a miss,
`self._intermediates.update(**intermediates)` followed (inside `cache_control_matrix`) by
`self.omega = omega`: in between, frequency-dependent intermediates for the new grid are stored
while `omega` is still `None` (`asyncWindow` below).  No statement that can raise lies between the
two, so the state is not a raise point; `Props/C18.lean` (`async_window_not_coherent`) shows that it
must not become one.

Mathlib-free.
-/
import FFVerif.Model.Cache

namespace FFVerif.Model.Cache

/-! ### primitives -/

/-- `PulseSequence.diagonalize()`:
`[entry — numeric.diagonalize raises;  after the triple assignment — self.propagators[-1];  final]` -/
def diagonalizeT (s : Obj) : List Obj :=
  let s1 := if s.eigvals && s.eigvecs && s.props then s
            else { s with eigvals := true, eigvecs := true, props := true }
  [s, s1, { s1 with totProp := true }]

/-- property `total_propagator` -/
def needTotPropT (s : Obj) : List Obj := if s.totProp then [s] else diagonalizeT s

/-- properties `eigvals` / `eigvecs` / `propagators` -/
def needEigT (s : Obj) : List Obj :=
  if s.eigvals && s.eigvecs && s.props then [s] else diagonalizeT s

/-- `cache_total_phases(omega)`:
`[entry — util.cexp(np.asarray(omega)*self.tau);  after _invalidate_frequency_dependent —
np.asarray(omega) in the omega setter;  final]` -/
def cachePhasesT (g : Grid) (s : Obj) : List Obj := [s, invalidate g s, cachePhases g s]

/-- property `total_propagator_liouville` (also the tail of `cache_control_matrix`): a hit, or
`total_propagator` (may diagonalise), then `liouville_representation` raises, then the write -/
def totPropLT (s : Obj) : List Obj :=
  if s.totPropL then [s] else needTotPropT s ++ [{ needTotProp s with totPropL := true }]

/-- `cache_control_matrix(omega, control_matrix)` from the statement after `self.omega = omega`:
`[control_matrix.ndim (AttributeError for a list);  matrix written — cache_total_phases …;
 … total_propagator_liouville]` -/
def cacheCMbodyT (g : Grid) (pc : Bool) (s2 : Obj) : List Obj :=
  let s3 := if pc then { s2 with cmPc := some g } else { s2 with cm := some g }
  [s2, s3] ++ cachePhasesT g s3 ++ totPropLT (cachePhases g s3)

/-- `cache_control_matrix(omega, control_matrix)` with a supplied matrix -/
def cacheCMT (g : Grid) (pc : Bool) (s : Obj) : List Obj :=
  [s, invalidate g s] ++ cacheCMbodyT g pc { invalidate g s with omega := some g }

/-- the state between `self._intermediates.update(**intermediates)` and `self.omega = omega`
(inside `cache_control_matrix`) in the from-scratch branch of `get_control_matrix`: not a raise
point (see the header) -/
def asyncWindow (g : Grid) (s : Obj) : Obj :=
  { diagonalize s with iNOps := true, iBasis := true, iPhase := some g, iFoInt := some g,
                       iCmStep := some g }

/-- from-scratch branch of `get_control_matrix`: `self.diagonalize()`;
`calculate_control_matrix_from_scratch` raises in the last state of `diagonalizeT`; then
`_intermediates.update`, `_invalidate_frequency_dependent`, `self.omega = omega` (assignments),
then the body of `cache_control_matrix` -/
def computeCMT (g : Grid) (ci : Bool) (s : Obj) : List Obj :=
  let sd := diagonalize s
  let si := if ci then { sd with iNOps := true, iBasis := true, iPhase := some g,
                                 iFoInt := some g, iCmStep := some g } else sd
  diagonalizeT s ++ cacheCMbodyT g false { invalidate g si with omega := some g }

/-- `get_control_matrix(omega, cache_intermediates=ci)` -/
def getCMT (g : Grid) (ci : Bool) (s : Obj) : List Obj :=
  if eqOmega s g then
    match s.cm with
    | some _ => [s]
    | none => match s.cmPc with
      | some h => [s, { s with cm := some h }]       -- `_control_matrix_pc.sum(axis=0)` raises in `s`
      | none => s :: computeCMT g ci s
  else
    s :: cleanup .freq s :: computeCMT g ci (cleanup .freq s)

/-- the final assignments of `cache_filter_function`:
`[omega set — filter_function.trace(axis1=2, axis2=3) for 'generalized';  final]` -/
def setFFT (g : Grid) (w : Which) (s : Obj) : List Obj := [s, setFF g w s]

/-- `cache_filter_function(omega, control_matrix=B, which)` with a 3-dim `B` already obtained:
invalidate, `cache_control_matrix(omega, B)`, `calculate_filter_function` raises in its final
state, `self.omega = omega`, write -/
def cacheFFwithCMT (g : Grid) (w : Which) (s : Obj) : List Obj :=
  let s1 := invalidate g s
  let s2 := cacheCM g false s1
  s :: (cacheCMT g false s1 ++ setFFT g w { s2 with omega := some g })

/-- the second-order branch of `cache_filter_function` after the invalidation: property accesses
`self.eigvals, self.eigvecs, self.propagators` (may diagonalise),
`calculate_second_order_filter_function` raises in the last of these states, then the writes -/
def order2T (g : Grid) (s1 : Obj) : List Obj :=
  needEigT s1 ++ [{ needEig s1 with omega := some g, ff2 := some (g, ff2Fresh g (needEig s1)) }]

/-- `cache_filter_function(omega, which, order)` with neither matrix nor filter function supplied -/
def cacheFFcomputedT (g : Grid) (w : Which) (order2 ci : Bool) (s : Obj) : List Obj :=
  let s1 := invalidate g s
  if order2 then [s, s1] ++ order2T g s1
  else
    let s2 := (getCM g ci s1).1
    let s3 := cacheCM g false s2
    [s, s1] ++ getCMT g ci s1 ++ cacheCMT g false s2 ++ setFFT g w { s3 with omega := some g }

/-- the part of `get_filter_function` after the cache lookup / `cleanup('frequency dependent')`:
order 1: `get_control_matrix`, then `cache_filter_function(omega, control_matrix=…)`;
order 2: `cache_filter_function(omega, control_matrix=None, order=2)` -/
def getFFmissT (g : Grid) (w : Which) (order2 ci : Bool) (s : Obj) : List Obj :=
  if order2 then [s, invalidate g s] ++ order2T g (invalidate g s)
  else getCMT g ci s ++ cacheFFwithCMT g w (getCM g ci s).1

/-- `get_filter_function(omega, which, order, cache_intermediates)` -/
def getFFT (g : Grid) (w : Which) (order2 ci : Bool) (s : Obj) : List Obj :=
  if eqOmega s g then
    match ffTag w order2 s with
    | some _ => [s]
    | none => s :: getFFmissT g w order2 ci s
  else
    s :: cleanup .freq s :: getFFmissT g w order2 ci (cleanup .freq s)

/-- `cache_filter_function(omega, filter_function=F)`:
`[entry;  invalidated;  omega set — F.trace(...) for 'generalized';  final]` -/
def cacheFFvalueT (g : Grid) (w : Which) (order2 : Bool) (s : Obj) : List Obj :=
  let s1 := invalidate g s
  [s, s1, { s1 with omega := some g }, cacheFFvalue g w order2 s]

/-- `cache_filter_function(omega, control_matrix=B)` with a supplied (3- or 4-dim) matrix:
invalidate; `cache_control_matrix`; for 4-dim `calculate_pulse_correlation_filter_function` raises
in its final state, the pulse-correlation filter functions are written and `F_pc.sum(axis=(0, 1))`
raises after that; for 3-dim `calculate_filter_function` raises; `self.omega = omega`; write -/
def cacheFFfromCMT (g : Grid) (w : Which) (pc : Bool) (s : Obj) : List Obj :=
  let s1 := invalidate g s
  let s2 := cacheCM g pc s1
  let s3 := if pc then
      (match w with
       | .fidelity => { s2 with ffPc := some g }
       | .generalized => { s2 with ffPc := some g, ffPcGen := some g })
    else s2
  s :: (cacheCMT g pc s1 ++ [s3] ++ setFFT g w { s3 with omega := some g })

/-- `get_pulse_correlation_filter_function(which)`: a hit; or
`calculate_pulse_correlation_filter_function` raises in `s`, then the write; or
`CalculationError` in `s` -/
def getPcFFT (w : Which) (s : Obj) : List Obj :=
  let cached := match w with | .fidelity => s.ffPc | .generalized => s.ffPcGen
  match cached with
  | some _ => [s]
  | none => match s.cmPc with
    | some _ => [s, (getPcFF w s).1]
    | none => [s]

/-- `get_total_phases(omega)` -/
def getPhasesT (g : Grid) (s : Obj) : List Obj :=
  if eqOmega s g then
    match s.phases with
    | some _ => [s]
    | none => s :: cachePhasesT g s
  else
    s :: cleanup .freq s :: cachePhasesT g (cleanup .freq s)

/-- `get_filter_function_derivative(omega, …)`: identifier / shape validation in `s`;
`get_control_matrix(omega, cache_intermediates=True)`; indexing `[n_idx]`, the reads of
`_intermediates` raise in the state the getter left; the property reads of the diagonalisation
(`needEigT`); the gradient routines raise in the final state -/
def derivT (g : Grid) (s : Obj) : List Obj :=
  s :: (getCMT g true s ++ needEigT (getCM g true s).1)

/-- `calculate_decay_amplitudes(pulse, spectrum, omega, which, cache_intermediates)`:
identifier validation in `s`; the getter; `_get_integrand` (`parse_spectrum`) / `integrate` raise
in the state the getter left.  `which='correlations'`: `ValueError` / `CalculationError` / the
integrand raise in `s` (nothing is written) -/
def decayAmpsT (g : Grid) (correlations ci : Bool) (s : Obj) : List Obj :=
  if correlations then [s, (decayAmps g true ci s).1]
  else if s.ffGen.isSome then
    s :: (getFFT g .generalized false false s ++ [(getFF g .generalized false false s).1])
  else s :: (getCMT g ci s ++ [(getCM g ci s).1])

/-- `infidelity(…, which='correlations')` after the frequency check: traceless basis — the
pulse-correlation filter-function getter, then the subtraction of the identity component
(`CalculationError` in the state the getter left); otherwise only reads. -/
def infidelityCorrT (tl : Bool) (s : Obj) : List Obj :=
  if tl then s :: (getPcFFT .fidelity s ++ [(getPcFF .fidelity s).1]) else [s]

/-- `trace s op`: the cached state at every point where the Python method modelled by `op` can
raise, in program order; the head is the entry state, the last element the state after normal
completion. -/
def trace (s : Obj) : Op → List Obj
  | .diagonalize => diagonalizeT s
  | .getCM g ci => getCMT g ci s
  | .cacheCM g pc => cacheCMT g pc s
  | .getFF g w o2 ci => getFFT g w o2 ci s
  | .cacheFFvalue g w o2 => cacheFFvalueT g w o2 s
  | .cacheFFfromCM g w pc => cacheFFfromCMT g w pc s
  | .cacheFFcompute g w o2 ci => cacheFFcomputedT g w o2 ci s
  | .cacheCMcompute g ci =>
    -- `cache_control_matrix(omega)`: `get_control_matrix`, then the supplied-matrix path
    getCMT g ci s ++ cacheCMT g false (getCM g ci s).1
  | .getPcFF w => getPcFFT w s
  | .getPcCM => [s]                                 -- a hit or `CalculationError`, nothing written
  | .getPhases g => getPhasesT g s
  | .cachePhases g => cachePhasesT g s
  | .deriv g => derivT g s
  | .totPropL => totPropLT s
  | .eigAccess => needEigT s
  | .totPropAccess => needTotPropT s
  | .cleanup m => [s, cleanup m s]                  -- invalid `method` raises in `s`
  | .infidelity g tl corr _ =>
    -- identifier validation in `s`; the getters; `_get_integrand` / `integrate` after them
    if corr then
      match s.omega with
      | some h =>
        if h == g then infidelityCorrT tl s
        else [s]                                    -- `ValueError`: omega differs from the cached one
      | none => infidelityCorrT tl s
    else if tl then
      let s1 := (getFF g .fidelity false false s).1
      s :: (getFFT g .fidelity false false s ++ getCMT g false s1 ++ [(getCM g false s1).1])
    else
      -- `basis.four_element_traces` raises in `s`; `get_control_matrix`; einsum / integrand after
      s :: (getCMT g false s ++ [(getCM g false s).1])
  | .decayAmps g corr ci => decayAmpsT g corr ci s
  | .cumulant g so =>
    -- validation in `s`; `calculate_decay_amplitudes`; for second order
    -- `calculate_frequency_shifts` = `get_filter_function(omega, order=2)` + integrand; the
    -- cumulant function itself is assembled in the state the getters left
    let s1 := (decayAmps g false so s).1
    if so then
      s :: (decayAmpsT g false so s ++ getFFT g .generalized true false s1
            ++ [(getFF g .generalized true false s1).1])
    else s :: (decayAmpsT g false so s ++ [s1])

/-! ### histories with failures -/

/-- how a call ended: normally, or by an exception raised at the `k`-th raise point of its trace -/
inductive Outcome where
  | done
  | raisedAt (k : Nat)
deriving DecidableEq, Repr

/-- the state a call leaves behind: the model's final state, or the `k`-th trace state when it
raised there (an index beyond the trace — no such raise point — leaves the entry state) -/
def stepOutcome (s : Obj) (op : Op) : Outcome → Obj
  | .done => (step s op).1
  | .raisedAt k => (trace s op)[k]?.getD s

/-- run a history in which some calls raise -/
def runWithFailures (s : Obj) (h : List (Op × Outcome)) : Obj :=
  h.foldl (fun s p => stepOutcome s p.1 p.2) s

/-- heap version: operation `op` on object `i` ending with outcome `o`; copies never fail -/
def hstepOutcome (h : List Obj) (i : Nat) (op : Op) (o : Outcome) : List Obj :=
  match h[i]? with
  | some s => h.set i (stepOutcome s op o)
  | none => h

/-- a heap event: an operation on object `i` with its outcome, or a copy of object `i` -/
inductive HEvent where
  | on (i : Nat) (op : Op) (o : Outcome)
  | copy (i : Nat)
deriving Repr

def hstepEvent (h : List Obj) : HEvent → List Obj
  | .on i op o => hstepOutcome h i op o
  | .copy i => (hstep h (.copy i)).1

def hrunWithFailures (h : List Obj) (es : List HEvent) : List Obj := es.foldl hstepEvent h

/-! ### line protocol (driver component `cachetrace`) -/

/-- `cachetrace <initial state, 19 tokens joined by ','> <op>` → the trace states joined by `;` -/
def handleCacheTrace (toks : List String) : Option String :=
  match toks with
  | ["cachetrace", init, op] =>
    match parseOp op with
    | none => some ("err bad-op " ++ op)
    | some o =>
      some ("ok " ++ ";".intercalate ((trace (Obj.parse (init.splitOn ",")) o).map Obj.show))
  | _ => none

end FFVerif.Model.Cache
