/-
Model of the INPUT VALIDATION of `filter_functions` (property C20): every `raise` of
`pulse_sequence._parse_args`, `_parse_Hamiltonian`, `util.parse_operators`, `Basis.__new__`,
`util.parse_spectrum`, `util.get_indices_from_identifiers`, `util.parse_optional_parameters`,
`PulseSequence.__getitem__`, `concatenate_without_filter_function` / `concatenate`, `extend`
(with the `remap` it calls), the pulse-correlation getters, `infidelity`,
`calculate_decay_amplitudes`, `calculate_cumulant_function`, `get_filter_function_derivative`.

Abstraction.  The arguments are abstracted to exactly what the checks look at: Python types are
classes ("has `__len__`", "is an `ndarray`", "has `.full()`" …), arrays are their shapes, durations
are sign/realness classes, identifiers are strings, identifier mappings (`extend`, `remap`) are
`dict`s as item lists (`RemapDef.Dict`; a missing key is a `ValueError` since the repair of F50 —
`_map_identifiers` catches the `KeyError` of the look-up), cached
arrays are identified by a natural
number ("bytes id": equal ids ↔ equal `tobytes()`; "value id": equal ids ↔ `np.array_equal`).
Every function returns `Except Err …`; the ORDER of the checks is that of the source, so the first
failing check determines the exception class.

The argument checks of `tensor_insert` / `tensor_merge` / `tensor_transpose` are modelled in
`Model/Tensor.lean`, the gate of `Basis.from_partial` in `Model/Basis.lean` (`fromPartialGate`);
the ValueErrors of `_concatenate_Hamiltonian` in `Model/Pulse.lean` (`concatHamiltonian`, reused
here); the cache tags in `Model/Cache.lean` (reused for the pulse-correlation quantities).

Mathlib-free; executed by the driver (`handleValidate`, encoding documented at the end) and
reasoned about in `Props/C20`.
-/
import FFVerif.Gen.Options
import FFVerif.Model.Pulse
import FFVerif.Model.Cache
import FFVerif.Model.Tensor
import FFVerif.Model.RemapDef

namespace FFVerif.Model.Validate
open FFVerif.Model

/-- exception classes -/
inductive Err | typeError | valueError | indexError | calculationError
deriving DecidableEq, Repr, Inhabited

def Err.name : Err → String
  | .typeError => "TypeError"
  | .valueError => "ValueError"
  | .indexError => "IndexError"
  | .calculationError => "CalculationError"

/-- number of distinct values (`len(set(...))`) -/
def nDistinct {α : Type} [BEq α] (l : List α) : Nat := (Pulse.dedup l).length

/-! ### `util.parse_operators` -/

/-- what `parse_operators` looks at in one operator -/
inductive OperSpec
  /-- a `numpy.ndarray` of this shape (the parser squeezes it) -/
  | array (shape : List Nat)
  /-- not an `ndarray`, but has `.full()` / `.to_array()` / `.todense()` / (`.data` and `.dexp`)
  returning an array of this shape (QuTiP `Qobj`, sparse matrix, qopt `DenseOperator`) -/
  | convertible (shape : List Nat)
  /-- anything else: nested lists, numbers, strings, and the `None` that `zip_longest` fills in -/
  | other
deriving DecidableEq, Repr, Inhabited

/-- `ndarray.squeeze()` on shapes -/
def squeeze (s : List Nat) : List Nat := s.filter (· != 1)

/-- shape of the array appended to `parsed_opers` (`none`: `TypeError`) -/
def OperSpec.parsedShape : OperSpec → Option (List Nat)
  | .array s => some (squeeze s)
  | .convertible s => some s
  | .other => none

/-- `shape[-2:]` -/
def lastTwo (s : List Nat) : List Nat := s.drop (s.length - 2)

/-- `len(set(shape[-2:])) == 1` -/
def squareTail (s : List Nat) : Bool := nDistinct (lastTwo s) == 1

/-- `parse_operators(opers, …)`: shape of the returned stacked array.
`np.asarray(list of arrays, dtype=complex)` raises `ValueError` ("inhomogeneous shape") when the
shapes differ (NumPy ≥ 1.24). -/
def parseOperators (opers : List OperSpec) : Except Err (List Nat) :=
  if opers.any (fun o => o.parsedShape.isNone) then .error .typeError
  else
    match opers.filterMap (·.parsedShape) with
    | [] => .ok [0]
    | s0 :: rest =>
      if !(rest.all (· == s0)) then .error .valueError
      else
        let stacked := opers.length :: s0
        if stacked.length > 3 then .error .valueError
        else if !(squareTail stacked) then .error .valueError
        else .ok stacked

/-! ### `_parse_Hamiltonian` -/

/-- a coefficient entry: has `__len__` (then its length) or not -/
inductive CoeffSpec | seq (len : Nat) | noLen
deriving DecidableEq, Repr, Inhabited

/-- one entry of the list `H` -/
structure ItemSpec where
  /-- `isinstance(item, (list, tuple))`; when `false` the other fields are meaningless -/
  isList : Bool := true
  /-- `len(item)` -/
  nFields : Nat := 3
  /-- `item[0]` (meaningful when `nFields ≥ 1`) -/
  oper : OperSpec := .other
  /-- `item[1]` (meaningful when `nFields ≥ 2`) -/
  coeff : CoeffSpec := .noLen
  /-- `item[2]` (meaningful when `nFields ≥ 3`); `none` is Python's `None` -/
  ident : Option String := none
deriving DecidableEq, Repr, Inhabited

/-- the argument `H` -/
inductive HamSpec
  /-- `not isinstance(H, (list, tuple))` -/
  | notList
  | list (items : List ItemSpec)
deriving DecidableEq, Repr, Inhabited

/-- entries of the tuples produced by `zip_longest(*H, fillvalue=None)` -/
def ItemSpec.effOper (it : ItemSpec) : OperSpec := if it.nFields ≥ 1 then it.oper else .other
def ItemSpec.effCoeff (it : ItemSpec) : CoeffSpec := if it.nFields ≥ 2 then it.coeff else .noLen
def ItemSpec.effIdent (it : ItemSpec) : Option String := if it.nFields ≥ 3 then it.ident else none

/-- number of tuples `zip_longest(*H)` yields: the length of the longest item -/
def maxFields (items : List ItemSpec) : Nat := items.foldl (fun m it => max m it.nFields) 0

/-- identifiers after the default filling (`A_i` / `B_i` for a missing one at position `i`) -/
def filledIds (items : List ItemSpec) (pre : String) : List String :=
  items.zipIdx.map fun (it, i) => it.effIdent.getD (Pulse.defaultId pre i)

structure HamParsed where
  /-- shape of the stacked operator array -/
  shape : List Nat
  /-- identifiers in the stored (sorted) order -/
  ids : List String
deriving DecidableEq, Repr, Inhabited

/-- `_parse_Hamiltonian(H, n_dt, H_str)`; `pre` is `"A"` for `H_c`, `"B"` for `H_n`. -/
def parseHamiltonian (H : HamSpec) (nDt : Nat) (pre : String) : Except Err HamParsed :=
  match H with
  | .notList => .error .typeError
  | .list items =>
    if items.any (fun it => !it.isList) then .error .typeError
    -- `opers, *args = zip_longest(*H)`: nothing to unpack
    else if maxFields items == 0 then .error .valueError
    -- `if not args: raise TypeError` (no item has coefficients)
    else if maxFields items == 1 then .error .typeError
    else
      match parseOperators (items.map (·.effOper)) with
      | .error e => .error e
      | .ok shape =>
        -- `if parsed_opers.ndim != 3: raise ValueError` (d row vectors of length d, 1-d
        -- operators and squeezed 1×1 arrays stack to a "square" array of fewer axes)
        if shape.length != 3 then .error .valueError
        else if items.any (fun it => it.effCoeff == .noLen) then .error .typeError
        else if decide (maxFields items ≥ 3) && Pulse.hasDup (filledIds items pre) then
          .error .valueError
        else if !(items.all fun it => it.effCoeff == .seq nDt) then .error .valueError
        else .ok { shape := shape, ids := Pulse.sortBy id (filledIds items pre) }

/-! ### `_parse_args` -/

/-- class of one duration: `np.isreal` false / real and `< 0` / real and not `< 0` (includes
`nan`, `0`, `-0.0`) -/
inductive DtElem | nonneg | neg | complex
deriving DecidableEq, Repr, Inhabited

inductive DtSpec
  /-- `not hasattr(dt, '__len__')` -/
  | noLen
  /-- a flat sequence of numbers -/
  | seq (elems : List DtElem)
deriving DecidableEq, Repr, Inhabited

inductive BasisSpec
  /-- `not hasattr(basis, 'btype')` -/
  | notBasis
  /-- a `Basis` of this shape -/
  | basis (shape : List Nat)
deriving DecidableEq, Repr, Inhabited

structure ArgsSpec where
  dt : DtSpec
  Hc : HamSpec
  Hn : HamSpec
  basis : Option BasisSpec := none
deriving DecidableEq, Repr, Inhabited

structure ArgsParsed where
  cIds : List String
  nIds : List String
  d : Nat
  nDt : Nat
deriving DecidableEq, Repr, Inhabited

/-- `_parse_args(H_c, H_n, dt, basis=…)` -/
def parseArgs (x : ArgsSpec) : Except Err ArgsParsed :=
  match x.dt with
  | .noLen => .error .typeError
  | .seq elems =>
    if elems.any (· == .complex) then .error .valueError
    else if elems.any (· == .neg) then .error .valueError
    else
      match parseHamiltonian x.Hc elems.length "A" with
      | .error e => .error e
      | .ok c =>
        match parseHamiltonian x.Hn elems.length "B" with
        | .error e => .error e
        | .ok n =>
          if lastTwo c.shape != lastTwo n.shape then .error .valueError
          else
            let d := c.shape.getLastD 0
            match x.basis with
            | none => .ok ⟨c.ids, n.ids, d, elems.length⟩
            | some .notBasis => .error .valueError
            | some (.basis shape) =>
              if shape.drop 1 != [d, d] then .error .valueError
              else .ok ⟨c.ids, n.ids, d, elems.length⟩

/-! ### `Basis.__new__` -/

inductive BasisArg
  /-- `not hasattr(basis_array, '__getitem__')` -/
  | noGetitem
  /-- already a `Basis` instance of this shape (taken as is) -/
  | inst (shape : List Nat)
  /-- a single element with a 2-d `.shape` (wrapped into a list) -/
  | single (o : OperSpec)
  /-- a sequence of elements -/
  | elems (l : List OperSpec)
deriving DecidableEq, Repr, Inhabited

/-- `Basis(basis_array, labels=…)`; `labels`: `len(labels)` if given. Returns the shape. -/
def basisNew (a : BasisArg) (labels : Option Nat) : Except Err (List Nat) :=
  let checkLabels (shape : List Nat) : Except Err (List Nat) :=
    match labels with
    | some n => if n != shape.headD 0 then .error .valueError else .ok shape
    | none => .ok shape
  let parsed (l : List OperSpec) : Except Err (List Nat) :=
    match parseOperators l with
    | .error e => .error e
    | .ok shape =>
      -- `basis.shape[0] > np.prod(basis.shape[1:])`
      if shape.headD 0 > (shape.drop 1).foldl (· * ·) 1 then .error .valueError
      else checkLabels shape
  match a with
  | .noGetitem => .error .typeError
  | .inst shape => checkLabels shape
  | .single o => parsed [o]
  | .elems l => parsed l

/-! ### `util.parse_spectrum` -/

/-- can an array of shape `s` be `np.broadcast_to` the shape `t` -/
def broadcastable (s t : List Nat) : Bool :=
  decide (s.length ≤ t.length) &&
    (List.zip s.reverse t.reverse).all fun (a, b) => a == b || a == 1

/-- `(len(idx),)*(spectrum.ndim - 1) + (len(omega),)` -/
def spectrumTarget (ndim nIdx nOmega : Nat) : List Nat := List.replicate (ndim - 1) nIdx ++ [nOmega]

/-- `parse_spectrum(spectrum, omega, idx)` for an `ndarray` spectrum of shape `shape`;
`herm` is the value of `np.allclose(S, S.conj().swapaxes(0, 1))` on the broadcast array (only
looked at for three axes).  Returns the shape of the result. -/
def parseSpectrum (shape : List Nat) (nIdx nOmega : Nat) (herm : Bool) : Except Err (List Nat) :=
  let target := spectrumTarget shape.length nIdx nOmega
  if !broadcastable shape target then .error .valueError
  else if target.length == 3 && !herm then .error .valueError
  else if target.length > 3 then .error .valueError
  else .ok target

/-! ### `util.get_indices_from_identifiers` -/

/-- `identifier_to_index_table[s]` for the dict built from `enumerate(all_identifiers)`: the LAST
position of `s` (later entries overwrite earlier ones); `i0` is the position of the head. -/
def lastIdx (s : String) : List String → Nat → Option Nat
  | [], _ => none
  | k :: ks, i0 =>
    match lastIdx s ks (i0 + 1) with
    | some j => some j
    | none => if k == s then some i0 else none

inductive Requested
  /-- `identifiers is None` -/
  | all
  /-- a bare `str` -/
  | single (s : String)
  /-- a sequence of `str` -/
  | many (l : List String)
deriving DecidableEq, Repr, Inhabited

/-- `get_indices_from_identifiers(all_identifiers, identifiers)`: `KeyError → ValueError`;
repetitions in the request are kept. -/
def indicesFromIdentifiers (known : List String) : Requested → Except Err (List Nat)
  | .all => .ok (List.range known.length)
  | .single s =>
    if known.contains s then .ok [(lastIdx s known 0).getD 0] else .error .valueError
  | .many l =>
    if l.all (fun s => known.contains s) then .ok (l.map fun s => (lastIdx s known 0).getD 0)
    else .error .valueError

/-! ### `util.parse_optional_parameters` -/

/-- the tuple of allowed values of parameter `param` of function `func` (`repr` of each value),
`none` when the parameter is not validated by the decorator -/
def allowedFor (func param : String) : Option (List String) :=
  (Gen.options.find? fun e => e.1 == func && e.2.1 == param).map (·.2.2)

/-- the decorator's check of one parameter; `value` is the `repr` of the value passed -/
def optionsOk (func param value : String) : Except Err Unit :=
  match allowedFor func param with
  | some allowed => if allowed.contains value then .ok () else .error .valueError
  | none => .ok ()

/-! ### `PulseSequence.__getitem__` -/

/-- `pulse[start:stop]` (non-negative bounds, step 1) on a pulse with `nDt` segments: number of
selected segments, `IndexError` when there is none -/
def getitemCheck (nDt start stop : Nat) : Except Err Nat :=
  let n := min stop nDt - start
  if n == 0 then .error .indexError else .ok n

/-! ### `concatenate_without_filter_function`, `concatenate`, `concatenate_periodic` -/

/-- what the concatenation checks look at in one entry of `pulses` -/
structure CPulse where
  /-- `hasattr(pls, 'c_opers')`; when `false` the other fields are meaningless -/
  isPulse : Bool := true
  /-- `pulse.d` (`c_opers.shape[1:] == (d, d)`) -/
  d : Nat := 2
  /-- bytes id / value id of `pulse.basis` -/
  basisBytes : Nat := 0
  basisValue : Nat := 0
  cTerms : List Pulse.Term := []
  nTerms : List Pulse.Term := []
  /-- `is_cached('control_matrix')` -/
  cmCached : Bool := false
  /-- bytes id / value id of the cached frequencies (`none`: not cached) -/
  omegaBytes : Option Nat := none
  omegaValue : Option Nat := none
deriving DecidableEq, Repr, Inhabited

def errOfString (s : String) : Err :=
  if s == "TypeError" then .typeError else if s == "IndexError" then .indexError
  else if s == "CalculationError" then .calculationError else .valueError

/-- the checks of `concatenate_without_filter_function(pulses)` (for an iterable `pulses`) -/
def concatWithoutFFChecks (pulses : List CPulse) : Except Err Unit :=
  if pulses.any (fun p => !p.isPulse) then .error .typeError
  else if nDistinct (pulses.map (·.d)) != 1 then .error .valueError
  else if nDistinct (pulses.map (·.basisBytes)) != 1 then .error .valueError
  else
    match Pulse.concatHamiltonian (pulses.map (·.cTerms)) .control with
    | .error e => .error (errOfString e)
    | .ok _ =>
      match Pulse.concatHamiltonian (pulses.map (·.nTerms)) .noise with
      | .error e => .error (errOfString e)
      | .ok _ => .ok ()

structure ConcatOpts where
  /-- `calc_pulse_correlation_FF` -/
  calcPc : Bool := false
  /-- `calc_filter_function` (`None` / `False` / `True`) -/
  calcFF : Option Bool := none
  /-- `omega is not None` -/
  omegaGiven : Bool := false
deriving DecidableEq, Repr, Inhabited

/-- `util.all_array_equal(pls.omega for pls in …)`: one distinct byte string (false for none) -/
def equalOmegaBytes (l : List (Option Nat)) : Bool := nDistinct l == 1

/-- the frequencies `concatenate` compares when `omega is None`: those of the pulses with a
cached control matrix if there is one, else those of the pulses with cached frequencies -/
def relevantOmegas (pulses : List CPulse) (f : CPulse → Option Nat) : List (Option Nat) :=
  if pulses.any (·.cmCached) then (pulses.filter (·.cmCached)).map f
  else (pulses.filter (·.omegaBytes.isSome)).map f

/-- the shortcut of `concatenate` for exactly one entry when nothing has to be computed
(`len(pulses) == 1 and not calc_filter_function and not calc_pulse_correlation_FF`) -/
def concatShortcut (pulses : List CPulse) (o : ConcatOpts) : Bool :=
  pulses.length == 1 && !(o.calcFF == some true) && !o.calcPc

/-- the checks of `concatenate(pulses, calc_pulse_correlation_FF, calc_filter_function, omega=…)`
up to the point where the filter function is computed (the option `which` is checked by the
decorator, `optionsOk`) -/
def concatChecks (pulses : List CPulse) (o : ConcatOpts) : Except Err Unit :=
  if concatShortcut pulses o then .ok ()     -- `return copy.deepcopy(pulses[0])`, nothing is checked
  else
    match concatWithoutFFChecks pulses with
    | .error e => .error e
    | .ok _ =>
      if o.calcFF == some false && !o.calcPc then .ok ()
      else if o.omegaGiven then .ok ()
      else if !equalOmegaBytes (relevantOmegas pulses (·.omegaBytes)) then
        if o.calcFF == some true then .error .valueError
        else if o.calcPc then .error .valueError
        else .ok ()
      else .ok ()

/-- `concatenate_periodic(pulse, repeats)`: `TypeError` for a non-pulse -/
def concatPeriodicCheck (isPulse : Bool) : Except Err Unit :=
  if isPulse then .ok () else .error .typeError

/-! ### `extend` (and the `remap` it calls) -/

/-- how the qubits of one mapping entry were written -/
inductive QubitForm | tuple | list | bareInt
deriving DecidableEq, Repr, Inhabited

/-- what `extend` looks at in one entry `(pulse, qubits[, identifier mapping])` -/
structure EPulse where
  /-- `pulse.d` -/
  d : Nat := 2
  /-- the value NumPy computes for `int(np.log(pulse.d)/np.log(d_per_qubit))` (used by `remap`) -/
  logN : Nat := 1
  /-- the qubits the pulse is mapped to (`[q]` for a bare int `q`) -/
  qubits : List Nat := [0]
  form : QubitForm := .tuple
  /-- bytes id / value id of `pulse.dt`, and `len(pulse.dt)` -/
  dtBytes : Nat := 0
  dtValue : Nat := 0
  nDt : Nat := 1
  /-- `pulse.c_oper_identifiers` -/
  cIds : List String := []
  /-- `pulse.n_oper_identifiers` -/
  nIds : List String := []
  /-- the identifier mapping given as third element of the entry: a Python `dict` as its item list
  (`RemapDef.Dict`, keys distinct); `none`: not given / `None`, the default mapping
  `identifier + '_' + qubits` is used -/
  mapping : Option RemapDef.Dict := none
  /-- `is_cached('control_matrix')`, bytes id / value id of the cached frequencies -/
  cmCached : Bool := false
  omegaBytes : Option Nat := none
  omegaValue : Option Nat := none
  /-- only looked at when `remap` is called for this entry: does the remapped pulse still have its
  frequencies / its control matrix cached?  (`remap` re-caches `omega` only together with total
  phases, a filter function or a control matrix, and a control matrix only for a Pauli basis:
  `keepsOmega = is_cached('total_phases') or is_cached('filter_function') or (is_cached(
  'control_matrix') and basis.btype == 'Pauli')`, `keepsCm = basis.btype == 'Pauli'`.) -/
  remapKeepsOmega : Bool := true
  remapKeepsCm : Bool := true
deriving DecidableEq, Repr, Inhabited

structure ExtendSpec where
  pulses : List EPulse
  N : Option Nat := none
  dPerQubit : Nat := 2
  /-- `additional_noise_Hamiltonian` -/
  additional : Option HamSpec := none
  cacheDiag : Option Bool := none
  cacheFF : Option Bool := none
  omegaGiven : Bool := false
deriving DecidableEq, Repr, Inhabited

/-- ascending sort of naturals (`sorted(qubit)`) -/
def insertNat (a : Nat) : List Nat → List Nat
  | [] => [a]
  | b :: bs => if a ≤ b then a :: b :: bs else b :: insertNat a bs
def sortNat : List Nat → List Nat
  | [] => []
  | a :: as => insertNat a (sortNat as)

/-- the entry goes to the single-qubit lists (`len(qubit) == 1`, or a bare int) -/
def EPulse.isSingle (p : EPulse) : Bool := p.form == .bareInt || p.qubits.length == 1

/-- `qubit == sorted_qubit` is false (a list never equals a tuple): `remap` is called -/
def EPulse.needsRemap (p : EPulse) : Bool := !(p.form == .tuple && sortNat p.qubits == p.qubits)

/-- `remap(pulse, order, d_per_qubit)` succeeds for a permutation `order` of `range(len(qubit))`:
`tensor_transpose` requires `sorted(order) == range(N)` with `N = logN`, the reshape to
`[d_per_qubit]*N` requires `d = d_per_qubit ** N`, and — since the repair of F48 — `remap` raises
`ValueError` when the identifiers (here: the pulse's own ones, no mapping is passed) are not unique
(`remapChecks` below; `extend_inner_remap_consistent` in `Props/C20`) -/
def EPulse.remapOk (p : EPulse) (dpq : Nat) : Bool :=
  p.qubits.length == p.logN && p.d == dpq ^ p.logN &&
    !Pulse.hasDup p.cIds && !Pulse.hasDup p.nIds

/-- `ValueError` raised inside the loop over the mapping entries -/
def EPulse.loopFails (p : EPulse) (dpq : Nat) : Bool :=
  !p.isSingle && (p.qubits.isEmpty || (p.needsRemap && !p.remapOk dpq))

/-- the entry's pulse is replaced by `remap(pulse, order)` -/
def EPulse.remapped (p : EPulse) : Bool := !p.isSingle && p.needsRemap

/-- cached frequencies (bytes id) / control matrix of the pulse that enters the checks -/
def EPulse.effOmegaBytes (p : EPulse) : Option Nat :=
  if p.remapped && !p.remapKeepsOmega then none else p.omegaBytes
def EPulse.effCm (p : EPulse) : Bool :=
  p.cmCached && !(p.remapped && !p.remapKeepsCm)

/-- `_map_identifiers(*_default_extend_mapping(ids, id_mapping, qubits))[0]`: the values of the
given mapping (`none`: an identifier is not a key — `ValueError`, F50), or of the default mapping
`{q: q + '_' + ('{}'*len(qubits)).format(*qubits) for q in ids}` (for a single-qubit entry
`q + '_{}'.format(qubit)`; multi-qubit entries carry the SORTED qubits) -/
def EPulse.mapIds (p : EPulse) (ids : List String) : Option (List String) :=
  match p.mapping with
  | some m => RemapDef.applyDict m ids
  | none =>
    let qs := if p.isSingle then p.qubits else sortNat p.qubits
    some (ids.map fun s => s ++ "_" ++ String.join (qs.map toString))

/-- one of the two `_map_identifiers` calls for this entry raises (`ValueError` "Identifier
mapping has no entry for identifier …"; a `KeyError` before the repair of F50) -/
def EPulse.keyMissing (p : EPulse) : Bool := (p.mapIds p.cIds).isNone || (p.mapIds p.nIds).isNone

/-- identifiers of the control / noise operators of the mapped pulse in the new pulse (`[]` when the
mapping misses a key; `extend` has raised then) -/
def EPulse.newCIds (p : EPulse) : List String := (p.mapIds p.cIds).getD []
def EPulse.newNIds (p : EPulse) : List String := (p.mapIds p.nIds).getD []

/-- the returns of `extend` "if not mapped to another qubit" (a single entry on its own qubits) -/
def identityShortcut (pulses : List EPulse) (N : Nat) : Bool :=
  match pulses with
  | [p] => if p.isSingle then N == 1 else N == p.qubits.length
  | _ => false

/-- the pulses in the order `multi_qubit_pulses + single_qubit_pulses` -/
def orderedPulses (x : ExtendSpec) : List EPulse :=
  x.pulses.filter (fun p => !p.isSingle) ++ x.pulses.filter (·.isSingle)

/-- `active_qubits_list` -/
def activeQubits (x : ExtendSpec) : List Nat := x.pulses.flatMap (·.qubits)

/-- `equal_omega`: all pulses have frequencies cached (an uncached `omega` raises
`AttributeError`, caught → `False`) with one byte string -/
def extEqualOmega (x : ExtendSpec) : Bool :=
  (orderedPulses x).all (·.effOmegaBytes.isSome) &&
    equalOmegaBytes ((orderedPulses x).map (·.effOmegaBytes))

/-- effective value of `cache_filter_function` after the automatic decision -/
def effCacheFF (x : ExtendSpec) : Bool :=
  match x.cacheFF with
  | some b => b
  | none => (orderedPulses x).all (·.effCm) && extEqualOmega x

/-- `len(pulses[0].dt)` -/
def extendNDt (x : ExtendSpec) : Nat := ((orderedPulses x).head?.map (·.nDt)).getD 0

/-- the control / noise identifiers of the mapped pulses in the new pulse (`c_oper_identifiers`,
`n_oper_identifiers` after the two loops) -/
def mappedCIds (x : ExtendSpec) : List String := (orderedPulses x).flatMap (·.newCIds)
def mappedNIds (x : ExtendSpec) : List String := (orderedPulses x).flatMap (·.newNIds)

/-- first part of `extend`: the checks of the mapping; returns the number of qubits `N` -/
def extendFront (x : ExtendSpec) : Except Err Nat :=
  -- `pulses, *args = zip_longest(*pulse_to_qubit_mapping)` with nothing to unpack
  if x.pulses.isEmpty then .error .valueError
  else if x.pulses.any (·.loopFails x.dPerQubit) then .error .valueError
  else if !((x.pulses.filter (·.isSingle)).all (·.d == x.dPerQubit)) then .error .valueError
  else if !((x.pulses.filter (fun p => !p.isSingle)).all fun p => p.d == x.dPerQubit ^ p.qubits.length)
    then .error .valueError
  else if nDistinct ((orderedPulses x).map (·.dtBytes)) != 1 then .error .valueError
  else if nDistinct (activeQubits x) != (activeQubits x).length then .error .valueError
  else
    let last := (activeQubits x).foldl max 0
    if (match x.N with | some n => decide (last + 1 > n) | none => false) then .error .valueError
    else .ok (x.N.getD (last + 1))

/-- second part of `extend`: frequencies, option conflict, the two loops over the pulses (a given
identifier mapping that misses an identifier raises `ValueError` there — F50, formerly the bare
`KeyError` of the look-up), uniqueness of the mapped
identifiers (control first, then noise; the repair of F48), additional noise Hamiltonian -/
def extendBack (x : ExtendSpec) (N : Nat) : Except Err Nat :=
  if x.cacheFF == some true && !x.omegaGiven && !extEqualOmega x then .error .valueError
  else if x.cacheDiag == some false && x.additional.isSome then .error .valueError
  -- `mapping[identifier]` in `_map_identifiers`, called in the loops over `multi_qubit_pulses`, then
  -- `single_qubit_pulses` (control identifiers first, then noise identifiers, per pulse)
  else if (orderedPulses x).any (·.keyMissing) then .error .valueError
  -- `if len(set(identifiers)) != len(identifiers): raise ValueError` for control, then noise
  else if Pulse.hasDup (mappedCIds x) then .error .valueError
  else if Pulse.hasDup (mappedNIds x) then .error .valueError
  else
    match x.additional with
    | none => .ok N
    | some H =>
      match parseHamiltonian H (extendNDt x) "B" with
      | .error e => .error e
      | .ok a =>
        if a.shape.drop 1 != [x.dPerQubit ^ N, x.dPerQubit ^ N] then .error .valueError
        else if a.ids.any (fun s => (mappedNIds x).contains s) then .error .valueError
        else .ok N

/-- the checks of `extend(pulse_to_qubit_mapping, N, d_per_qubit, additional_noise_Hamiltonian,
cache_diagonalization, cache_filter_function, omega)`; returns the number of qubits `N`.
Between the two parts sits the early return for a single pulse mapped onto its own qubits. -/
def extendChecks (x : ExtendSpec) : Except Err Nat :=
  match extendFront x with
  | .error e => .error e
  | .ok N => if identityShortcut x.pulses N then .ok N else extendBack x N

/-- `_map_identifiers(identifiers, mapping)[0]` in `remap`: the identifiers themselves for
`mapping is None`, else `[mapping[identifier] for …]` (`none`: a key is missing, `ValueError`) -/
def remapIds (mapping : Option RemapDef.Dict) (ids : List String) : Option (List String) :=
  match mapping with
  | none => some ids
  | some m => RemapDef.applyDict m ids

/-- the identifier part of `remap`: both `_map_identifiers` calls (control, then noise; a missing
key is a `ValueError` since the repair of F50),
then the uniqueness check of the repair of F48 (control, then noise; `ValueError`) -/
def remapIdChecks (cIds nIds : List String) (mapping : Option RemapDef.Dict) : Except Err Unit :=
  match remapIds mapping cIds with
  | none => .error .valueError
  | some c =>
    match remapIds mapping nIds with
    | none => .error .valueError
    | some n =>
      if Pulse.hasDup c then .error .valueError
      else if Pulse.hasDup n then .error .valueError
      else .ok ()

/-- the operator part of `remap`: `tensor_transpose(pulse.c_opers, order, [[d_per_qubit]*N]*2)`
(and the same for `n_opers`) with `N = logN` (the value NumPy computes for
`int(np.log(pulse.d)/np.log(d_per_qubit))`) — the order check of `Model/Tensor`, then the reshape
of the `d × d` operators to `[d_per_qubit]*N` per side; both failures are `ValueError`s. -/
def remapShapeChecks (d logN dPerQubit : Nat) (order : List Int) : Except Err Unit :=
  match Tensor.transposeResultInt (List.replicate logN dPerQubit) order with
  | .error e => .error (errOfString e)
  | .ok _ => if d != dPerQubit ^ logN then .error .valueError else .ok ()

/-- `remap(pulse, order, d_per_qubit, oper_identifier_mapping)` on its own: the two
`tensor_transpose` calls (`remapShapeChecks`), then the identifiers (`remapIdChecks`; `cIds` /
`nIds` are `pulse.c_oper_identifiers` / `pulse.n_oper_identifiers`). -/
def remapChecks (d logN dPerQubit : Nat) (order : List Int) (cIds nIds : List String := [])
    (mapping : Option RemapDef.Dict := none) : Except Err Unit :=
  match remapShapeChecks d logN dPerQubit order with
  | .error e => .error e
  | .ok _ => remapIdChecks cIds nIds mapping

/-! ### pulse-correlation quantities -/

inductive PcRequest
  /-- `pulse.get_pulse_correlation_filter_function(which)` -/
  | pcFF (w : Cache.Which)
  /-- `pulse.get_pulse_correlation_control_matrix()` -/
  | pcCM
  /-- `infidelity(pulse, S, omega, which='correlations')` for the grid `g`; `traceless` is
  `pulse.basis.istraceless` -/
  | infidelityCorr (g : Cache.Grid) (traceless : Bool)
  /-- `calculate_decay_amplitudes(pulse, S, omega, which='correlations')` for the grid `g` -/
  | decayAmpsCorr (g : Cache.Grid)
deriving DecidableEq, Repr

def ofRet : Cache.Ret → Except Err Unit
  | .calcError => .error .calculationError
  | .valueError => .error .valueError
  | _ => .ok ()

/-- is the requested pulse-correlation quantity served, and with which exception if not.
Grids are compared with `np.array_equal` (value ids, as in `Model/Cache`). -/
def pcAvailability (s : Cache.Obj) : PcRequest → Except Err Unit
  | .pcFF w => ofRet (Cache.getPcFF w s).2
  | .pcCM => ofRet (Cache.step s .getPcCM).2
  | .infidelityCorr g traceless =>
    if (match s.omega with | some h => h != g | none => false) then .error .valueError
    else if traceless then ofRet (Cache.getPcFF .fidelity s).2
    else ofRet (Cache.step s .getPcCM).2
  | .decayAmpsCorr g => ofRet (Cache.decayAmps g true false s).2

/-- `infidelity(…, which='correlations')`, traceless basis, a requested noise operator with a trace:
the identity component is subtracted with the pulse-correlation control matrix, so *that* must be
cached (only the filter function is left after `cleanup('greedy')`: `CalculationError`) -/
def pcInfidelityIdc (s : Cache.Obj) (g : Cache.Grid) : Except Err Unit :=
  if (match s.omega with | some h => h != g | none => false) then .error .valueError
  else if s.cmPc.isSome then .ok () else .error .calculationError

/-! ### smaller checks -/

/-- `get_filter_function_derivative`: after the identifiers were resolved to `nN` noise and `nC`
control operators, a given `n_coeffs_deriv` must have the shape `(nN, nC, len(pulse))` -/
def derivShapeCheck (nN nC nDt : Nat) (shape : Option (List Nat)) : Except Err Unit :=
  match shape with
  | some s => if s != [nN, nC, nDt] then .error .valueError else .ok ()
  | none => .ok ()

/-- the two argument `ValueError`s at the top of `calculate_cumulant_function` -/
def cumulantChecks (spectrumGiven omegaGiven decayGiven shiftsGiven secondOrder correlations : Bool) :
    Except Err Unit :=
  if !spectrumGiven && !omegaGiven && (!decayGiven || (!shiftsGiven && secondOrder)) then
    .error .valueError
  else if correlations && secondOrder then .error .valueError
  else .ok ()

/-- the `test_convergence=True` path of `infidelity` (after the identifiers were resolved):
`spectrum` must be callable, `omega` a dict, `omega['spacing']` one of `'linear'`, `'log'` -/
def convergenceChecks (spectrumCallable omegaIsDict spacingKnown : Bool) : Except Err Unit :=
  if !spectrumCallable then .error .typeError
  else if !omegaIsDict then .error .typeError
  else if !spacingKnown then .error .valueError
  else .ok ()

/-! ### driver component (requests `v_*`)

General: tokens are separated by single blanks and contain none.  Naturals are decimal.  Lists of
naturals / strings are joined by `,`; the empty list is `_`.  Identifiers must not contain any of
the characters blank `,` `;` `:` `|` `/` `+` `~` `>` and must not be `_`, `-` or `!`.
Answer: `ok …` or `err <TypeError|ValueError|IndexError|CalculationError>`;
`err bad-request` when the request cannot be decoded.

* shape   `2x2` (axes joined by `x`); the 0-d shape is `_`
* oper    `a<shape>` (ndarray), `q<shape>` (convertible: Qobj / sparse / qopt), `o` (anything else)
* item    `!` (not a list/tuple) or `<nFields>:<oper>:<coeff>:<ident>` with coeff `s<len>` (has
          `__len__`) or `n` (has none), ident `-` (`None`) or `=<identifier>`; all four parts are
          always present, parts at positions `≥ nFields` are ignored
* ham     `!` (not a list/tuple), `_` (empty list) or items joined by `;`
* dt      `!` (no `__len__`), `_` (empty) or classes joined by `,`: `p` (real, not `< 0`),
          `n` (real, `< 0`), `c` (not real)
* basis   `-` (not given), `!` (no attribute `btype`), `b<shape>`
* dict    an identifier mapping (encoding of `Model/RemapDef`): `-` (`None` / not given), `_` (the
          empty dict) or items `<key>><value>` joined by `,` (keys distinct)

Requests:
* `v_args <dt> <H_c> <H_n> <basis>` → `ok <d> <nDt> <control ids> <noise ids>` (ids in stored
  order)
* `v_ham <c|n> <nDt> <ham>` → `ok <stacked shape> <ids>`
* `v_opers <oper;oper;…|_>` → `ok <stacked shape>`
* `v_basis <arg> <labels>`: arg `!` (no `__getitem__`), `i<shape>` (Basis instance), `s<oper>`
  (single element with 2-d shape), `l<oper;oper;…>` / `l_`; labels `-` or `len(labels)`
  → `ok <shape>`
* `v_spectrum <ndim> <shape with , > <nIdx> <nOmega> <herm 0|1>` → `ok <shape with ,>`
  (`ndim` must be the number of axes; the 0-d shape is `_`)
* `v_ident <known> <requested | - (None)> [str]` → `ok <indices>`; with the fourth token `str` the
  third token is one bare string
* `v_option <func> <param> <value>`: `func` as in `Gen.options` (`module.qualname`), `value` is
  `repr(value)` with blanks replaced by `~` → `ok`
* `v_getitem <nDt> <start> <stop>` → `ok <number of segments>`
* `v_concat <pulse|pulse|…> <calcPc 0|1>,<calcFF -|0|1>,<omegaGiven 0|1>` with
  pulse = `<isPulse 0|1>,<d>,<basisBytes>,<basisValue>,<cmCached 0|1>,<omegaBytes|->,<omegaValue|->/<control ham>/<noise ham>`
  where the Hamiltonians use the encoding of `Model/Pulse` (`op:id:c1,c2;…`, empty `_`) → `ok`
* `v_concatp <isPulse 0|1>` → `ok`
* `v_extend <pulse|pulse|…|_> <N|-> <dPerQubit> <additional ham | - (None)> <cacheDiag -|0|1> <cacheFF -|0|1> <omegaGiven 0|1>`
  with pulse = `<flags>/<control ids>/<noise ids>/<dict>` where
  flags = `<d>,<logN>,<q+q+…|_>,<t|l|i>,<dtBytes>,<dtValue>,<nDt>,<cmCached 0|1>,<omegaBytes|->,<omegaValue|->,<remapKeepsOmega 0|1>,<remapKeepsCm 0|1>`
  (`t`/`l`/`i`: qubits written as tuple / list / bare int; `logN` is
  `int(np.log(pulse.d)/np.log(d_per_qubit))`; the two `remapKeeps…` flags are explained at
  `EPulse`; control / noise ids: `pulse.c_oper_identifiers` / `pulse.n_oper_identifiers`; dict: the
  identifier mapping of the entry) → `ok <N>`.
  OLD FORMAT, still accepted (three parts): pulse = `<flags>/<noise ids>/<mapped ids | ->` with the
  VALUES of the mapping on the noise identifiers; it is read as `<flags>/_/<noise ids>/<dict>` with
  the dict `noise id > mapped id` (zipped; no control identifiers).
* `v_remap <d> <logN> <dPerQubit> <order, integers joined by ,> [<control ids> <noise ids> <dict>]`
  → `ok` (the last three tokens may be left out together: no identifiers, no mapping)
* `v_pcidc <cache state> <g>`: `infidelity(which='correlations')`, traceless basis, a noise operator
  with a trace
* `v_pc <cache state as in the component cache> <pcff:f|pcff:g|pccm|infid:<g>:<traceless 0|1>|decay:<g>>`
  (`infid`: noise operators without a trace)
  → `ok`
* `v_deriv <nN> <nC> <nDt> <shape with , | ->` → `ok`
* `v_cumulant <spectrumGiven> <omegaGiven> <decayGiven> <shiftsGiven> <secondOrder> <correlations>`
  (each `0|1`) → `ok`
* `v_conv <spectrumCallable> <omegaIsDict> <spacingKnown>` (each `0|1`) → `ok`
-/

section Driver

def pB (s : String) : Option Bool := if s == "1" then some true else if s == "0" then some false else none

def pList {α : Type} (sep : String) (f : String → Option α) (s : String) : Option (List α) :=
  if s == "_" || s == "" then some [] else (s.splitOn sep).mapM f

def pNats (s : String) : Option (List Nat) := pList "," (·.toNat?) s
def pStrs (s : String) : Option (List String) := pList "," some s
def pShape (s : String) : Option (List Nat) := pList "x" (·.toNat?) s

def pOptNat (s : String) : Option (Option Nat) := if s == "-" then some none else s.toNat?.map some
def pOptBool (s : String) : Option (Option Bool) := if s == "-" then some none else (pB s).map some

def tailStr (s : String) : String := String.ofList (s.toList.drop 1)

def pOper (s : String) : Option OperSpec :=
  if s == "o" then some .other
  else if s.startsWith "a" then (pShape (tailStr s)).map .array
  else if s.startsWith "q" then (pShape (tailStr s)).map .convertible
  else none

def pCoeff (s : String) : Option CoeffSpec :=
  if s == "n" then some .noLen
  else if s.startsWith "s" then (tailStr s).toNat?.map .seq else none

def pItem (s : String) : Option ItemSpec :=
  if s == "!" then some { isList := false } else
  match s.splitOn ":" with
  | [n, o, c, i] => do
    let n ← n.toNat?
    let o ← pOper o
    let c ← pCoeff c
    let i ← (if i == "-" then some none else if i.startsWith "=" then some (some (tailStr i)) else none)
    pure { isList := true, nFields := n, oper := o, coeff := c, ident := i }
  | _ => none

def pHam (s : String) : Option HamSpec :=
  if s == "!" then some .notList else (pList ";" pItem s).map .list

def pDt (s : String) : Option DtSpec :=
  if s == "!" then some .noLen else
  (pList "," (fun t => if t == "p" then some DtElem.nonneg else if t == "n" then some .neg
    else if t == "c" then some .complex else none) s).map .seq

def pBasis (s : String) : Option (Option BasisSpec) :=
  if s == "-" then some none else if s == "!" then some (some .notBasis)
  else if s.startsWith "b" then (pShape (tailStr s)).map fun sh => some (.basis sh) else none

def showL {α : Type} (sep : String) (f : α → String) (l : List α) : String :=
  if l.isEmpty then "_" else sep.intercalate (l.map f)

def showShape (l : List Nat) : String := showL "x" toString l
def showStrs (l : List String) : String := showL "," id l
def showNats (l : List Nat) : String := showL "," toString l

def answer {α : Type} (f : α → String) : Except Err α → String
  | .ok a => let s := f a; if s.isEmpty then "ok" else "ok " ++ s
  | .error e => "err " ++ e.name

def pCPulse (s : String) : Option CPulse :=
  match s.splitOn "/" with
  | [fl, c, n] =>
    match fl.splitOn "," with
    | [ip, d, bb, bv, cm, ob, ov] => do
      pure { isPulse := ← pB ip, d := ← d.toNat?, basisBytes := ← bb.toNat?, basisValue := ← bv.toNat?,
             cTerms := ← Pulse.parseHam c, nTerms := ← Pulse.parseHam n, cmCached := ← pB cm,
             omegaBytes := ← pOptNat ob, omegaValue := ← pOptNat ov }
    | _ => none
  | _ => none

def pForm (s : String) : Option QubitForm :=
  if s == "t" then some .tuple else if s == "l" then some .list
  else if s == "i" then some .bareInt else none

def pEFlags (fl : String) (cIds nIds : List String) (mapping : Option RemapDef.Dict) :
    Option EPulse :=
  match fl.splitOn "," with
  | [d, ln, qs, fm, db, dv, nd, cm, ob, ov, ko, kc] => do
    pure { d := ← d.toNat?, logN := ← ln.toNat?, qubits := ← pList "+" (·.toNat?) qs,
           form := ← pForm fm, dtBytes := ← db.toNat?, dtValue := ← dv.toNat?, nDt := ← nd.toNat?,
           cIds := cIds, nIds := nIds, mapping := mapping,
           cmCached := ← pB cm, omegaBytes := ← pOptNat ob, omegaValue := ← pOptNat ov,
           remapKeepsOmega := ← pB ko, remapKeepsCm := ← pB kc }
  | _ => none

def pEPulse (s : String) : Option EPulse :=
  match s.splitOn "/" with
  | [fl, cids, nids, dict] => do
    pEFlags fl (← pStrs cids) (← pStrs nids) (← RemapDef.parseDict dict)
  -- old format: the values of the mapping on the noise identifiers
  | [fl, ids, mp] => do
    let nIds ← pStrs ids
    let mapping ← (if mp == "-" then some none else (pStrs mp).map fun l => some (nIds.zip l))
    pEFlags fl [] nIds mapping
  | _ => none

def pPcRequest (s : String) : Option PcRequest :=
  match s.splitOn ":" with
  | ["pcff", w] => some (.pcFF (Cache.parseWhich w))
  | ["pccm"] => some .pcCM
  | ["infid", g, tl] => do pure (.infidelityCorr (← g.toNat?) (← pB tl))
  | ["decay", g] => do pure (.decayAmpsCorr (← g.toNat?))
  | _ => none

def handleValidate (toks : List String) : Option String :=
  let run (r : Option String) : Option String := some (r.getD "err bad-request")
  match toks with
  | ["v_args", dt, hc, hn, b] => run do
    let x : ArgsSpec := { dt := ← pDt dt, Hc := ← pHam hc, Hn := ← pHam hn, basis := ← pBasis b }
    pure (answer (fun p => toString p.d ++ " " ++ toString p.nDt ++ " " ++ showStrs p.cIds ++ " " ++
      showStrs p.nIds) (parseArgs x))
  | ["v_ham", k, nDt, h] => run do
    let pre ← (if k == "c" then some "A" else if k == "n" then some "B" else none)
    pure (answer (fun p => showShape p.shape ++ " " ++ showStrs p.ids)
      (parseHamiltonian (← pHam h) (← nDt.toNat?) pre))
  | ["v_opers", os] => run do
    pure (answer showShape (parseOperators (← pList ";" pOper os)))
  | ["v_basis", a, lb] => run do
    let arg ← (if a == "!" then some BasisArg.noGetitem
      else if a.startsWith "i" then (pShape (tailStr a)).map .inst
      else if a.startsWith "s" then (pOper (tailStr a)).map .single
      else if a.startsWith "l" then (pList ";" pOper (tailStr a)).map .elems else none)
    pure (answer showShape (basisNew arg (← pOptNat lb)))
  | ["v_spectrum", ndim, shape, nIdx, nOmega, herm] => run do
    let sh ← pNats shape
    if sh.length != (← ndim.toNat?) then none
    pure (answer showNats (parseSpectrum sh (← nIdx.toNat?) (← nOmega.toNat?) (← pB herm)))
  | ["v_ident", known, req] => run do
    let r ← (if req == "-" then some Requested.all else (pStrs req).map .many)
    pure (answer showNats (indicesFromIdentifiers (← pStrs known) r))
  | ["v_ident", known, req, "str"] => run do
    pure (answer showNats (indicesFromIdentifiers (← pStrs known) (.single req)))
  | ["v_option", func, param, value] =>
    some (answer (fun _ => "") (optionsOk func param (value.replace "~" " ")))
  | ["v_getitem", nDt, a, b] => run do
    pure (answer toString (getitemCheck (← nDt.toNat?) (← a.toNat?) (← b.toNat?)))
  | ["v_concat", ps, opts] => run do
    let ps ← pList "|" pCPulse ps
    match opts.splitOn "," with
    | [pc, ff, om] =>
      pure (answer (fun _ => "") (concatChecks ps
        { calcPc := ← pB pc, calcFF := ← pOptBool ff, omegaGiven := ← pB om }))
    | _ => none
  | ["v_concatp", ip] => run do pure (answer (fun _ => "") (concatPeriodicCheck (← pB ip)))
  | ["v_extend", ps, n, dpq, add, cd, cf, om] => run do
    let x : ExtendSpec := {
      pulses := ← pList "|" pEPulse ps, N := ← pOptNat n, dPerQubit := ← dpq.toNat?,
      additional := ← (if add == "-" then some none else (pHam add).map some),
      cacheDiag := ← pOptBool cd, cacheFF := ← pOptBool cf, omegaGiven := ← pB om }
    pure (answer toString (extendChecks x))
  | ["v_remap", d, ln, dpq, order] => run do
    pure (answer (fun _ => "") (remapChecks (← d.toNat?) (← ln.toNat?) (← dpq.toNat?)
      (← pList "," (·.toInt?) order)))
  | ["v_remap", d, ln, dpq, order, cids, nids, dict] => run do
    pure (answer (fun _ => "") (remapChecks (← d.toNat?) (← ln.toNat?) (← dpq.toNat?)
      (← pList "," (·.toInt?) order) (← pStrs cids) (← pStrs nids) (← RemapDef.parseDict dict)))
  | ["v_pcidc", st, g] => run do
    pure (answer (fun _ => "") (pcInfidelityIdc (Cache.Obj.parse (st.splitOn ",")) (← g.toNat?)))
  | ["v_pc", st, req] => run do
    pure (answer (fun _ => "") (pcAvailability (Cache.Obj.parse (st.splitOn ",")) (← pPcRequest req)))
  | ["v_deriv", nN, nC, nDt, shape] => run do
    let sh ← (if shape == "-" then some none else (pNats shape).map some)
    pure (answer (fun _ => "") (derivShapeCheck (← nN.toNat?) (← nC.toNat?) (← nDt.toNat?) sh))
  | ["v_cumulant", a, b, c, d, e, f] => run do
    pure (answer (fun _ => "") (cumulantChecks (← pB a) (← pB b) (← pB c) (← pB d) (← pB e) (← pB f)))
  | ["v_conv", a, b, c] => run do
    pure (answer (fun _ => "") (convergenceChecks (← pB a) (← pB b) (← pB c)))
  | _ => none

end Driver

end FFVerif.Model.Validate
