/-
Model of ALL value branches of `numeric._get_integrand` and of the path selection of its callers
`numeric.calculate_decay_amplitudes` / `numeric.infidelity` (Mathlib-free, executable at IEEE
doubles, reasoned about at ℝ/ℂ in `FFVerif/Props/C08Integrand.lean`).

    def _get_integrand(spectrum, omega, idx, which_pulse, which_FF,
                       control_matrix=None, filter_function=None):
        if control_matrix is not None:
            funs = (np.conj, lambda x: x)
            if isinstance(control_matrix, (list, tuple)):
                ctrl_left, ctrl_right = [f(c) for f, c in zip(funs, control_matrix)]
            else:
                ctrl_left, ctrl_right = [f(r) for f, r in zip(funs, [control_matrix]*2)]
        else:
            if which_FF == 'generalized':
                filter_function = np.moveaxis(filter_function, source=[-5, -4], destination=[-3, -2])
        spectrum = util.parse_spectrum(spectrum, omega, idx)
        if spectrum.ndim in (1, 2):
            if filter_function is not None:
                integrand = (filter_function[..., tuple(idx), tuple(idx), :]*spectrum)
                if which_FF == 'generalized':
                    integrand = np.moveaxis(integrand, source=-2, destination=-4)
            else:
                einsum_str = {(correlations, fidelity):   'g...ko,...o,h...ko->gh...o',
                              (correlations, generalized):'g...ko,...o,h...lo->gh...klo',
                              (total, fidelity):          '...ko,...o,...ko->...o',
                              (total, generalized):       '...ko,...o,...lo->...klo'}
                integrand = np.einsum(einsum_str, ctrl_left[..., idx, :, :], spectrum,
                                      ctrl_right[..., idx, :, :])
        else:
            if filter_function is not None:
                integrand = filter_function[..., idx[:, None], idx, :]*spectrum
                if which_FF == 'generalized':
                    integrand = np.moveaxis(integrand, source=[-3, -2], destination=[-5, -4])
            else:
                einsum_str = {(correlations, fidelity):   'gako,abo,hbko->ghabo',
                              (correlations, generalized):'gako,abo,hblo->ghabklo',
                              (total, fidelity):          'ako,abo,bko->abo',
                              (total, generalized):       'ako,abo,blo->abklo'}
                integrand = np.einsum(…same operands…)
        return integrand.real

Layout of this file
* the eight CONTROL-MATRIX branches (`cmIntegrand…`), each through the generated contraction of its
  literal einsum string (`Gen.numeric__get_integrand_0 … 7`; the ellipsis instances `_e1`, `...` :=
  the noise-operator axis, are the ones the documented shapes select); the two
  `('total', 'generalized')` branches are the existing `Model.integrandGenLR` / `integrandGen3LR`;
* the eight FILTER-FUNCTION branches (`ffIntegrand…`); `which_pulse` is not looked at on this path —
  the leading pulse axes of a pulse-correlation filter function ride along in the ellipsis, which is
  what the `Vector.map (Vector.map …)` of the `…Corr…` versions says; the two
  `('total', 'generalized')` branches are the existing `Model.integrandFF2` / `integrandFF3`;
* `IntegrandCall` / `Integrand` / `getIntegrand`: one well-shaped call of `_get_integrand` (which
  source, which `which_pulse`, `which_FF`), its result, and the dispatcher with the `if` structure of
  the Python;
* the callers: the filter-function path and the memory-parsimonious loop of
  `calculate_decay_amplitudes` for `which='total'` and `which='correlations'`, the control-matrix
  path for `which='correlations'` (for `which='total'` it is in `Model/Cumulant.lean`), the
  selection between them (`decayAmplitudesSel…`), and the tail of `infidelity` through
  `_get_integrand(…, 'fidelity', filter_function=…)`;
* the driver component.
The SAME function on arbitrary argument shapes, with the exception classes (what is raised when
neither / both sources are given, when the spectrum or an operand does not fit), is modelled at the
level of shapes in `Model/IntegrandShape.lean` (`IntegrandShape.integrandShape`).

A one-dimensional spectrum `(n_omega,)` is left one-dimensional by `parse_spectrum`; in the einsum
its (empty) ellipsis broadcasts against the noise-operator axis, in the filter-function branch the
product `…*spectrum` broadcasts: both are the two-dimensional case with the spectrum replicated
along the noise-operator axis (`Spectrum.one`).
-/
import FFVerif.Core.Mat
import FFVerif.Gen.Einsum
import FFVerif.Gen.Constants
import FFVerif.Model.Proto
import FFVerif.Model.Numeric
import FFVerif.Model.Cumulant
import FFVerif.Model.SecondOrder
import FFVerif.Model.Shifts
import FFVerif.Model.Concat

namespace FFVerif.Model
open FFVerif

section
variable {R K : Type}
  [Zero R] [One R] [Add R] [Mul R] [Neg R] [Sub R] [Div R] [NatCast R] [RealOps R]
  [Zero K] [One K] [Add K] [Mul K] [Neg K] [Sub K] [Div K] [CplxOps R K]

/-! ### small array operations -/

/-- `.real` on arrays of rank 2 … 5 -/
def re2 {a b : Nat} (x : Mat K a b) : Mat R a b := Vector.map (Vector.map CplxOps.re) x
def re3 {a b c : Nat} (x : Ten3 K a b c) : Ten3 R a b c := Vector.map re2 x
def re4 {a b c d : Nat} (x : Ten4 K a b c d) : Ten4 R a b c d := Vector.map re3 x
def re5 {a b c d e : Nat} (x : Ten5 K a b c d e) : Ten5 R a b c d e := Vector.map re4 x

/-- `control_matrix.conj()` / `np.conj(c)` on a rank-4 (pulse-correlation) control matrix -/
def conj4 {g a b c : Nat} (B : Vector (Ten3 K a b c) g) : Vector (Ten3 K a b c) g :=
  Vector.map conj3 B

/-- `ctrl[..., idx, :, :]` on a rank-4 (pulse-correlation) control matrix: fancy indexing of
axis `-3` -/
def selectOpsPc {G nA m N nO : Nat} (idx : Vec (Fin nA) m) (B : Vector (Ten3 K nA N nO) G) :
    Vector (Ten3 K m N nO) G :=
  Vector.map (selectRowsC idx) B

/-- broadcasting of a one-dimensional spectrum along the noise-operator axis -/
def replicateSpectrum {m nO : Nat} (S : Vec K nO) : Mat K m nO := Vector.ofFn fun _ => S

/-! ### control-matrix branches (`control_matrix is not None`)

`Bl`, `Br` are the entries of `control_matrix` when it is a list / tuple (`[left, right]`); a single
array `B` is `[B]*2`, i.e. `Bl = Br = B`.  `ctrl_left = np.conj(Bl)`, `ctrl_right = Br`. -/

/-- `('total', 'fidelity')`, `spectrum.ndim ∈ (1, 2)`:
`einsum('...ko,...o,...ko->...o', ctrl_left[..., idx, :, :], S, ctrl_right[..., idx, :, :]).real` -/
def cmIntegrandTotalFid2 {nA m N nO : Nat} (Bl Br : Ten3 K nA N nO) (idx : Vec (Fin nA) m)
    (S : Mat K m nO) : Mat R m nO :=
  re2 (Gen.numeric__get_integrand_2_e1 (selectRowsC idx (conj3 Bl)) S (selectRowsC idx Br))

/-- `('total', 'generalized')`, `spectrum.ndim ∈ (1, 2)`: `'...ko,...o,...lo->...klo'`
(`Model.integrandGenLR` of `Model/Cumulant.lean` on the selected rows). -/
def cmIntegrandTotalGen2 {nA m Nl N nO : Nat} (Bl : Ten3 K nA Nl nO) (Br : Ten3 K nA N nO)
    (idx : Vec (Fin nA) m) (S : Mat K m nO) : Ten4 R m Nl N nO :=
  integrandGenLR (selectRowsC idx Bl) (selectRowsC idx Br) S

/-- `('total', 'fidelity')`, `spectrum.ndim == 3`: `'ako,abo,bko->abo'` -/
def cmIntegrandTotalFid3 {nA m N nO : Nat} (Bl Br : Ten3 K nA N nO) (idx : Vec (Fin nA) m)
    (S : Ten3 K m m nO) : Ten3 R m m nO :=
  re3 (Gen.numeric__get_integrand_6 (selectRowsC idx (conj3 Bl)) S (selectRowsC idx Br))

/-- `('total', 'generalized')`, `spectrum.ndim == 3`: `'ako,abo,blo->abklo'`
(`Model.integrandGen3LR`). -/
def cmIntegrandTotalGen3 {nA m Nl N nO : Nat} (Bl : Ten3 K nA Nl nO) (Br : Ten3 K nA N nO)
    (idx : Vec (Fin nA) m) (S : Ten3 K m m nO) : Ten5 R m m Nl N nO :=
  integrandGen3LR (selectRowsC idx Bl) (selectRowsC idx Br) S

/-- `('correlations', 'fidelity')`, `spectrum.ndim ∈ (1, 2)`: `'g...ko,...o,h...ko->gh...o'`,
shape `(G, G, len(idx), n_omega)` -/
def cmIntegrandCorrFid2 {G nA m N nO : Nat} (Bl Br : Vector (Ten3 K nA N nO) G)
    (idx : Vec (Fin nA) m) (S : Mat K m nO) : Vector (Vector (Mat R m nO) G) G :=
  Vector.map (Vector.map re2)
    (Gen.numeric__get_integrand_0_e1 (selectOpsPc idx (conj4 Bl)) S (selectOpsPc idx Br))

/-- `('correlations', 'generalized')`, `spectrum.ndim ∈ (1, 2)`: `'g...ko,...o,h...lo->gh...klo'`,
shape `(G, G, len(idx), Nl, N, n_omega)` -/
def cmIntegrandCorrGen2 {G nA m Nl N nO : Nat} (Bl : Vector (Ten3 K nA Nl nO) G)
    (Br : Vector (Ten3 K nA N nO) G) (idx : Vec (Fin nA) m) (S : Mat K m nO) :
    Vector (Vector (Ten4 R m Nl N nO) G) G :=
  Vector.map (Vector.map re4)
    (Gen.numeric__get_integrand_1_e1 (selectOpsPc idx (conj4 Bl)) S (selectOpsPc idx Br))

/-- `('correlations', 'fidelity')`, `spectrum.ndim == 3`: `'gako,abo,hbko->ghabo'` -/
def cmIntegrandCorrFid3 {G nA m N nO : Nat} (Bl Br : Vector (Ten3 K nA N nO) G)
    (idx : Vec (Fin nA) m) (S : Ten3 K m m nO) : Vector (Vector (Ten3 R m m nO) G) G :=
  Vector.map (Vector.map re3)
    (Gen.numeric__get_integrand_4 (selectOpsPc idx (conj4 Bl)) S (selectOpsPc idx Br))

/-- `('correlations', 'generalized')`, `spectrum.ndim == 3`: `'gako,abo,hblo->ghabklo'` -/
def cmIntegrandCorrGen3 {G nA m Nl N nO : Nat} (Bl : Vector (Ten3 K nA Nl nO) G)
    (Br : Vector (Ten3 K nA N nO) G) (idx : Vec (Fin nA) m) (S : Ten3 K m m nO) :
    Vector (Vector (Ten5 R m m Nl N nO) G) G :=
  Vector.map (Vector.map re5)
    (Gen.numeric__get_integrand_5 (selectOpsPc idx (conj4 Bl)) S (selectOpsPc idx Br))

/-! ### filter-function branches (`control_matrix is None`, `filter_function is not None`) -/

/-- `which_FF == 'fidelity'`, `spectrum.ndim ∈ (1, 2)`:
`(filter_function[..., tuple(idx), tuple(idx), :]*spectrum).real` (two equal index tuples pick the
DIAGONAL pairs `(idx[a], idx[a])`), shape `(len(idx), n_omega)`. -/
def ffIntegrandFid2 {nA m nO : Nat} (F : Ten3 K nA nA nO) (idx : Vec (Fin nA) m) (S : Mat K m nO) :
    Mat R m nO :=
  re2 (Vector.ofFn fun a => Vector.ofFn fun o => F[idx[a]][idx[a]][o] * S[a][o] : Mat K m nO)

/-- `which_FF == 'fidelity'`, `spectrum.ndim == 3`:
`(filter_function[..., idx[:, None], idx, :]*spectrum).real`, shape `(len(idx), len(idx), n_omega)` -/
def ffIntegrandFid3 {nA m nO : Nat} (F : Ten3 K nA nA nO) (idx : Vec (Fin nA) m)
    (S : Ten3 K m m nO) : Ten3 R m m nO :=
  re3 (Vector.ofFn fun a => Vector.ofFn fun b => Vector.ofFn fun o =>
    F[idx[a]][idx[b]][o] * S[a][b][o] : Ten3 K m m nO)

/-- `which_FF == 'generalized'`, `spectrum.ndim ∈ (1, 2)` (`Model.integrandFF2` of
`Model/Shifts.lean`: `moveaxis`, diagonal pairs times spectrum, `moveaxis` back, `.real`) -/
def ffIntegrandGen2 {nA m Nl N nO : Nat} (F : Ten5 K nA nA Nl N nO) (idx : Vec (Fin nA) m)
    (S : Mat K m nO) : Ten4 R m Nl N nO :=
  integrandFF2 F idx S

/-- `which_FF == 'generalized'`, `spectrum.ndim == 3` (`Model.integrandFF3`) -/
def ffIntegrandGen3 {nA m Nl N nO : Nat} (F : Ten5 K nA nA Nl N nO) (idx : Vec (Fin nA) m)
    (S : Ten3 K m m nO) : Ten5 R m m Nl N nO :=
  integrandFF3 F idx S

/-- pulse-correlation filter function, `'fidelity'`, shape `(G, G, n_nops, n_nops, n_omega)`: the two
leading axes are covered by the `...` of `filter_function[..., tuple(idx), tuple(idx), :]` -/
def ffIntegrandCorrFid2 {G nA m nO : Nat} (F : Vector (Vector (Ten3 K nA nA nO) G) G)
    (idx : Vec (Fin nA) m) (S : Mat K m nO) : Vector (Vector (Mat R m nO) G) G :=
  Vector.map (Vector.map fun Fgh => ffIntegrandFid2 Fgh idx S) F

def ffIntegrandCorrFid3 {G nA m nO : Nat} (F : Vector (Vector (Ten3 K nA nA nO) G) G)
    (idx : Vec (Fin nA) m) (S : Ten3 K m m nO) : Vector (Vector (Ten3 R m m nO) G) G :=
  Vector.map (Vector.map fun Fgh => ffIntegrandFid3 Fgh idx S) F

/-- pulse-correlation filter function, `'generalized'`, shape
`(G, G, n_nops, n_nops, Nl, N, n_omega)`: `np.moveaxis(…, [-5, -4], [-3, -2])`,
`[..., tuple(idx), tuple(idx), :]`, `np.moveaxis(…, -2, -4)` all leave the two leading axes alone -/
def ffIntegrandCorrGen2 {G nA m Nl N nO : Nat} (F : Vector (Vector (Ten5 K nA nA Nl N nO) G) G)
    (idx : Vec (Fin nA) m) (S : Mat K m nO) : Vector (Vector (Ten4 R m Nl N nO) G) G :=
  Vector.map (Vector.map fun Fgh => ffIntegrandGen2 Fgh idx S) F

def ffIntegrandCorrGen3 {G nA m Nl N nO : Nat} (F : Vector (Vector (Ten5 K nA nA Nl N nO) G) G)
    (idx : Vec (Fin nA) m) (S : Ten3 K m m nO) : Vector (Vector (Ten5 R m m Nl N nO) G) G :=
  Vector.map (Vector.map fun Fgh => ffIntegrandGen3 Fgh idx S) F

/-! ### one call of `_get_integrand` -/

/-- the PARSED spectrum (`util.parse_spectrum` only broadcasts and checks) -/
inductive Spectrum (K : Type) (m nO : Nat)
  /-- `spectrum.ndim == 1`, shape `(n_omega,)` -/
  | one (S : Vec K nO)
  /-- `spectrum.ndim == 2`, shape `(len(idx), n_omega)` -/
  | perOp (S : Mat K m nO)
  /-- `spectrum.ndim == 3`, shape `(len(idx), len(idx), n_omega)` -/
  | cross (S : Ten3 K m m nO)

def Spectrum.ndim {K : Type} {m nO : Nat} : Spectrum K m nO → Nat
  | .one _ => 1
  | .perOp _ => 2
  | .cross _ => 3

/-- A call `_get_integrand(spectrum, omega, idx, which_pulse, which_FF, control_matrix=…,
filter_function=…)` with exactly one of the two sources, of the shape documented for
(`which_pulse`, `which_FF`).  (What happens for other argument combinations is the subject of
`IntegrandShape.integrandShape`, `Model/IntegrandShape.lean`.) -/
inductive IntegrandCall (K : Type) (G nA Nl N nO : Nat)
  /-- `('total', 'fidelity', control_matrix=[Bl, Br])`; a single array `B` is `Bl = Br = B` -/
  | cmTotalFid (Bl Br : Ten3 K nA N nO)
  /-- `('total', 'generalized', control_matrix=[Bl, Br])` -/
  | cmTotalGen (Bl : Ten3 K nA Nl nO) (Br : Ten3 K nA N nO)
  /-- `('correlations', 'fidelity', control_matrix=[Bl, Br])` -/
  | cmCorrFid (Bl Br : Vector (Ten3 K nA N nO) G)
  /-- `('correlations', 'generalized', control_matrix=[Bl, Br])` -/
  | cmCorrGen (Bl : Vector (Ten3 K nA Nl nO) G) (Br : Vector (Ten3 K nA N nO) G)
  /-- `('total', 'fidelity', filter_function=F)` -/
  | ffTotalFid (F : Ten3 K nA nA nO)
  /-- `('total', 'generalized', filter_function=F)` -/
  | ffTotalGen (F : Ten5 K nA nA Nl N nO)
  /-- `('correlations', 'fidelity', filter_function=F)` -/
  | ffCorrFid (F : Vector (Vector (Ten3 K nA nA nO) G) G)
  /-- `('correlations', 'generalized', filter_function=F)` -/
  | ffCorrGen (F : Vector (Vector (Ten5 K nA nA Nl N nO) G) G)

/-- the integrand returned: shape `([G, G,] len(idx), [len(idx),] [Nl, N,] n_omega)` -/
inductive Integrand (R : Type) (G m Nl N nO : Nat)
  | totalFid2 (I : Mat R m nO)
  | totalGen2 (I : Ten4 R m Nl N nO)
  | totalFid3 (I : Ten3 R m m nO)
  | totalGen3 (I : Ten5 R m m Nl N nO)
  | corrFid2 (I : Vector (Vector (Mat R m nO) G) G)
  | corrGen2 (I : Vector (Vector (Ten4 R m Nl N nO) G) G)
  | corrFid3 (I : Vector (Vector (Ten3 R m m nO) G) G)
  | corrGen3 (I : Vector (Vector (Ten5 R m m Nl N nO) G) G)

/-- `spectrum.ndim in (1, 2)` -/
def getIntegrand2 {G nA m Nl N nO : Nat} (idx : Vec (Fin nA) m) (S : Mat K m nO) :
    IntegrandCall K G nA Nl N nO → Integrand R G m Nl N nO
  -- `if filter_function is not None:` (`which_pulse` is not looked at)
  | .ffTotalFid F => .totalFid2 (ffIntegrandFid2 F idx S)
  | .ffTotalGen F => .totalGen2 (ffIntegrandGen2 F idx S)
  | .ffCorrFid F => .corrFid2 (ffIntegrandCorrFid2 F idx S)
  | .ffCorrGen F => .corrGen2 (ffIntegrandCorrGen2 F idx S)
  -- `else:` the einsum string is chosen by (`which_pulse`, `which_FF`)
  | .cmCorrFid Bl Br => .corrFid2 (cmIntegrandCorrFid2 Bl Br idx S)
  | .cmCorrGen Bl Br => .corrGen2 (cmIntegrandCorrGen2 Bl Br idx S)
  | .cmTotalFid Bl Br => .totalFid2 (cmIntegrandTotalFid2 Bl Br idx S)
  | .cmTotalGen Bl Br => .totalGen2 (cmIntegrandTotalGen2 Bl Br idx S)

/-- `spectrum.ndim == 3` -/
def getIntegrand3 {G nA m Nl N nO : Nat} (idx : Vec (Fin nA) m) (S : Ten3 K m m nO) :
    IntegrandCall K G nA Nl N nO → Integrand R G m Nl N nO
  | .ffTotalFid F => .totalFid3 (ffIntegrandFid3 F idx S)
  | .ffTotalGen F => .totalGen3 (ffIntegrandGen3 F idx S)
  | .ffCorrFid F => .corrFid3 (ffIntegrandCorrFid3 F idx S)
  | .ffCorrGen F => .corrGen3 (ffIntegrandCorrGen3 F idx S)
  | .cmCorrFid Bl Br => .corrFid3 (cmIntegrandCorrFid3 Bl Br idx S)
  | .cmCorrGen Bl Br => .corrGen3 (cmIntegrandCorrGen3 Bl Br idx S)
  | .cmTotalFid Bl Br => .totalFid3 (cmIntegrandTotalFid3 Bl Br idx S)
  | .cmTotalGen Bl Br => .totalGen3 (cmIntegrandTotalGen3 Bl Br idx S)

/-- `_get_integrand` on a parsed spectrum -/
def getIntegrand {G nA m Nl N nO : Nat} (idx : Vec (Fin nA) m) (S : Spectrum K m nO)
    (c : IntegrandCall K G nA Nl N nO) : Integrand R G m Nl N nO :=
  match S with
  | .one s => getIntegrand2 idx (replicateSpectrum s) c
  | .perOp s => getIntegrand2 idx s c
  | .cross s => getIntegrand3 idx s c

/-- the filter function the package computes from a control matrix for the same (`which_pulse`,
`which_FF`): `numeric.calculate_filter_function` / `calculate_pulse_correlation_filter_function`
(`PulseSequence.get_filter_function`, `get_pulse_correlation_filter_function`).  For a call that
already is on the filter-function path: itself. -/
def IntegrandCall.viaFilterFunction {G nA N nO : Nat} :
    IntegrandCall K G nA N N nO → IntegrandCall K G nA N N nO
  | .cmTotalFid _ Br => .ffTotalFid (filterFunctionFid Br)
  | .cmTotalGen _ Br => .ffTotalGen (filterFunctionGen Br)
  | .cmCorrFid _ Br => .ffCorrFid (pulseCorrelationFFFid Br)
  | .cmCorrGen _ Br => .ffCorrGen (pulseCorrelationFFGen Br)
  | c => c

/-- a call with a single control matrix (`control_matrix=B`, i.e. `[B]*2`) -/
def IntegrandCall.IsSingle {G nA N nO : Nat} : IntegrandCall K G nA N N nO → Prop
  | .cmTotalFid Bl Br => Bl = Br
  | .cmTotalGen Bl Br => Bl = Br
  | .cmCorrFid Bl Br => Bl = Br
  | .cmCorrGen Bl Br => Bl = Br
  | _ => True

/-! ### `calculate_decay_amplitudes`: the remaining paths

`Model/Cumulant.lean` has the control-matrix path for `which='total'` (`decayAmplitudes2/3`,
`decayAmplitudes2Pars/3Pars`).  Here: the filter-function path (`pulse.is_cached(
'filter_function_gen')` resp. `'filter_function_pc_gen'`), `which='correlations'`, the loops, and
the selection. -/

/-- `util.integrate(integrand, omega)/(2*np.pi)` on one line of the last axis -/
def integ {nO : Nat} (omega : Vec R nO) (f : Vec R nO) : R := integrateR omega f / twoPi

/-- `util.integrate(integrand, omega)/(2*np.pi)` for an integrand of shape `(m, Nl, N, n_omega)` -/
def integ4 {m Nl N nO : Nat} (omega : Vec R nO) (I : Ten4 R m Nl N nO) : Ten3 R m Nl N :=
  Vector.map (Vector.map (Vector.map (integ omega))) I

/-- the same for shape `(m, m, Nl, N, n_omega)` -/
def integ5 {m Nl N nO : Nat} (omega : Vec R nO) (I : Ten5 R m m Nl N nO) : Ten4 R m m Nl N :=
  Vector.map (integ4 omega) I

/-- `control_matrix[..., k:k+1, :]` -/
def sliceCM {nA N nO : Nat} (k : Fin N) (B : Ten3 K nA N nO) : Ten3 K nA 1 nO :=
  Vector.map (fun Ba => (#v[Ba[k]] : Mat K 1 nO)) B

/-- `filter_function[..., k:k+1, :, :]` on a generalized filter function `(a, b, k, l, o)` -/
def sliceFF {nA N M nO : Nat} (k : Fin N) (F : Ten5 K nA nA N M nO) : Ten5 K nA nA 1 M nO :=
  Vector.map (Vector.map fun Fab => (#v[Fab[k]] : Ten3 K 1 M nO)) F

/-- the assignments `decay_amplitudes[..., k:k+1, :] = rows[k]` of the loop, two-dimensional
spectrum: `rows[k]` has shape `(m, 1, N)` -/
def assembleRows2 {m N : Nat} (rows : Vector (Ten3 R m 1 N) N) : Ten3 R m N N :=
  Vector.ofFn fun a => Vector.ofFn fun k => Vector.ofFn fun l => rows[k][a][0][l]

/-- the same for a cross-spectral matrix: `rows[k]` has shape `(m, m, 1, N)` -/
def assembleRows3 {m N : Nat} (rows : Vector (Ten4 R m m 1 N) N) : Ten4 R m m N N :=
  Vector.ofFn fun a => Vector.ofFn fun b => Vector.ofFn fun k => Vector.ofFn fun l =>
    rows[k][a][b][0][l]

/-- `calculate_decay_amplitudes(…, which='total', memory_parsimonious=False)` when
`pulse.is_cached('filter_function_gen')`: `F = pulse.get_filter_function(omega, 'generalized')`,
`_get_integrand(…, 'total', 'generalized', filter_function=F)`, spectrum `(len(idx), n_omega)`. -/
def decayAmplitudesFF2 {nA m N nO : Nat} (omega : Vec R nO) (F : Ten5 K nA nA N N nO)
    (idx : Vec (Fin nA) m) (S : Mat K m nO) : Ten3 R m N N :=
  integ4 omega (ffIntegrandGen2 F idx S)

/-- the same for a cross-spectral matrix -/
def decayAmplitudesFF3 {nA m N nO : Nat} (omega : Vec R nO) (F : Ten5 K nA nA N N nO)
    (idx : Vec (Fin nA) m) (S : Ten3 K m m nO) : Ten4 R m m N N :=
  integ5 omega (ffIntegrandGen3 F idx S)

/-- the memory-parsimonious loop on the filter-function path: for every `k`
`_get_integrand(…, filter_function=F[..., k:k+1, :, :])` and
`decay_amplitudes[..., k:k+1, :] = util.integrate(integrand, omega)/(2*np.pi)`. -/
def decayAmplitudesFF2Pars {nA m N nO : Nat} (omega : Vec R nO) (F : Ten5 K nA nA N N nO)
    (idx : Vec (Fin nA) m) (S : Mat K m nO) : Ten3 R m N N :=
  assembleRows2 (Vector.ofFn fun k => integ4 omega (ffIntegrandGen2 (sliceFF k F) idx S))

def decayAmplitudesFF3Pars {nA m N nO : Nat} (omega : Vec R nO) (F : Ten5 K nA nA N N nO)
    (idx : Vec (Fin nA) m) (S : Ten3 K m m nO) : Ten4 R m m N N :=
  assembleRows3 (Vector.ofFn fun k => integ5 omega (ffIntegrandGen3 (sliceFF k F) idx S))

/-- `calculate_decay_amplitudes(…, which='total')`, spectrum `(len(idx), n_omega)`: the selection
* `pulse.is_cached('filter_function_gen')` → filter-function path with
  `Fgen = pulse.get_filter_function(omega, which='generalized')`,
* else control-matrix path with `B = pulse.get_control_matrix(omega, …)`;
* `memory_parsimonious` → the loop over `k`.
(`show_progressbar` only wraps the `range`; `cache_intermediates` only reaches
`get_control_matrix`.) -/
def decayAmplitudesSel2 {nA m N nO : Nat} (ffGenCached pars : Bool) (omega : Vec R nO)
    (B : Ten3 K nA N nO) (Fgen : Ten5 K nA nA N N nO) (idx : Vec (Fin nA) m) (S : Mat K m nO) :
    Ten3 R m N N :=
  if ffGenCached then
    if !pars then decayAmplitudesFF2 omega Fgen idx S else decayAmplitudesFF2Pars omega Fgen idx S
  else
    if !pars then decayAmplitudes2 omega B idx S else decayAmplitudes2Pars omega B idx S

/-- the same for a cross-spectral matrix -/
def decayAmplitudesSel3 {nA m N nO : Nat} (ffGenCached pars : Bool) (omega : Vec R nO)
    (B : Ten3 K nA N nO) (Fgen : Ten5 K nA nA N N nO) (idx : Vec (Fin nA) m) (S : Ten3 K m m nO) :
    Ten4 R m m N N :=
  if ffGenCached then
    if !pars then decayAmplitudesFF3 omega Fgen idx S else decayAmplitudesFF3Pars omega Fgen idx S
  else
    if !pars then decayAmplitudes3 omega B idx S else decayAmplitudes3Pars omega B idx S

/-! #### `which='correlations'` -/

/-- control-matrix path, `Bpc = pulse.get_pulse_correlation_control_matrix()`:
shape `(G, G, len(idx), N, N)` -/
def decayAmplitudesCorr2 {G nA m N nO : Nat} (omega : Vec R nO) (Bpc : Vector (Ten3 K nA N nO) G)
    (idx : Vec (Fin nA) m) (S : Mat K m nO) : Vector (Vector (Ten3 R m N N) G) G :=
  Vector.map (Vector.map (integ4 omega)) (cmIntegrandCorrGen2 Bpc Bpc idx S)

def decayAmplitudesCorr3 {G nA m N nO : Nat} (omega : Vec R nO) (Bpc : Vector (Ten3 K nA N nO) G)
    (idx : Vec (Fin nA) m) (S : Ten3 K m m nO) : Vector (Vector (Ten4 R m m N N) G) G :=
  Vector.map (Vector.map (integ5 omega)) (cmIntegrandCorrGen3 Bpc Bpc idx S)

/-- the loop on the control-matrix path: `control_matrix=[Bpc[..., k:k+1, :], Bpc]` -/
def decayAmplitudesCorr2Pars {G nA m N nO : Nat} (omega : Vec R nO)
    (Bpc : Vector (Ten3 K nA N nO) G) (idx : Vec (Fin nA) m) (S : Mat K m nO) :
    Vector (Vector (Ten3 R m N N) G) G :=
  let rows : Vector (Vector (Vector (Ten3 R m 1 N) G) G) N := Vector.ofFn fun k =>
    Vector.map (Vector.map (integ4 omega))
      (cmIntegrandCorrGen2 (Vector.map (sliceCM k) Bpc) Bpc idx S)
  Vector.ofFn fun g => Vector.ofFn fun h => assembleRows2 (Vector.ofFn fun k => rows[k][g][h])

def decayAmplitudesCorr3Pars {G nA m N nO : Nat} (omega : Vec R nO)
    (Bpc : Vector (Ten3 K nA N nO) G) (idx : Vec (Fin nA) m) (S : Ten3 K m m nO) :
    Vector (Vector (Ten4 R m m N N) G) G :=
  let rows : Vector (Vector (Vector (Ten4 R m m 1 N) G) G) N := Vector.ofFn fun k =>
    Vector.map (Vector.map (integ5 omega))
      (cmIntegrandCorrGen3 (Vector.map (sliceCM k) Bpc) Bpc idx S)
  Vector.ofFn fun g => Vector.ofFn fun h => assembleRows3 (Vector.ofFn fun k => rows[k][g][h])

/-- filter-function path (`pulse.is_cached('filter_function_pc_gen')`):
`Fpc = pulse.get_pulse_correlation_filter_function(which='generalized')` -/
def decayAmplitudesCorrFF2 {G nA m N nO : Nat} (omega : Vec R nO)
    (Fpc : Vector (Vector (Ten5 K nA nA N N nO) G) G) (idx : Vec (Fin nA) m) (S : Mat K m nO) :
    Vector (Vector (Ten3 R m N N) G) G :=
  Vector.map (Vector.map (integ4 omega)) (ffIntegrandCorrGen2 Fpc idx S)

def decayAmplitudesCorrFF3 {G nA m N nO : Nat} (omega : Vec R nO)
    (Fpc : Vector (Vector (Ten5 K nA nA N N nO) G) G) (idx : Vec (Fin nA) m) (S : Ten3 K m m nO) :
    Vector (Vector (Ten4 R m m N N) G) G :=
  Vector.map (Vector.map (integ5 omega)) (ffIntegrandCorrGen3 Fpc idx S)

/-- the loop on the filter-function path: `filter_function=Fpc[..., k:k+1, :, :]` -/
def decayAmplitudesCorrFF2Pars {G nA m N nO : Nat} (omega : Vec R nO)
    (Fpc : Vector (Vector (Ten5 K nA nA N N nO) G) G) (idx : Vec (Fin nA) m) (S : Mat K m nO) :
    Vector (Vector (Ten3 R m N N) G) G :=
  let rows : Vector (Vector (Vector (Ten3 R m 1 N) G) G) N := Vector.ofFn fun k =>
    Vector.map (Vector.map (integ4 omega))
      (ffIntegrandCorrGen2 (Vector.map (Vector.map (sliceFF k)) Fpc) idx S)
  Vector.ofFn fun g => Vector.ofFn fun h => assembleRows2 (Vector.ofFn fun k => rows[k][g][h])

def decayAmplitudesCorrFF3Pars {G nA m N nO : Nat} (omega : Vec R nO)
    (Fpc : Vector (Vector (Ten5 K nA nA N N nO) G) G) (idx : Vec (Fin nA) m) (S : Ten3 K m m nO) :
    Vector (Vector (Ten4 R m m N N) G) G :=
  let rows : Vector (Vector (Vector (Ten4 R m m 1 N) G) G) N := Vector.ofFn fun k =>
    Vector.map (Vector.map (integ5 omega))
      (ffIntegrandCorrGen3 (Vector.map (Vector.map (sliceFF k)) Fpc) idx S)
  Vector.ofFn fun g => Vector.ofFn fun h => assembleRows3 (Vector.ofFn fun k => rows[k][g][h])

/-- `calculate_decay_amplitudes(…, which='correlations')`: the selection on
`pulse.is_cached('filter_function_pc_gen')` and `memory_parsimonious` (the `ValueError` for a
frequency grid different from the cached one and the `CalculationError` of the getters are in
`Model/Validate.lean`). -/
def decayAmplitudesCorrSel2 {G nA m N nO : Nat} (ffPcGenCached pars : Bool) (omega : Vec R nO)
    (Bpc : Vector (Ten3 K nA N nO) G) (Fpc : Vector (Vector (Ten5 K nA nA N N nO) G) G)
    (idx : Vec (Fin nA) m) (S : Mat K m nO) : Vector (Vector (Ten3 R m N N) G) G :=
  if ffPcGenCached then
    if !pars then decayAmplitudesCorrFF2 omega Fpc idx S
    else decayAmplitudesCorrFF2Pars omega Fpc idx S
  else
    if !pars then decayAmplitudesCorr2 omega Bpc idx S
    else decayAmplitudesCorr2Pars omega Bpc idx S

def decayAmplitudesCorrSel3 {G nA m N nO : Nat} (ffPcGenCached pars : Bool) (omega : Vec R nO)
    (Bpc : Vector (Ten3 K nA N nO) G) (Fpc : Vector (Vector (Ten5 K nA nA N N nO) G) G)
    (idx : Vec (Fin nA) m) (S : Ten3 K m m nO) : Vector (Vector (Ten4 R m m N N) G) G :=
  if ffPcGenCached then
    if !pars then decayAmplitudesCorrFF3 omega Fpc idx S
    else decayAmplitudesCorrFF3Pars omega Fpc idx S
  else
    if !pars then decayAmplitudesCorr3 omega Bpc idx S
    else decayAmplitudesCorr3Pars omega Bpc idx S

/-! ### `infidelity`: the tail through `_get_integrand`

`integrand = _get_integrand(spectrum, omega, idx, which, 'fidelity', filter_function=F)`,
`infid = util.integrate(integrand, omega)/(2*np.pi*pulse.d)` — always the filter-function path.
(`Model.infidelityDiag` / `infidelityFull` of `Model/Cumulant.lean` have this integrand inlined.) -/

def infidelityTail2 {nA m nO : Nat} (omega : Vec R nO) (F : Ten3 K nA nA nO)
    (idx : Vec (Fin nA) m) (S : Mat K m nO) (d : Nat) : Vec R m :=
  Vector.map (fun f => integrateR omega f / (twoPi * ((d : Nat) : R))) (ffIntegrandFid2 F idx S)

def infidelityTail3 {nA m nO : Nat} (omega : Vec R nO) (F : Ten3 K nA nA nO)
    (idx : Vec (Fin nA) m) (S : Ten3 K m m nO) (d : Nat) : Mat R m m :=
  Vector.map (Vector.map fun f => integrateR omega f / (twoPi * ((d : Nat) : R)))
    (ffIntegrandFid3 F idx S)

/-- what `infidelity` would compute if it went through the CONTROL-MATRIX path of
`_get_integrand(…, 'fidelity', control_matrix=B)` (no caller does; reference for
`infidelity_path_independent`) -/
def infidelityTailCM2 {nA m N nO : Nat} (omega : Vec R nO) (B : Ten3 K nA N nO)
    (idx : Vec (Fin nA) m) (S : Mat K m nO) (d : Nat) : Vec R m :=
  Vector.map (fun f => integrateR omega f / (twoPi * ((d : Nat) : R)))
    (cmIntegrandTotalFid2 B B idx S)

def infidelityTailCM3 {nA m N nO : Nat} (omega : Vec R nO) (B : Ten3 K nA N nO)
    (idx : Vec (Fin nA) m) (S : Ten3 K m m nO) (d : Nat) : Mat R m m :=
  Vector.map (Vector.map fun f => integrateR omega f / (twoPi * ((d : Nat) : R)))
    (cmIntegrandTotalFid3 B B idx S)

/-- `filter_function.trace(axis1=2, axis2=3)` — how `PulseSequence.cache_filter_function` derives
the fidelity filter function it stores when asked for `which='generalized'` -/
def ffTraceGen {nA N nO : Nat} (F : Ten5 K nA nA N N nO) : Ten3 K nA nA nO :=
  Vector.ofFn fun a => Vector.ofFn fun b => Vector.ofFn fun o => fsum N fun k => F[a][b][k][k][o]

end

/-! ### Driver component -/

/-- row-major flattening of nested real arrays -/
class FlatR (α : Type) where
  flat : α → Array Float → Array Float

instance : FlatR Float := ⟨fun x acc => acc.push x⟩
instance {α : Type} {n : Nat} [FlatR α] : FlatR (Vector α n) :=
  ⟨fun v acc => v.toArray.foldl (fun acc x => FlatR.flat x acc) acc⟩

open FFVerif.Proto in
/-- five-index complex tensor from flat row-major data -/
def ten5C (a : Array Float) (off r q p m n : Nat) : Ten5 CF r q p m n :=
  Vector.ofFn fun i => ten4C a (off + i.1 * q * p * m * n) q p m n

open FFVerif.Proto in
/-- rank-4 pulse-correlation control matrix `(G, nA, N, nO)` -/
def pcC (a : Array Float) (G nA N nO : Nat) : Vector (Ten3 CF nA N nO) G :=
  Vector.ofFn fun g => ten3C a (g.1 * nA * N * nO) nA N nO

open FFVerif.Proto in
/-- driver component (`G`, `nA`, … plain decimals; arrays as in `Driver.lean`; `-` = absent).
* `integrand src(cm|pair|ff) wp(total|correlations) wf(fidelity|generalized) shape(1|2|3)
  G nA Nl N nO m idx(m decimals, comma separated | -) A1 A2 S` → `ok <reals>`: `getIntegrand`;
  - `cm`:   `A1 = control_matrix` (`(nA,N,nO)` resp. `(G,nA,N,nO)` complex), `A2 = -`, `Nl = N`;
  - `pair`: `A1 = left` (`(…,nA,Nl,nO)`; for `fidelity` `Nl = N`), `A2 = right` (`(…,nA,N,nO)`);
  - `ff`:   `A1 = filter_function` (`([G,G,]nA,nA,[Nl,N,]nO)` complex), `A2 = -`;
  - `S` complex `nO | m*nO | m*m*nO`; result row-major, shape `([G,G,]m,[m,][Nl,N,]nO)`.
* `decaysel wp cached(0|1) pars(0|1) shape G nA N nO m idx B F S omega` → `ok <reals>`:
  `decayAmplitudesSel2/3`, `decayAmplitudesCorrSel2/3`; `B` control matrix (`-` allowed when
  `cached = 1`), `F` generalized filter function (`-` allowed when `cached = 0`).
* `infidtail src(ff|cm) shape d nA N nO m idx A S omega` → `ok <reals>`: `infidelityTail2/3` with
  `A = F (nA,nA,nO)`, resp. `infidelityTailCM2/3` with `A = B (nA,N,nO)`. -/
def handleIntegrand (toks : List String) : Option String :=
  let parseIdx (s : String) (n bound : Nat) : Option (Vec (Fin bound) n) :=
    let l : Array Nat := if s == "-" || s.isEmpty then #[] else
      (s.splitOn ",").toArray.map fun t => t.toNat!
    if h : 0 < bound then
      if l.size == n && l.all (fun v => decide (v < bound)) then
        some (Vector.ofFn fun i => ⟨l[i.1]! % bound, Nat.mod_lt _ h⟩)
      else none
    else if hn : n = 0 then some (hn ▸ #v[]) else none
  let out {α : Type} [FlatR α] (x : α) : String := "ok " ++ showFloats (FlatR.flat x #[])
  let pad (a : Array Float) (n : Nat) : Array Float :=
    if a.size ≥ n then a else a ++ Array.replicate (n - a.size) 0.0
  match toks with
  | ["integrand", src, wp, wf, shape, G, nA, Nl, N, nO, m, idx, A1, A2, S] =>
    let G := G.toNat!; let nA := nA.toNat!; let Nl := Nl.toNat!; let N := N.toNat!
    let nO := nO.toNat!; let m := m.toNat!
    match parseIdx idx m nA with
    | none => some "err index"
    | some ix =>
      let a1 := parseFloats A1; let a2 := parseFloats A2; let sa := parseFloats S
      let corr := wp == "correlations"; let gen := wf == "generalized"
      let call : Option (IntegrandCall CF G nA Nl N nO) :=
        if src == "ff" then
          some (match corr, gen with
          | false, false => .ffTotalFid (ten3C a1 0 nA nA nO)
          | false, true => .ffTotalGen (ten5C a1 0 nA nA Nl N nO)
          | true, false => .ffCorrFid (Vector.ofFn fun g => Vector.ofFn fun h =>
              ten3C a1 ((g.1 * G + h.1) * nA * nA * nO) nA nA nO)
          | true, true => .ffCorrGen (Vector.ofFn fun g => Vector.ofFn fun h =>
              ten5C a1 ((g.1 * G + h.1) * nA * nA * Nl * N * nO) nA nA Nl N nO))
        else if src == "cm" then
          if h : Nl = N then
            some (match corr, gen with
            | false, false => .cmTotalFid (ten3C a1 0 nA N nO) (ten3C a1 0 nA N nO)
            | false, true => .cmTotalGen (h ▸ ten3C a1 0 nA N nO) (ten3C a1 0 nA N nO)
            | true, false => .cmCorrFid (pcC a1 G nA N nO) (pcC a1 G nA N nO)
            | true, true => .cmCorrGen (h ▸ pcC a1 G nA N nO) (pcC a1 G nA N nO))
          else none
        else if src == "pair" then
          some (match corr, gen with
          | false, false => .cmTotalFid (ten3C a1 0 nA N nO) (ten3C a2 0 nA N nO)
          | false, true => .cmTotalGen (ten3C a1 0 nA Nl nO) (ten3C a2 0 nA N nO)
          | true, false => .cmCorrFid (pcC a1 G nA N nO) (pcC a2 G nA N nO)
          | true, true => .cmCorrGen (pcC a1 G nA Nl nO) (pcC a2 G nA N nO))
        else none
      match call with
      | none => some "err request"
      | some c =>
        let sp : Spectrum CF m nO :=
          if shape == "3" then .cross (ten3C sa 0 m m nO)
          else if shape == "2" then .perOp (matC sa 0 m nO) else .one (vecC sa 0 nO)
        let r : Integrand Float G m Nl N nO := getIntegrand ix sp c
        some (match r with
        | .totalFid2 I => out I | .totalGen2 I => out I | .totalFid3 I => out I
        | .totalGen3 I => out I | .corrFid2 I => out I | .corrGen2 I => out I
        | .corrFid3 I => out I | .corrGen3 I => out I)
  | ["decaysel", wp, cached, pars, shape, G, nA, N, nO, m, idx, B, F, S, omega] =>
    let G := G.toNat!; let nA := nA.toNat!; let N := N.toNat!
    let nO := nO.toNat!; let m := m.toNat!
    match parseIdx idx m nA with
    | none => some "err index"
    | some ix =>
      let sa := parseFloats S
      let om : Vec Float nO := vecR (parseFloats omega) 0 nO
      let c := cached == "1"; let p := pars == "1"
      if wp == "correlations" then
        let b := pcC (pad (parseFloats B) (2 * G * nA * N * nO)) G nA N nO
        let fa := pad (parseFloats F) (2 * G * G * nA * nA * N * N * nO)
        let f : Vector (Vector (Ten5 CF nA nA N N nO) G) G := Vector.ofFn fun g => Vector.ofFn fun h =>
          ten5C fa ((g.1 * G + h.1) * nA * nA * N * N * nO) nA nA N N nO
        if shape == "3" then some (out (decayAmplitudesCorrSel3 c p om b f ix (ten3C sa 0 m m nO)))
        else
          let s : Mat CF m nO := if shape == "1" then replicateSpectrum (vecC sa 0 nO)
            else matC sa 0 m nO
          some (out (decayAmplitudesCorrSel2 c p om b f ix s))
      else
        let b : Ten3 CF nA N nO := ten3C (pad (parseFloats B) (2 * nA * N * nO)) 0 nA N nO
        let f : Ten5 CF nA nA N N nO :=
          ten5C (pad (parseFloats F) (2 * nA * nA * N * N * nO)) 0 nA nA N N nO
        if shape == "3" then some (out (decayAmplitudesSel3 c p om b f ix (ten3C sa 0 m m nO)))
        else
          let s : Mat CF m nO := if shape == "1" then replicateSpectrum (vecC sa 0 nO)
            else matC sa 0 m nO
          some (out (decayAmplitudesSel2 c p om b f ix s))
  | ["infidtail", src, shape, d, nA, N, nO, m, idx, A, S, omega] =>
    let d := d.toNat!; let nA := nA.toNat!; let N := N.toNat!
    let nO := nO.toNat!; let m := m.toNat!
    match parseIdx idx m nA with
    | none => some "err index"
    | some ix =>
      let sa := parseFloats S; let aa := parseFloats A
      let om : Vec Float nO := vecR (parseFloats omega) 0 nO
      if shape == "3" then
        let s : Ten3 CF m m nO := ten3C sa 0 m m nO
        if src == "cm" then some (out (infidelityTailCM3 om (ten3C aa 0 nA N nO) ix s d))
        else some (out (infidelityTail3 om (ten3C aa 0 nA nA nO) ix s d))
      else
        let s : Mat CF m nO := if shape == "1" then replicateSpectrum (vecC sa 0 nO)
          else matC sa 0 m nO
        if src == "cm" then some (out (infidelityTailCM2 om (ten3C aa 0 nA N nO) ix s d))
        else some (out (infidelityTail2 om (ten3C aa 0 nA nA nO) ix s d))
  | _ => none

/-- the statements of `numeric._get_integrand` that this file and `Model/IntegrandShape.lean`
mirror, normalised as the pins of `Gen/Pins.lean` are (`ast.unparse`, whitespace collapsed,
docstring dropped).  NOTE for integration: `Gen/Pins.lean` has no pin of `_get_integrand` yet — add
`('numeric', '_get_integrand', 'pinGetIntegrand')` to `BODY_PINS` of `tools/ffv/translate.py` and a
pin file `theorem pinGetIntegrand : Gen.pinGetIntegrand = Model.getIntegrandSource := rfl`; until
then `corr_c08integrand.py` (component `source/pin`) compares this literal with the source of the
package it runs. -/
def getIntegrandSource : String := "if control_matrix is not None: funs = (np.conj, lambda x: x) if isinstance(control_matrix, (list, tuple)): ctrl_left, ctrl_right = [f(c) for f, c in zip(funs, control_matrix)] else: ctrl_left, ctrl_right = [f(r) for f, r in zip(funs, [control_matrix] * 2)] elif which_FF == 'generalized': filter_function = np.moveaxis(filter_function, source=[-5, -4], destination=[-3, -2]) ; spectrum = util.parse_spectrum(spectrum, omega, idx) ; if spectrum.ndim in (1, 2): if filter_function is not None: integrand = filter_function[..., tuple(idx), tuple(idx), :] * spectrum if which_FF == 'generalized': integrand = np.moveaxis(integrand, source=-2, destination=-4) else: if which_pulse == 'correlations': if which_FF == 'fidelity': einsum_str = 'g...ko,...o,h...ko->gh...o' else: einsum_str = 'g...ko,...o,h...lo->gh...klo' elif which_FF == 'fidelity': einsum_str = '...ko,...o,...ko->...o' else: einsum_str = '...ko,...o,...lo->...klo' integrand = np.einsum(einsum_str, ctrl_left[..., idx, :, :], spectrum, ctrl_right[..., idx, :, :]) elif filter_function is not None: integrand = filter_function[..., idx[:, None], idx, :] * spectrum if which_FF == 'generalized': integrand = np.moveaxis(integrand, source=[-3, -2], destination=[-5, -4]) else: if which_pulse == 'correlations': if which_FF == 'fidelity': einsum_str = 'gako,abo,hbko->ghabo' else: einsum_str = 'gako,abo,hblo->ghabklo' elif which_FF == 'fidelity': einsum_str = 'ako,abo,bko->abo' else: einsum_str = 'ako,abo,blo->abklo' integrand = np.einsum(einsum_str, ctrl_left[..., idx, :, :], spectrum, ctrl_right[..., idx, :, :]) ; return integrand.real"

/-- the source statements of `calculate_decay_amplitudes` this file mirrors (pinned) -/
def decayAmplitudesSource : String := Gen.decayAmplitudesTail

end FFVerif.Model
