/-
Decision logic of `filter_functions.pulse_sequence.extend` AFTER its argument checks (from the
line `if cache_filter_function is not False:` to the end; the checks before it are
`Model/Validate.extendChecks`): WHAT is computed or carried over — diagonalization, control
matrix / filter function, rows of an additional noise Hamiltonian — on WHICH frequency grid and
by WHICH route, or which exception is raised, as a function of the cache states of the mapped
pulses, their basis types and the options.  No numerics.  Also (`remapLogic`) which cached
quantities survive `remap`, which `extend` calls for multi-qubit pulses with unsorted qubits.

Abstraction (what the branch conditions look at):
* per mapped pulse (`PulseState`), in the order `multi_qubit_pulses + single_qubit_pulses` the
  code processes them and AFTER `remap`:
  - `diagCached` : `is_cached` of `eigvals`, `eigvecs` and `propagators` (all three or none; the
    caching methods and `cleanup` only produce these two states),
  - `tpCached`   : `is_cached('total_propagator')`.  It is independent of `diagCached`
    (`diagonalize()` sets it, `cleanup('conservative')` keeps it) and it matters: it decides
    whether the new pulse is diagonalized as a side effect of caching its filter function,
  - `cmCached`   : `is_cached('control_matrix')` (no pulse-correlation control matrix cached),
  - `omega`      : id of `pulse.omega` (`none` = `None`); equal ids <-> `np.array_equal`.  A cached
    control matrix is assumed to belong to the cached grid (`pulse.omega = w` after caching makes
    it stale; grids of one length are then still processed by the code as described here),
  - `btype`      : `pauli` = `basis.btype == 'Pauli'` and the basis IS `Basis.pauli(n)` (the
    code checks both), `ggm` = `'GGM'`, `custom` = anything else;
* the call (`Opts`): `cache_diagonalization`, `cache_filter_function` (`None`/`True`/`False`),
  `omega=` (id, `none` = not passed), `additional_noise_Hamiltonian is not None`, and
  `earlyReturn`: the shortcut `len(pulse_to_qubit_mapping) == 1` and the pulse mapped onto its own
  register is taken (then the input object itself is returned and nothing else happens).
The argument checks are assumed passed (in particular at least one pulse), except the two that
depend on these flags and sit in this part of the function.

The source is followed statement by statement, in its order.  Python line numbers refer to
`pulse_sequence.py` of the checkout the model was written against.

Mathlib-free; executed by the driver (`handleExtendLogic`) and reasoned about in `Props/C05d`.
-/

namespace FFVerif.Model.ExtendLogic

/-- basis type of a mapped pulse as far as `extend` / `remap` distinguish it -/
inductive BType | pauli | ggm | custom
deriving DecidableEq, Repr, Inhabited

/-- cache state and basis type of one mapped pulse -/
structure PulseState where
  /-- `eigvals`, `eigvecs`, `propagators` cached -/
  diagCached : Bool
  /-- `is_cached('total_propagator')` -/
  tpCached : Bool
  /-- `is_cached('control_matrix')` -/
  cmCached : Bool
  /-- id of `pulse.omega`; `none` = `pulse.omega is None` -/
  omega : Option Nat
  btype : BType
deriving DecidableEq, Repr, Inhabited

/-- options of the call -/
structure Opts where
  /-- `cache_diagonalization` -/
  cacheDiag : Option Bool
  /-- `cache_filter_function` -/
  cacheFF : Option Bool
  /-- id of the grid passed as `omega=`, `none` = `omega is None` -/
  omegaGiven : Option Nat
  /-- `additional_noise_Hamiltonian is not None` -/
  additional : Bool
  /-- the single-pulse-on-its-own-register shortcut is taken (l. 2335–2346) -/
  earlyReturn : Bool
deriving DecidableEq, Repr, Inhabited

/-- exceptions, one constructor per site.  `omegaNone` is what the calculation WOULD raise if it
were reached with `omega = None` (`len(None)` resp. `cexp(None*tau)`: `TypeError`);
`Props/C05d.no_other_errors` proves it is not reached. -/
inductive Err
  /-- l. 2367: "Filter function should be cached but omega was not provided and could not be
  inferred." -/
  | omegaNotInferable
  /-- l. 2384: "Additional noise Hamiltonian given and cache_diagonalization set to False but
  required." -/
  | diagRequired
  | omegaNone
deriving DecidableEq, Repr, Inhabited

/-- class of the exception -/
def Err.name : Err → String
  | .omegaNotInferable => "ValueError"
  | .diagRequired => "ValueError"
  | .omegaNone => "TypeError"

/-- how the diagonalization (`eigvals`, `eigvecs`, `propagators`) of the result came about -/
inductive DiagKind
  /-- not cached in the result -/
  | none
  /-- tensored together from the inputs' `eigvals`, `eigvecs`, `propagators` (l. 2498–2540) -/
  | extended
  /-- `newpulse.diagonalize()` did the work: called explicitly (l. 2492), inside
  `newpulse.cache_filter_function(omega)` (l. 2494), or by the lazy properties
  `newpulse.total_propagator` (l. 2604) / `newpulse.eigvals` (l. 2592) -/
  | recomputed
deriving DecidableEq, Repr, Inhabited

/-- how the control matrix / filter function of the result came about -/
inductive FFKind
  | none
  /-- control matrices of the inputs placed with the Pauli index maps
  (`equivalent_pauli_basis_elements`), filter function from the full control matrix
  (l. 2565–2609) -/
  | extended (g : Nat)
  /-- `newpulse.cache_filter_function(omega)`: everything from scratch (l. 2494) -/
  | recomputed (g : Nat)
deriving DecidableEq, Repr, Inhabited

/-- what `extend` does -/
structure Decision where
  /-- the input pulse object itself is returned (shortcut); all other fields are then empty -/
  returnedInput : Bool
  /-- final value of `cache_diagonalization` -/
  diagWanted : Bool
  diag : DiagKind
  /-- the `elif` of l. 2541: only the total propagator is tensored from the inputs -/
  tpExtended : Bool
  ff : FFKind
  /-- the separate `numeric.calculate_control_matrix_from_scratch` for the rows of the additional
  noise operators on the new pulse (l. 2587–2596) -/
  addRows : Bool
  /-- per input: `pulse.diagonalize()` does its work on the INPUT (side effect), through the lazy
  properties `pulse.eigvals/.eigvecs/.propagators` (l. 2508–2524) or inside
  `pulse.get_control_matrix(omega)` (l. 2583) -/
  inputDiag : List Bool
  /-- per input: `pulse.get_control_matrix(omega)` (l. 2583) computes the input's control matrix
  from scratch (and caches it in the INPUT, replacing what was cached for other frequencies) -/
  inputCM : List Bool
deriving DecidableEq, Repr, Inhabited

/-- nothing done -/
def Decision.returned : Decision :=
  { returnedInput := true, diagWanted := false, diag := .none, tpExtended := false, ff := .none,
    addRows := false, inputDiag := [], inputCM := [] }

/-- `util.all_array_equal(it)`: every element must have `.tobytes` (`None` raises
`AttributeError`, here `none`), then `len(arrays) > 0 and all(np.array_equal(arrays[0], arr) …)` -/
def allArrayEqual (l : List (Option Nat)) : Option Bool :=
  if l.any (·.isNone) then none
  else
    match l with
    | [] => some false
    | a :: as => some (as.all (· == a))

/-- l. 2353–2356: `try: equal_omega = util.all_array_equal((pulse.omega for pulse in pulses))`
`except AttributeError: equal_omega = False` -/
def equalOmega (ps : List PulseState) : Bool :=
  match allArrayEqual (ps.map (·.omega)) with
  | some b => b
  | none => false

/-- `pulses[0].omega` (the list is not empty when this is evaluated) -/
def firstOmega : List PulseState → Option Nat
  | [] => none
  | p :: _ => p.omega

/-- l. 2348–2370.  Result: the truth value of `cache_filter_function` afterwards and `omega`. -/
def chooseFF (ps : List PulseState) (o : Opts) : Except Err (Bool × Option Nat) :=
  match o.cacheFF with
  -- `if cache_filter_function is not False:` not entered
  | some false => .ok (false, o.omegaGiven)
  | none =>
    -- is_cached = all(pulse.is_cached('control_matrix') for pulse in pulses)
    let isCached := ps.all (·.cmCached)
    let eqOm := equalOmega ps
    -- cache_filter_function = is_cached and equal_omega
    -- if cache_filter_function: omega = pulses[0].omega      (a passed `omega=` is overwritten)
    if isCached && eqOm then .ok (true, firstOmega ps) else .ok (false, o.omegaGiven)
  | some true =>
    -- if omega is None: if not equal_omega: raise ValueError; omega = pulses[0].omega
    match o.omegaGiven with
    | some g => .ok (true, some g)
    | none => if !equalOmega ps then .error .omegaNotInferable else .ok (true, firstOmega ps)

/-- l. 2372–2385.  Result: `cache_diagonalization` afterwards. -/
def chooseDiag (ps : List PulseState) (o : Opts) (ff : Bool) : Except Err Bool :=
  match o.cacheDiag with
  | none =>
    -- if cache_filter_function and additional_noise_Hamiltonian is not None: True
    if ff && o.additional then .ok true
    -- else: all(pulse.is_cached(attr) for attr in attrs for pulse in pulses)
    else .ok (ps.all (·.diagCached))
  -- elif cache_diagonalization is False and additional_noise_Hamiltonian is not None: raise
  | some false => if o.additional then .error .diagRequired else .ok false
  | some true => .ok true

/-- l. 2453–2469: the new pulse gets `Basis.pauli(N)` iff the set of basis types is `{'Pauli'}`
and every basis is the Pauli basis; in all other cases `Basis.ggm(d)`.
(`len(set(btypes)) == 1` is written as: the first type, and all others equal to it.) -/
def newBasisPauli : List PulseState → Bool
  | [] => false
  | p :: ps => ps.all (·.btype == p.btype) && p.btype == .pauli

/-- `pulse.get_control_matrix(omega)` misses the cache:
not (`np.array_equal(self.omega, omega)` and `is_cached('control_matrix')`) -/
def cmMiss (p : PulseState) (g : Nat) : Bool := !(p.omega == some g && p.cmCached)

/-- l. 2489–2611 once `cache_filter_function` (`ff`), `omega` (`om`) and
`cache_diagonalization` (`cd`) are fixed. -/
def build (ps : List PulseState) (o : Opts) (ff : Bool) (om : Option Nat) (cd : Bool) :
    Except Err Decision :=
  let nobody := ps.map fun _ => false
  -- if newpulse.basis.btype != 'Pauli':   "Cannot do any extensions"
  if !newBasisPauli ps then
    if ff then
      match om with
      | none => .error .omegaNone
      | some g =>
        -- if cache_diagonalization: newpulse.diagonalize()
        -- if cache_filter_function: newpulse.cache_filter_function(omega)
        --   (get_control_matrix -> self.diagonalize(): done there if not done before)
        .ok { returnedInput := false, diagWanted := cd, diag := .recomputed, tpExtended := false,
              ff := .recomputed g, addRows := false, inputDiag := nobody, inputCM := nobody }
    else
      .ok { returnedInput := false, diagWanted := cd,
            diag := if cd then .recomputed else .none, tpExtended := false,
            ff := .none, addRows := false, inputDiag := nobody, inputCM := nobody }
  else
    -- if cache_diagonalization: … tensor pulse.eigvals, pulse.eigvecs, pulse.propagators
    --   (lazy properties: an input that is not diagonalized is diagonalized now)
    -- elif all(pulse.is_cached('total_propagator') for pulse in pulses): tensor these
    let allTp := ps.all (·.tpCached)
    let tpExt := !cd && allTp
    if ff then
      match om with
      | none => .error .omegaNone
      | some g =>
        -- for ind, pulse in zip(idx, pulses): … pulse.get_control_matrix(omega) …
        -- if additional_noise_Hamiltonian is not None: calculate_control_matrix_from_scratch(
        --     newpulse.eigvals, newpulse.eigvecs, newpulse.propagators, …)   (lazy properties)
        -- newpulse.total_propagator_liouville = liouville_representation(
        --     newpulse.total_propagator, …)                                  (lazy property)
        let diag : DiagKind :=
          if cd then .extended
          else if o.additional then .recomputed
          else if allTp then .none
          else .recomputed
        .ok { returnedInput := false, diagWanted := cd, diag := diag, tpExtended := tpExt,
              ff := .extended g, addRows := o.additional,
              inputDiag := ps.map fun p => !p.diagCached && (cd || cmMiss p g),
              inputCM := ps.map fun p => cmMiss p g }
    else
      .ok { returnedInput := false, diagWanted := cd,
            diag := if cd then .extended else .none, tpExtended := tpExt,
            ff := .none, addRows := false,
            inputDiag := ps.map fun p => !p.diagCached && cd, inputCM := nobody }

/-- `extend(...)` from the shortcut (l. 2335) to the end. -/
def extendLogic (ps : List PulseState) (o : Opts) : Except Err Decision :=
  -- if len(pulse_to_qubit_mapping) == 1: … return multi_qubit_pulses[0] / single_qubit_pulses[0]
  if o.earlyReturn then .ok Decision.returned
  else
    match chooseFF ps o with
    | .error e => .error e
    | .ok (ff, om) =>
      match chooseDiag ps o ff with
      | .error e => .error e
      | .ok cd => build ps o ff om cd

/-! ### state of the result -/

/-- `eigvals`, `eigvecs`, `propagators` cached in the returned pulse -/
def Decision.diagAfter (d : Decision) (ps : List PulseState) : Bool :=
  if d.returnedInput then (ps.head?.map (·.diagCached)).getD false else d.diag != .none

/-- grid of the control matrix / filter function `extend` cached in the result -/
def FFKind.grid? : FFKind → Option Nat
  | .none => Option.none
  | .extended g => some g
  | .recomputed g => some g

/-- control matrix cached in the returned pulse -/
def Decision.cmAfter (d : Decision) (ps : List PulseState) : Bool :=
  if d.returnedInput then (ps.head?.map (·.cmCached)).getD false else d.ff != .none

/-- `omega` of the returned pulse -/
def Decision.omegaAfter (d : Decision) (ps : List PulseState) : Option Nat :=
  if d.returnedInput then firstOmega ps else d.ff.grid?

/-! ### `remap`

Which cached quantities of a pulse survive `remap(pulse, order)` (l. 2064–2110); the remapped
pulse is a NEW object, the input is not changed.  `FullState` adds what `remap` looks at beyond
`PulseState`. -/

structure FullState where
  /-- `eigvals`, `eigvecs`, `propagators` cached (each is carried over on its own) -/
  diagCached : Bool
  tpCached : Bool
  cmCached : Bool
  omega : Option Nat
  btype : BType
  /-- `is_cached('total_phases')` -/
  phasesCached : Bool
  /-- `is_cached('filter_function')` -/
  ffCached : Bool
  /-- `is_cached('total_propagator_liouville')` -/
  tplCached : Bool
deriving DecidableEq, Repr, Inhabited

/-- what `extend` sees of a (remapped) pulse -/
def FullState.toPulse (s : FullState) : PulseState :=
  { diagCached := s.diagCached, tpCached := s.tpCached, cmCached := s.cmCached, omega := s.omega,
    btype := s.btype }

/-- state of `remap(pulse, order)`; the `Bool` says that the remapped pulse had to be
diagonalized (`cache_control_matrix` reads `self.total_propagator` when neither it nor the
Liouville total propagator was carried over). -/
def remapLogic (s : FullState) : FullState × Bool :=
  -- eigvals / eigvecs / propagators / total_propagator: `if pulse.is_cached(attr): setattr(…)`
  let base : FullState :=
    { diagCached := s.diagCached, tpCached := s.tpCached, cmCached := false, omega := none,
      btype := s.btype, phasesCached := false, ffCached := false, tplCached := false }
  -- if not pulse.is_cached('omega'): return remapped_pulse
  match s.omega with
  | none => (base, false)
  | some g =>
    -- if pulse.is_cached('total_phases'): remapped_pulse.cache_total_phases(omega, …)
    let s1 := if s.phasesCached then { base with omega := some g, phasesCached := true } else base
    -- if pulse.is_cached('filter_function'): remapped_pulse.cache_filter_function(omega, filter_function=…)
    let s2 := if s.ffCached then { s1 with omega := some g, ffCached := true } else s1
    -- if pulse.is_cached('total_propagator_liouville') or pulse.is_cached('control_matrix'):
    if s.tplCached || s.cmCached then
      -- if pulse.basis.btype != 'Pauli' or not pulse.basis == Basis.pauli(N): warn; return
      if s.btype != .pauli then (s2, false)
      else
        let s3 := if s.tplCached then { s2 with tplCached := true } else s2
        -- if pulse.is_cached('control_matrix'): remapped_pulse.cache_control_matrix(omega, …)
        --   sets omega, the control matrix, the total phases and, if missing, the Liouville total
        --   propagator from `self.total_propagator` (lazy: diagonalizes when not cached)
        if s.cmCached then
          let lazyDiag := !s3.tplCached && !s3.tpCached
          ({ s3 with cmCached := true, omega := some g, phasesCached := true, tplCached := true,
                     tpCached := s3.tpCached || lazyDiag,
                     diagCached := s3.diagCached || lazyDiag }, lazyDiag)
        else (s3, false)
    else (s2, false)

/-! ### driver component

`extendlogic <pulses> <cacheDiag -|0|1> <cacheFF -|0|1> <omegaGiven -|id> <additional 0|1>
<earlyReturn 0|1>`, pulses joined by `|`, each `diag,cm,omega,btype` (`0|1,0|1,-|id,p|g|c`) or
`diag,cm,omega,btype,tp` with `tp` (`0|1`) = total propagator cached; without the fifth field
`tp = diag || cm` (what `diagonalize()` / `cache_control_matrix` leave behind).

Answers:
* `ok same`                                   — the input object itself is returned (shortcut);
* `ok want=<0|1> diag=<n|e|r> tp=<0|1> ff=<n|e:<g>|r:<g>> add=<0|1> idiag=<bits> icm=<bits>`
  with `want` = final `cache_diagonalization`; `diag` = result's diagonalization not cached /
  extended from the inputs / recomputed by `newpulse.diagonalize()`; `tp` = only the total
  propagator tensored; `ff` = none / extended on grid g / recomputed on grid g; `add` = separate
  from-scratch rows for the additional noise operators; `idiag`, `icm` = one bit per input pulse
  (`-` for no pulses): the input was diagonalized / its control matrix computed as a side effect;
* `err <ExceptionClass>:<site>` with site `omega` (l. 2367), `diag` (l. 2384), `none`
  (calculation reached with `omega = None`; unreachable);
* `err bad-request`.

`remaplogic <diag,tp,cm,omega,btype,phases,ff,tpl>` → `ok <diag,tp,cm,omega,btype,phases,ff,tpl>
lazy=<0|1>` (state of the remapped pulse; `lazy` = it was diagonalized on the way). -/

private def pB (s : String) : Option Bool :=
  if s == "0" then some false else if s == "1" then some true else none

private def pOptNat (s : String) : Option (Option Nat) :=
  if s == "-" then some none else s.toNat?.map some

private def pOptB (s : String) : Option (Option Bool) :=
  if s == "-" then some none else (pB s).map some

private def pBType (s : String) : Option BType :=
  if s == "p" then some .pauli else if s == "g" then some .ggm
  else if s == "c" then some .custom else none

private def pPulse (s : String) : Option PulseState :=
  match s.splitOn "," with
  | [dg, cm, om, bt] => do
    let dg ← pB dg; let cm ← pB cm
    pure { diagCached := dg, tpCached := dg || cm, cmCached := cm, omega := ← pOptNat om,
           btype := ← pBType bt }
  | [dg, cm, om, bt, tp] => do
    pure { diagCached := ← pB dg, tpCached := ← pB tp, cmCached := ← pB cm, omega := ← pOptNat om,
           btype := ← pBType bt }
  | _ => none

private def pPulses (s : String) : Option (List PulseState) :=
  if s == "-" then some [] else (s.splitOn "|").mapM pPulse

private def b01 (b : Bool) : String := if b then "1" else "0"

private def bits (l : List Bool) : String :=
  if l.isEmpty then "-" else String.join (l.map b01)

private def showBType : BType → String
  | .pauli => "p" | .ggm => "g" | .custom => "c"

private def showOptNat : Option Nat → String
  | none => "-" | some g => toString g

def showDecision (d : Decision) : String :=
  if d.returnedInput then "ok same"
  else
    "ok want=" ++ b01 d.diagWanted ++ " diag=" ++
      (match d.diag with | .none => "n" | .extended => "e" | .recomputed => "r") ++
      " tp=" ++ b01 d.tpExtended ++ " ff=" ++
      (match d.ff with
        | .none => "n" | .extended g => "e:" ++ toString g | .recomputed g => "r:" ++ toString g) ++
      " add=" ++ b01 d.addRows ++ " idiag=" ++ bits d.inputDiag ++ " icm=" ++ bits d.inputCM

def showErr : Err → String
  | .omegaNotInferable => "err ValueError:omega"
  | .diagRequired => "err ValueError:diag"
  | .omegaNone => "err TypeError:none"

private def pFull (s : String) : Option FullState :=
  match s.splitOn "," with
  | [dg, tp, cm, om, bt, ph, f, tpl] => do
    pure { diagCached := ← pB dg, tpCached := ← pB tp, cmCached := ← pB cm, omega := ← pOptNat om,
           btype := ← pBType bt, phasesCached := ← pB ph, ffCached := ← pB f,
           tplCached := ← pB tpl }
  | _ => none

def showFull (s : FullState) : String :=
  ",".intercalate [b01 s.diagCached, b01 s.tpCached, b01 s.cmCached, showOptNat s.omega,
    showBType s.btype, b01 s.phasesCached, b01 s.ffCached, b01 s.tplCached]

def handleExtendLogic (toks : List String) : Option String :=
  match toks with
  | ["extendlogic", ps, cd, cf, og, ad, er] =>
    let r : Option String := do
      let o : Opts := { cacheDiag := ← pOptB cd, cacheFF := ← pOptB cf, omegaGiven := ← pOptNat og,
                        additional := ← pB ad, earlyReturn := ← pB er }
      match extendLogic (← pPulses ps) o with
      | .ok d => pure (showDecision d)
      | .error e => pure (showErr e)
    some (r.getD "err bad-request")
  | "extendlogic" :: _ => some "err bad-request"
  | ["remaplogic", s] =>
    let r : Option String := do
      let (t, lz) := remapLogic (← pFull s)
      pure ("ok " ++ showFull t ++ " lazy=" ++ b01 lz)
    some (r.getD "err bad-request")
  | "remaplogic" :: _ => some "err bad-request"
  | _ => none

end FFVerif.Model.ExtendLogic
