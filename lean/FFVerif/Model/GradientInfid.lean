/-
End-to-end model of `gradient.infidelity_derivative(pulse, spectrum, omega, control_identifiers,
n_oper_identifiers, n_coeffs_deriv)` and of `PulseSequence.get_filter_function_derivative` for a
freshly diagonalised pulse, composed from the models of the parts (`Model/Numeric.lean`,
`Model/GradientAsm.lean`, `Model/Gradient.lean`).  Mathlib-free, executable at IEEE doubles (driver
component `infidderiv`), reasoned about at ℝ/ℂ in `Props/C11Infid.lean`.

## `infidelity_derivative`, statement by statement

    n_idx    = util.get_indices_from_identifiers(pulse.n_oper_identifiers, n_oper_identifiers)
    spectrum = util.parse_spectrum(spectrum, omega, n_idx)        # broadcast + shape check only:
                                                                  # (n_omega,) stays 1-d,
                                                                  # (k, n_omega) needs k = len(n_idx)
    filter_function_deriv = pulse.get_filter_function_derivative(omega, control_identifiers,
                                                                 n_oper_identifiers, n_coeffs_deriv)
    if n_coeffs_deriv is not None:                                # repair of finding F49
        traces = np.einsum('ajj', pulse.n_opers[n_idx]).real/np.sqrt(pulse.d)
        segment_integral = np.array([numeric._first_order_integral(omega, np.zeros(1), dt, …)[:, 0, 0]
                                     for dt in pulse.dt]) * util.cexp(np.multiply.outer(pulse.t[:-1], omega))
        identity_component = traces[:, None]*(pulse.n_coeffs[n_idx] @ segment_integral)
        identity_component_deriv = (traces[:, None, None, None]
                                    * np.swapaxes(n_coeffs_deriv, 1, 2)[..., None]
                                    * segment_integral[None, :, None, :])
        filter_function_deriv = filter_function_deriv - 2*(
            identity_component.conj()[:, None, None, :]*identity_component_deriv).real
    integrand   = np.einsum('...o,...tho->...tho', spectrum, filter_function_deriv)
    infid_deriv = util.integrate(integrand, omega) / (2*np.pi*pulse.d)

The block `if n_coeffs_deriv is not None` discards the derivative of the identity component of the
noise operators (`numeric.infidelity` subtracts that component; it depends on the controls only
through control-dependent sensitivities): `identitySegmentIntegral`, `identityTraces`,
`identityComponent`, `identityComponentDeriv`, `identityCorrectedFFD` below.  The einsum `'ajj'`
(a trace) and the matrix product are written with `fsum` by hand: the statements are not in the
generated contractions of this copy of `Gen/Einsum.lean` (generated before the repair).

## `PulseSequence.get_filter_function_derivative`, statement by statement

    c_idx = util.get_indices_from_identifiers(self.c_oper_identifiers, control_identifiers)
    n_idx = util.get_indices_from_identifiers(self.n_oper_identifiers, n_oper_identifiers)
    (shape check of n_coeffs_deriv: (len(n_idx), len(c_idx), len(self)) — `nCoeffsDerivShapeOk`)
    control_matrix = self.get_control_matrix(omega, cache_intermediates=True)[n_idx]
    intermediates  = {n_opers_transformed[n_idx], first_order_integral}      (if cached)
    control_matrix_deriv = gradient.calculate_derivative_of_control_matrix_from_scratch(
        omega, self.propagators, self.eigvals, self.eigvecs, self.basis, self.t, self.dt,
        self.n_opers[n_idx], self.n_coeffs[n_idx], self.c_opers[c_idx], n_coeffs_deriv, intermediates)
    return gradient.calculate_filter_function_derivative(control_matrix, control_matrix_deriv)

Modelling decisions:
* `get_control_matrix(omega)` of a pulse without cached control matrix is
  `numeric.calculate_control_matrix_from_scratch(eigvals, eigvecs, propagators, omega, basis, n_opers,
  n_coeffs, dt, t)` for ALL noise operators (`controlMatrixFromScratch`, which reads
  `propagators[:-1]`, `t[:-1]`); the slice `[n_idx]` is taken afterwards.  (A pulse that carries a
  cached control matrix — e.g. from a concatenation — returns the cached array instead; that array is
  an input of `getFilterFunctionDerivative` in `Model/Gradient.lean`.)
* the `intermediates` are the arrays `n_opers_transformed`, `first_order_integral` that
  `calculate_control_matrix_from_scratch` computed with the same functions from the same data; the
  model recomputes them (`cmdStep`), the correspondence run compares against the real call with the
  cache in place.
* The noise-operator axis of the control-matrix derivative is the SELECTED one (`len(n_idx)`), and so
  is the first axis of a 2-d spectrum (`parse_spectrum(spectrum, omega, n_idx)`); the control axis is
  `len(c_idx)`.  `n_coeffs_deriv` is indexed by the selected operators, `(len(n_idx), len(c_idx), n_dt)`.
* A 3-d spectrum `(k, k, n_omega)` is accepted by `parse_spectrum` and then broadcast by the ellipsis
  to `S[i,j,o]·∂F_j[t,h,o]` (shape `(k, k, n_dt, n_ctrl)`); not modelled (property C11 is about the
  per-operator shapes) — see REPORT.
-/
import FFVerif.Model.Gradient
import FFVerif.Model.GradientAsm

namespace FFVerif.Model
open FFVerif

section
variable {R K : Type}
  [Zero R] [One R] [Add R] [Mul R] [Neg R] [Sub R] [Div R] [NatCast R] [RealOps R]
  [Zero K] [One K] [Add K] [Mul K] [Neg K] [Sub K] [Div K] [CplxOps R K]

/-- `util.get_indices_from_identifiers(all_identifiers, None)` = `np.arange(len(all_identifiers))`:
the index list of "all operators, in stored order" -/
def allIdx (n : Nat) : Vector (Fin n) n := Vector.ofFn fun i => i

/-- `PulseSequence.get_filter_function_derivative(omega, control_identifiers, n_oper_identifiers,
n_coeffs_deriv)` for a freshly diagonalised pulse (no cached control matrix), after the identifier
look-up: `nIdx = n_idx`, `cIdx = c_idx` (any order, repetitions allowed).  Result
`[a][g][h][o]`, shape `(len(n_idx), n_dt, len(c_idx), n_omega)`.

`props`, `t` have `n_dt + 1` entries (`pulse.propagators`, `pulse.t`); `nOpers`, `nCoeffs`, `cOpers`
are ALL noise / control operators of the pulse in stored order. -/
def pulseFilterFunctionDerivative {nG d nO nAll nCAll nA nH nK : Nat} (kind : MaskKind)
    (thrF thrD thrA : R) (castReal : Bool) (omega : Vec R nO) (props : Vector (Mat K d d) (nG + 1))
    (eigvals : Mat R nG d) (eigvecs : Vector (Mat K d d) nG) (basis : Vector (Mat K d d) nK)
    (t : Vec R (nG + 1)) (dt : Vec R nG) (nOpers : Vector (Mat K d d) nAll)
    (nCoeffs : Mat R nAll nG) (cOpers : Vector (Mat K d d) nCAll)
    (nIdx : Vector (Fin nAll) nA) (cIdx : Vector (Fin nCAll) nH)
    (nCoeffsDeriv : Option (Vector (Mat R nH nG) nA)) :
    Vector (Vector (Vector (Vector R nO) nH) nG) nA :=
  -- control_matrix = self.get_control_matrix(omega, cache_intermediates=True)   (then `[n_idx]`)
  let Bfull : Ten3 K nAll nK nO :=
    controlMatrixFromScratch kind thrF eigvals eigvecs (dropLast props) omega basis nOpers nCoeffs
      dt (dropLast t)
  -- control_matrix_deriv = calculate_derivative_of_control_matrix_from_scratch(…,
  --     self.n_opers[n_idx], self.n_coeffs[n_idx], self.c_opers[c_idx], n_coeffs_deriv, …)
  let dB : Vector (Vector (Vector (Mat K nA nK) nG) nO) nH :=
    controlMatrixDerivFromScratch kind thrF thrD thrA castReal omega props eigvals eigvecs basis t
      dt (selectRows nIdx nOpers) (selectRows nIdx nCoeffs) (selectRows cIdx cOpers) nCoeffsDeriv
  getFilterFunctionDerivative nIdx Bfull dB

/-! ### the identity-component correction of `infidelity_derivative` (only with `n_coeffs_deriv`) -/

/-- `segment_integral[g][o] = numeric._first_order_integral(omega, np.zeros(1), dt[g], …)[o, 0, 0]
* util.cexp(np.multiply.outer(pulse.t[:-1], omega))[g][o]`: the first-order integral kernel for a
single zero eigenvalue (mask kind / threshold read from the source of `_first_order_integral`, as
everywhere), times the phase `e^{i t_g ω_o}`. -/
def identitySegmentIntegral {nG nO : Nat} (kind : MaskKind) (thrF : R) (omega : Vec R nO)
    (t : Vec R (nG + 1)) (dt : Vec R nG) : Mat K nG nO :=
  Mat.ofFn fun g o =>
    (firstOrderIntegral (K := K) kind thrF omega (#v[(0 : R)] : Vec R 1) dt[g])[o][(0 : Fin 1)][(0 : Fin 1)]
      * CplxOps.expI ((t[g.1]'(by omega)) * omega[o])

/-- `traces = np.einsum('ajj', pulse.n_opers[n_idx]).real/np.sqrt(pulse.d)` -/
def identityTraces {d nA : Nat} (dim : Nat) (nOpersSel : Vector (Mat K d d) nA) : Vec R nA :=
  Vector.ofFn fun a =>
    CplxOps.re (fsum d fun j => nOpersSel[a][j][j]) / RealOps.sqrt ((dim : Nat) : R)

/-- `identity_component = traces[:, None]*(pulse.n_coeffs[n_idx] @ segment_integral)`, shape
`(len(n_idx), n_omega)` -/
def identityComponent {nG nO nA : Nat} (traces : Vec R nA) (nCoeffsSel : Mat R nA nG)
    (seg : Mat K nG nO) : Mat K nA nO :=
  Mat.ofFn fun a o =>
    CplxOps.ofReal traces[a] * fsum nG fun g => CplxOps.ofReal nCoeffsSel[a][g] * seg[g][o]

/-- `identity_component_deriv = traces[:, None, None, None] * np.swapaxes(n_coeffs_deriv, 1, 2)[..., None]
* segment_integral[None, :, None, :]`, entry `[a][t][h][o]`, shape `(len(n_idx), n_dt, len(c_idx), n_omega)` -/
def identityComponentDeriv {nG nO nA nH : Nat} (traces : Vec R nA) (D : Vector (Mat R nH nG) nA)
    (seg : Mat K nG nO) : Vector (Vector (Vector (Vec K nO) nH) nG) nA :=
  Vector.ofFn fun a => Vector.ofFn fun tt => Vector.ofFn fun h => Vector.ofFn fun o =>
    CplxOps.ofReal (traces[a] * D[a][h][tt]) * seg[tt][o]

/-- `filter_function_deriv - 2*(identity_component.conj()[:, None, None, :]*identity_component_deriv).real` -/
def identityCorrectedFFD {nG nO nA nH : Nat} (ffd : Vector (Vector (Vector (Vector R nO) nH) nG) nA)
    (ic : Mat K nA nO) (icd : Vector (Vector (Vector (Vec K nO) nH) nG) nA) :
    Vector (Vector (Vector (Vector R nO) nH) nG) nA :=
  Vector.ofFn fun a => Vector.ofFn fun tt => Vector.ofFn fun h => Vector.ofFn fun o =>
    ffd[a][tt][h][o] - ((2 : Nat) : R) * CplxOps.re (CplxOps.conj ic[a][o] * icd[a][tt][h][o])

/-- the variable `filter_function_deriv` of `infidelity_derivative` just before the spectrum einsum:
`get_filter_function_derivative(…)`, and with `n_coeffs_deriv` given the identity-component
derivative subtracted -/
def infidFilterFunctionDeriv {nG d nO nAll nCAll nA nH nK : Nat} (kind : MaskKind)
    (thrF thrD thrA : R) (castReal : Bool) (dim : Nat) (omega : Vec R nO)
    (props : Vector (Mat K d d) (nG + 1))
    (eigvals : Mat R nG d) (eigvecs : Vector (Mat K d d) nG) (basis : Vector (Mat K d d) nK)
    (t : Vec R (nG + 1)) (dt : Vec R nG) (nOpers : Vector (Mat K d d) nAll)
    (nCoeffs : Mat R nAll nG) (cOpers : Vector (Mat K d d) nCAll)
    (nIdx : Vector (Fin nAll) nA) (cIdx : Vector (Fin nCAll) nH)
    (nCoeffsDeriv : Option (Vector (Mat R nH nG) nA)) :
    Vector (Vector (Vector (Vector R nO) nH) nG) nA :=
  let ffd := pulseFilterFunctionDerivative kind thrF thrD thrA castReal omega props eigvals eigvecs
    basis t dt nOpers nCoeffs cOpers nIdx cIdx nCoeffsDeriv
  match nCoeffsDeriv with
  | none => ffd
  | some D =>
    let traces : Vec R nA := identityTraces dim (selectRows nIdx nOpers)
    let seg : Mat K nG nO := identitySegmentIntegral kind thrF omega t dt
    let ic : Mat K nA nO := identityComponent traces (selectRows nIdx nCoeffs) seg
    let icd := identityComponentDeriv traces D seg
    identityCorrectedFFD ffd ic icd

/-- `gradient.infidelity_derivative(pulse, spectrum, omega, …)` for a spectrum of shape
`(n_omega,)`; `dim = pulse.d`.  Result `[a][g][h]`, shape `(len(n_idx), n_dt, len(c_idx))`. -/
def pulseInfidelityDerivative0 {nG d nO nAll nCAll nA nH nK : Nat} (kind : MaskKind)
    (thrF thrD thrA : R) (castReal : Bool) (dim : Nat) (omega : Vec R nO)
    (props : Vector (Mat K d d) (nG + 1))
    (eigvals : Mat R nG d) (eigvecs : Vector (Mat K d d) nG) (basis : Vector (Mat K d d) nK)
    (t : Vec R (nG + 1)) (dt : Vec R nG) (nOpers : Vector (Mat K d d) nAll)
    (nCoeffs : Mat R nAll nG) (cOpers : Vector (Mat K d d) nCAll)
    (nIdx : Vector (Fin nAll) nA) (cIdx : Vector (Fin nCAll) nH)
    (nCoeffsDeriv : Option (Vector (Mat R nH nG) nA)) (S : Vec R nO) : Ten3 R nA nG nH :=
  infidelityDerivative0 dim omega S
    (infidFilterFunctionDeriv kind thrF thrD thrA castReal dim omega props eigvals eigvecs basis t dt
      nOpers nCoeffs cOpers nIdx cIdx nCoeffsDeriv)

/-- … for a spectrum of shape `(len(n_idx), n_omega)`: one row per SELECTED noise operator, in the
order of the request. -/
def pulseInfidelityDerivative1 {nG d nO nAll nCAll nA nH nK : Nat} (kind : MaskKind)
    (thrF thrD thrA : R) (castReal : Bool) (dim : Nat) (omega : Vec R nO)
    (props : Vector (Mat K d d) (nG + 1))
    (eigvals : Mat R nG d) (eigvecs : Vector (Mat K d d) nG) (basis : Vector (Mat K d d) nK)
    (t : Vec R (nG + 1)) (dt : Vec R nG) (nOpers : Vector (Mat K d d) nAll)
    (nCoeffs : Mat R nAll nG) (cOpers : Vector (Mat K d d) nCAll)
    (nIdx : Vector (Fin nAll) nA) (cIdx : Vector (Fin nCAll) nH)
    (nCoeffsDeriv : Option (Vector (Mat R nH nG) nA)) (S : Mat R nA nO) : Ten3 R nA nG nH :=
  infidelityDerivative1 dim omega S
    (infidFilterFunctionDeriv kind thrF thrD thrA castReal dim omega props eigvals eigvecs basis t dt
      nOpers nCoeffs cOpers nIdx cIdx nCoeffsDeriv)

end

/-! ### driver -/

open FFVerif.Proto

/-- parse a comma separated list of decimals into an index vector (entries reduced mod the bound;
the Python side only sends valid indices) -/
def parseIdxVec (s : String) (n bound : Nat) (hb : 0 < bound) : Vector (Fin bound) n :=
  let l : Array Nat := if s == "-" || s.isEmpty then #[] else
    (s.splitOn ",").toArray.map fun t => t.toNat!
  Vector.ofFn fun i => ⟨l[i.1]! % bound, Nat.mod_lt _ hb⟩

/-- `infidderiv rank nG d nO nAll nCAll nA nH nK cast hasNcd dim n_idx(nA decimals) c_idx(nH decimals)
eigvals(nG,d) eigvecs(nG,d,d c) props(nG+1,d,d c) omega(nO) basis(nK,d,d c) n_opers(nAll,d,d c)
n_coeffs(nAll,nG) c_opers(nCAll,d,d c) n_coeffs_deriv(nA,nH,nG | -) dt(nG) t(nG+1) S`
→ `ok <(nA,nG,nH) reals>` = `infidelity_derivative(pulse, S, omega, c_ids, n_ids, n_coeffs_deriv)`;
`rank = 0`: `S (nO)`; `rank = 1`: `S (nA,nO)`; `rank = ffd`: `S = -` and the answer is
`get_filter_function_derivative(…)`, `ok <(nA,nG,nH,nO) reals>`.  `cast = 1` iff `basis.isherm`; all
masks / thresholds are read off the generated source constants. -/
def handleGradientInfid (toks : List String) : Option String :=
  match toks with
  | ["infidderiv", rank, nG, d, nO, nAll, nCAll, nA, nH, nK, cast, hasNcd, dim, nidx, cidx, eigvals,
      eigvecs, props, omega, basis, nopers, ncoeffs, copers, ncd, dt, t, S] =>
    let nG := nG.toNat!; let d := d.toNat!; let nO := nO.toNat!; let nAll := nAll.toNat!
    let nCAll := nCAll.toNat!; let nA := nA.toNat!; let nH := nH.toNat!; let nK := nK.toNat!
    let dim := dim.toNat!
    match derivIntegralThresholds, liouvilleAThreshold with
    | some [t1, t2, t3], some thrA =>
      if t1 == t2 && t2 == t3 then
        if hA : 0 < nAll then
          if hC : 0 < nCAll then
            let a := parseFloats ncd
            let ncdv : Option (Vector (Mat Float nH nG) nA) :=
              if hasNcd == "1" then some (Vector.ofFn fun i => matR a (i.1 * nH * nG) nH nG) else none
            let ni : Vector (Fin nAll) nA := parseIdxVec nidx nA nAll hA
            let ci : Vector (Fin nCAll) nH := parseIdxVec cidx nH nCAll hC
            let om : Vec Float nO := vecR (parseFloats omega) 0 nO
            let pr : Vector (Mat CF d d) (nG + 1) := ten3C (parseFloats props) 0 (nG + 1) d d
            let ev : Mat Float nG d := matR (parseFloats eigvals) 0 nG d
            let evec : Vector (Mat CF d d) nG := ten3C (parseFloats eigvecs) 0 nG d d
            let bs : Vector (Mat CF d d) nK := ten3C (parseFloats basis) 0 nK d d
            let tv : Vec Float (nG + 1) := vecR (parseFloats t) 0 (nG + 1)
            let dtv : Vec Float nG := vecR (parseFloats dt) 0 nG
            let nop : Vector (Mat CF d d) nAll := ten3C (parseFloats nopers) 0 nAll d d
            let nco : Mat Float nAll nG := matR (parseFloats ncoeffs) 0 nAll nG
            let cop : Vector (Mat CF d d) nCAll := ten3C (parseFloats copers) 0 nCAll d d
            let kind := Gen.firstOrderMaskKind
            let thrF : Float := Gen.firstOrderMaskThr (R := Float)
            if rank == "ffd" then
              let r : Vector (Vector (Vector (Vector Float nO) nH) nG) nA :=
                pulseFilterFunctionDerivative kind thrF t1 thrA (cast == "1") om pr ev evec bs tv dtv
                  nop nco cop ni ci ncdv
              some ("ok " ++ showFloats (flatR4 r))
            else
              let r : Ten3 Float nA nG nH :=
                if rank == "0" then
                  pulseInfidelityDerivative0 kind thrF t1 thrA (cast == "1") dim om pr ev evec bs tv
                    dtv nop nco cop ni ci ncdv (vecR (parseFloats S) 0 nO)
                else
                  pulseInfidelityDerivative1 kind thrF t1 thrA (cast == "1") dim om pr ev evec bs tv
                    dtv nop nco cop ni ci ncdv (matR (parseFloats S) 0 nA nO)
              some ("ok " ++ showFloats (flatR3 r))
          else some "err empty"
        else some "err empty"
      else some "err thr"
    | _, _ => some "err thr"
  | _ => none

end FFVerif.Model
