/-
Data-backed vectors / matrices (nested `Vector`), Mathlib-free.  Matrices are *data* so that the
executable instance shares intermediate results (a closure representation is re-evaluated per
entry).  For proofs, `Vector.getElem_ofFn` turns every access back into the defining function.
-/
import FFVerif.Core.Scalars

namespace FFVerif

abbrev Vec (K : Type) (n : Nat) := Vector K n
abbrev Mat (K : Type) (m n : Nat) := Vector (Vector K n) m
abbrev Ten3 (K : Type) (a b c : Nat) := Vector (Vector (Vector K c) b) a
abbrev Ten4 (K : Type) (a b c d : Nat) := Vector (Vector (Vector (Vector K d) c) b) a

/-- row-major split of a flattened index `r = hi * n + lo` (NumPy `reshape`) -/
def Fin.hi {m n : Nat} (r : Fin (m * n)) : Fin m :=
  ⟨r.1 / n, Nat.div_lt_of_lt_mul (Nat.mul_comm m n ▸ r.2 : r.1 < n * m)⟩

def Fin.lo {m n : Nat} (r : Fin (m * n)) : Fin n :=
  ⟨r.1 % n, Nat.mod_lt _ (by
    have := r.2
    rcases n with _ | n
    · simp at this
    · omega)⟩

/-- row-major flattening `(i, j) ↦ i * n + j` -/
def Fin.flat {m n : Nat} (i : Fin m) (j : Fin n) : Fin (m * n) :=
  ⟨i.1 * n + j.1, by
    have hi := i.2; have hj := j.2
    calc i.1 * n + j.1 < i.1 * n + n := by omega
      _ = (i.1 + 1) * n := by rw [Nat.add_mul, Nat.one_mul]
      _ ≤ m * n := Nat.mul_le_mul_right n (by omega)⟩

namespace Mat
variable {K : Type}

def ofFn {m n : Nat} (f : Fin m → Fin n → K) : Mat K m n :=
  Vector.ofFn fun i => Vector.ofFn fun j => f i j

@[simp] theorem ofFn_getElem {m n : Nat} (f : Fin m → Fin n → K) (i j : Nat) (hi : i < m)
    (hj : j < n) : (ofFn f)[i][j] = f ⟨i, hi⟩ ⟨j, hj⟩ := by
  simp [ofFn]

theorem ofFn_get {m n : Nat} (f : Fin m → Fin n → K) (i : Fin m) (j : Fin n) :
    (ofFn f)[i][j] = f i j := by
  simp [ofFn]

def mul [Zero K] [Add K] [Mul K] {m n p : Nat} (A : Mat K m n) (B : Mat K n p) : Mat K m p :=
  ofFn fun i k => fsum n fun j => A[i][j] * B[j][k]

def one [Zero K] [One K] {n : Nat} : Mat K n n :=
  ofFn fun i j => if i = j then 1 else 0

def transpose {m n : Nat} (A : Mat K m n) : Mat K n m := ofFn fun i j => A[j][i]

def map {L : Type} {m n : Nat} (f : K → L) (A : Mat K m n) : Mat L m n := ofFn fun i j => f A[i][j]

def trace [Zero K] [Add K] {n : Nat} (A : Mat K n n) : K := fsum n fun i => A[i][i]

def add [Add K] {m n : Nat} (A B : Mat K m n) : Mat K m n := ofFn fun i j => A[i][j] + B[i][j]

def smul [Mul K] {m n : Nat} (c : K) (A : Mat K m n) : Mat K m n := ofFn fun i j => c * A[i][j]

end Mat

/-- conjugate transpose -/
def Mat.adjoint {R K : Type} [CplxOps R K] {m n : Nat} (A : Mat K m n) : Mat K n m :=
  Mat.ofFn fun i j => CplxOps.conj A[j][i]

end FFVerif
