namespace FFVerif

/-- Recognised shapes of small-denominator guards. The translator maps the source guard to one of
these; an unrecognised guard is a translation failure. -/
inductive MaskKind where
  | absGt          -- `np.abs(x) > thr`          (absolute in the frequency)
  | absTimesDtGt   -- `np.abs(x*dt) > thr`       (dimensionless)
  | neZero         -- `x != 0`
deriving DecidableEq, Repr

end FFVerif
