/-
Core, Mathlib-free.  The model is written against the *standard* arithmetic classes of core
Lean (`Add`, `Mul`, … , `OfScientific`) plus the two small classes below for the operations core
Lean has no class for.  The executable instance is IEEE doubles (`Float`, `CF`); the proof
instance is ℝ / ℂ (`FFVerif.Lemmas.Inst`), where the standard classes are Mathlib's own
instances, so no instance diamonds arise and the executed term is the term the theorems are about.
-/
namespace FFVerif

/-- operations on the "real" scalar type that core Lean has no class for -/
class RealOps (R : Type) where
  abs : R → R
  sqrt : R → R
  lt : R → R → Bool
  le : R → R → Bool
  sin : R → R
  cos : R → R
  tan : R → R
  pi : R

/-- `K` plays the role of the complex numbers over `R`. `expI x = exp (i x)`. -/
class CplxOps (R : outParam Type) (K : Type) where
  ofReal : R → K
  conj : K → K
  re : K → R
  im : K → R
  I : K
  expI : R → K

/-- finite sum, Mathlib-free (bridged to `Finset.sum` in `Lemmas.Bridge`). -/
def fsum {K : Type} [Zero K] [Add K] (n : Nat) (f : Fin n → K) : K :=
  Fin.foldl n (fun acc i => acc + f i) 0

/-- complex double -/
structure CF where
  re : Float
  im : Float
deriving Inhabited

namespace CF
instance : Zero CF := ⟨⟨0, 0⟩⟩
instance : One CF := ⟨⟨1, 0⟩⟩
instance : Add CF := ⟨fun a b => ⟨a.re + b.re, a.im + b.im⟩⟩
instance : Sub CF := ⟨fun a b => ⟨a.re - b.re, a.im - b.im⟩⟩
instance : Neg CF := ⟨fun a => ⟨-a.re, -a.im⟩⟩
instance : Mul CF := ⟨fun a b => ⟨a.re * b.re - a.im * b.im, a.re * b.im + a.im * b.re⟩⟩
instance : Div CF := ⟨fun a b =>
  let n := b.re * b.re + b.im * b.im
  ⟨(a.re * b.re + a.im * b.im) / n, (a.im * b.re - a.re * b.im) / n⟩⟩
end CF

instance : Zero Float := ⟨0.0⟩
instance : NatCast Float := ⟨Float.ofNat⟩
instance : One Float := ⟨1.0⟩

instance : RealOps Float where
  abs := Float.abs
  sqrt := Float.sqrt
  lt a b := a < b
  le a b := a ≤ b
  sin := Float.sin
  cos := Float.cos
  tan := Float.tan
  pi := 3.141592653589793

instance : CplxOps Float CF where
  ofReal x := ⟨x, 0⟩
  conj a := ⟨a.re, -a.im⟩
  re a := a.re
  im a := a.im
  I := ⟨0, 1⟩
  expI x := ⟨Float.cos x, Float.sin x⟩

end FFVerif
