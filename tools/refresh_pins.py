#!/usr/bin/env python3
"""Development helper (NOT used by the checks): after a deliberate change of /repo (a fix: commit)
rewrite the string literals of the `*_source_shape` pins in a Props file to the current Gen values.
usage: refresh_pins.py FFVerif/Props/C08.lean …   (run from /verif/lean after translate)"""
import re
import sys

gen = {}
for fn in ('FFVerif/Gen/Constants.lean', 'FFVerif/Gen/Einsum.lean', 'FFVerif/Gen/CacheSets.lean', 'FFVerif/Gen/Pins.lean'):
    for m in re.finditer(r'^def (\w+) : String := ("(?:[^"\\]|\\.)*")$', open(fn).read(), re.M):
        gen[m.group(1)] = m.group(2)
for path in sys.argv[1:]:
    s = open(path).read()
    n = 0

    def rep(m):
        global n
        name = m.group(1)
        if name in gen and gen[name] != m.group(2):
            n += 1
            return f'Gen.{name} = {gen[name]}'
        return m.group(0)
    s2 = re.sub(r'Gen\.(\w+)\s*=\s*("(?:[^"\\]|\\.)*")', rep, s)
    if s2 != s:
        open(path, 'w').write(s2)
    print(path, 'pins refreshed:', n)
