#!/venv/bin/python
"""./check <Cxx> [--tier quick|thorough] [--replay path]

Flow (DESIGN §2.5): translate /repo -> Gen/*.lean ; lake build Props.<Cxx> ; axiom audit ;
correspondence (Lean model driver vs implementation) ; failing-input search on the implementation
with the property's own oracle ; verdict + evidence."""
import argparse
import importlib
import json
import os
import re
import sys
import time
import traceback

HERE = os.path.dirname(os.path.abspath(__file__))
sys.path.insert(0, HERE)
REPO = os.environ.get('FFV_REPO', '/repo')
sys.path.insert(0, REPO)
os.environ.setdefault('OMP_NUM_THREADS', '2')
os.environ.setdefault('OPENBLAS_NUM_THREADS', '2')
os.environ.setdefault('MKL_NUM_THREADS', '2')
import warnings  # noqa
warnings.filterwarnings('ignore')

from ffv import common, translate  # noqa


def lean_stage(ctx, mod):
    """translate, build, audit -> obligations"""
    prop = ctx.prop
    # source pins (one Lean module each, so that a broken pin is attributed to the properties that
    # list it and to no other)
    pins = list(getattr(mod, 'PINS', []))

    def pin_theorem(n):
        # body pins: theorem FFVerif.Pins.<name>; pins of kernels / branches that used to live in the
        # property file (module FFVerif.Pins.<Cxx>_<name>): theorem FFVerif.<Cxx>.<name>
        m = re.match(r'^(C\d\d)_(.+)$', n)
        return f'FFVerif.{m.group(1)}.{m.group(2)}' if m else f'FFVerif.Pins.{n}'
    if pins and not getattr(mod, '_pins_merged', False):
        mod.LEAN_MODULES = list(getattr(mod, 'LEAN_MODULES', [f'FFVerif.Props.{prop}'])) \
            + [f'FFVerif.Pins.{n}' for n in pins]
        mod.THEOREMS = list(mod.THEOREMS) + [pin_theorem(n) for n in pins]
        mod.GEN_SITES = list(mod.GEN_SITES) + [f'const:pin.{n}' for n in pins
                                               if not re.match(r'^C\d\d_', n)]
        mod._pins_merged = True
    pin_module_of = {pin_theorem(n): f'FFVerif.Pins.{n}' for n in pins}
    with common.Lock():
        report, changed = translate.run()
        ctx.stats['gen_files_changed'] = changed
        for site in mod.GEN_SITES:
            hits = [k for k in report if k == site or k.startswith(site)]
            if not hits:
                ctx.oblige('translation:' + site, 'translation', False, 'site not found in source')
            for k in hits:
                ctx.oblige('translation:' + k, 'translation', report[k]['ok'], report[k]['detail'])
        gen_failed = [k for k, v in report.items() if not v['ok'] and k.startswith('gen:')]
        for k in gen_failed:
            ctx.oblige('translation:' + k, 'translation', False, report[k]['detail'])
        # the driver's imports are rebuilt too, so that the executed model is the current one
        all_mods = getattr(mod, 'LEAN_MODULES', [f'FFVerif.Props.{prop}'])
        pin_mods = [m for m in all_mods if m.startswith('FFVerif.Pins.')]
        main_mods = [m for m in all_mods if m not in pin_mods]
        ok, log = common.lake_build(main_mods + ['FFVerif.Model.All'])
        ctx.model_ok = ok
        fails = common.failed_decls(log) if not ok else []
        bad_decls = []
        for f in fails:
            dn = common.decl_at(f['file'], f['line'])
            bad_decls.append(f"{f['file']}:{f['line']} {dn}: {f['msg']}")
        # source pins: one module each; a broken pin breaks only its own obligation
        pin_ok = {}
        if pin_mods:
            pok, plog = common.lake_build(pin_mods)
            for m in pin_mods:
                pin_ok[m] = (True, '') if pok else None
            if not pok:
                for m in pin_mods:
                    o1, l1 = common.lake_build([m])
                    msg = ''
                    if not o1:
                        mm = [f['msg'] for f in common.failed_decls(l1)]
                        msg = 'the function body differs from the pinned text: ' + (mm[0] if mm else l1[-200:])
                    pin_ok[m] = (o1, msg)
        audit_ok, axioms, alog = (False, {}, '')
        # the audit file is derived from the property's theorem list
        apath = os.path.join(common.LEAN, 'FFVerif', 'Audit', prop + '.lean')
        good_mods = (main_mods if ok else []) + [m for m in pin_mods if pin_ok[m][0]]

        def full_name(t):
            return t if t.startswith('FFVerif.') else f'FFVerif.{prop}.' + t

        def buildable(t):
            return pin_ok[pin_module_of[t]][0] if t in pin_module_of else ok
        atext = ''.join(f'import {m}\n' for m in good_mods) + ''.join(
            f'#print axioms {full_name(t)}\n' for t in mod.THEOREMS if buildable(t))
        translate.write_if_changed(apath, atext)
        if good_mods:
            audit_ok, axioms, alog = common.lean_audit(prop)
    for th in mod.THEOREMS:
        full = full_name(th)
        if th in pin_module_of and not pin_ok[pin_module_of[th]][0]:
            ctx.oblige('theorem:' + th, 'theorem', False, pin_ok[pin_module_of[th]][1])
        elif th not in pin_module_of and not ok:
            ctx.oblige('theorem:' + th, 'theorem', False,
                       'lake build failed: ' + ' | '.join(bad_decls[:3]) if bad_decls
                       else 'lake build failed: ' + log[-300:])
        elif full not in axioms:
            ctx.oblige('theorem:' + th, 'theorem', False, 'not reported by the axiom audit: '
                       + alog[-300:])
        else:
            extra = set(axioms[full]) - common.ALLOWED_AXIOMS
            ctx.oblige('theorem:' + th, 'theorem', not extra,
                       'axioms: ' + ', '.join(axioms[full]) if axioms[full] else 'no axioms')
    if ok:
        unlisted = [t for t in axioms if t.replace(f'FFVerif.{prop}.', '') not in mod.THEOREMS
                    and t not in mod.THEOREMS]
        ctx.stats['audited_unlisted_theorems'] = unlisted
    hits = common.forbidden_scan()
    ctx.oblige('audit:no-sorry-axiom-native_decide', 'audit', not hits, str(hits[:5]))
    ctx.trusted += [
        'Lean 4.33.0 kernel; Mathlib v4.33.0 as installed',
        'axioms used by the property theorems: subset of {propext, Classical.choice, Quot.sound} '
        '(audited by #print axioms on every run); no native_decide / bv_decide / sorry / own axioms',
        'tools/ffv/translate.py (einsum semantics, guard pattern table, set extraction)',
        'tools/ffv correspondence harness and its tolerances (differential testing, not proof)',
    ]
    if ctx.tier == 'thorough' and ok and os.environ.get('FFV_LEANCHECKER', '1') == '1':
        rc, out, err = common.run(['lake', 'env', 'leanchecker']
                                  + getattr(mod, 'LEAN_MODULES', [f'FFVerif.Props.{prop}']),
                                  cwd=common.LEAN, timeout=3600)
        ctx.oblige('audit:leanchecker', 'audit', rc == 0, (out + err)[-300:])


def replay(mod, ctx, path):
    with open(path) as f:
        payload = json.load(f)
    if payload.get('kind') == 'broken-obligation':
        print('replay names broken obligations (no failing input was found):')
        for o in payload['broken_obligations']:
            print('  ', o['kind'], o['name'], o['detail'][:200])
        lean_stage(ctx, mod)
        still = ctx.broken()
        print('currently broken:', [o['name'] for o in still])
        return 1 if still else 0
    f0 = payload['failure']
    case = common.dec(f0['case'])
    n0 = len(ctx.failures)
    mod.replay(ctx, f0['check'], case)
    if len(ctx.failures) > n0 or ctx.known_hits:
        print('replay: the stored input still fails:', (ctx.failures or [{}])[-1].get('msg', ''))
        print(f'VIOLATION property={ctx.prop} replay={path}')
        return 1
    print('replay: the stored input no longer fails')
    return 0


def main():
    ap = argparse.ArgumentParser()
    ap.add_argument('prop')
    ap.add_argument('--tier', default=os.environ.get('VERIF_TIER', 'quick'))
    ap.add_argument('--replay')
    ap.add_argument('--no-lean', action='store_true', help='development only')
    args = ap.parse_args()
    prop = args.prop.upper()
    tier = 'thorough' if args.tier.startswith('t') else 'quick'
    try:
        seed = int(os.environ.get('VERIF_SEED', '0'))
    except ValueError:
        seed = 0
    mod = importlib.import_module(f'ffv.props.{prop.lower()}')
    ctx = common.Ctx(prop, tier, seed)
    if args.replay:
        return replay(mod, ctx, args.replay)
    try:
        if not args.no_lean:
            lean_stage(ctx, mod)
        t1 = time.time()
        ctx.stats['lean_stage_s'] = round(t1 - ctx.t0, 1)
        # the correspondence needs the executable model (a broken source pin or translation site
        # does not prevent running it)
        lean_ok = getattr(ctx, 'model_ok', False)
        # correspondence: model driver vs implementation
        try:
            if lean_ok or args.no_lean:
                mod.correspondence(ctx)
            else:
                # the model may not even build; correspondence components count as undischarged
                for c in getattr(mod, 'COMPONENTS', []):
                    ctx.oblige('correspondence:' + c, 'correspondence', False,
                               'not run: Lean build/translation broken')
        except Exception as e:  # noqa
            ctx.oblige('correspondence:harness', 'correspondence', False,
                       'harness error: ' + repr(e) + traceback.format_exc()[-400:])
        ctx.stats['correspondence_s'] = round(time.time() - t1, 1)
        t2 = time.time()
        try:
            mod.search(ctx, deep=False)
            if ctx.broken() and not ctx.failures:
                # a proof obligation / the tie broke: look harder for a concrete failing input
                mod.search(ctx, deep=True)
        except Exception as e:  # noqa
            # the implementation (or the harness on unexpected output of the implementation, e.g.
            # an array of the wrong shape) raised inside the search: the property is not shown
            # to hold on this tree
            ctx.oblige('search:completed', 'search', False,
                       'exception during the failing-input search: ' + repr(e)
                       + traceback.format_exc()[-600:])
        ctx.stats['search_s'] = round(time.time() - t2, 1)
    except Exception:  # infrastructure error
        traceback.print_exc()
        return 2
    for r in getattr(mod, 'RULES', []):
        ctx.rules.append(r)
    ctx.assumptions += getattr(mod, 'ASSUMPTIONS', [])
    ctx.trusted += getattr(mod, 'TRUSTED', [])
    return common.finish(ctx)


if __name__ == '__main__':
    sys.exit(main())
