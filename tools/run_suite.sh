#!/bin/bash
# Runs the pinned suite of /repo (guard off) in parallel and compares with BASELINE.json's stable_pass list.
cd /repo && /venv/bin/python -m pytest -q -p no:cacheprovider --timeout=900 --continue-on-collection-errors -n ${FFV_JOBS:-8} --junitxml=/var/tmp/ffv-suite.xml "$@" > /var/tmp/ffv-suite.log 2>&1
python3 - <<'PY'
import json, xml.etree.ElementTree as ET
base = set(json.load(open('/root/.vp/BASELINE.json'))['stable_pass'])
t = ET.parse('/var/tmp/ffv-suite.xml')
ok = set()
for tc in t.iter('testcase'):
    if not any(c.tag in ('failure', 'error', 'skipped') for c in tc):
        ok.add(f"{tc.get('classname')}::{tc.get('name')}")
missing = sorted(base - ok)
print(f'baseline {len(base)} passed-now {len(ok & base)} missing {missing}')
raise SystemExit(1 if missing else 0)
PY
