"""C14 — constructed bases are complete, orthonormal, Hermitian; expansion is exact."""
import numpy as np

import filter_functions as ff
from filter_functions import basis as B

from .. import gens
from ..common import arr2bits, bits2arr, driver, f2b

THEOREMS = '''pauli1_orthoHerm pauli1_complete kron_orthoHerm kron_complete
complete_of_orthonormal_card pauliBasis_succ_eq_kron pauliBasis_one pauliBasis_orthoHerm
pauliBasis_complete pauliBasis_first_is_identity pauliBasis_traceless_rest ggmBasis_orthoHerm
ggmBasis_complete ggmBasis_first_is_identity ggmBasis_traceless_rest expansion_is_inverse
pauli_expansion_is_inverse expand_real_of_hermitian ggm_index_bijection ggm_count
ggmExpand_eq_expand ggmExpand_hermitian ggmExpand_traceless ggm_expansion_is_inverse
from_partial_props from_partial_traceless_props fromPartialCombine_props isOrthonormFlag_single
isOrthonormFlag_iff isOrthonormFlag_sound isHermFlag_iff isHermFlag_sound isTracelessFlag_sound
isTracelessFlag_sound_entries fromPartial_rejects_nonorthonormal fromPartial_rejects_nontraceless
fromPartialGate_ok '''.split()
PINS = ['pinFullFromPartial', 'pinExpand', 'pinBasisArrayFinalize', 'C14_basis_source_shape']
GEN_SITES = ['const:basis.flags', 'einsum:basis_ggm_expand_0', 'einsum:basis_Basis_istraceless_0',
             'einsum:basis__full_from_partial_0', 'einsum:basis_expand_0']
COMPONENTS = ['pauli', 'ggm', 'ggm_expand', 'expand', 'basis_flags']
RULES = ['correspondence: Basis.pauli(n) n<=3(4), Basis.ggm(d) d<=7(10), ggm_expand / expand on '
         'random (Hermitian or not) matrices with every flag combination, flags on structured '
         'operator sets — model vs package, exact at 1e-12; search: Gram matrix, rank, identity '
         'placement, tracelessness of the rest, expansion inverse (stacks too), closed-form GGM '
         'expansion vs generic, from_partial on random orthonormal partial sets of every size '
         '(with/without identity, any normalisation, any position of the identity, traceless '
         'flags, labels): completeness, orthonormality, hermiticity, containment of the inputs in '
         'order, label association, rejection of non-orthonormal / non-traceless sets; flags on '
         'almost-orthonormal / almost-traceless sets at 0.5x and 2x tolerance; distinct = input hash']
ASSUMPTIONS = ['scipy.linalg.null_space and numpy.linalg.matrix_rank are oracles (contracts '
               'hypotheses of from_partial_props; measured by the search)']
TRUSTED = ['oracle contracts: null_space (orthonormal rows spanning the kernel), matrix_rank']


def correspondence(ctx):
    rng = ctx.rng('corr')
    reqs, exp, comp = [], [], []
    nmax, dmax = (3, 6) if ctx.tier == 'quick' else (4, 10)
    for n in range(1, nmax + 1):
        reqs.append(f'pauli {n}')
        exp.append(np.asarray(ff.Basis.pauli(n)))
        comp.append('pauli')
    for d in range(2, dmax + 1):
        reqs.append(f'ggm {d}')
        exp.append(np.asarray(ff.Basis.ggm(d)).reshape(d*d, d, d))
        comp.append('ggm')
    for d in range(2, 6):
        for tl in (0, 1):
            for h in (0, 1):
                M = rng.standard_normal((d, d)) + 1j*rng.standard_normal((d, d))
                if h:
                    M = M + M.conj().T
                reqs.append(f'ggm_expand {d} {tl} {h} {arr2bits(M)}')
                exp.append(B.ggm_expand(M, traceless=bool(tl), hermitian=bool(h)).astype(complex))
                comp.append('ggm_expand')
    for d in range(2, 5):
        for N in (1, d*d):
            for h in (0, 1):
                M = rng.standard_normal((d, d)) + 1j*rng.standard_normal((d, d))
                C = ff.Basis.ggm(d)[:N]
                if h:
                    M = M + M.conj().T
                reqs.append(f'expand {d} {N} {h} {arr2bits(M)} {arr2bits(np.asarray(C).astype(complex))}')
                exp.append(np.asarray(B.expand(M, C, hermitian=bool(h))).astype(complex))
                comp.append('expand')
    eps = np.finfo(complex).eps

    def flags(arr):
        b = ff.Basis(np.array(arr, dtype=complex))
        d, N = b.d, len(b)
        reqs.append(f'basis_flags {d} {N} {f2b(eps*d**3)} {f2b(eps*(d**2)**3)} {f2b(eps*d**2)} '
                    f'{arr2bits(np.asarray(b))}')
        exp.append(''.join('1' if x else '0' for x in (b.isherm, b.isorthonorm, b.istraceless)))
        comp.append('basis_flags')
    flags(ff.Basis.pauli(1))
    flags(ff.Basis.ggm(3))
    flags(ff.Basis.pauli(2)[1:5])
    flags([[[0, 1], [1, 0]]])
    flags([[[1, 1], [0, 1]]])
    flags([[[1, 0], [1, 1]]])
    flags([[[1, 0], [0, 1]], [[1, 0], [0, 1]]])
    flags([[[0, 1], [0, 0]], [[1, 0], [0, 2]]])
    flags(rng.standard_normal((3, 3, 3)))
    flags([[[1, 5, 0], [0, 1, 0], [0, 0, 1]], [[0, 0, 1], [0, 0, 0], [1, 0, 0]]])
    for _ in range(4 if ctx.tier == 'quick' else 40):
        d = int(rng.choice([2, 3]))
        k = int(rng.integers(2, d*d + 1))
        a = gens.rotated_basis(rng, d, bool(rng.integers(0, 2)))[:k]
        a = a + rng.choice([0, 1e-17, 1e-9])*rng.standard_normal(a.shape)
        flags(a)
    outs = driver(reqs)
    bad = {c: [] for c in COMPONENTS}
    for r, e, c, o in zip(reqs, exp, comp, outs):
        ctx.count(r[:60])
        if isinstance(e, str):
            if o != 'ok ' + e:
                bad[c].append((r[:40], o, e))
            continue
        got = bits2arr(o[3:], e.shape, cplx=True) if o.startswith('ok ') else None
        if got is None or not gens.abs_err(got, e) <= 1e-12:
            bad[c].append((r[:40], o[:30]))
    for c, v in bad.items():
        ctx.oblige('correspondence:' + c, 'correspondence', not v, f'{len(v)} disagree: {v[:2]}')
    ctx.sample({'request': reqs[0]})


def basis_props(b):
    """independent evaluation: (gram error, hermiticity error, rank)"""
    a = np.asarray(b).reshape(len(b), -1)
    gram = a.conj() @ a.T
    herm = np.max(np.abs(np.asarray(b) - np.asarray(b).conj().transpose(0, 2, 1)))
    return np.max(np.abs(gram - np.eye(len(b)))), herm, np.linalg.matrix_rank(a)


def check_constructed(ctx, case):
    kind, n = case['kind'], int(case['n'])
    b = ff.Basis.pauli(n) if kind == 'pauli' else ff.Basis.ggm(n)
    d = 2**n if kind == 'pauli' else n
    g, h, r = basis_props(b)
    probs = []
    if len(b) != d*d or r != d*d:
        probs.append(('not complete', int(r)))
    if g > 1e-12:
        probs.append(('not orthonormal', float(g)))
    if h > 1e-14:
        probs.append(('not Hermitian', float(h)))
    if not np.allclose(np.asarray(b)[0], np.eye(d)/np.sqrt(d)):
        probs.append(('first element is not the normalised identity', 0))
    tr = np.einsum('kii', np.asarray(b))
    if np.max(np.abs(tr[1:])) > 1e-12:
        probs.append(('non-identity element with a trace', float(np.max(np.abs(tr[1:])))))
    if not (b.isherm and b.isorthonorm and b.istraceless and b.iscomplete):
        probs.append(('flags', [bool(b.isherm), bool(b.isorthonorm), bool(b.istraceless),
                                bool(b.iscomplete)]))
    # expansion is the inverse of reconstruction, stacks too; closed form agrees
    rng = np.random.default_rng(n)
    M = rng.standard_normal((3, d, d)) + 1j*rng.standard_normal((3, d, d))
    c = B.expand(M, b)
    rec = np.einsum('sj,jab->sab', c, np.asarray(b))
    if np.max(np.abs(rec - M)) > 1e-10:
        probs.append(('expand is not the inverse of reconstruction', float(np.max(np.abs(rec - M)))))
    Hm = M + M.conj().transpose(0, 2, 1)
    ch = B.expand(Hm, b, hermitian=True)
    if np.iscomplexobj(ch) or np.max(np.abs(np.einsum('sj,jab->sab', ch, np.asarray(b)) - Hm)) > 1e-10:
        probs.append(('Hermitian expansion not real/exact', 0))
    if kind == 'ggm':
        cg = B.ggm_expand(M)
        if np.max(np.abs(cg - c)) > 1e-10:
            probs.append(('ggm_expand differs from expand', float(np.max(np.abs(cg - c)))))
    # every call of a constructor returns an object of its own: whatever a caller did to an earlier
    # basis of the same kind and dimension (scaled it in place, overwrote an element) does not show
    # in the next one, nor in a basis completed from a partial set or in a pulse's default basis
    make = (lambda: ff.Basis.pauli(n)) if kind == 'pauli' else (lambda: ff.Basis.ggm(n))
    old = make()
    old *= 2.0
    old[-1] = 0
    try:
        new = make()
        g2, _, r2 = basis_props(new)
        if g2 > 1e-12 or r2 != d*d:
            probs.append(('a basis modified in place shows in the next constructed one', float(g2)))
        part = ff.Basis.from_partial(np.asarray(b)[1:2].copy(), traceless=True)
        g3, _, r3 = basis_props(part)
        if g3 > 1e-10 or r3 != d*d:
            probs.append(('a basis modified in place shows in a later from_partial', float(g3)))
    finally:
        old[-1] = np.asarray(b)[-1]
        old /= 2.0
    ctx.count((kind, n), nontrivial=True)
    if probs:
        ctx.fail('constructed_basis', case, probs, 'complete orthonormal Hermitian basis', {},
                 f'{kind}({n}): {probs[:3]}')


def check_from_partial(ctx, case):
    rng = np.random.default_rng(case['seed'])
    d = int(case['d'])
    k = int(case['k'])
    with_id = bool(case['with_id'])
    traceless = case['traceless']
    full = gens.rotated_basis(rng, d, True)       # identity first, rest traceless
    elems = list(full[1:])
    rng.shuffle(elems)
    elems = elems[:k - 1 if with_id else k]
    if with_id:
        elems.insert(int(rng.integers(0, len(elems) + 1)), full[0])
    if traceless is False:
        # a set that is not traceless: mix the identity into one element
        pass
    scale = rng.uniform(0.3, 3, len(elems))
    # any normalisation: individual factors and a common one over many orders of magnitude
    scale = scale*float(case.get('scale', 1.0))
    part = np.array(elems)*scale[:, None, None]
    labels = [f'L{i}' for i in range(len(part))]
    import warnings as _w
    try:
        with _w.catch_warnings(record=True) as wrn:
            _w.simplefilter('always')
            b = ff.Basis.from_partial(part, traceless=traceless, labels=labels)
    except ValueError as e:
        ctx.count(('fp', d, k, with_id, traceless, case['seed'], case.get('scale', 1.0)))
        ctx.fail('from_partial_props', case, f'ValueError: {e}', 'a completed basis',
                 {'kind': 'valid_partial_set_rejected'},
                 f'from_partial d={d} k={k} scale={case.get("scale", 1.0)}: valid partial set rejected: {e}')
        return
    g, h, r = basis_props(b)
    probs = []
    if any('hermitian' in str(w.message).lower() for w in wrn):
        probs.append(('spurious_hermiticity_warning', 0))
    if traceless is None and not b.istraceless:
        # the inputs are traceless up to the identity: the inferred flag must be "traceless"
        probs.append(('traceless_not_inferred', 0))
    feats = {'traceless': bool(b.istraceless), 'identity_among_inputs': with_id}
    if len(b) != d*d or r != d*d or g > 1e-10 or h > 1e-12:
        probs.append(('basis_quality', [len(b), int(r), float(g), float(h)]))
    norm = part/np.sqrt(np.einsum('kab,kab->k', part.conj(), part).real)[:, None, None]
    arr = np.asarray(b)
    # containment, in order (identity moved to the front for traceless results)
    pos = []
    for e in norm:
        hit = [j for j in range(len(arr)) if np.allclose(arr[j], e, atol=1e-10)]
        pos.append(hit[0] if hit else None)
    if None in pos:
        probs.append(('inputs_not_contained', pos))
    if b.istraceless and not np.allclose(arr[0], np.eye(d)/np.sqrt(d), atol=1e-10):
        probs.append(('identity_not_first', 0))
    if probs:
        ctx.fail('from_partial_props', case, probs, 'complete orthonormal Hermitian basis containing '
                 'the inputs', dict(feats, kind=probs[0][0]), f'from_partial d={d} k={k}: {probs[:2]}')
    elif None not in pos:
        lab = [b.labels[j] for j in pos]
        if lab != labels:
            ctx.fail('from_partial_props', case, {'labels_at_inputs': lab}, labels,
                     dict(feats, kind='labels_shifted'),
                     f'from_partial d={d}: labels not attached to their elements: {lab}')
    ctx.count(('fp', d, k, with_id, traceless, case['seed'], case.get('scale', 1.0)), nontrivial=True)


def check_imaginary_overlaps(ctx, case):
    """orthonormality is about the complex overlaps tr(C_i^dagger C_j): sets whose non-zero overlaps
    are purely imaginary ([A, iA], [X, (iX+Z)/sqrt 2]) are not orthonormal, and from_partial must
    reject them"""
    rng = np.random.default_rng(case['seed'])
    d = int(case['d'])
    A = gens.rand_herm(rng, d, True)
    A = A/np.sqrt(np.trace(A @ A).real)
    Bm = gens.rand_herm(rng, d, True)
    Bm = Bm - np.trace(A @ Bm).real*A
    Bm = Bm/np.sqrt(np.trace(Bm @ Bm).real)
    sets = {'[A, iA]': [A, 1j*A], '[A, (iA+B)/sqrt2]': [A, (1j*A + Bm)/np.sqrt(2)],
            '[A, iB] (orthonormal)': [A, 1j*Bm]}
    probs = []
    for name, els in sets.items():
        b = ff.Basis(np.array(els))
        G = np.einsum('iab,jab->ij', np.conj(np.array(els)), np.array(els))
        truth = bool(np.allclose(G, np.eye(len(els)), atol=1e-10))
        if bool(b.isorthonorm) != truth:
            probs.append(f'isorthonorm={bool(b.isorthonorm)} for {name}, Gram matrix says {truth}')
        if not truth:
            try:
                import warnings as _w
                with _w.catch_warnings():
                    _w.simplefilter('ignore')
                    ff.Basis.from_partial(els)
                probs.append(f'from_partial accepted the non-orthonormal set {name}')
            except ValueError:
                pass
    ctx.count(('imag_overlap', d, case['seed']))
    if probs:
        ctx.fail('flags_truthful', case, probs, 'flags that agree with the Gram matrix',
                 {'kind': 'imaginary_overlaps'}, f'd={d}: {probs[:2]}')


def check_rejects(ctx, case):
    rng = np.random.default_rng(case['seed'])
    d = int(case['d'])
    full = gens.rotated_basis(rng, d, True)
    probs = []
    # not orthogonal
    bad = np.array([full[1], full[1] + 0.3*full[2]])
    try:
        ff.Basis.from_partial(bad)
        probs.append('non-orthogonal set accepted')
    except ValueError:
        pass
    # not traceless but traceless demanded
    nt = np.array([full[1] + 0.5*full[0]])
    try:
        ff.Basis.from_partial(nt, traceless=True)
        probs.append('non-traceless set accepted with traceless=True')
    except ValueError:
        pass
    # valid sets are never rejected
    try:
        ff.Basis.from_partial(full[1:3]*2.5, traceless=True)
        ff.Basis.from_partial(full[:2], traceless=False)
    except ValueError as e:
        probs.append('valid set rejected: ' + str(e))
    ctx.count(('rej', d, case['seed']))
    if probs:
        ctx.fail('from_partial_rejects', case, probs, 'documented rejection', {}, f'd={d}: {probs}')


def check_flags(ctx, case):
    """flags are truthful for arbitrary operator sets, at 0.5x and 2x the tolerance"""
    rng = np.random.default_rng(case['seed'])
    d = int(case['d'])
    k = int(rng.integers(1, d*d + 1))
    base = gens.rotated_basis(rng, d, True)[:k]
    what = case['what']
    fac = float(case['fac'])
    b0 = ff.Basis(base.copy())
    a = base.copy()
    probs = []
    if what == 'herm':
        tol = b0._atol
        a[-1][0, 1] += 1j*0  # keep
        a[-1] = a[-1] + fac*tol*np.triu(np.ones((d, d)), 1)
        got = ff.Basis(a).isherm
        true = np.allclose(a, a.conj().transpose(0, 2, 1), atol=0, rtol=0)
        want = fac < 1 or true
        if bool(got) != bool(want) and fac > 1.5:
            probs.append(('isherm', bool(got), fac))
    elif what == 'single_unnormalised':
        a = base[:1]*float(rng.uniform(1.5, 3))
        got = ff.Basis(a).isorthonorm
        if got:
            ctx.count(('flag', what, case['seed']))
            ctx.fail('flags_truthful', case, 'isorthonorm True for a single unnormalised element',
                     False, {'kind': 'isorthonorm_single_unnormalised'},
                     'isorthonorm is True for a single unnormalised element')
            return
    elif what == 'orth':
        a = a*(1 + 1e-3*fac)
        got = ff.Basis(a).isorthonorm
        if k > 1 and got:
            probs.append(('isorthonorm True for elements of norm^2 1+2e-3', fac))
    elif what == 'tl':
        a[-1] = a[-1] + 1e-3*np.diag(np.arange(d))
        got = ff.Basis(a).istraceless
        if k >= 2 and got and abs(np.trace(a[-1])) > 1e-6 and abs(np.trace(a[0])) > 1e-6:
            probs.append(('istraceless True with two elements with a trace', 0))
        c = np.array([np.eye(d) + np.diag(np.r_[np.zeros(d - 1), 1e-3])])
        if ff.Basis(c).istraceless:
            probs.append(('istraceless True for a non-identity diagonal element', 0))
        e = np.array([np.eye(d) + 1e-3*np.eye(d, k=1)])
        if ff.Basis(e).istraceless:
            probs.append(('istraceless True for identity plus off-diagonal entry', 0))
    elif what == 'complete':
        got = ff.Basis(base).iscomplete
        if bool(got) != (k == d*d):
            probs.append(('iscomplete', bool(got), k))
        # the same set with elements of very different norms (completeness is a property of the span)
        sc = 10.0**rng.uniform(-9, 0, k)
        sc[int(rng.integers(0, k))] = 1.0
        got = ff.Basis(base*sc[:, None, None]).iscomplete
        if bool(got) != (k == d*d):
            probs.append(('iscomplete of a set with norms between %.1g and 1' % sc.min(), bool(got), k))
    ctx.count(('flag', what, d, case['seed']))
    if probs:
        ctx.fail('flags_truthful', case, probs, 'truthful flags', {'kind': probs[0][0]},
                 f'd={d} k={k}: {probs}')


CHECKS = {'constructed_basis': check_constructed, 'from_partial_props': check_from_partial,
          'from_partial_rejects': check_rejects, 'flags_truthful': check_flags}


def replay(ctx, check, case):
    if check == 'flags_truthful' and 'what' not in case:
        return check_imaginary_overlaps(ctx, case)
    CHECKS[check](ctx, case)


def search(ctx, deep=False):
    rng = ctx.rng('deep' if deep else 'search')
    big = ctx.tier == 'thorough' or deep
    for n in range(1, 5 if big else 4):
        check_constructed(ctx, {'kind': 'pauli', 'n': n})
    for d in range(2, 14 if big else 8):
        check_constructed(ctx, {'kind': 'ggm', 'n': d})
    n = 24 if not big else 300
    for i in range(n):
        d = int(rng.choice([2, 2, 3, 4]))
        k = int(rng.integers(1, d*d + 1))
        with_id = bool(rng.integers(0, 2)) and k >= 1
        check_from_partial(ctx, {'seed': int(rng.integers(0, 2**31)), 'd': d, 'k': k,
                                 'with_id': with_id,
                                 'traceless': [None, True][int(rng.integers(0, 2))]})
        # labelled sets with the identity somewhere in the middle (generic elements: float traces of
        # order 1e-17 in front of it)
        dd = int(rng.choice([3, 4]))
        check_from_partial(ctx, {'seed': int(rng.integers(0, 2**31)), 'd': dd,
                                 'k': int(rng.integers(3, dd*dd + 1)), 'with_id': True,
                                 'traceless': [None, True][int(rng.integers(0, 2))],
                                 'scale': [1.0, 0.04, 12.5, 1e3, 1e-6][int(rng.integers(0, 5))]})
        if i % 4 == 0:
            check_rejects(ctx, {'seed': int(rng.integers(0, 2**31)), 'd': d})
            check_imaginary_overlaps(ctx, {'seed': int(rng.integers(0, 2**31)), 'd': d})
        check_flags(ctx, {'seed': int(rng.integers(0, 2**31)), 'd': d,
                          'what': str(rng.choice(['herm', 'orth', 'tl', 'complete',
                                                  'single_unnormalised'])),
                          'fac': float(rng.choice([0.5, 2.0]))})
    ctx.sample({'families': 'pauli n<=3, ggm d<=7, from_partial random sets'})
