"""C13 — invariance under re-segmentation, operator order and change of time unit."""
import numpy as np

import filter_functions as ff

from .. import gens
from . import c01

THEOREMS = '''segIntegral_split firstOrderEntry_split firstOrderEntry_split_error firstOrderMask_scale
firstOrderEntry_scale scale_current absGt_not_scale_covariant cm_scale ff_smul_real ff_scale
cm_linear_opers cm_linear_opers_data cm_linear_coeffs cm_linear_coeffs_data cm_zero_dt_segment
cm_drop_zero_segments cm_perm_opers ff_perm_opers cm_split_segment_defect cm_split_segment
cm_split_segment_error isSegmentCut_exists'''.split()
# infidelity-level consequences (module Props/C08Inv, namespace FFVerif.C08)
THEOREMS += ['FFVerif.C08.' + t for t in '''infidelity_split_segment infidelity_split_segment_error
infidelity_zero_dt_segment infidelity_drop_zero_segments infidelity_perm_opers
infidelity_perm_opers_entries infidelity_time_unit infidelity_time_unit_fixed_coeffs
infidelity_scaling_law'''.split()]
# propagator / Hamiltonian level for the model of diagonalize / propagators (module Props/C13Prop)
THEOREMS += '''segment_propagator_unique piecewise_unique propagators_unique hamiltonian_reindex_opers
hamiltonian_perm_opers hamiltonian_zero_amplitude_oper hamiltonian_segment_reindex
propagators_split_segment isSplit_exists times_split_segment propagators_zero_dt_segment
isZeroInsert_exists times_zero_dt_segment propagators_merge_equal propagators_refine
propagators_refine_inner total_propagator_refine eigh_contract_time_unit hamiltonian_time_unit
propagators_time_unit propagators_time_unit_eigh times_time_unit tau_time_unit
total_propagator_time_unit total_propagator_invariant isSegmentCut_of_model'''.split()
LEAN_MODULES = ['FFVerif.Props.C13', 'FFVerif.Props.C08Inv', 'FFVerif.Props.C13Prop', 'FFVerif.Props.C01Unique',
                'FFVerif.Props.C13Second', 'FFVerif.Props.C13SecondShifts', 'FFVerif.Props.C13SecondRefine',
                'FFVerif.Props.C10Unique']
# modules C13Second / C13SecondShifts / C13SecondRefine: the SECOND-order filter function (and the frequency shifts)
# under time-unit scaling, zero-length segments, splits / merges / arbitrary refinements, operator order;
# bilinearity in the sensitivities
THEOREMS += [
    'FFVerif.C13.secondOrderEntry_scale', 'FFVerif.C13.secondOrder_masks_scale',
    'FFVerif.C13.secondOrder_time_unit_of_guard', 'FFVerif.C13.firstOrderEntry_neZero_scale',
    'FFVerif.C13.secondOrder_time_unit', 'FFVerif.C13.secondOrder_time_unit_neZero',
    'FFVerif.C13.secondOrder_drop_zero_segments', 'FFVerif.C13.secondOrder_zero_dt_segment',
    'FFVerif.C13.secondOrder_zero_dt_segment_congr', 'FFVerif.C13.secondOrder_perm_opers',
    'FFVerif.C13.secondOrder_perm_basis', 'FFVerif.C13.secondOrder_split_segment_of_exact',
    'FFVerif.C13.secondOrder_split_segment', 'FFVerif.C13.secondOrder_split_segment_masks',
    'FFVerif.C13.isCutData_exists', 'FFVerif.C13.secondOrder_split_segment_model',
    'FFVerif.C13.secondOrder_merge_equal', 'FFVerif.C13.secondOrder_coeffs_factor',
    'FFVerif.C13.secondOrder_scale_coeffs', 'FFVerif.C13.secondOrder_linear_coeffs_left',
    'FFVerif.C13.secondOrder_linear_coeffs_right', 'FFVerif.C13.secondOrder_linear_opers_right',
    'FFVerif.C13.secondOrder_linear_opers_left', 'FFVerif.C13.shiftEntry_rescale',
    'FFVerif.C13.frequency_shifts_rescale', 'FFVerif.C13.frequency_shifts_time_unit',
    'FFVerif.C13.frequency_shifts_time_unit_coeffs', 'FFVerif.C13.frequency_shifts_split_segment',
    'FFVerif.C13.frequency_shifts_zero_dt_segment', 'FFVerif.C13.secondOrder_refine',
    'FFVerif.C10.secondOrderFF_eigh_independent']
THEOREMS += ['FFVerif.C01.cm_eigh_independent', 'FFVerif.C01.cm_eigh_independent_diagonalize',
             'FFVerif.C01.ff_eigh_independent', 'FFVerif.C01.infidelity_eigh_independent']   # each re-segmented pulse has its own eigh output
PINS = ['pinControlMatrixFromScratch', 'pinDiagonalize']
GEN_SITES = c01.GEN_SITES
COMPONENTS = c01.COMPONENTS
RULES = ['correspondence: as C01 (the theorems are about the same executable model); search: '
         'metamorphic relations on the implementation — split a segment at a random point / merge '
         'equal neighbours / insert zero-duration segments with arbitrary amplitudes / permute the '
         'listed operators / rescale the time unit by 10^k, k in -9..9 / linear combinations of noise '
         'operators and sensitivities — on propagators, control matrix, filter function, infidelity; '
         'frequencies include resonances; tolerance 1e-6 of the largest entry; distinct = input hash']
ASSUMPTIONS = c01.ASSUMPTIONS
TRUSTED = c01.TRUSTED


def correspondence(ctx):
    c01.correspondence(ctx)


def quantities(desc, omega, S):
    p = gens.build(desc)
    B = p.get_control_matrix(omega)
    F = p.get_filter_function(omega)
    # the probe frequencies (resonances and their neighbourhoods, unsorted, nearly coincident) are
    # not an integration grid: the infidelity is taken on the sorted distinct frequencies, and
    # compared relative to the integral of |F| S (the trapezoid's own scale) — a signed, almost
    # cancelling sum would turn the 1e-7-relative truncation of the integrand into an arbitrarily
    # large relative error of the result
    os_ = np.unique(omega)
    Ss = 1/(1 + np.abs(os_))
    q = gens.build(desc)
    inf = ff.infidelity(q, Ss, os_)
    Fs = q.get_filter_function(os_)
    scale = np.trapz(np.abs(np.einsum('aao->ao', Fs))*Ss, os_, axis=-1)/(2*np.pi*desc['d'])
    return p.total_propagator, B, F, (inf, scale)


def generic_omegas(desc):
    """a few frequencies away from every level splitting of every segment (and from zero) by at
    least a tenth of the inverse total duration"""
    H = gens.seg_hamiltonians(desc)
    T = float(np.sum(desc['dt'])) or 1.0
    gaps = [0.0]
    for h in H:
        ev = np.linalg.eigvalsh(h)
        gaps += list(np.abs(np.subtract.outer(ev, ev)).ravel())
    gaps = np.array(gaps)
    out = []
    x = 0.37/T
    while len(out) < 4 and x < 1e6/T:
        if np.min(np.abs(np.abs(x) - gaps)) > 0.1/T:
            out.append(x)
            out.append(-x)
        x *= 2.3
    return np.array(sorted(out))


def cmp(ctx, check, case, what, a, b, tol=1e-6, features=None):
    if isinstance(b, tuple):
        # (infidelity, scale of the trapezoid)
        e = float(np.max(np.abs(np.asarray(a[0]) - np.asarray(b[0]))/np.maximum(b[1], 1e-300)))
    else:
        e = gens.rel_err(a, b) if np.max(np.abs(b)) > 1e-300 else float(np.max(np.abs(a)))
    if not e <= tol:
        ctx.fail(check, case, {'what': what, 'err': e}, {'tol': tol}, features or {},
                 f'{check}: {what} changed by {e:.3g} (features={case["desc"]["features"]})')


def check_resegment(ctx, case):
    desc, omega = case['desc'], np.asarray(case['omega'], dtype=float)
    rng = np.random.default_rng(case['seed'])
    S = 1/(1 + np.abs(omega))
    Q, B, F, inf = quantities(desc, omega, S)
    n = len(desc['dt'])
    # split segment g into k pieces
    g = int(rng.integers(0, n))
    k = int(rng.integers(2, 5))
    cuts = np.sort(rng.random(k - 1))
    fr = np.diff(np.concatenate(([0], cuts, [1])))
    d2 = dict(desc)
    rep = np.concatenate((np.arange(g), [g]*k, np.arange(g + 1, n)))
    d2['c_coeffs'] = np.asarray(desc['c_coeffs'])[:, rep]
    d2['n_coeffs'] = np.asarray(desc['n_coeffs'])[:, rep]
    dt = np.asarray(desc['dt'], dtype=float)
    d2['dt'] = np.concatenate((dt[:g], dt[g]*fr, dt[g + 1:]))
    # insert a zero-duration segment with arbitrary amplitudes
    j = int(rng.integers(0, len(d2['dt']) + 1))
    d3 = dict(d2)
    d3['c_coeffs'] = np.insert(d2['c_coeffs'], j, rng.standard_normal(len(d2['c_coeffs']))*5, axis=1)
    d3['n_coeffs'] = np.insert(d2['n_coeffs'], j, rng.standard_normal(len(d2['n_coeffs'])), axis=1)
    d3['dt'] = np.insert(d2['dt'], j, 0.0)
    for name, dd in (('split', d2), ('split+zero-length', d3)):
        Q2, B2, F2, inf2 = quantities(dd, omega, S)
        cmp(ctx, 'resegmentation', case, f'{name}: total propagator', Q2, Q, 1e-9)
        cmp(ctx, 'resegmentation', case, f'{name}: control matrix', B2, B)
        cmp(ctx, 'resegmentation', case, f'{name}: filter function', F2, F)
        cmp(ctx, 'resegmentation', case, f'{name}: infidelity', inf2, inf)
        wg = generic_omegas(desc)
        cmp(ctx, 'resegmentation', case, f'{name}: second-order filter function',
            gens.build(dd).get_filter_function(wg, order=2),
            gens.build(desc).get_filter_function(wg, order=2))
    # a split into pieces of exactly equal length, evaluated with and without the performance option
    # cache_intermediates (the option changes which buffers the per-segment quantities live in, not
    # the result), and through the derivative entry point, which switches it on implicitly
    k = int(rng.integers(2, 4))
    rep = np.concatenate((np.arange(g), [g]*k, np.arange(g + 1, n)))
    d5 = dict(desc)
    d5['c_coeffs'] = np.asarray(desc['c_coeffs'])[:, rep]
    d5['n_coeffs'] = np.asarray(desc['n_coeffs'])[:, rep]
    d5['dt'] = np.concatenate((dt[:g], [dt[g]/k]*k, dt[g + 1:]))
    for opt in (False, True):
        q5 = gens.build(d5)
        B5 = q5.get_control_matrix(omega, cache_intermediates=opt)
        cmp(ctx, 'resegmentation', case, f'equal split (cache_intermediates={opt}): control matrix',
            B5, B)
        cmp(ctx, 'resegmentation', case, f'equal split (cache_intermediates={opt}): filter function',
            q5.get_filter_function(omega), F)
    q5 = gens.build(d5)
    with np.errstate(all='ignore'):
        q5.get_filter_function_derivative(omega)
    cmp(ctx, 'resegmentation', case, 'equal split, after a derivative request: control matrix',
        q5.get_control_matrix(omega), B)
    # cutting the pulse in two and playing the pieces one after the other (with and without pulse-correlation
    # data, on complete and incomplete bases) is the same pulse again
    if n >= 2:
        k = int(rng.integers(1, n))
        whole = gens.build(desc)
        for pcff in (False, True):
            pieces = [gens.build(desc)[:k], gens.build(desc)[k:]]
            if rng.random() < 0.5:
                pieces[0].cache_control_matrix(omega)
            joined = ff.concatenate(pieces, omega=omega, calc_pulse_correlation_FF=pcff)
            cmp(ctx, 'resegmentation', case, f'cut at segment {k} and concatenated (pulse correlations: {pcff}): '
                'control matrix', joined.get_control_matrix(omega), B)
        C = gens.basis_array(desc)
        if len(C) > 2:
            sub = dict(desc)
            sub['basis'] = ('custom', C[np.sort(rng.choice(len(C), len(C) - 1, replace=False))], None, 'Custom')
            Bsub = gens.build(sub).get_control_matrix(omega)
            joined = ff.concatenate([gens.build(sub)[:k], gens.build(sub)[k:]], omega=omega,
                                    calc_pulse_correlation_FF=True)
            cmp(ctx, 'resegmentation', case, f'cut at segment {k} and concatenated (incomplete basis, pulse '
                'correlations): control matrix', joined.get_control_matrix(omega), Bsub)
    # operator order
    pc, pn = rng.permutation(len(desc['c_opers'])), rng.permutation(len(desc['n_opers']))
    d4 = dict(desc)
    d4['c_opers'] = np.asarray(desc['c_opers'])[pc]
    d4['c_coeffs'] = np.asarray(desc['c_coeffs'])[pc]
    d4['c_ids'] = [desc['c_ids'][i] for i in pc]
    d4['n_opers'] = np.asarray(desc['n_opers'])[pn]
    d4['n_coeffs'] = np.asarray(desc['n_coeffs'])[pn]
    d4['n_ids'] = [desc['n_ids'][i] for i in pn]
    Q4, B4, F4, inf4 = quantities(d4, omega, S)
    cmp(ctx, 'operator_order', case, 'control matrix', B4, B, 1e-9)
    cmp(ctx, 'operator_order', case, 'filter function', F4, F, 1e-9)
    cmp(ctx, 'operator_order', case, 'infidelity', inf4, inf, 1e-9)
    ctx.count(('reseg', tuple(desc['features']), case['seed']), nontrivial=True)


def check_time_unit(ctx, case):
    desc, omega, lam = case['desc'], np.asarray(case['omega'], dtype=float), float(case['lam'])
    p = gens.build(desc)
    B = p.get_control_matrix(omega)
    F = p.get_filter_function(omega)
    d2 = dict(desc)
    d2['dt'] = np.asarray(desc['dt'])*lam
    d2['c_coeffs'] = np.asarray(desc['c_coeffs'])/lam
    q = gens.build(d2)
    B2 = q.get_control_matrix(omega/lam)
    F2 = q.get_filter_function(omega/lam)
    cmp(ctx, 'time_unit', case, f'control matrix (lambda={lam:g})', B2/lam, B, 1e-6, {'lam': lam})
    cmp(ctx, 'time_unit', case, f'filter function (lambda={lam:g})', F2/lam**2, F, 1e-6, {'lam': lam})
    # the second-order filter function scales with lambda^2 as well (generic frequencies: the
    # neighbourhoods of the resonances are the business of C10 and of its open finding F9)
    wg = generic_omegas(desc)
    S2 = gens.build(desc).get_filter_function(wg, order=2)
    S2q = gens.build(d2).get_filter_function(wg/lam, order=2)
    cmp(ctx, 'time_unit', case, f'second-order filter function (lambda={lam:g})', S2q/lam**2, S2, 1e-6,
        {'lam': lam})
    ctx.count(('unit', lam, tuple(desc['features']), omega.tobytes()), nontrivial=True)


def check_linear(ctx, case):
    desc, omega = case['desc'], np.asarray(case['omega'], dtype=float)
    rng = np.random.default_rng(case['seed'])
    d = desc['d']
    n_dt = len(desc['dt'])
    B1, B2 = gens.rand_herm(rng, d), gens.rand_herm(rng, d)
    a, b = rng.standard_normal(2)
    s = rng.uniform(0.5, 1.5, n_dt)

    def cm(op, sens):
        dd = dict(desc)
        dd['n_opers'] = np.array([op])
        dd['n_coeffs'] = np.array([sens])
        dd['n_ids'] = ['N0']
        return gens.build(dd).get_control_matrix(omega)
    lhs = cm(a*B1 + b*B2, s)
    rhs = a*cm(B1, s) + b*cm(B2, s)
    cmp(ctx, 'linearity', case, 'in the noise operator', lhs, rhs, 1e-9)
    s2 = rng.uniform(0.5, 1.5, n_dt)
    lhs = cm(B1, a*s + b*s2)
    rhs = a*cm(B1, s) + b*cm(B1, s2)
    cmp(ctx, 'linearity', case, 'in the sensitivities', lhs, rhs, 1e-9)
    # two noise operators at once, with sensitivities that cancel exactly on every segment
    # (differential noise) and with arbitrary signs: row a is the control matrix of operator a alone
    def cm2(s1, s2):
        dd = dict(desc)
        dd['n_opers'] = np.array([B1, B2])
        dd['n_coeffs'] = np.array([s1, s2])
        dd['n_ids'] = ['N0', 'N1']
        return gens.build(dd).get_control_matrix(omega)
    both = cm2(s, -s)
    cmp(ctx, 'linearity', case, 'two operators with cancelling sensitivities: row 0', both[0], cm(B1, s)[0], 1e-9)
    cmp(ctx, 'linearity', case, 'two operators with cancelling sensitivities: row 1', both[1], -cm(B2, s)[0], 1e-9)
    ctx.count(('lin', case['seed']))


CHECKS = {'resegmentation': check_resegment, 'operator_order': check_resegment,
          'time_unit': check_time_unit, 'linearity': check_linear}


def replay(ctx, check, case):
    CHECKS[check](ctx, case)


def search(ctx, deep=False):
    rng = ctx.rng('deep' if deep else 'search')
    _, thr = c01.mask_from_gen()
    n = {('quick', False): 25, ('quick', True): 200, ('thorough', False): 500,
         ('thorough', True): 1500}[(ctx.tier, deep)]
    for i in range(n):
        feats = gens.rand_features(rng, 0.25, ['idle', 'zero_dt', 'repeat', 'degenerate',
                                               'nontraceless_nop', 'neg_sens', 'structured'])
        d = int(rng.choice([2, 2, 3, 4]))
        desc = gens.rand_desc(rng, d=d, n_dt=int(rng.integers(1, 5)), features=feats,
                              basis=gens.rand_basis_spec(rng, d))
        omega = gens.resonant_omegas(rng, desc, thr)
        omega = np.concatenate((omega[:1], rng.choice(omega[1:], min(11, len(omega) - 1),
                                                      replace=False)))
        seed = int(rng.integers(0, 2**31))
        check_resegment(ctx, {'desc': desc, 'omega': omega, 'seed': seed})
        lam = float(10.0**rng.integers(-9, 10))
        check_time_unit(ctx, {'desc': desc, 'omega': omega, 'lam': lam})
        if i % 3 == 0:
            check_linear(ctx, {'desc': desc, 'omega': omega[:6], 'seed': seed})
        if i < 2:
            ctx.sample({'d': d, 'features': feats, 'lam': lam, 'omega_head': omega[:3]})
