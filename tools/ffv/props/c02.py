"""C02 — diagonalization and propagators solve the pulse's Schroedinger equation."""
import numpy as np
from scipy.linalg import expm

import filter_functions as ff

from .. import gens
from ..common import arr2bits, bits2arr, driver

THEOREMS = '''hamiltonian_entries piecewise_entries segProp_conjTranspose segProp_zero segProp_add
segProp_unitary IsEigh.spectral IsEigh.isHermitian piecewise_is_exp segProp_hasDerivAt
propagators_zero propagators_succ total_propagator_is_last propagators_unitary
total_propagator_unitary propagators_succ_of_dt_zero propagators_succ_exp
propagators_eq_timeOrderedProduct times_zero times_succ times_eq_sum tau_eq_sum tauSum_eq_tau
times_mono times_strictMono times_mem_Icc times_append_left times_append_right tau_append tau_tile
arbUcurr_entries arbIdx_eq arbIdx_eq_zero propagatorAtArbT_spec propagatorAtArbT_spec_zero
propagatorAtArbT_at_zero propagatorAtArbT_edge segment_start_value propagatorAtArbT_beyond
propagatorAtArbT_isSome propagatorAtArbT_is_exp propagatorAtArbT_hasDerivAt
propagatorAtArbT_tendsto_right '''.split() + [
    # times of remapped / extended pulses (module C06Def)
    'FFVerif.C06Def.remapDef_times', 'FFVerif.C06Def.extendDef_times', 'FFVerif.C06Def.nDtOf_eq'] + [
    # the propagators do not depend on which eigen-decomposition LAPACK returns (module Props/C13Prop)
    'FFVerif.C13.segment_propagator_unique', 'FFVerif.C13.piecewise_unique',
    'FFVerif.C13.propagators_unique']
LEAN_MODULES = ['FFVerif.Props.C02', 'FFVerif.Props.C13Prop', 'FFVerif.Props.C06Def', 'FFVerif.Props.C04Tile',
                'FFVerif.Props.C01Unique']
# what two admissible eigh outputs of one Hamiltonian can differ in (module C01Unique)
THEOREMS = THEOREMS + [
    'FFVerif.EighUniqueAux.trans_support', 'FFVerif.EighUniqueAux.eigenvalue_mem', 'FFVerif.EighUniqueAux.eigenvalues_perm',
    'FFVerif.C01.eigvals_perm', 'FFVerif.C01.Useg_eigh_independent', 'FFVerif.C01.Useg_eq_exp']
# times and propagators of concatenated / periodically repeated pulses (module C04Tile)
THEOREMS = THEOREMS + [
    'FFVerif.C04Tile.times_concat', 'FFVerif.C04Tile.tau_concat', 'FFVerif.C04Tile.times_tile',
    'FFVerif.C04Tile.tau_tileVec', 'FFVerif.C04Tile.propagators_concat', 'FFVerif.C04Tile.propagators_tile',
    'FFVerif.C04Tile.propagators_tile_boundary', 'FFVerif.C04Tile.total_propagator_concat', 'FFVerif.C04Tile.total_propagator_tile']
PINS = ['pinDiagonalize', 'pinPropagatorAtArbT', 'pinConcatenate', 'C02_source_shape']
GEN_SITES = ['einsum:numeric_diagonalize_0', 'einsum:pulse_sequence_PulseSequence_diagonalize_0',
             'einsum:pulse_sequence_PulseSequence_propagator_at_arb_t_0']
COMPONENTS = ['hamiltonian', 'diagonalize', 'times', 'propagator_at_arb_t']
RULES = ['correspondence: the package\'s own eigh output is fed to the Lean model; Hamiltonian '
         'assembly, cumulative propagators, times/tau and propagator_at_arb_t (index and value) '
         'at every edge, inside segments and just beyond tau; search: eigh contract residuals '
         '(HV=VD, V unitary), Q_0=1, Q_{g+1}=expm(-i H_g dt_g) Q_g (scipy expm, independent), '
         'unitarity, arbitrary-time propagator vs expm at edges from both sides and inside, '
         'times/tau = cumulative sums also after concatenate / concatenate_periodic / extend / '
         'remap / slicing; distinct = input hash; non-trivial = >=2 segments and non-commuting '
         'controls']
ASSUMPTIONS = ['LAPACK eigh output satisfies its contract (measured: residual <= 1e-10)']
TRUSTED = ['oracle contract: numpy.linalg.eigh (H V = V D, V unitary, D real)']


def correspondence(ctx):
    rng = ctx.rng('corr')
    n = 8 if ctx.tier == 'quick' else 120
    reqs, exp = [], []
    for i in range(n):
        feats = gens.rand_features(rng, 0.3, ['idle', 'zero_dt', 'repeat', 'degenerate', 'big_angle'])
        desc = gens.rand_desc(rng, n_dt=int(rng.integers(1, 6)), features=feats)
        p = gens.build(desc)
        p.diagonalize()
        nG, d, nC = len(p.dt), p.d, len(p.c_opers)
        H = np.einsum('ijk,il->ljk', p.c_opers, p.c_coeffs)
        reqs.append(f'ham {nC} {nG} {d} {arr2bits(p.c_opers)} {arr2bits(p.c_coeffs)}')
        exp.append(('hamiltonian', H))
        ev, evec, dt = arr2bits(p.eigvals), arr2bits(p.eigvecs), arr2bits(p.dt)
        reqs.append(f'diag {nG} {d} {ev} {evec} {dt}')
        exp.append(('diagonalize', p.propagators))
        fresh = gens.build(desc)
        reqs.append(f'times {nG} {dt}')
        exp.append(('times', np.concatenate([p.t, [p.tau, fresh.tau]]).astype(float)))
        xs = list(p.t) + list(rng.random(3)*p.tau) + [np.nextafter(p.tau, np.inf)] \
            + [np.nextafter(x, -np.inf) for x in p.t[1:]]
        for x in xs:
            reqs.append(f'arbt {nG} {d} {ev} {evec} {dt} {arr2bits([x])}')
            try:
                idx = np.searchsorted(p.t, [x]) - 1
                idx[idx < 0] = 0
                exp.append(('propagator_at_arb_t', (int(idx[0]),
                                                    p.propagator_at_arb_t(np.array([x]))[0])))
            except IndexError:
                exp.append(('propagator_at_arb_t', 'err index'))
        ctx.count(('corr', i, nG, d, tuple(feats)), nontrivial=nG >= 2)
    outs = driver(reqs)
    bad = {c: [] for c in COMPONENTS}
    for r, (comp, e), o in zip(reqs, exp, outs):
        if isinstance(e, str):
            if o != e:
                bad[comp].append((r[:50], o[:40]))
            continue
        toks = o.split()
        if toks[0] != 'ok':
            bad[comp].append((r[:50], o[:40]))
            continue
        if comp == 'propagator_at_arb_t':
            if int(toks[1]) != e[0]:
                bad[comp].append(('index', toks[1], e[0]))
                continue
            got = bits2arr(toks[2], e[1].shape, cplx=True)
            ref = e[1]
        else:
            ref = e
            got = bits2arr(toks[1], ref.shape, cplx=np.iscomplexobj(ref))
        if not gens.abs_err(got, ref) <= 1e-9:
            bad[comp].append((r[:40], gens.abs_err(got, ref)))
    for c, v in bad.items():
        ctx.oblige('correspondence:' + c, 'correspondence', not v, f'{len(v)} disagree: {v[:2]}')
    ctx.sample({'request': reqs[1][:100]})


def check_schroedinger(ctx, case):
    desc = case['desc']
    p = gens.build(desc)
    p.diagonalize()
    H = gens.seg_hamiltonians(desc)
    d = desc['d']
    probs = []
    sc = float(np.max(np.abs(H))) or 1.0       # relative to the energy scale of the pulse
    for g in range(len(p.dt)):
        V, D = p.eigvecs[g], p.eigvals[g]
        if np.max(np.abs(H[g] @ V - V*D[None, :])) > 1e-10*sc:
            probs.append((f'H V != V D in segment {g}', float(np.max(np.abs(H[g] @ V - V*D)))))
        if np.max(np.abs(V.conj().T @ V - np.eye(d))) > 1e-10:
            probs.append((f'V not unitary in segment {g}', 0))
    Q = p.propagators
    if not np.array_equal(Q[0], np.eye(d)):
        probs.append(('Q_0 != 1', 0))
    ref = np.eye(d, dtype=complex)
    # rotation angles accumulated so far: no double-precision evaluation (the package's, or the
    # reference's scaling-and-squaring) can be more accurate than ~eps * angle
    ang = 0.0
    eps = np.finfo(float).eps
    for g, dtg in enumerate(p.dt):
        ref = expm(-1j*H[g]*dtg) @ ref
        ang += float(np.linalg.norm(H[g], 2)*dtg)
        e = np.max(np.abs(Q[g + 1] - ref))
        if not e <= 1e-9 + 64*eps*ang:
            probs.append((f'Q_{g+1} != time-ordered product', float(e)))
        if np.max(np.abs(Q[g + 1].conj().T @ Q[g + 1] - np.eye(d))) > 1e-10:
            probs.append((f'Q_{g+1} not unitary', 0))
    if not np.array_equal(p.total_propagator, Q[-1]):
        probs.append(('total propagator != last cumulative', 0))
    t = np.concatenate(([0.0], np.cumsum(desc['dt'])))
    if not (np.allclose(p.t, t, rtol=1e-14, atol=0) and np.isclose(p.tau, t[-1], rtol=1e-14)):
        probs.append(('times / tau != cumulative sums', 0))
    # arbitrary times
    xs = np.array(case['times'], dtype=float)
    xs = xs[(xs >= 0) & (xs <= p.tau)]
    if len(xs):
        U = gens.build(desc).propagator_at_arb_t(xs)
        for x, u in zip(xs, U):
            g = int(np.searchsorted(t, x, side='left')) - 1
            g = max(g, 0)
            r = expm(-1j*H[g]*(x - t[g])) @ Q[g]
            if not np.max(np.abs(u - r)) <= 1e-9 + 64*eps*ang:
                probs.append((f'Q(t={x!r}) differs from exp(-iH_g(t-t_g))Q_g', float(np.max(np.abs(u - r)))))
    ctx.count((tuple(desc['features']), d, len(p.dt), xs.tobytes()),
              nontrivial=len(p.dt) >= 2)
    if probs:
        ctx.fail('schroedinger', case, probs[:5], 'propagators solve the Schroedinger equation', {},
                 f'd={d} n_dt={len(p.dt)} features={desc["features"]}: {probs[:3]}')


def check_times_composed(ctx, case):
    """times / duration of pulses produced by concatenation, periodic repetition, extension,
    remapping and slicing"""
    rng = np.random.default_rng(case['seed'])
    d1 = gens.rand_desc(rng, d=2, n_dt=int(rng.integers(1, 4)), basis=('pauli',), n_n=1)
    d2 = gens.rand_desc(rng, d=2, n_dt=int(rng.integers(1, 4)), basis=('pauli',), n_n=1,
                        n_c=len(d1['c_opers']))
    d2['c_opers'], d2['n_opers'] = d1['c_opers'], d1['n_opers']
    p1, p2 = gens.build(d1), gens.build(d2)
    probs = []

    def ok(p, dt, what):
        t = np.concatenate(([0.0], np.cumsum(dt)))
        if not (np.allclose(p.t, t, rtol=1e-13, atol=0) and np.isclose(p.tau, t[-1], rtol=1e-13)
                and np.isclose(p.duration, t[-1], rtol=1e-13)):
            probs.append(what)
    ok(ff.concatenate((p1, p2)), np.concatenate((d1['dt'], d2['dt'])), 'concatenate')
    ok(p1 @ p2, np.concatenate((d1['dt'], d2['dt'])), 'matmul')
    G = int(rng.integers(1, 5))
    ok(ff.concatenate_periodic(p1, G), np.tile(d1['dt'], G), 'concatenate_periodic')
    p1c = gens.build(d1)
    p1c.cache_filter_function(np.linspace(0.1, 3, 5))
    ok(ff.concatenate_periodic(p1c, G), np.tile(d1['dt'], G), 'concatenate_periodic (cached)')
    ok(ff.extend([(p1, 1)], N=2), d1['dt'], 'extend')
    e = ff.extend([(p1, 0)], N=2)
    ok(ff.remap(e, (1, 0)), d1['dt'], 'remap')
    if len(d2['dt']) > 1:
        ok(p2[1:], d2['dt'][1:], 'slice')
        ok(p2[0], d2['dt'][:1], 'index')
    ctx.count(('times', case['seed']))
    if probs:
        ctx.fail('times_composed', case, probs, 'cumulative sums of the segment durations', {},
                 f'times/duration wrong after: {probs}')


def check_composed_propagators(ctx, case):
    """the cached total propagator (read *before* anything diagonalises the result) and the cumulative
    propagators of pulses produced by concatenation (every cache state of the inputs, with and
    without frequencies / forced filter functions / pulse correlations), periodic repetition,
    extension, remapping and slicing equal the time-ordered product of exp(-i H_g dt_g) of the
    composed Hamiltonian"""
    from scipy.linalg import expm
    rng = np.random.default_rng(case['seed'])
    om = np.linspace(0.1, 3, 4)

    def mk(shared=None):
        dsc = gens.rand_desc(rng, d=2, n_dt=int(rng.integers(1, 3)), basis=('pauli',), n_n=1, n_c=2,
                             features=['const_sens'])
        if shared is not None:
            dsc['n_opers'], dsc['n_ids'] = shared['n_opers'], shared['n_ids']
        return dsc

    def state(p, k):
        if k == 1:
            p.diagonalize()
        elif k == 2:
            p.cache_filter_function(om)
        elif k == 3:
            p.cache_filter_function(om)
            p.cleanup('conservative')
        elif k == 4:
            p.t, p.tau          # only the time grid has been read
        return p

    def ref(p):
        Q = [np.eye(p.d, dtype=complex)]
        for g in range(len(p.dt)):
            H = np.tensordot(p.c_coeffs[:, g], p.c_opers, axes=(0, 0))
            Q.append(expm(-1j*H*p.dt[g]) @ Q[-1])
        return np.array(Q)

    probs = []

    def ok(p, what):
        R = ref(p)
        tp = p.total_propagator        # first: the value the composition cached (if any)
        if not np.allclose(tp, R[-1], atol=1e-9):
            probs.append((what, 'total_propagator before diagonalisation',
                          float(np.max(np.abs(tp - R[-1])))))
        if p.is_cached('total_propagator_liouville'):
            from filter_functions.superoperator import liouville_representation
            L = liouville_representation(R[-1], p.basis)
            if not np.allclose(p.total_propagator_liouville, L, atol=1e-9):
                probs.append((what, 'total_propagator_liouville',
                              float(np.max(np.abs(p.total_propagator_liouville - L)))))
        Q = p.propagators
        if not np.allclose(Q, R, atol=1e-9):
            probs.append((what, 'propagators', float(np.max(np.abs(Q - R)))))
        if not np.array_equal(p.total_propagator, Q[-1]):
            probs.append((what, 'total propagator is not the last cumulative propagator', 0.0))
        # times and duration of the composed pulse; propagators at arbitrary times (edges, both sides)
        t = np.concatenate(([0.0], np.cumsum(p.dt)))
        if not (np.shape(p.t) == t.shape and np.allclose(p.t, t, rtol=1e-12, atol=1e-14)
                and np.isclose(p.tau, t[-1], rtol=1e-12) and np.isclose(p.duration, t[-1], rtol=1e-12)):
            probs.append((what, 'times / tau / duration are not the cumulative sums of dt', 0.0))
        else:
            xs = np.concatenate((t, np.nextafter(t[1:], -np.inf), np.nextafter(t[:-1], np.inf),
                                 rng.random(3)*t[-1]))
            xs = xs[(xs >= 0) & (xs <= t[-1])]
            U = p.propagator_at_arb_t(xs)
            for x, u in zip(xs, U):
                g = max(int(np.searchsorted(t, x, side='left')) - 1, 0)
                H = np.tensordot(p.c_coeffs[:, min(g, len(p.dt) - 1)], p.c_opers, axes=(0, 0))
                r = expm(-1j*H*(x - t[g])) @ R[g]
                if not np.max(np.abs(u - r)) <= 1e-8:
                    probs.append((what, f'propagator at t={x!r}', float(np.max(np.abs(u - r)))))
                    break

    d1 = mk()
    descs = [d1] + [mk(d1) for _ in range(int(rng.integers(1, 3)))]
    states = [int(rng.integers(0, 5)) for _ in descs]
    kw = [dict(), dict(omega=om), dict(calc_filter_function=True, omega=om),
          dict(calc_pulse_correlation_FF=True, omega=om), dict(calc_filter_function=False)
          ][int(rng.integers(0, 5))]
    ps = [state(gens.build(dd), k) for dd, k in zip(descs, states)]
    try:
        ok(ff.concatenate(ps, **kw), f'concatenate states={states} kw={sorted(kw)}')
    except ValueError as e:
        if 'frequencies' not in str(e) and 'omega' not in str(e):
            raise
    ps = [state(gens.build(dd), k) for dd, k in zip(descs, states)]
    r = ps[0]
    for q in ps[1:]:
        r = r @ q
    ok(r, f'matmul states={states}')
    G = int(rng.integers(1, 4))
    ok(ff.concatenate_periodic(state(gens.build(d1), states[0]), G), f'concatenate_periodic G={G}')
    d2 = mk()
    d2['dt'] = d1['dt'].copy()
    d2['c_coeffs'] = rng.standard_normal((2, len(d1['dt'])))
    d2['n_coeffs'] = np.ones((1, len(d1['dt'])))
    a, b = state(gens.build(d1), states[0]), state(gens.build(d2), states[1])
    qa, qb = [int(x) for x in rng.permutation(3)[:2]]
    e = ff.extend([(a, qa), (b, qb)], N=3)
    ok(e, f'extend states={states[:2]} qubits={(qa, qb)}')
    order = tuple(int(x) for x in rng.permutation(3))
    e2 = state(ff.extend([(gens.build(d1), qa), (gens.build(d2), qb)], N=3), states[0])
    ok(ff.remap(e2, order), f'remap order={order} state={states[0]}')
    long = state(gens.build(gens.rand_desc(rng, d=2, n_dt=4, basis=('pauli',), n_n=1, n_c=2)), states[0])
    i0 = int(rng.integers(0, 3))
    ok(long[i0:int(rng.integers(i0 + 1, 5))], f'slice state={states[0]}')
    ctx.count(('composed', case['seed']))
    if probs:
        ctx.fail('composed_propagators', case, probs, 'time-ordered product of exp(-i H_g dt_g)', {},
                 f'propagators of a composed pulse are wrong: {probs[:3]}')


CHECKS = {'schroedinger': check_schroedinger, 'times_composed': check_times_composed,
          'composed_propagators': check_composed_propagators}


def replay(ctx, check, case):
    CHECKS[check](ctx, case)


def search(ctx, deep=False):
    rng = ctx.rng('deep' if deep else 'search')
    n = {('quick', False): 40, ('quick', True): 300, ('thorough', False): 800,
         ('thorough', True): 2000}[(ctx.tier, deep)]
    for i in range(n):
        feats = gens.rand_features(rng, 0.3, ['idle', 'zero_dt', 'repeat', 'degenerate',
                                              'big_angle', 'wide_dt', 'structured', 'near_repeat',
                                              'full_rotation'])
        d = int(rng.choice([2, 2, 3, 4, 5]))
        desc = gens.rand_desc(rng, d=d, n_dt=int(rng.integers(1, 7)), features=feats,
                              basis=('ggm',))
        if i % 3 == 1:
            # the same physics in another unit of time (energies down to 1e-9, durations up to 1e9
            # and the other way round): nothing in the diagonalisation may depend on the unit
            desc = gens.rescale_time(desc, float(10.0**rng.uniform(-9, 9)))
        t = np.concatenate(([0.0], np.cumsum(desc['dt'])))
        xs = np.concatenate((t, np.nextafter(t, -np.inf), np.nextafter(t, np.inf),
                             rng.random(4)*t[-1]))
        check_schroedinger(ctx, {'desc': desc, 'times': xs})
        if i % 5 == 0:
            check_times_composed(ctx, {'seed': int(rng.integers(0, 2**31))})
        if i % 2 == 0:
            check_composed_propagators(ctx, {'seed': int(rng.integers(0, 2**31))})
        if i < 2:
            ctx.sample({'d': d, 'n_dt': len(desc['dt']), 'features': feats})
