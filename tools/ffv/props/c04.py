"""C04 — periodic concatenation equals explicit repetition for every count and frequency."""
import numpy as np

import filter_functions as ff
from filter_functions import numeric

from .. import gens
from ..common import arr2bits, bits2arr, corr_script, driver

THEOREMS = ['geom_series_solve', 'fallback_sum', 'periodic_eq_repetition_sum',
            'geomSum_toMatrix', 'accumulate_replicate',
            'periodicFallback_eq', 'periodicS_eq_geomSum']
PINS = ['pinConcatenatePeriodic', 'C04_periodic_source_shape']
GEN_SITES = ['const:numeric.calculate_control_matrix_periodic',
             'einsum:numeric_calculate_control_matrix_from_atomic_0']
COMPONENTS = ['cm_periodic']
# module C04Tile: Hamiltonian, times, propagators, total (Liouville) propagator of tiled / appended pulses
THEOREMS = THEOREMS + [
    'FFVerif.C04Tile.hamiltonian_congr_segment', 'FFVerif.C04Tile.hamiltonian_append', 'FFVerif.C04Tile.hamiltonian_tile',
    'FFVerif.C04Tile.hamiltonian_concat_segment', 'FFVerif.C04Tile.propagators_append', 'FFVerif.C04Tile.total_propagator_append',
    'FFVerif.C04Tile.concatTotalPropagator_pair', 'FFVerif.C04Tile.propagators_append_data', 'FFVerif.C04Tile.propagators_concat',
    'FFVerif.C04Tile.total_propagator_concat', 'FFVerif.C04Tile.concatTotalPropagator_eq_from_scratch', 'FFVerif.C04Tile.cumL_eq_liouville_prodTotal',
    'FFVerif.C04Tile.concatL_eq_liouville_from_scratch', 'FFVerif.C04Tile.times_concat', 'FFVerif.C04Tile.tau_concat',
    'FFVerif.C04Tile.times_tile', 'FFVerif.C04Tile.tau_tileVec', 'FFVerif.C04Tile.propagators_tile',
    'FFVerif.C04Tile.propagators_tile_boundary', 'FFVerif.C04Tile.total_propagator_tile', 'FFVerif.C04Tile.total_propagator_tile_of_identity',
    'FFVerif.C04Tile.liouville_matrixPower', 'FFVerif.C04Tile.liouville_matrixPower_castReal', 'FFVerif.C04Tile.total_liouville_tile',
    'FFVerif.C04Tile.periodicS_of_identity', 'FFVerif.C04Tile.identity_forces_fallback', 'FFVerif.C04Tile.periodicT_identity',
    'FFVerif.C04Tile.periodicApply_of_identity', 'FFVerif.C04Tile.concatPeriodicDef_eq_from_scratch', 'FFVerif.C04Tile.isDiag_ofDiag',
    'FFVerif.C04Tile.isDiag_empty', 'FFVerif.C04Tile.isDiag_concat2', 'FFVerif.C04Tile.isDiag_concatSeq',
    'FFVerif.C04Tile.concatSeq_Qtot', 'FFVerif.C04Tile.concatTotalPropagator_eq_concatSeq', 'FFVerif.C04Tile.concatSeq_tau',
    'FFVerif.C04Tile.concat2_segments', 'FFVerif.C04Tile.concatSeq_replicate', 'FFVerif.C04Tile.isDiag_iff_eq_ofDiag',
    'FFVerif.C04Tile.ofDiag_congr', 'FFVerif.C04Tile.concat2_eq_ofDiag', 'FFVerif.C04Tile.concatSeq_replicate_eq_ofDiag',
    'FFVerif.C04Tile.isEigh_tileVec', 'FFVerif.C04Tile.periodic_cm_eq_tiled_from_scratch', 'FFVerif.C04Tile.concat_cm_eq_diag_from_scratch',
    'FFVerif.TileAux.matrixPower_toMatrix', 'FFVerif.TileAux.matrixPower_eq_pow', 'FFVerif.TileAux.mdot_toMatrix',
    'FFVerif.TileAux.concatTau_eq_sum', 'FFVerif.TileAux.times_block', 'FFVerif.TileAux.propagators_block',
    'FFVerif.TileAux.liou_pow']
LEAN_MODULES = ['FFVerif.Props.C04', 'FFVerif.Props.C04Tile', 'FFVerif.Props.C04TileUnique']
# module C04TileUnique: the capstones for an ARBITRARY own eigh output of the tiled / sequenced pulse
THEOREMS = THEOREMS + [
    'FFVerif.C04Tile.ofDiag_cm_eigh_independent', "FFVerif.C04Tile.periodic_cm_eq_tiled_from_scratch'", "FFVerif.C04Tile.concat_cm_eq_diag_from_scratch'"]
RULES = ['correspondence: numeric.calculate_control_matrix_periodic vs the model\'s geometric '
         'series evaluator (B · Σ_{g<G} (e^{iωT} L)^g) on pulses with cached control matrix, '
         'G in {1,2,3,5,12,30}, frequencies at and around the singular points of 1 - e^{iωT}L '
         '(ω=0, 2πk/T, eigenphases of L) ± {0,1e-12,1e-9,1e-6,1e-4}',
         'search: concatenate_periodic(p, G) vs concatenate(G copies) vs from-scratch of the tiled '
         'pulse: Hamiltonian, dt, tau, total propagator, control matrix, filter function; '
         'distinct = distinct (pulse, G, omega) hash; non-trivial = at least one frequency '
         'within 1e-4 of a singular point']
ASSUMPTIONS = ['numpy.linalg.solve / det satisfy their contracts (residual measured)',
               'conditioning of the linear solve near singular frequencies is measured, not proved']
TRUSTED = ['oracle contract: linalg.solve result X satisfies (1-T)X = 1-T^G',
           'modelled not verified: numpy boolean-mask assignment S[invertible] = …']


def special_pulse(rng, kind):
    """pulses whose total propagator is the identity / has degenerate eigenphases"""
    X, Y, Z = gens.PAULI[1:]
    if kind == 'identity':
        # 2π rotation about a random axis in two segments
        n = rng.standard_normal(3)
        n /= np.linalg.norm(n)
        H = (n[0]*X + n[1]*Y + n[2]*Z)/2
        dt = np.array([0.7, 0.3])
        c = np.array([[2*np.pi/dt.sum()]*2])
        return dict(d=2, c_opers=np.array([H]), c_ids=['C0'], c_coeffs=c,
                    n_opers=np.array([gens.rand_herm(rng, 2, True)]), n_ids=['N0'],
                    n_coeffs=np.ones((1, 2)), dt=dt, basis=('pauli',), features=['identity_prop'])
    if kind == 'near_identity':
        # a full rotation that is slightly over-rotated (one or two qubits): the total propagator is the
        # identity up to an angle eps, which many repetitions make visible
        eps = float(rng.choice([1e-6, 1e-4, 5e-4, 3e-3]))
        dt = np.array([0.6, 0.4])
        if rng.random() < 0.7:
            I2 = np.eye(2)
            H = np.kron(X, I2)/2
            nops = np.array([np.kron(Z, I2), np.kron(Z, Z)])
            d, basis = 4, ('pauli',)
        else:
            H = X/2
            nops = np.array([Z/2, Y/2])
            d, basis = 2, ('pauli',)
        c = np.array([[2*np.pi*(1 + eps)/dt.sum()]*2])
        return dict(d=d, c_opers=np.array([H]), c_ids=['C0'], c_coeffs=c, n_opers=nops, n_ids=['N0', 'N1'],
                    n_coeffs=np.ones((2, 2)), dt=dt, basis=basis, features=['near_identity_prop'])
    if kind == 'pi':
        dt = np.array([1.0])
        return dict(d=2, c_opers=np.array([X/2]), c_ids=['C0'], c_coeffs=np.array([[np.pi]]),
                    n_opers=np.array([Z/2, X/2 + 0.3*np.eye(2)]), n_ids=['N0', 'N1'],
                    n_coeffs=np.ones((2, 1)), dt=dt, basis=('pauli',), features=['pi_pulse'])
    if kind == 'idle':
        dt = np.array([0.5, 0.5])
        return dict(d=2, c_opers=np.array([X/2]), c_ids=['C0'], c_coeffs=np.zeros((1, 2)),
                    n_opers=np.array([Z/2]), n_ids=['N0'], n_coeffs=np.array([[1.0, -1.0]]), dt=dt,
                    basis=('pauli',), features=['idle'])
    d = int(rng.choice([2, 3]))
    return gens.rand_desc(rng, d=d, n_dt=int(rng.integers(1, 4)),
                          features=gens.rand_features(rng, 0.2, ['nontraceless_nop', 'neg_sens',
                                                                  'degenerate']))


def singular_omegas(rng, p):
    """frequencies where 1 - e^{iωT} L is singular or nearly so"""
    T = p.tau
    L = p.total_propagator_liouville
    ev = np.linalg.eigvals(L)
    base = [0.0] + [2*np.pi*k/T for k in (1, 2, -1)]
    for lam in ev[:4]:
        base.append(-np.angle(lam)/T)
        base.append((-np.angle(lam) + 2*np.pi)/T)
    cand = []
    for b in base:
        for off in (0.0, 1e-12, 1e-9, 1e-6, 1e-4):
            cand.append(b + off*rng.choice([-1, 1]))
    cand += list(rng.uniform(-10, 10, 4))
    cand = np.array(cand)
    if len(cand) > 20:
        cand = np.concatenate((cand[:5], rng.choice(cand[5:], 15, replace=False)))
    return cand


def tiled_desc(desc, G):
    t = dict(desc)
    t['c_coeffs'] = np.tile(desc['c_coeffs'], (1, G))
    t['n_coeffs'] = np.tile(desc['n_coeffs'], (1, G))
    t['dt'] = np.tile(desc['dt'], G)
    return t


def correspondence(ctx):
    # what concatenate_periodic / concatenate store for the definition and propagator part vs the
    # model Tile and vs the from-scratch pulse (G = 1..7; identity, degenerate and zero pulses)
    corr_script(ctx, 'corr_c04tile', ['periodic[random]', 'periodic[identity]', 'periodic[identity_multi]',
                                      'periodic[degenerate]', 'periodic[zero]', 'concatenate'])
    rng = ctx.rng('corr')
    n = 12 if ctx.tier == 'quick' else 150
    lines, refs = [], []
    for i in range(n):
        desc = special_pulse(rng, str(rng.choice(['identity', 'pi', 'idle', 'rand', 'rand'])))
        p = gens.build(desc)
        om = singular_omegas(rng, p)[:8]
        B = p.get_control_matrix(om)
        ph = p.get_total_phases(om)
        L = p.total_propagator_liouville
        G = int(rng.choice([1, 2, 3, 5, 12, 30]))
        ref = numeric.calculate_control_matrix_periodic(ph, B, L, G)
        lines.append(f'periodic spec {B.shape[0]} {B.shape[1]} {B.shape[2]} {G} {arr2bits(B)} '
                     f'{arr2bits(ph)} {arr2bits(L.astype(complex))}')
        refs.append(ref)
        ctx.count(('corr', i, G, tuple(desc['features'])))
    outs = driver(lines)
    bad = []
    for i, (o, ref) in enumerate(zip(outs, refs)):
        got = bits2arr(o[3:], ref.shape, cplx=True) if o.startswith('ok ') else None
        err = gens.rel_err(got, ref) if got is not None else np.inf
        if not err <= 1e-6:
            bad.append((i, err))
    ctx.oblige('correspondence:cm_periodic', 'correspondence', not bad,
               f'{len(bad)} of {n} disagree with the geometric-series evaluator: {bad[:3]}')
    ctx.stat('corr_cases', n)


def check_periodic(ctx, case):
    desc, G, om = case['desc'], int(case['G']), np.asarray(case['omega'], dtype=float)
    p = gens.build(desc)
    p.cache_filter_function(om)
    per = ff.concatenate_periodic(p, G)
    probs = []
    # reference 1: from scratch on the tiled pulse
    tp = gens.build(tiled_desc(desc, G))
    B_ref = tp.get_control_matrix(om)
    F_ref = tp.get_filter_function(om)
    sc = max(np.max(np.abs(B_ref)), 1e-300)
    if not per == tp:
        probs.append(('Hamiltonian/dt differ from the tiled pulse', 0))
    if not np.isclose(per.tau, G*p.tau, rtol=1e-12, atol=0):
        probs.append(('tau', float(per.tau - G*p.tau)))
    if not np.allclose(per.t, tp.t, rtol=1e-12, atol=1e-12):
        probs.append(('times', 0))
    if not np.allclose(per.total_propagator, tp.total_propagator, atol=1e-9):
        probs.append(('total propagator', float(np.max(np.abs(per.total_propagator
                                                              - tp.total_propagator)))))
    if not per.is_cached('control_matrix'):
        probs.append(('control matrix not carried over', 0))
    else:
        B = per.get_control_matrix(om)
        e = float(np.max(np.abs(B - B_ref))/sc) if np.all(np.isfinite(B)) else np.inf
        if not e <= 1e-6:
            probs.append(('control matrix vs from scratch', e))
        F = per.get_filter_function(om)
        fe = float(np.max(np.abs(F - F_ref))/max(np.max(np.abs(F_ref)), 1e-300)) \
            if np.all(np.isfinite(F)) else np.inf
        if not fe <= 1e-6:
            probs.append(('filter function vs from scratch', fe))
    # the result is a pulse like any other: its cached total phases are those of the whole duration,
    # and it can be used as a building block again (repeated once more, followed by one more copy)
    if per.is_cached('total_phases'):
        ph = per.get_total_phases(om)
        if not np.allclose(ph, np.exp(1j*om*G*p.tau), atol=1e-9):
            probs.append(('cached total phases', float(np.max(np.abs(ph - np.exp(1j*om*G*p.tau))))))
    if G <= 6 and per.is_cached('control_matrix'):
        per2 = ff.concatenate_periodic(per, 2)
        t2 = gens.build(tiled_desc(desc, 2*G))
        B2 = t2.get_control_matrix(om)
        e = float(np.max(np.abs(per2.get_control_matrix(om) - B2))/max(np.max(np.abs(B2)), 1e-300))
        if not e <= 1e-6:
            probs.append(('concatenate_periodic(concatenate_periodic(p, G), 2) vs from scratch', e))
        one_more = ff.concatenate([per, gens.build(desc)], omega=om)
        t3 = gens.build(tiled_desc(desc, G + 1))
        B3 = t3.get_control_matrix(om)
        e = float(np.max(np.abs(one_more.get_control_matrix(om) - B3))/max(np.max(np.abs(B3)), 1e-300))
        if not e <= 1e-6:
            probs.append(('concatenate([periodic(p, G), p]) vs from scratch', e))
    # everything the result serves for its own segments — whether carried over from the input's caches
    # or computed lazily: cumulative propagators, and the control matrix / filter function on ANOTHER
    # frequency grid (nothing of the shortcut can be reused there)
    if not np.allclose(per.propagators, tp.propagators, atol=1e-9):
        probs.append(('cumulative propagators of the result',
                      float(np.max(np.abs(per.propagators - tp.propagators)))))
    om_new = om*1.37 + 0.011
    Bn_ref = tp.get_control_matrix(om_new)
    Bn = per.get_control_matrix(om_new)
    e = float(np.max(np.abs(Bn - Bn_ref))/max(np.max(np.abs(Bn_ref)), 1e-300)) \
        if np.all(np.isfinite(Bn)) else np.inf
    if not e <= 1e-6:
        probs.append(('control matrix of the result on another grid vs from scratch', e))
    # reference 2: concatenation of G copies
    if G <= 5:
        cc = ff.concatenate([gens.build(desc) for _ in range(G)], omega=om,
                            calc_filter_function=True)
        Bc = cc.get_control_matrix(om)
        e = float(np.max(np.abs(Bc - B_ref))/sc)
        if not e <= 1e-6:
            probs.append(('concatenate(G copies) vs from scratch', e))
    ctx.count((desc['features'], G, om.tobytes()))
    if probs:
        ctx.fail('periodic_vs_repetition', case, probs, 'equal to explicit repetition', {},
                 f'concatenate_periodic G={G}: {probs[:3]} features={desc["features"]}')


def replay(ctx, check, case):
    check_periodic(ctx, case)


def search(ctx, deep=False):
    rng = ctx.rng('deep' if deep else 'search')
    n = {('quick', False): 25, ('quick', True): 150, ('thorough', False): 600,
         ('thorough', True): 1500}[(ctx.tier, deep)]
    for i in range(n):
        desc = special_pulse(rng, str(rng.choice(['identity', 'pi', 'idle', 'rand', 'rand', 'rand',
                                                  'near_identity'])))
        p = gens.build(desc)
        om = singular_omegas(rng, p)
        G = int(rng.choice([1, 2, 3, 5, 12, 30]))
        if 'near_identity_prop' in desc['features']:
            G = int(rng.choice([40, 120])) if ctx.tier == 'quick' else int(rng.choice([40, 150, 400]))
            om = om[:6]
        check_periodic(ctx, {'desc': desc, 'G': G, 'omega': om})
        if i < 2:
            ctx.sample({'features': desc['features'], 'G': G, 'omega_head': om[:4]})
