"""C09 — cumulant function follows its formula on every path; error map is physical."""
import numpy as np
from scipy.linalg import expm

import filter_functions as ff
from filter_functions import numeric
from filter_functions import superoperator as so

from .. import gens
from ..common import arr2bits, bits2arr, corr_script, driver
from .c08 import spectrum

THEOREMS = '''fourElementTraces_entries cumulant_general_eq_commutators cumulant_general_model
cumulant_single_qubit_eq_general shortcut_needs_pauli_basis second_order_antisymmetric
first_order_symmetric K_row_col_zero cumulant_real
pow_row_col_zero sum_row_col_zero exp_row_col_unit K_row_col_zero_opt etm_trace_preserving_unital
etm_sum_trace_preserving_unital etm_real_sum_trace_preserving_unital trace_preserving_iff_row
unital_iff_col '''.split() + [
    # modules C09cCP (the first-order cumulant function / every Lindblad generator is conditionally
    # completely positive; second order = unitary part), C09EtmCP / C09EtmCPLiou / C09EtmChoi (exp(K) is
    # completely positive: Choi matrix PSD, verdict of liouville_is_CP), C10Shifts (only the antisymmetric
    # part of the frequency shifts enters)
    'FFVerif.C09.verdict_of_posSemidef', 'FFVerif.C09.verdict_false_of_eigenvalue', 'FFVerif.C09.choi_of_linear_map',
    'FFVerif.C09.gks_generator_cCP', 'FFVerif.C09.lindblad_eq_gks', 'FFVerif.C09.lindblad_generator_cCP',
    'FFVerif.C09.lindblad_cCP_verdict', 'FFVerif.C09.symmetrised_posSemidef', 'FFVerif.C09.cumulant_first_order_cCP',
    'FFVerif.C09.cumulant_first_order_cCP_verdict', 'FFVerif.C09.second_order_unitary_part', 'FFVerif.C09.second_order_projected_choi_zero',
    'FFVerif.C09.second_order_same_projected_choi', 'FFVerif.C09.cumulant_second_order_cCP', 'FFVerif.C09.cCP_necessary_transition_rates',
    'FFVerif.C09.negative_rate_not_cCP', 'FFVerif.C09.cumulant_nonpsd_not_cCP', 'FFVerif.C09.isEigvals_of_isEigh',
    'FFVerif.C09.exists_eigenvalue_le_diag', 'FFVerif.C09.verdict_false_of_diag', 'FFVerif.C09.cCP_test_rejects_negative_rate',
    'FFVerif.Spec.norm_pow_sub_pow_le', 'FFVerif.Spec.norm_exp_le', 'FFVerif.Spec.norm_exp_sub_one_sub_le',
    'FFVerif.Spec.tendsto_pow_exp', 'FFVerif.Spec.tendsto_pow_exp_matrix', 'FFVerif.Spec.exp_mem_cone_of_gks',
    'FFVerif.C09.exp_gks_generator_cp', 'FFVerif.C09.exp_lindblad_cp', 'FFVerif.C09.cumulant_general_opt',
    'FFVerif.C09.exp_cumulant_cp', 'FFVerif.C09.etm_completely_positive', 'FFVerif.C09.K1_finset_sum',
    'FFVerif.C09.K2_finset_sum', 'FFVerif.C09.etm_sum_completely_positive', 'FFVerif.C09.cpCone_isCPLiou',
    'FFVerif.C09.etm_isCPLiou', 'FFVerif.C09.etm_sum_isCPLiou', 'FFVerif.Spec.exists_kraus',
    'FFVerif.Spec.cpCone_isCPChoi', 'FFVerif.C09.choi_cone', 'FFVerif.C09.choi_posSemidef_iff_kraus',
    'FFVerif.C09.etm_choi_posSemidef', 'FFVerif.C09.etm_sum_choi_posSemidef', 'FFVerif.C09.exp_map_ofReal',
    'FFVerif.C09.etm_real_sum_choi_posSemidef', 'FFVerif.C09.etm_CP_verdict', 'FFVerif.C09.exp_lindblad_choi_posSemidef',
    'FFVerif.C10.cumulant_uses_antisymmetric_part', 'FFVerif.C10.cumulant_single_qubit_uses_antisymmetric_part', 'FFVerif.C10.cumulant_second_order_from_antisymmetric_part',
    'FFVerif.C10.frequency_shifts_hermitian_part', 'FFVerif.C10.frequency_shifts_symmetric_part']
LEAN_MODULES = ['FFVerif.Props.C09', 'FFVerif.Props.C09Exp', 'FFVerif.Props.C09cCP', 'FFVerif.Props.C09EtmCP',
                'FFVerif.Props.C09EtmCPLiou', 'FFVerif.Props.C09EtmChoi', 'FFVerif.Props.C10Shifts',
                'FFVerif.Props.C09EtmFn', 'FFVerif.Props.C09EtmFnShapes', 'FFVerif.Props.C09EtmFnCross']
# module C09EtmFn (model EtmFn = error_transfer_matrix up to the expm oracle + the top of calculate_cumulant_function):
# what is exponentiated, both input modes agree, branch selection, rejections, and the end-to-end statement
THEOREMS = THEOREMS + ['FFVerif.C09.shortcutTaken_iff', 'FFVerif.C09.cumulant_branch_selection',
                       'FFVerif.C09.etmFn_arg_is_sum_of_cumulants', 'FFVerif.C09.etmFn_modes_agree',
                       'FFVerif.C09.cumulantFromPulse_ok', 'FFVerif.C09.etmFn_rejects_iff',
                       'FFVerif.C09.error_transfer_matrix_physical'] + ['FFVerif.C09.' + t for t in '''
etmFn_arg_is_sum_of_cumulants_single etmFn_arg_is_sum_of_cumulants_cross etm_physical_of_sum
error_transfer_matrix_physical_single error_transfer_matrix_physical_cross cumulantFunction_rejects_iff
decay_amplitudes_posSemidef summed_decay_amplitudes_posSemidef error_transfer_matrix_physical_of_nonneg_spectrum
error_transfer_matrix_physical_of_nonneg_spectrum_single
cross_integrand_posSemidef summed_decay_amplitudes3_posSemidef summed_decay_amplitudes_posSemidef_cross
error_transfer_matrix_physical_of_psd_cross_spectrum'''.split()] + [
    'FFVerif.Model.EtmFn.trapz_matrix_posSemidef', 'FFVerif.Model.EtmFn.crossBlock_posSemidef']
PINS = ['pinBasisArrayFinalize', 'pinFourElementTraces', 'pinErrorTransferMatrix', 'C09_cumulant_source_shape']
GEN_SITES = ['einsum:numeric_calculate_cumulant_function_', 'einsum:basis_Basis_four_element_traces_',
             'const:numeric.calculate_cumulant_function']
COMPONENTS = ['cumulant_general', 'cumulant_single_qubit']
RULES = ['correspondence: the cumulant function of one pair of noise sources from decay amplitudes / '
         'frequency shifts / trace tensor (general branch) and the single-qubit shortcut vs the Lean '
         'model; search: K vs an independent evaluation of the documented commutator-trace formula '
         'for every pair (auto- and cross-correlated PSD spectra, first and second order, d = 2,3,4, '
         'Pauli / GGM / custom bases incl. d = 2 bases carrying the label Pauli/GGM vs Custom, '
         'total and pulse-correlation variants); error transfer matrix = expm of the summed cumulant '
         'function, trace preserving, unital, completely positive (Choi eigenvalues), first-order K '
         'conditionally completely positive, second-order part antisymmetric; distinct = input hash']
ASSUMPTIONS = ['complete positivity of exp K is proved for real symmetric positive-semidefinite decay amplitudes '
               '(what the package forms for PSD spectra); the eigenvalue routine behind the verdict is an oracle']
TRUSTED = ['oracle: scipy expm; sparse COO representation of the trace tensor validated by search']


def formula_K(C, Gamma, Delta=None):
    """documented formula, evaluated with explicit commutators (independent of the trace tensor)"""
    N = len(C)

    def comm(a, b):
        return a @ b - b @ a
    K = np.zeros((N, N), dtype=complex)
    for i in range(N):
        for j in range(N):
            acc = 0
            for k in range(N):
                for ell in range(N):
                    if Gamma[k, ell] != 0:
                        acc += -0.5*Gamma[k, ell]*np.trace(C[i] @ comm(C[k], comm(C[ell], C[j])))
                    if Delta is not None and Delta[k, ell] != 0:
                        acc += -0.5*Delta[k, ell]*np.trace(C[i] @ comm(comm(C[k], C[ell]), C[j]))
            K[i, j] = acc
    return K


def correspondence(ctx):
    # the CP / cCP tests themselves (projector, projected Choi matrix, default tolerance, verdict)
    corr_script(ctx, 'corr_c09ccp', ['projq', 'projchoi', 'cpverdict', 'end-to-end verdict'])
    # error_transfer_matrix / calculate_cumulant_function as functions of their arguments (the argument handed to
    # expm is captured) vs the model EtmFn
    corr_script(ctx, 'corr_c09etmfn', [])
    rng = ctx.rng('corr')
    lines, refs, comp = [], [], []
    for i in range(6 if ctx.tier == 'quick' else 40):
        d = int(rng.choice([2, 2, 3]))
        feats = gens.rand_features(rng, 0.3, ['nontraceless_nop', 'neg_sens'])
        for mode in ('general', 'single'):
            if mode == 'single' and d != 2:
                continue
            basis = ('pauli',) if mode == 'single' else ('custom', gens.rotated_basis(rng, d, True),
                                                         True, 'Custom')
            desc = gens.rand_desc(rng, d=d, n_dt=int(rng.integers(1, 3)), n_n=1, features=feats,
                                  basis=basis)
            om = np.sort(np.concatenate((-10.0**rng.uniform(-1, 1, 5), 10.0**rng.uniform(-1, 1, 5))))
            S = 1/(1 + om**2)
            p = gens.build(desc)
            G = numeric.calculate_decay_amplitudes(p, S, om)[0]
            D = numeric.calculate_frequency_shifts(p, S, om)[0]
            K = numeric.calculate_cumulant_function(p, S, om, second_order=True)[0]
            N = len(p.basis)
            T = np.asarray(p.basis.four_element_traces.todense()).astype(complex)
            lines.append(f'cumulant {N} {mode} {arr2bits(G.astype(complex))} '
                         f'{arr2bits(D.astype(complex))} '
                         f'{arr2bits(T) if mode == "general" else "-"}')
            refs.append(K.astype(complex))
            comp.append('cumulant_general' if mode == 'general' else 'cumulant_single_qubit')
            ctx.count(('corr', i, mode, d))
    outs = driver(lines)
    bad = {c: [] for c in COMPONENTS}
    for ln, ref, c, o in zip(lines, refs, comp, outs):
        got = bits2arr(o[3:], ref.shape, cplx=True) if o.startswith('ok ') else None
        err = gens.abs_err(got, ref, 1e-9) if got is not None else np.inf
        if not err <= 1e-9:
            bad[c].append((ln[:30], err, o[:30]))
    for c, v in bad.items():
        ctx.oblige('correspondence:' + c, 'correspondence', not v, f'{len(v)} disagree: {v[:2]}')
    ctx.sample({'request': lines[0][:80]})


def check_cumulant(ctx, case):
    desc = case['desc']
    rng = np.random.default_rng(case['seed'])
    omega = np.asarray(case['omega'], dtype=float)
    shape = int(case['shape'])
    second = bool(case['second_order'])
    d = desc['d']
    n = len(desc['n_opers'])
    S = spectrum(rng, shape, n, omega)
    p = gens.build(desc)
    C = np.array(p.basis)
    probs = []
    G = numeric.calculate_decay_amplitudes(gens.build(desc), S, omega)
    D = numeric.calculate_frequency_shifts(gens.build(desc), S, omega) if second else None
    K = numeric.calculate_cumulant_function(gens.build(desc), S, omega, second_order=second)
    pairs = [(a, b) for a in range(n) for b in range(n)] if shape == 3 else [(a,) for a in range(n)]
    worst = 0
    for pr in pairs:
        ref = formula_K(C, G[pr], D[pr] if second else None)
        worst = max(worst, np.max(np.abs(K[pr] - ref)))
    # scale of the comparison: the cumulant function itself, or — when the noise operators have
    # (almost) no component in an incomplete basis and K is rounding noise — the decay amplitudes;
    # values below 1e-6 are not resolved relative to each other (absolute accuracy 1e-15)
    sc = max(np.max(np.abs(K)), np.max(np.abs(G)), 1e-6)
    if not worst/sc <= 1e-9:
        probs.append(f'cumulant function differs from the documented trace formula by {worst/sc:.3g}')
    # the same K from precomputed decay amplitudes / frequency shifts, twice from the same arrays
    # (they are the caller's: unchanged afterwards), and the error transfer matrix from K
    G0, D0 = G.copy(), (D.copy() if second else None)
    for rep in range(2):
        Kp = numeric.calculate_cumulant_function(gens.build(desc), decay_amplitudes=G,
                                                 frequency_shifts=D, second_order=second)
        e = np.max(np.abs(Kp - K))/sc
        if not e <= 1e-9:
            probs.append(f'cumulant function from precomputed decay amplitudes / frequency shifts '
                         f'(call {rep + 1}) differs from the one computed from the spectrum by {e:.3g}')
            break
    if not (np.array_equal(G, G0) and (not second or np.array_equal(D, D0))):
        probs.append('precomputed decay amplitudes / frequency shifts were modified by '
                     'calculate_cumulant_function')
    Up = numeric.error_transfer_matrix(cumulant_function=K)
    Kc = K.copy()
    # label independence (d == 2): the same basis under another btype label
    if d == 2:
        lab = 'Custom' if p.basis.btype in ('Pauli', 'GGM') else 'Pauli'
        d2 = dict(desc)
        d2['basis'] = ('custom', C, None, lab)
        K2 = numeric.calculate_cumulant_function(gens.build(d2), S, omega, second_order=second)
        e = np.max(np.abs(K2 - K))/sc
        if not e <= 1e-9:
            probs.append(f'cumulant function depends on the basis-type label ({lab}): {e:.3g}')
    # error transfer matrix
    U = numeric.error_transfer_matrix(gens.build(desc), S, omega, second_order=second)
    Ksum = K.sum(axis=tuple(range(K.ndim - 2)))
    e = np.max(np.abs(U - expm(Ksum.real if not np.iscomplexobj(U) else Ksum)))
    if not e <= 1e-9:
        probs.append(f'error transfer matrix differs from expm(sum K) by {e:.3g}')
    if not (np.max(np.abs(Up - U)) <= 1e-9 and np.array_equal(K, Kc)):
        probs.append('error transfer matrix from a precomputed cumulant function differs / modified it')
    tl = bool(p.basis.istraceless)
    if tl and len(C) == d*d:
        # the element proportional to the identity (any sign, any position)
        i0 = int(np.argmax(np.abs(np.einsum('kaa->k', C))))
        if np.max(np.abs(U[i0, :] - np.eye(len(C))[i0])) > 1e-9:
            probs.append(f'error transfer matrix not trace preserving (row {i0})')
        if np.max(np.abs(U[:, i0] - np.eye(len(C))[i0])) > 1e-9:
            probs.append(f'error transfer matrix not unital (column {i0})')
        try:
            if not so.liouville_is_CP(np.asarray(U).real, p.basis, atol=1e-9):
                probs.append('error transfer matrix not completely positive')
            K1 = numeric.calculate_cumulant_function(gens.build(desc), S, omega)
            K1s = K1.sum(axis=tuple(range(K1.ndim - 2)))
            if not so.liouville_is_cCP(np.asarray(K1s).real, p.basis, atol=1e-9):
                probs.append('first-order cumulant function not conditionally completely positive')
        except Exception as e:   # noqa
            probs.append('CP test raised ' + repr(e))
    if second:
        K1 = numeric.calculate_cumulant_function(gens.build(desc), S, omega)
        A = K - K1
        asym = np.max(np.abs(A + np.swapaxes(A, -1, -2)))
        if not asym <= 1e-9*sc and tl:
            probs.append(f'second-order part not antisymmetric ({asym:.3g})')
    ctx.count((tuple(desc['features']), d, desc['basis'][0], shape, second, case['seed']),
              nontrivial=True)
    if probs:
        ctx.fail('cumulant_formula', case, probs, 'documented formula / physical map', {},
                 f'd={d} basis={desc["basis"][0]}/{p.basis.btype} shape={shape} second={second}: '
                 f'{probs[:3]}')


def check_pc_cumulant(ctx, case):
    rng = np.random.default_rng(case['seed'])
    d = 2
    nops = np.array([gens.rand_herm(rng, d, traceless=True) for _ in range(2)])
    cops = np.array([gens.rand_herm(rng, d)])
    descs = []
    for _ in range(2):
        n_dt = int(rng.integers(1, 3))
        descs.append(dict(d=d, c_opers=cops, c_ids=['C'], c_coeffs=rng.standard_normal((1, n_dt)),
                          n_opers=nops, n_ids=['A', 'B'], n_coeffs=rng.uniform(0.5, 1.5, (2, n_dt)),
                          dt=rng.uniform(0.2, 1, n_dt), basis=('pauli',), features=[]))
    omega = np.sort(rng.uniform(0.1, 6, 12))
    S = spectrum(rng, int(case['shape']), 2, omega)
    c = ff.concatenate([gens.build(x) for x in descs], calc_pulse_correlation_FF=True, omega=omega,
                       which='generalized')
    Kt = numeric.calculate_cumulant_function(c, S, omega)
    Kc = numeric.calculate_cumulant_function(c, S, omega, which='correlations')
    e = gens.abs_err(Kc.sum(axis=(0, 1)), Kt, 1e-12)
    ctx.count(('pcK', case['seed'], case['shape']))
    if not e <= 1e-9:
        ctx.fail('pc_cumulant_sum', case, e, 0, {},
                 f'pulse-correlation cumulant functions do not sum to the total ({e:.3g})')


CHECKS = {'cumulant_formula': check_cumulant, 'pc_cumulant_sum': check_pc_cumulant}


def replay(ctx, check, case):
    CHECKS[check](ctx, case)


def search(ctx, deep=False):
    rng = ctx.rng('deep' if deep else 'search')
    n = {('quick', False): 14, ('quick', True): 100, ('thorough', False): 250,
         ('thorough', True): 700}[(ctx.tier, deep)]
    for i in range(n):
        feats = gens.rand_features(rng, 0.3, ['idle', 'nontraceless_nop', 'neg_sens', 'degenerate'])
        d = int(rng.choice([2, 2, 2, 3])) if i % 9 else 4
        bs = [('ggm',), ('custom', gens.rotated_basis(rng, d, True), True, 'Custom')]
        # bases derived from a Basis object whose own trace tensor / flags are already cached
        how = str(rng.choice(['permute', 'conj', 'transpose', 'ctor', 'scale_normalize']))
        par = ('ggm',) if rng.random() < 0.5 else ('custom', gens.rotated_basis(rng, d, True), True,
                                                   'Custom')
        bs += [('derived', par, how, int(rng.integers(0, 2**31)))]*2
        bs.append(('custom', gens.signed_shuffled_basis(rng, d, True), True, 'Custom'))
        bs.append(('custom', gens.signed_shuffled_basis(rng, d, True)[:int(rng.integers(2, d*d))], True, 'Custom'))
        if d in (2, 4):
            bs.append(('pauli',))
        if d == 2:
            bs.append(('custom', gens.rotated_basis(rng, 2, True), True, 'Pauli'))   # mislabelled
            bs.append(('custom', gens.rotated_basis(rng, 2, False), False, 'Custom'))
        desc = gens.rand_desc(rng, d=d, n_dt=int(rng.integers(1, 3)), n_n=int(rng.integers(1, 3)),
                              features=feats, basis=bs[int(rng.integers(0, len(bs)))])
        omega = np.sort(np.concatenate((-10.0**rng.uniform(-1, 1, 5), 10.0**rng.uniform(-1, 1, 5))))
        check_cumulant(ctx, {'desc': desc, 'omega': omega, 'shape': int(rng.integers(1, 4)),
                             'second_order': bool(rng.integers(0, 2)) and d < 4,
                             'seed': int(rng.integers(0, 2**31))})
        if i % 4 == 0:
            check_pc_cumulant(ctx, {'seed': int(rng.integers(0, 2**31)),
                                    'shape': int(rng.integers(1, 4))})
        if i < 2:
            ctx.sample({'d': d, 'features': feats, 'basis': desc['basis'][0]})
