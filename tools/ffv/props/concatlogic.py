"""Cross-check of the Lean model `FFVerif.Model.ConcatLogic.concatLogic` (driver component
`concatlogic`) against the real `filter_functions.concatenate`.

Random abstract inputs (cache states of the pulses + options) are REALISED by real pulses
(d = 2), the real function is called with counting wrappers around
`numeric.calculate_control_matrix_from_atomic`, `numeric.calculate_control_matrix_from_scratch`
and `PulseSequence.cache_filter_function`, the observation is encoded like the driver's answer and
compared with it.

Adapted from the cross-check script of the sub-agent that wrote the model: importable, the counting
wrappers are installed only while `run` is executing.
"""
import collections
import contextlib
import numpy as np
import filter_functions as ff
from filter_functions import numeric, util, pulse_sequence
from filter_functions.pulse_sequence import PulseSequence


X, Y, Z = util.paulis[1:]
B_COMPLETE = ff.Basis.pauli(1)
B_INCOMPLETE = ff.Basis([X/np.sqrt(2), Z/np.sqrt(2)])
assert B_COMPLETE.iscomplete and not B_INCOMPLETE.iscomplete
# frequency grids by id: pairwise different bytes (different lengths and values)
GRIDS = {g: np.linspace(0.1*(g + 1), 1.0 + g, 3 + g) for g in range(5)}
BYTES = {w.tobytes(): g for g, w in GRIDS.items()}
# pairwise different noise operators for the "no shared noise operator" case
NOPS = [('nZ', Z), ('nX', X), ('nY', Y), ('nXZ', (X + Z)/np.sqrt(2)), ('nXY', (X + Y)/np.sqrt(2))]


# ----------------------------------------------------------------------------- abstract inputs
def gen(rng):
    r = rng.random()
    n = 0 if r < 0.01 else (1 if r < 0.17 else int(rng.integers(2, 5)))
    ngrid = int(rng.integers(1, 4))                      # few grids -> agreement is frequent
    pulses = []
    for _ in range(n):
        tp = int(rng.integers(0, 2))
        cm = int(rng.random() < 0.45)
        if cm:
            om = None if rng.random() < 0.06 else int(rng.integers(0, ngrid))
        else:
            om = None if rng.random() < 0.55 else int(rng.integers(0, ngrid))
        pulses.append((tp, cm, om))
    calc_pc = int(rng.random() < 0.35)
    calc_ff = [None, 1, 0][int(rng.choice(3, p=[0.5, 0.25, 0.25]))]
    if n == 1 and rng.random() < 0.6 and not (calc_pc or calc_ff):
        # single pulse: make forced options frequent (the shortcut is not taken then)
        calc_pc, calc_ff = [(1, None), (0, 1), (1, 1), (1, 0)][int(rng.integers(0, 4))]
    og = None if rng.random() < 0.65 else int(rng.integers(0, 5))
    # for ONE pulse the real equal_n_opers is False (no operator shared by two pulses): the
    # harness passes 0, as the model's docstring requires
    en = 0 if n == 1 else int(rng.integers(0, 2))
    return dict(pulses=pulses, calcPc=calc_pc, calcFF=calc_ff, omegaGiven=og,
                equalNOpers=en, basisComplete=int(rng.integers(0, 2)))


def opt(v):
    return '-' if v is None else str(v)


def encode(a):
    ps = '|'.join(f'{tp},{cm},{opt(om)}' for tp, cm, om in a['pulses']) or '-'
    return (f"concatlogic {ps} {a['calcPc']} {opt(a['calcFF'])} {opt(a['omegaGiven'])} "
            f"{a['equalNOpers']} {a['basisComplete']}")


# ------------------------------------------------------------------------------- realisation
def build(a, rng):
    basis = B_COMPLETE if a['basisComplete'] else B_INCOMPLETE
    pulses = []
    for i, (tp, cm, om) in enumerate(a['pulses']):
        ndt = int(rng.integers(1, 4))
        ident, nop = NOPS[0] if a['equalNOpers'] else NOPS[i]
        p = ff.PulseSequence([[X, rng.standard_normal(ndt), 'cX']],
                             [[nop, np.ones(ndt), ident]], rng.uniform(0.2, 1.0, ndt), basis=basis)
        if cm:
            # caches control matrix, frequencies, total phases, total propagator (+ Liouville)
            p.cache_control_matrix(GRIDS[om if om is not None else 4])
            if om is None:
                p.omega = None             # public setter; control matrix stays cached
        elif om is not None:
            p.omega = GRIDS[om]
        if tp:
            p.diagonalize()
        else:
            p.total_propagator = None      # public setter (cache_control_matrix had set it)
            if rng.random() < 0.5:
                p.cleanup('conservative')
        assert p.is_cached('total_propagator') == bool(tp)
        assert p.is_cached('control_matrix') == bool(cm)
        assert p.is_cached('omega') == (om is not None)
        assert om is None or BYTES[p.omega.tobytes()] == om
        assert not p.is_cached('filter_function')
        pulses.append(p)
    return pulses


# -------------------------------------------------------------------------------- observation
class Spy:
    def __init__(self):
        self.reset()

    def reset(self):
        self.atomic = []      # `which` arguments of calculate_control_matrix_from_atomic
        self.scratch = 0      # calls of calculate_control_matrix_from_scratch
        self.cff = []         # (id(self), control_matrix given?, ndim, tp cached at entry, omega id)
        self.diag = []        # (id(self), tp cached at entry) of every PulseSequence.diagonalize()


SPY = Spy()
_atomic = numeric.calculate_control_matrix_from_atomic
_scratch = numeric.calculate_control_matrix_from_scratch
_cff = PulseSequence.cache_filter_function
_diag = PulseSequence.diagonalize


def w_diag(self):
    SPY.diag.append((id(self), self.is_cached('total_propagator')))
    return _diag(self)


def w_atomic(phases, control_matrix_atomic, propagators_liouville, show_progressbar=False,
             which='total'):
    SPY.atomic.append(which)
    return _atomic(phases, control_matrix_atomic, propagators_liouville, show_progressbar, which)


def w_scratch(*args, **kwargs):
    SPY.scratch += 1
    return _scratch(*args, **kwargs)


def w_cff(self, omega, control_matrix=None, *args, **kwargs):
    SPY.cff.append((id(self), control_matrix is not None,
                    None if control_matrix is None else np.ndim(control_matrix),
                    self.is_cached('total_propagator'),
                    BYTES.get(np.asarray(omega).tobytes(), 'unknown-grid')))
    return _cff(self, omega, control_matrix, *args, **kwargs)


@contextlib.contextmanager
def spies():
    numeric.calculate_control_matrix_from_atomic = w_atomic
    numeric.calculate_control_matrix_from_scratch = w_scratch
    PulseSequence.cache_filter_function = w_cff
    PulseSequence.diagonalize = w_diag
    assert pulse_sequence.numeric is numeric
    try:
        yield
    finally:
        numeric.calculate_control_matrix_from_atomic = _atomic
        numeric.calculate_control_matrix_from_scratch = _scratch
        PulseSequence.cache_filter_function = _cff
        PulseSequence.diagonalize = _diag


def observe(a, rng):
    pulses = build(a, rng)
    n = len(pulses)
    kwargs = dict(calc_pulse_correlation_FF=bool(a['calcPc']),
                  calc_filter_function=None if a['calcFF'] is None else bool(a['calcFF']),
                  omega=None if a['omegaGiven'] is None else GRIDS[a['omegaGiven']].copy())
    SPY.reset()
    try:
        res = ff.concatenate(pulses, **kwargs)
    except Exception as e:                                    # noqa
        return f'err {type(e).__name__}', []
    notes = []
    tp_after = res.is_cached('total_propagator')
    has_ff = res.is_cached('filter_function')
    has_cm = res.is_cached('control_matrix') or res.is_cached('control_matrix_pc')
    has_pc = res.is_cached('filter_function_pc') and res.is_cached('control_matrix_pc')
    if len(SPY.cff) > 1 or any(c[0] != id(res) for c in SPY.cff):
        notes.append(f'cache_filter_function calls: {SPY.cff}')
    if not SPY.cff:
        kind = 'none'
        tp_set = tp_after
        if SPY.atomic or SPY.scratch or any(i == id(res) for i, _ in SPY.diag):
            notes.append('calculation without cache_filter_function')
        if n != 1 and (has_ff or has_cm or has_pc or res.omega is not None):
            notes.append('result of a non-computing call has frequency dependent quantities')
    else:
        _, given, ndim, tp_entry, g = SPY.cff[0]
        # total propagator set by concatenate itself: state at the first diagonalize() of the
        # result (which sets it as a side effect), else at the entry of cache_filter_function
        # (if the first diagonalize() happened inside cache_filter_function it saw at least
        # the state at the entry, so `tp_entry and first` is the state at the earlier event)
        first_diag = [tp for i, tp in SPY.diag if i == id(res)]
        tp_set = (first_diag[0] and tp_entry) if first_diag else tp_entry
        if not tp_after:
            notes.append('computed, but the total propagator is not cached after the call')
        gres = BYTES.get(res.omega.tobytes(), 'unknown-grid') if res.omega is not None else None
        if gres != g:
            notes.append(f'result.omega is grid {gres}, computed on {g}')
        if not (has_ff and has_cm):
            notes.append('computed but filter function / control matrix not cached')
        if SPY.atomic:
            pc = SPY.atomic[0] == 'correlations'
            kind = f'atomic:{g}:{int(pc)}'
            if len(SPY.atomic) != 1 or not given or ndim != (4 if pc else 3) or has_pc != pc:
                notes.append(f'atomic: inconsistent observation {SPY.atomic} {given} {ndim} {has_pc}')
        elif given:
            kind = f'pcscratch:{g}'
            if ndim != 4 or SPY.scratch != n or not has_pc:
                notes.append(f'pcscratch: inconsistent observation {ndim} {SPY.scratch} {has_pc}')
        else:
            kind = f'scratch:{g}'
            if SPY.scratch != 1 or has_pc:
                notes.append(f'scratch: inconsistent observation {SPY.scratch} {has_pc}')
        if tp_set and not tp_after:
            notes.append('total propagator lost')
    return f'ok {int(tp_set)} {kind}', notes


# -------------------------------------------------------------------------------------- main
def branch(ans):
    t = ans.split()
    return t[0] + ' ' + (t[1] if t[0] == 'err' else t[2].split(':')[0] + ' tp=' + t[1]
                         + (' pc=' + t[2].split(':')[2] if t[2].startswith('atomic') else ''))


def run(rng, n, driver):
    """returns (number of inputs, branch counts, mismatches, inconsistent observations)"""
    inputs = [gen(rng) for _ in range(n)]
    # one concrete input per branch of the source, always included
    inputs += [
        dict(pulses=[], calcPc=0, calcFF=None, omegaGiven=None, equalNOpers=0, basisComplete=1),
        dict(pulses=[(1, 1, 0)], calcPc=0, calcFF=None, omegaGiven=1, equalNOpers=0, basisComplete=1),
        dict(pulses=[(0, 1, 0)], calcPc=1, calcFF=1, omegaGiven=1, equalNOpers=0, basisComplete=1),
        dict(pulses=[(0, 1, 0)], calcPc=0, calcFF=1, omegaGiven=None, equalNOpers=0, basisComplete=1),
        dict(pulses=[(1, 0, None)], calcPc=1, calcFF=None, omegaGiven=None, equalNOpers=0, basisComplete=1),
        dict(pulses=[(0, 1, None)], calcPc=1, calcFF=0, omegaGiven=None, equalNOpers=0, basisComplete=0),
        dict(pulses=[(0, 0, 1)], calcPc=1, calcFF=0, omegaGiven=None, equalNOpers=0, basisComplete=0),
        dict(pulses=[(1, 1, 0), (1, 1, 0)], calcPc=0, calcFF=0, omegaGiven=1, equalNOpers=1, basisComplete=1),
        dict(pulses=[(1, 1, None), (1, 0, 0)], calcPc=0, calcFF=None, omegaGiven=None, equalNOpers=0, basisComplete=1),
        dict(pulses=[(1, 1, 0), (1, 1, 1)], calcPc=0, calcFF=1, omegaGiven=None, equalNOpers=1, basisComplete=1),
        dict(pulses=[(1, 0, None), (1, 0, None)], calcPc=1, calcFF=0, omegaGiven=None, equalNOpers=1, basisComplete=1),
        dict(pulses=[(1, 1, 0), (1, 1, 1)], calcPc=0, calcFF=None, omegaGiven=None, equalNOpers=1, basisComplete=1),
        dict(pulses=[(1, 1, 0), (1, 1, 0)], calcPc=0, calcFF=None, omegaGiven=None, equalNOpers=0, basisComplete=1),
        dict(pulses=[(1, 0, 0), (1, 0, None)], calcPc=0, calcFF=None, omegaGiven=None, equalNOpers=1, basisComplete=1),
        dict(pulses=[(1, 0, 0), (0, 0, None)], calcPc=0, calcFF=1, omegaGiven=None, equalNOpers=1, basisComplete=1),
        dict(pulses=[(1, 1, 0), (1, 0, 1)], calcPc=1, calcFF=None, omegaGiven=None, equalNOpers=1, basisComplete=1),
        dict(pulses=[(0, 1, 0), (1, 0, None)], calcPc=0, calcFF=None, omegaGiven=None, equalNOpers=1, basisComplete=0),
        dict(pulses=[(0, 1, 0), (1, 0, None)], calcPc=1, calcFF=None, omegaGiven=None, equalNOpers=1, basisComplete=0),
        dict(pulses=[(0, 0, None), (1, 0, None)], calcPc=0, calcFF=None, omegaGiven=2, equalNOpers=0, basisComplete=1),
    ]
    lines = [encode(a) for a in inputs]
    model = driver(lines)
    counts = collections.Counter()
    mismatches, noted = [], []
    with spies():
        for a, line, m in zip(inputs, lines, model):
            real, notes = observe(a, rng)
            counts[branch(real)] += 1
            if real != m.strip():
                mismatches.append({'request': line, 'implementation': real, 'model': m.strip()})
            if notes:
                noted.append({'request': line, 'implementation': real, 'notes': notes})
    return len(lines), dict(counts), mismatches, noted
