"""C18 — computations never modify caller-owned data; failures leave pulses usable."""
import copy
import hashlib

import numpy as np

import filter_functions as ff
from filter_functions import gradient, numeric, util

from .. import gens

THEOREMS = '''trace_last trace_head trace_ne_nil abort_preserves_Inv abort_then_fresh stepOutcome_mem
stepOutcome_Inv runWithFailures_preserves_Inv failures_reachable_Inv failures_then_fresh
runWithFailures_done hstep_other_unchanged hstepOutcome_length hstepEvent_preserves
heap_failures_Inv heap_failures_then_fresh async_window_not_coherent frame_all_histories
frame_violation_witness frame_iff frame_after_return apiCall_all_complete apiCall_ofName
declared_frame_safe inPlace_calls never_returned_or_definition api_history_frame
api_history_frame_kind'''.split()
PINS = ['C07_body_get_control_matrix', 'C07_body_cache_control_matrix', 'C07_body_get_filter_function', 'C07_body_cache_filter_function', 'C07_body_get_pulse_correlation_filter_function', 'C07_body_get_filter_function_derivative', 'C07_body_get_total_phases', 'C07_body_cache_total_phases', 'C07_body_diagonalize', 'C07_body_copy', 'C07_body_deepcopy', 'C07_body_get_pulse_correlation_control_matrix']
GEN_SITES = ['cache:cleanup', 'cache:method_bodies']
COMPONENTS = ['effects', 'abort_trace']
RULES = ['histories of public calls (constructors, getters, cachers, clean-up, copies, concatenate, '
         'concatenate_periodic, extend, remap, infidelity, decay amplitudes, cumulant function, '
         'error transfer matrix, derivatives, Basis constructors / from_partial / expand, tensor '
         'helpers): before and after every call the SHA-256 of the bytes of every argument array, '
         'of every array previously returned to the caller, and of the physical definition '
         '(operators, coefficients, durations, identifiers, basis) of every pulse involved are '
         'compared; calls are then made to fail at each validation point (bad spectrum shape, '
         'non-Hermitian cross-spectrum, unknown identifier, bad option value, incompatible pulses, '
         'wrong n_coeffs_deriv shape, other frequencies for pulse-correlation quantities) and all '
         'later results are compared with fresh pulses; distinct = history hash']
ASSUMPTIONS = ['aliasing of Python objects cannot be a theorem: the frame condition (ops write only '
               'cache / fresh cells) is measured by fingerprints, the lift to all histories and the '
               'exception-safety of the cache logic are theorems']
TRUSTED = ['fingerprints observe only the arrays reachable from the objects the harness holds']


def fp(a):
    a = np.ascontiguousarray(np.asarray(a))
    return hashlib.sha256(a.tobytes() + str(a.shape).encode() + str(a.dtype).encode()).hexdigest()[:16]


def pulse_fp(p):
    return (fp(p.c_opers), fp(p.n_opers), fp(p.c_coeffs), fp(p.n_coeffs), fp(p.dt),
            tuple(p.c_oper_identifiers), tuple(p.n_oper_identifiers), fp(np.asarray(p.basis)),
            tuple(p.basis.labels))


class Tracker:
    def __init__(self):
        self.items = []     # (name, object, fingerprint function, fingerprint)

    def watch(self, name, obj, f=fp):
        if obj is None:
            return
        self.items.append([name, obj, f, f(obj)])

    def changed(self):
        out = []
        for it in self.items:
            now = it[2](it[1])
            if now != it[3]:
                out.append(it[0])
                it[3] = now
        return out


def check_history(ctx, case):
    rng = np.random.default_rng(case['seed'])
    d = 2
    basis_arr = np.array(ff.Basis.pauli(1)) if rng.random() < 0.5 else gens.rotated_basis(rng, 2, True)
    basis = ff.Basis(basis_arr.copy(), traceless=True)
    T = Tracker()
    n_dt = int(rng.integers(1, 4))
    c_op = [gens.rand_herm(rng, d) for _ in range(2)]
    n_op = [gens.rand_herm(rng, d, traceless=bool(rng.random() < 0.3)) for _ in range(2)]
    c_co = [rng.standard_normal(n_dt) for _ in range(2)]
    if n_dt >= 2 and rng.random() < 0.5:
        # two consecutive segments with identical amplitudes (and, below, identical sensitivities):
        # equality comparisons merge such segments on the fly
        for c in c_co:
            c[1] = c[0]
    n_co = [np.full(n_dt, rng.uniform(0.5, 1.5)) for _ in range(2)]
    dt = rng.uniform(0.2, 1.0, n_dt)
    for nm, arrs in (('c_op', c_op), ('n_op', n_op), ('c_co', c_co), ('n_co', n_co)):
        for k, a in enumerate(arrs):
            T.watch(f'arg:{nm}{k}', a)
    T.watch('arg:dt', dt)
    T.watch('arg:basis', basis, lambda b: fp(np.asarray(b)) + str(b.labels))
    omega = np.sort(rng.uniform(0.1, 5, 6))
    omega2 = np.sort(rng.uniform(0.1, 5, 6))
    S1 = 1/(1 + omega)
    S2 = np.array([S1, 2*S1])
    A = rng.standard_normal((2, 2)) + 1j*rng.standard_normal((2, 2))
    S3 = (A @ A.conj().T)[:, :, None]*S1[None, None, :]
    for nm, a in (('omega', omega), ('omega2', omega2), ('S1', S1), ('S2', S2), ('S3', S3)):
        T.watch('arg:' + nm, a)
    # query times and tensor positions owned by the caller (float / integer ndarrays)
    tq = np.sort(rng.uniform(0, float(np.sum(dt)), 4))
    posq = np.array([-1, -2])
    T.watch('arg:tq', tq)
    T.watch('arg:posq', posq)

    def new_pulse():
        return ff.PulseSequence([[c_op[0], c_co[0], 'X'], [c_op[1], c_co[1], 'Y']],
                                [[n_op[0], n_co[0], 'A'], [n_op[1], n_co[1], 'B']], dt, basis)
    p = new_pulse()
    q = new_pulse()
    pulses = {'p': p, 'q': q}
    for nm, pl in pulses.items():
        T.watch('def:' + nm, pl, pulse_fp)
    probs = []
    log = []

    def call(name, f, expect_exc=None):
        log.append(name)
        try:
            r = f()
            if expect_exc is not None:
                probs.append(f'{name}: expected {expect_exc.__name__}, no exception')
        except Exception as e:   # noqa
            r = None
            if expect_exc is None or not isinstance(e, expect_exc):
                probs.append(f'{name}: unexpected {type(e).__name__}: {e}')
        ch = T.changed()
        if ch:
            probs.append(f'{name}: modified {ch}')
        if isinstance(r, np.ndarray):
            T.watch(f'ret:{name}#{len(log)}', r)
        elif isinstance(r, ff.PulseSequence):
            T.watch(f'def:ret:{name}#{len(log)}', r, pulse_fp)
            pulses[f'r{len(log)}'] = r
        return r
    ops = [
        ('get_control_matrix', lambda: p.get_control_matrix(omega)),
        ('get_control_matrix ci', lambda: p.get_control_matrix(omega2, cache_intermediates=True)),
        ('get_filter_function', lambda: p.get_filter_function(omega)),
        ('get_filter_function gen', lambda: p.get_filter_function(omega, 'generalized')),
        ('get_filter_function 2', lambda: p.get_filter_function(omega, order=2)),
        ('get_total_phases', lambda: p.get_total_phases(omega)),
        ('derivative', lambda: p.get_filter_function_derivative(omega)),
        ('infidelity S1', lambda: ff.infidelity(p, S1, omega)),
        ('infidelity S2', lambda: ff.infidelity(p, S2, omega)),
        ('infidelity S3', lambda: ff.infidelity(p, S3, omega)),
        ('infidelity ids', lambda: ff.infidelity(p, S1, omega, n_oper_identifiers=['B'])),
        ('decay amplitudes', lambda: numeric.calculate_decay_amplitudes(p, S3, omega)),
        ('cumulant', lambda: numeric.calculate_cumulant_function(p, S2, omega)),
        ('cumulant 2nd', lambda: numeric.calculate_cumulant_function(p, S1, omega, second_order=True)),
        ('error transfer matrix', lambda: numeric.error_transfer_matrix(p, S1, omega)),
        ('infidelity derivative', lambda: gradient.infidelity_derivative(p, S1, omega)),
        ('cleanup', lambda: p.cleanup(str(rng.choice(['conservative', 'greedy', 'frequency dependent', 'all'])))),
        ('copy use', lambda: copy.copy(p).get_filter_function(omega2)),
        ('deepcopy use', lambda: copy.deepcopy(p).get_filter_function(omega2, order=2)),
        ('concatenate', lambda: ff.concatenate((p, q), omega=omega, calc_pulse_correlation_FF=True)),
        ('concatenate cached', lambda: ff.concatenate((p, q))),
        ('matmul', lambda: p @ q),
        ('concatenate_periodic', lambda: ff.concatenate_periodic(p, 3)),
        ('extend', lambda: ff.extend([(p, 1), (q, 0)], omega=omega, cache_filter_function=True)
         if basis.btype == 'Pauli' else ff.extend([(p, 1)], N=2)),
        ('remap', lambda: ff.remap(ff.extend([(p, 0)], N=2), (1, 0))),
        ('slice', lambda: p[0:1]),
        ('propagator_at_arb_t', lambda: p.propagator_at_arb_t(tq)),
        ('propagator_at_arb_t own times', lambda: p.propagator_at_arb_t(p.t)),
        ('tensor_merge array pos', lambda: util.tensor_merge(util.tensor(c_op[0], c_op[1]),
                                                              util.tensor(n_op[0], n_op[1]), pos=posq,
                                                              arr_dims=[[2, 2]]*2, ins_dims=[[2, 2]]*2)),
        ('tensor_insert array pos', lambda: util.tensor_insert(util.tensor(c_op[0], c_op[1]), n_op[0],
                                                                n_op[1], pos=posq, arr_dims=[[2, 2]]*2)),
        ('Basis.from_partial', lambda: ff.Basis.from_partial(basis[1:3])),
        ('Basis.from_partial ndarray', lambda: ff.Basis.from_partial(basis_arr[1:3])),
        ('basis.expand', lambda: ff.basis.expand(c_op[0], basis)),
        ('ggm_expand', lambda: ff.basis.ggm_expand(c_op[0])),
        ('liouville', lambda: ff.superoperator.liouville_representation(p.total_propagator, basis)),
        ('tensor', lambda: util.tensor(c_op[0], c_op[1])),
        ('tensor_insert', lambda: util.tensor_insert(util.tensor(c_op[0], c_op[1]), n_op[0], pos=1,
                                                     arr_dims=[[2, 2]]*2)),
        ('tensor_transpose', lambda: util.tensor_transpose(util.tensor(c_op[0], c_op[1]), (1, 0),
                                                           [[2, 2]]*2)),
        ('diagonalize', lambda: numeric.diagonalize(np.array([c_op[0], c_op[1]]), np.array([0.3, 0.4]))),
        ('pulse eq', lambda: np.array([p == q])),
        ('pulse eq self', lambda: np.array([p == p, p == copy.deepcopy(p), p != q])),
        ('pulse eq slice', lambda: np.array([p[0:1] == q[0:1]])),
    ]
    # requests on a concatenated pulse with pulse-correlation quantities (created on first use, then
    # shared by the later calls of the history so that earlier returns are watched across them)
    pcp = []

    def pc():
        if not pcp:
            pcp.append(ff.concatenate((new_pulse(), new_pulse()), omega=omega,
                                      calc_pulse_correlation_FF=True,
                                      which=str(rng.choice(['fidelity', 'generalized']))))
            T.watch('def:pc', pcp[0], pulse_fp)
        return pcp[0]
    ops += [
        ('pc filter function', lambda: pc().get_pulse_correlation_filter_function()),
        ('pc filter function gen', lambda: pc().get_pulse_correlation_filter_function('generalized')),
        ('pc control matrix', lambda: pc().get_pulse_correlation_control_matrix()),
        ('pc infidelity correlations', lambda: ff.infidelity(pc(), S1, omega, which='correlations')),
        ('pc infidelity correlations S2', lambda: ff.infidelity(pc(), S2, omega, which='correlations')),
        ('pc infidelity total', lambda: ff.infidelity(pc(), S2, omega)),
        ('pc decay correlations', lambda: numeric.calculate_decay_amplitudes(
            pc(), S1, omega, which='correlations')),
        ('pc cumulant correlations', lambda: numeric.calculate_cumulant_function(
            pc(), S1, omega, which='correlations')),
        ('pc filter function total', lambda: pc().get_filter_function(omega)),
    ]
    failing = [
        ('FAIL spectrum shape', lambda: ff.infidelity(p, np.ones((3, len(omega))), omega), ValueError),
        ('FAIL nonhermitian spectrum', lambda: ff.infidelity(p, S3 + 1j*np.triu(np.ones((2, 2)), 1)[:, :, None],
                                                             omega), ValueError),
        ('FAIL unknown identifier', lambda: ff.infidelity(p, S1, omega, n_oper_identifiers=['nope']),
         ValueError),
        ('FAIL unknown identifier deriv', lambda: p.get_filter_function_derivative(
            omega, control_identifiers=['nope']), ValueError),
        ('FAIL option', lambda: p.get_filter_function(omega, which='foo'), ValueError),
        ('FAIL cleanup option', lambda: p.cleanup('foo'), ValueError),
        ('FAIL ncoeffs shape', lambda: p.get_filter_function_derivative(
            omega, n_coeffs_deriv=np.ones((1, 1, 1))), ValueError),
        ('FAIL concatenate dims', lambda: ff.concatenate(
            (p, ff.PulseSequence([[np.eye(3), [1.0]]], [[np.eye(3), [1.0]]], [1.0]))), ValueError),
        ('FAIL pc not computed', lambda: p.get_pulse_correlation_filter_function(),
         util.CalculationError),
        ('FAIL forced ff no omega', lambda: ff.concatenate((new_pulse(), new_pulse()),
                                                          calc_filter_function=True), ValueError),
        ('FAIL decay spectrum', lambda: numeric.calculate_decay_amplitudes(
            p, np.ones((5, 2, len(omega))), omega), ValueError),
        ('FAIL empty slice', lambda: p[5:5], IndexError),
    ]
    order = rng.permutation(len(ops) + len(failing))[:int(case['length'])]
    for k in order:
        if k < len(ops):
            call(*ops[k])
        else:
            call(*failing[k - len(ops)])
    # after the history (incl. failed calls) every result equals the one of a fresh pulse
    fresh = new_pulse()
    for name, f in (('control matrix', lambda x: x.get_control_matrix(omega)),
                    ('filter function', lambda x: x.get_filter_function(omega2)),
                    ('second order', lambda x: x.get_filter_function(omega, order=2)),
                    ('infidelity', lambda x: ff.infidelity(x, S2, omega)),
                    ('derivative', lambda x: x.get_filter_function_derivative(omega2))):
        try:
            a, b = f(p), f(fresh)
            if not np.allclose(a, b, rtol=1e-9, atol=1e-12):
                probs.append(f'after the history, {name} differs from a fresh pulse by '
                             f'{np.max(np.abs(a - b)):.3g}')
        except Exception as e:   # noqa
            probs.append(f'after the history, {name} raised {type(e).__name__}: {e}')
    if pcp:
        freshpc = ff.concatenate((new_pulse(), new_pulse()), omega=omega, calc_pulse_correlation_FF=True)
        for name, f in (('pc infidelity', lambda x: ff.infidelity(x, S1, omega, which='correlations')),
                        ('pc filter function', lambda x: x.get_pulse_correlation_filter_function()),
                        ('pc decay amplitudes', lambda x: numeric.calculate_decay_amplitudes(
                            x, S1, omega, which='correlations'))):
            try:
                a, b = f(pcp[0]), f(freshpc)
                if not np.allclose(a, b, rtol=1e-9, atol=1e-12):
                    probs.append(f'after the history, {name} differs from a fresh concatenation by '
                                 f'{np.max(np.abs(a - b)):.3g}')
            except Exception as e:   # noqa
                probs.append(f'after the history, {name} raised {type(e).__name__}: {e}')
    ch = T.changed()
    if ch:
        probs.append(f'final: modified {ch}')
    ctx.count((case['seed'], case['length']), nontrivial=any('FAIL' in x for x in log))
    ctx.stat('calls', len(log))
    ctx.stat('failing_calls', sum('FAIL' in x for x in log))
    if probs:
        ctx.fail('no_mutation_and_usable_after_failure', case, probs[:6], 'no modification', {},
                 f'history {log[:12]}…: {probs[:3]}')


class Boom(RuntimeError):
    pass


def correspondence(ctx):
    """(1) declared write sets (Lean table `Effects.declaredWrites`) vs measured ones for the whole
    public API; (2) fault injection: numerical routines are made to raise at their k-th call
    inside a public operation; the observed abort state must be one of the raise-point states of the
    Lean trace of that operation, and all follow-up results must equal those of a fresh pulse."""
    import copy as _copy
    import itertools
    from filter_functions import pulse_sequence
    from ..common import driver
    from . import c07, c18_effects
    res = c18_effects.run(5 + ctx.seed)
    names = sorted(res)
    outs = driver(['effects list'] + [f'effects {n}' for n in names])
    allnames = outs[0][3:].split(';')
    bad = []
    for n, o in zip(names, outs[1:]):
        decl = set() if not o.startswith('ok ') or o[3:] == '-' else set(o[3:].split(','))
        extra = res[n] - decl
        ctx.count(('effects', n))
        if extra or not o.startswith('ok '):
            bad.append((n, sorted(extra), o[:40]))
            if res[n] & {'argArray', 'argBasisData', 'returned', 'pulseDef'}:
                ctx.fail('write_set', {'api': n}, sorted(res[n]), sorted(decl), {'api': n},
                         f'{n} modified caller-owned data: {sorted(res[n])}')
    ctx.stat('api_calls_measured', len(names))
    ctx.stat('api_calls_not_exercised', len([n for n in allnames if n not in res]))
    ctx.oblige('correspondence:effects', 'correspondence', not bad,
               f'{len(bad)} API calls write more than declared: {bad[:3]}')

    TARGETS = [(numeric, 'diagonalize'), (numeric, 'calculate_control_matrix_from_scratch'),
               (numeric, 'calculate_filter_function'),
               (numeric, 'calculate_second_order_filter_function'),
               (numeric, 'calculate_pulse_correlation_filter_function'),
               (pulse_sequence, 'liouville_representation'), (util, 'cexp'),
               (numeric, '_get_integrand'),
               (gradient, 'calculate_derivative_of_control_matrix_from_scratch'),
               (util, 'get_indices_from_identifiers'), (util, 'integrate'),
               (gradient, 'calculate_filter_function_derivative')]
    rng = ctx.rng('abort')
    reqs = []
    for seed in range(2 if ctx.tier == 'quick' else 12):
        pc = bool(seed % 3 == 0)
        world = c07.World(rng, pc=pc)
        pcg = int(rng.integers(1, 4)) if pc else None
        for trial in range(3 if ctx.tier == 'quick' else 6):
            objs = [world.fresh(pcg, 'generalized') if pc else world.fresh()]
            hist = [h for h in c07.gen_history(rng, world, int(rng.integers(0, 5)))
                    if h.startswith('0@')]
            for h in hist:
                c07.apply_op(world, objs, h)
            p0 = objs[0]
            op = None
            while op is None:
                cand = c07.gen_history(rng, world, 1)
                if cand and cand[0].startswith('0@'):
                    op = cand[0]
            init = world.observe(p0)
            for (mod, name), k in itertools.product(TARGETS, (1, 2, 3)):
                p = _copy.deepcopy(p0)
                orig = getattr(mod, name)
                state = {'n': 0}

                def wrapper(*a, _orig=orig, _state=state, _k=k, _name=name, **kw):
                    _state['n'] += 1
                    if _state['n'] == _k:
                        raise Boom(_name)
                    return _orig(*a, **kw)
                setattr(mod, name, wrapper)
                try:
                    try:
                        c07.apply_op(world, [p], op)
                        raised = False
                    except Boom:
                        raised = True
                finally:
                    setattr(mod, name, orig)
                if not raised:
                    continue
                obs = world.observe(p)
                g = int(rng.integers(1, 4))
                follow = None
                for tok in (f'0@getFF:{g}:g:0:0', f'0@getFF:{g}:f:1:0', f'0@deriv:{g}',
                            f'0@cumulant:{g}:1'):
                    _, ret, prob = c07.apply_op(world, [p], tok)
                    if prob or not ret.endswith('+'):
                        follow = (tok, ret, prob)
                        break
                reqs.append((f'hist={hist} op={op} inject={name}#{k}', init, op.split('@')[1], obs,
                             follow))
                ctx.count(('abort', seed, trial, name, k, op))
    lines = sorted(set(f'cachetrace {",".join(r[1].split())} {r[2]}' for r in reqs))
    ans = dict(zip(lines, driver(lines))) if lines else {}
    notin = []
    for r in reqs:
        a = ans[f'cachetrace {",".join(r[1].split())} {r[2]}']
        states = a[3:].split(';') if a.startswith('ok ') else []
        if r[3] not in states:
            notin.append((r[0], r[3], states[:3]))
        if r[4]:
            ctx.fail('usable_after_failure', {'what': r[0]}, str(r[4]), 'fresh value', {},
                     f'after an exception ({r[0]}) a later request is wrong: {r[4]}')
    ctx.stat('aborts_observed', len(reqs))
    ctx.oblige('correspondence:abort_trace', 'correspondence', not notin,
               f'{len(notin)} of {len(reqs)} abort states are not raise-point states of the model '
               f'trace: {notin[:1]}')
    ctx.sample({'abort': reqs[0][0] if reqs else None})


def replay(ctx, check, case):
    if check == 'write_set':
        return check_write_sets(ctx, int(case.get('seed', 5)))
    check_history(ctx, case)


# helpers documented as working in place (the declared write sets of the Lean model `Effects` list
# exactly these: theorem `inPlace_calls`)
DOCUMENTED_IN_PLACE = {'Basis.normalize(copy=False)', 'Basis.tidyup', 'util.remove_float_errors'}


def check_write_sets(ctx, seed):
    """the measurement of the `effects` correspondence judged WITHOUT the Lean model (it runs also when the
    model does not build): no API call may change caller-owned data — argument arrays, basis data, arrays
    returned earlier, pulse definitions — unless it is a helper documented as in place"""
    from . import c18_effects
    res = c18_effects.run(seed)
    for n in sorted(res):
        owned = res[n] & {'argArray', 'argBasisData', 'returned', 'pulseDef'}
        ctx.count(('write_set', n, seed))
        if owned and n not in DOCUMENTED_IN_PLACE:
            ctx.fail('write_set', {'api': n, 'seed': seed}, sorted(res[n]), 'caller-owned data untouched',
                     {'api': n}, f'{n} modified caller-owned data: {sorted(owned)}')


def search(ctx, deep=False):
    rng = ctx.rng('deep' if deep else 'search')
    n = {('quick', False): 30, ('quick', True): 120, ('thorough', False): 200,
         ('thorough', True): 600}[(ctx.tier, deep)]
    if deep or not getattr(ctx, 'model_ok', True):
        check_write_sets(ctx, 5 + ctx.seed)
    for i in range(n):
        case = {'seed': int(rng.integers(0, 2**31)), 'length': int(rng.integers(8, 30))}
        check_history(ctx, case)
        if i < 2:
            ctx.sample(case)
