"""C17 — pulse construction, equality and slicing mean what they say."""
import copy
import random

import numpy as np

import filter_functions as ff
from filter_functions.pulse_sequence import _join_equal_segments, _parse_Hamiltonian

from .. import gens
from ..common import driver
from .pulsecodec import ham_s, ints, mk, of_ps, opid, opmat, pulse_s

THEOREMS = '''parse_sorted parse_keeps_association parse_given_identifier parse_default_identifier
parse_order_irrelevant default_identifiers_distinct join_spec join_output join_pos eq_iff_canon
eq_refl eq_symm eq_trans deepcopy_eq eq_iff_same_function eq_implies_same_function
eq_same_durations_iff eq_total_duration eq_detects_operator_count eq_detects_basis
eq_detects_operator_or_identifier eq_detects_duration eq_detects_term slice_spec slice_entries
slice_wf slice_full index_spec slice_concat_roundtrip'''.split()
PINS = ['pinJoinEqualSegments', 'pinHashArray', 'pinConcatenateHamiltonian']
LEAN_MODULES = ['FFVerif.Props.C17', 'FFVerif.Props.C17Bridge']
# module C17Bridge: pulses that compare equal under the model of __eq__ have the same Hamiltonian function, propagators,
# control matrix and filter functions (each with its own eigh output; rows matched by identifier)
THEOREMS = THEOREMS + [
    'FFVerif.C17.eq_model_same_function', 'FFVerif.C17.eq_model_same_hamiltonian_function',
    'FFVerif.C17.same_function_same_propagators', 'FFVerif.C17.eq_model_same_propagators',
    'FFVerif.C17.same_function_same_control_matrix', 'FFVerif.C17.eq_model_same_control_matrix',
    'FFVerif.C17.cm_error_sem', 'FFVerif.C17.same_function_same_control_matrix_error',
    'FFVerif.C17.eq_model_same_filter_function', 'FFVerif.C17.hamiltonian_function_is_model_array',
    'FFVerif.C17BridgeAux.eigh_data_exists']
GEN_SITES = ['const:pulse_sequence.__eq__']
COMPONENTS = ['parse_hamiltonian', 'join_segments', 'pulse_eq', 'slice']
RULES = ['correspondence: _parse_Hamiltonian (default / given / mixed identifiers), '
         '_join_equal_segments, __eq__ (both directions; split, perturbed-by-one-feature, copied '
         'and unrelated partners), slicing and indexing of abstract pulses (operators = fixed '
         'distinct matrices, integer coefficients and durations) vs the Lean model; search on real '
         'random pulses: listing order irrelevant, pairs differing in exactly one feature are '
         'unequal (extra/missing operator, one coefficient, one duration, one identifier, one basis '
         'element), re-segmentations are equal, equality symmetric/reflexive/transitive, equal '
         'pulses have equal propagators and filter functions, slices are sub-sequences, deep copies '
         'are equal and share no memory; distinct = input hash']
ASSUMPTIONS = ['durations are compared exactly in the model (np.allclose in the source)']
TRUSTED = ['modelled not verified: operator matching by bytes; allclose on durations']


def run(f):
    try:
        return 'ok ' + f()
    except ValueError:
        return 'err ValueError'
    except IndexError:
        return 'err IndexError'


def rand_ham(rng, n, names, ops, lo=0, hi=2):
    k = rng.randint(1, min(3, len(names)))
    nm = rng.sample(names, k)
    op = rng.sample(ops, k)
    return [(o, i, [rng.randint(lo, hi) for _ in range(n)]) for o, i in zip(op, nm)]


def rand_pulse(rng, names_c=('A', 'B', 'C', 'A_0', 'A_1'), names_n=('N', 'M', 'N_1'), zero_dt=True,
               ops_c=(1, 2, 3, 4), ops_n=(5, 6, 7)):
    n = rng.randint(1, 5)
    hc, hn = rand_ham(rng, n, list(names_c), list(ops_c)), rand_ham(rng, n, list(names_n), list(ops_n), 1, 2)
    if rng.random() < 0.5:
        # runs of equal consecutive segments (lengths 1..5): every coefficient row is expanded with
        # the same repetition counts, the durations stay independent
        reps = [rng.choice([1, 1, 2, 3, 4, 5]) for _ in range(n)]
        while sum(reps) > 9:
            reps[reps.index(max(reps))] -= 1
        ex = lambda c: [x for x, r in zip(c, reps) for _ in range(r)]  # noqa
        hc = [(o, i, ex(c)) for o, i, c in hc]
        hn = [(o, i, ex(c)) for o, i, c in hn]
        n = sum(reps)
    return (hc, hn, [rng.randint(0 if zero_dt else 1, 3) for _ in range(n)],
            rng.randint(0, 1) if rng.random() < .2 else 0)


def correspondence(ctx):
    rng = random.Random(int(ctx.rng('corr').integers(0, 2**31)))
    N = 40 if ctx.tier == 'quick' else 600
    reqs, expect, comp = [], [], []

    def add(c, req, exp):
        reqs.append(req)
        expect.append(exp)
        comp.append(c)
    for _ in range(N):
        n = rng.randint(1, 3)
        k = rng.randint(1, 12)
        mode = rng.choice(['none', 'mixed', 'all'])
        names = ['A_%d' % i for i in range(4)] + ['x', 'y', 'z', 'B_1', 'a', 'Z', 'A_10', 'A_2x',
                                                   'q', 'r', 's']
        terms = []
        for j in range(k):
            ident = None if mode == 'none' or (mode == 'mixed' and rng.random() < .5) else \
                rng.choice(names) if rng.random() < .3 else names[4:][j % 11] + str(j)
            terms.append((j + 1, ident, [rng.randint(0, 3) for _ in range(n)]))
        kind = rng.choice(['control', 'noise'])

        def f():
            H = [[opmat(o), c] if (mode == 'none') else [opmat(o), c, i] for o, i, c in terms]
            o, i, c = _parse_Hamiltonian(H, n, 'H_c' if kind == 'control' else 'H_n')
            return ham_s([(opid(a), str(b), list(cc)) for a, b, cc in zip(o, i, c)])
        add('parse_hamiltonian', f'pulse parse {kind} {ham_s(terms)} {n}', run(f))
        p, q = rand_pulse(rng), rand_pulse(rng)
        try:
            P = mk(p)
        except ValueError:
            continue
        sp = of_ps(P)
        c, nn, dt = _join_equal_segments(P)
        add('join_segments', f'pulse join {pulse_s(sp)}',
            'ok ' + ('_' if len(c) == 0 else ';'.join(ints(r) for r in c)) + '/'
            + ';'.join(ints(r) for r in nn) + '/' + ints(dt))
        var = rng.choice(['split', 'perturb', 'other', 'copy'])
        if var == 'copy':
            Q = copy.deepcopy(P)
        elif var == 'other':
            try:
                Q = mk(q)
            except ValueError:
                continue
        else:
            c2 = [(o, i, list(cc)) for o, i, cc in sp[0]]
            n2 = [(o, i, list(cc)) for o, i, cc in sp[1]]
            d2 = list(sp[2])
            if var == 'split':
                j = rng.randrange(len(d2))
                a = rng.randint(0, d2[j])
                for t in c2 + n2:
                    t[2].insert(j, t[2][j])
                d2[j:j + 1] = [a, d2[j] - a]
            else:
                w = rng.choice(['coeff', 'dt', 'id', 'op', 'drop'])
                if w == 'coeff':
                    t = rng.choice(c2 + n2)
                    t[2][rng.randrange(len(d2))] += 1
                elif w == 'dt':
                    d2[rng.randrange(len(d2))] += 1
                elif w == 'id':
                    lst = rng.choice([c2, n2])
                    j = rng.randrange(len(lst))
                    lst[j] = (lst[j][0], lst[j][1] + 'q', lst[j][2])
                elif w == 'op':
                    lst = rng.choice([c2, n2])
                    j = rng.randrange(len(lst))
                    lst[j] = (lst[j][0] + 10, lst[j][1], lst[j][2])
                elif w == 'drop' and len(c2) > 1:
                    c2.pop()
            try:
                Q = mk((c2, n2, d2, sp[3]))
            except ValueError:
                continue
        sq = of_ps(Q)
        add('pulse_eq', f'pulse eq {pulse_s(sp)} {pulse_s(sq)}', 'ok 1' if P == Q else 'ok 0')
        add('pulse_eq', f'pulse eq {pulse_s(sq)} {pulse_s(sp)}', 'ok 1' if Q == P else 'ok 0')
        a, b = rng.randint(0, 5), rng.randint(0, 6)
        add('slice', f'pulse slice {pulse_s(sp)} {a} {b}', run(lambda: pulse_s(of_ps(P[a:b]))))
        add('slice', f'pulse index {pulse_s(sp)} {a}', run(lambda: pulse_s(of_ps(P[a]))))
    outs = driver(reqs)
    bad = {c: [] for c in COMPONENTS}
    for r, e, c, o in zip(reqs, expect, comp, outs):
        ctx.count(r, nontrivial=True)
        if e != o:
            bad[c].append((r[:120], 'python', e[:80], 'lean', o[:80]))
    for c, v in bad.items():
        ctx.oblige('correspondence:' + c, 'correspondence', not v, f'{len(v)} disagree: {v[:1]}')
    ctx.sample({'request': reqs[1][:120], 'answer': outs[1][:120]})


# ---- search on real pulses ---------------------------------------------------------------------
def one_feature_variants(rng, desc):
    """descriptions differing from desc in exactly one feature"""
    out = []
    d = desc['d']
    n_dt = len(desc['dt'])

    def cp():
        return {k: (np.array(v, copy=True) if isinstance(v, np.ndarray) else
                    (list(v) if isinstance(v, list) else v)) for k, v in desc.items()}
    v = cp()
    v['c_opers'] = np.concatenate((v['c_opers'], [gens.rand_herm(rng, d)]))
    v['c_coeffs'] = np.concatenate((v['c_coeffs'], [np.zeros(n_dt)]))
    v['c_ids'] = list(v['c_ids']) + ['Zextra']
    out.append(('extra control operator (zero amplitude)', v))
    v = cp()
    v['n_opers'] = np.concatenate((v['n_opers'], [gens.rand_herm(rng, d)]))
    v['n_coeffs'] = np.concatenate((v['n_coeffs'], [np.ones(n_dt)]))
    v['n_ids'] = list(v['n_ids']) + ['Zextra']
    out.append(('extra noise operator', v))
    v = cp()
    g = int(rng.integers(0, n_dt))
    v['c_coeffs'][int(rng.integers(0, len(v['c_coeffs']))), g] += 1e-3
    out.append(('one control coefficient', v))
    v = cp()
    v['n_coeffs'][int(rng.integers(0, len(v['n_coeffs']))), g] += 1e-3
    out.append(('one noise coefficient', v))
    v = cp()
    v['dt'] = np.array(v['dt'], dtype=float)
    v['dt'][g] += 1e-3
    out.append(('one duration', v))
    v = cp()
    v['c_ids'][0] = v['c_ids'][0] + 'x'
    out.append(('one control identifier', v))
    v = cp()
    v['n_ids'][-1] = v['n_ids'][-1] + 'x'
    out.append(('one noise identifier', v))
    v = cp()
    v['n_opers'][0] = v['n_opers'][0] + 1e-3*gens.rand_herm(rng, d)
    out.append(('one noise operator', v))
    v = cp()
    b = gens.basis_array(desc).copy()
    b[-1] = -b[-1]
    v['basis'] = ('custom', b, None, 'Custom')
    out.append(('one basis element', v))
    return out


def check_equality(ctx, case):
    desc = case['desc']
    rng = np.random.default_rng(case['seed'])
    A = gens.build(desc)
    probs = []
    if not (A == A) or not (A == gens.build(desc)):
        probs.append('not reflexive')
    for what, v in one_feature_variants(rng, desc):
        Bp = gens.build(v)
        if (A == Bp) or (Bp == A):
            probs.append(f'pulses differing in {what} compare equal')
    # "equal within a tolerance" is not "equal": a slow ramp (every coefficient changes by a few parts in
    # 1e7 from one segment to the next) against the constant pulse with the values of its last segment,
    # in ordinary units and in units where all amplitudes are of order 1e-9
    m = int(rng.integers(3, 8))
    for unit in (1.0, 1e-9):
        ramp, flat = dict(desc), dict(desc)
        c1 = np.asarray(desc['c_coeffs'])[:, :1]*unit
        n1 = np.asarray(desc['n_coeffs'])[:, :1]
        grow = 1 + 3e-7*np.arange(m)[None, :] if unit == 1.0 else 1 + 0.5*np.arange(m)[None, :]
        ramp['c_coeffs'], ramp['n_coeffs'] = c1*grow, n1*np.ones((1, m))
        flat['c_coeffs'], flat['n_coeffs'] = np.repeat(ramp['c_coeffs'][:, -1:], m, axis=1), ramp['n_coeffs']
        ramp['dt'] = flat['dt'] = np.full(m, 0.37/unit)
        R, Fl = gens.build(ramp), gens.build(flat)
        if np.any(ramp['c_coeffs'] != flat['c_coeffs']) and ((R == Fl) or (Fl == R)):
            probs.append(f'a ramp over {m} segments compares equal to the constant pulse (amplitudes ~{unit:g})')
    # re-segmentation: split a positive-duration segment
    n = len(desc['dt'])
    g = int(rng.integers(0, n))
    if desc['dt'][g] > 0:
        rep = np.concatenate((np.arange(g), [g, g], np.arange(g + 1, n)))
        v = dict(desc)
        v['c_coeffs'] = np.asarray(desc['c_coeffs'])[:, rep]
        v['n_coeffs'] = np.asarray(desc['n_coeffs'])[:, rep]
        f = rng.uniform(0.2, 0.8)
        v['dt'] = np.concatenate((desc['dt'][:g], [desc['dt'][g]*f, desc['dt'][g]*(1 - f)],
                                  desc['dt'][g + 1:]))
        S = gens.build(v)
        if not (A == S and S == A):
            probs.append('re-segmented pulse compares unequal')
        else:
            om = np.linspace(0.1, 4, 7)
            if not np.allclose(A.get_filter_function(om), S.get_filter_function(om), atol=1e-9) or \
                    not np.allclose(A.total_propagator, S.total_propagator, atol=1e-10):
                probs.append('equal pulses with different filter functions / propagators')
        # transitivity over three writings of the same pulse
        f2 = rng.uniform(0.2, 0.8)
        v2 = dict(desc)
        v2['c_coeffs'], v2['n_coeffs'] = v['c_coeffs'], v['n_coeffs']
        v2['dt'] = np.concatenate((desc['dt'][:g], [desc['dt'][g]*f2, desc['dt'][g]*(1 - f2)],
                                   desc['dt'][g + 1:]))
        T = gens.build(v2)
        if (S == A) and (A == T) and not (S == T):
            probs.append('equality not transitive')
        # two writings with the same number of segments whose redundant cut sits in different places
        if n >= 2:
            g2 = int((g + 1 + rng.integers(0, n - 1)) % n)
            if desc['dt'][g2] > 0:
                rep2 = np.concatenate((np.arange(g2), [g2, g2], np.arange(g2 + 1, n)))
                w = dict(desc)
                w['c_coeffs'] = np.asarray(desc['c_coeffs'])[:, rep2]
                w['n_coeffs'] = np.asarray(desc['n_coeffs'])[:, rep2]
                f3 = rng.uniform(0.2, 0.8)
                w['dt'] = np.concatenate((desc['dt'][:g2], [desc['dt'][g2]*f3, desc['dt'][g2]*(1 - f3)],
                                          desc['dt'][g2 + 1:]))
                W = gens.build(w)
                if not (S == W and W == S and W == A):
                    probs.append('two re-segmentations with equally many segments compare unequal')
        # the same segment written as a run of k = 3..5 equal pieces
        k = int(rng.integers(3, 6))
        repk = np.concatenate((np.arange(g), [g]*k, np.arange(g + 1, n)))
        fr = rng.dirichlet(np.ones(k))
        vk = dict(desc)
        vk['c_coeffs'] = np.asarray(desc['c_coeffs'])[:, repk]
        vk['n_coeffs'] = np.asarray(desc['n_coeffs'])[:, repk]
        vk['dt'] = np.concatenate((desc['dt'][:g], desc['dt'][g]*fr, desc['dt'][g + 1:]))
        K = gens.build(vk)
        if not (A == K and K == A and K == S):
            probs.append(f're-segmented pulse (run of {k} equal pieces) compares unequal')
        # ... and with one piece made longer: a different pulse
        vl = dict(vk)
        dl = vk['dt'].copy()
        dl[g + int(rng.integers(0, k))] *= 1.5
        vl['dt'] = dl
        Lg = gens.build(vl)
        if (Lg == K) or (K == Lg) or (Lg == A):
            probs.append(f'run of {k} equal pieces with one longer piece compares equal')
    # listing order
    pc, pn = rng.permutation(len(desc['c_opers'])), rng.permutation(len(desc['n_opers']))
    v = dict(desc)
    v['c_opers'], v['c_coeffs'] = np.asarray(desc['c_opers'])[pc], np.asarray(desc['c_coeffs'])[pc]
    v['c_ids'] = [desc['c_ids'][i] for i in pc]
    v['n_opers'], v['n_coeffs'] = np.asarray(desc['n_opers'])[pn], np.asarray(desc['n_coeffs'])[pn]
    v['n_ids'] = [desc['n_ids'][i] for i in pn]
    Pm = gens.build(v)
    if not (Pm == A):
        probs.append('listing order changes the pulse')
    for ids, ops, cfs, sid, sop, scf in ((desc['c_ids'], desc['c_opers'], desc['c_coeffs'],
                                          A.c_oper_identifiers, A.c_opers, A.c_coeffs),
                                         (desc['n_ids'], desc['n_opers'], desc['n_coeffs'],
                                          A.n_oper_identifiers, A.n_opers, A.n_coeffs)):
        if list(sid) != sorted(ids):
            probs.append('identifiers not sorted')
        for i, o, c in zip(ids, ops, cfs):
            j = list(sid).index(i)
            if not (np.array_equal(sop[j], o) and np.array_equal(scf[j], c)):
                probs.append('operator separated from its coefficients/identifier')
    # slicing
    if n > 1:
        a = int(rng.integers(0, n - 1))
        b = int(rng.integers(a + 1, n + 1))
        sl = A[a:b]
        if not (np.array_equal(sl.dt, np.asarray(desc['dt'])[a:b])
                and np.array_equal(sl.c_coeffs, A.c_coeffs[:, a:b])
                and np.array_equal(sl.n_coeffs, A.n_coeffs[:, a:b])
                and np.array_equal(sl.c_opers, A.c_opers)):
            probs.append('slice is not the selected sub-sequence')
        try:
            A[n:n]
            probs.append('empty slice accepted')
        except IndexError:
            pass
        # slices of a pulse that has been used (times read, something cached): exactly the selected
        # sub-sequence — its own times and duration, equal to the pulse built from the sliced
        # Hamiltonian, equal results
        U = gens.build(desc)
        wsl = np.linspace(0.1, 4, 6)
        for use in range(int(rng.integers(1, 4))):
            [lambda: U.t, lambda: U.get_filter_function(wsl), lambda: U.tau, lambda: U.diagonalize(),
             lambda: U.propagator_at_arb_t(np.array([0.3*float(np.sum(desc['dt']))]))][int(rng.integers(0, 5))]()
        us = U[a:b]
        dsl = dict(desc)
        dsl['c_coeffs'] = np.asarray(desc['c_coeffs'])[:, a:b]
        dsl['n_coeffs'] = np.asarray(desc['n_coeffs'])[:, a:b]
        dsl['dt'] = np.asarray(desc['dt'])[a:b]
        fresh = gens.build(dsl)
        tt = np.concatenate(([0.0], np.cumsum(dsl['dt'])))
        if not (len(us) == b - a and np.shape(us.t) == tt.shape and np.allclose(us.t, tt, rtol=1e-13, atol=0)
                and np.isclose(us.tau, tt[-1], rtol=1e-13) and np.isclose(us.duration, tt[-1], rtol=1e-13)):
            probs.append('slice of a used pulse reports times / duration that are not its own')
        if not (us == fresh) or not (fresh == us):
            probs.append('slice of a used pulse differs from the pulse built from the sliced Hamiltonian')
        elif not np.allclose(us.get_filter_function(wsl), fresh.get_filter_function(wsl), rtol=1e-9,
                             atol=1e-12):
            probs.append('slice of a used pulse has another filter function than the sliced pulse')
    # deep copy
    D = copy.deepcopy(A)
    A.cache_filter_function(np.linspace(0.1, 3, 5))
    D2 = copy.deepcopy(A)
    for X in (D, D2):
        if not (X == A):
            probs.append('deep copy unequal')
        for k, v in X.__dict__.items():
            w = A.__dict__[k]
            if isinstance(v, np.ndarray) and isinstance(w, np.ndarray) and v.size and \
                    np.shares_memory(v, w):
                probs.append(f'deep copy shares memory in {k}')
    if D2._intermediates is A._intermediates:
        probs.append('deep copy shares the intermediates dict')
    ctx.count((tuple(desc['features']), desc['d'], n, case['seed']), nontrivial=True)
    if probs:
        ctx.fail('equality_semantics', case, probs, 'documented semantics', {'kind': probs[0]},
                 f'd={desc["d"]} n_dt={n}: {probs[:3]}')


def check_default_ids(ctx, case):
    n = int(case['n'])
    d = 2
    ops = [np.array([[k, 1], [1, -k]], dtype=complex) for k in range(1, n + 1)]
    probs = []
    p = ff.PulseSequence([[o, [float(k)]] for k, o in enumerate(ops)], [[ops[0], [1.0]]], [1.0])
    ids = list(p.c_oper_identifiers)
    feats = {'n_default_ids': n, 'kind': 'default_identifiers'}
    if len(set(ids)) != n:
        probs.append(f'{n} default identifiers are not distinct ({n - len(set(ids))} duplicates)')
    for k, o in enumerate(ops):
        hits = [j for j in range(n) if np.array_equal(p.c_opers[j], o)]
        if len(hits) != 1 or p.c_coeffs[hits[0]][0] != float(k):
            probs.append('operator separated from its coefficient')
            break
    p2 = ff.PulseSequence([[o, [float(k)]] for k, o in enumerate(ops)], [[ops[0], [1.0]]], [1.0])
    if list(p2.c_oper_identifiers) != ids:
        probs.append('default identifiers not deterministic')
    # stored sorted by identifier (as strings: 'A_10' < 'A_2'), also for noise operators, and the
    # same pulse with the default identifiers written out is the same object in every respect
    if ids != sorted(ids):
        probs.append('default control identifiers are not stored sorted')
    nn = min(n, 14)
    nops = [np.array([[0, k], [k, 0]], dtype=complex) for k in range(1, nn + 1)]
    pn = ff.PulseSequence([[ops[0], [1.0]]], [[o, [1.0 + 0.1*k]] for k, o in enumerate(nops)], [1.0])
    pe = ff.PulseSequence([[ops[0], [1.0], 'A_0']],
                          [[o, [1.0 + 0.1*k], f'B_{k}'] for k, o in enumerate(nops)], [1.0])
    nids = list(pn.n_oper_identifiers)
    if nids != sorted(nids):
        probs.append('default noise identifiers are not stored sorted')
    if pn == pe:
        om = np.linspace(0.1, 3, 4)
        if list(pe.n_oper_identifiers) != nids or \
                not np.allclose(pn.get_filter_function(om), pe.get_filter_function(om), atol=1e-10):
            probs.append('equal pulses (default vs written-out identifiers) have different '
                         'identifier order / filter functions')
    else:
        probs.append('default identifiers written out explicitly give an unequal pulse')
    # some operators with identifiers of their own (of any length), the others with default ones: every given
    # identifier is stored verbatim, the lookup by it works, and the pulse equals the one with all
    # identifiers written out
    given = {1: 'X_drive_channel', 3: 'detuning', n - 1: 'Q'} if n >= 5 else \
        ({1: 'X_drive_channel'} if n >= 2 else {})
    Hm = [[o, [float(k)]] + ([given[k]] if k in given else []) for k, o in enumerate(ops)]
    Hf = [[o, [float(k)], given.get(k, f'A_{k}')] for k, o in enumerate(ops)]
    try:
        pm = ff.PulseSequence(Hm, [[ops[0], [1.0]]], [1.0])
        pf = ff.PulseSequence(Hf, [[ops[0], [1.0]]], [1.0])
        for k, name in given.items():
            hits = [j for j, i in enumerate(pm.c_oper_identifiers) if str(i) == name]
            if len(hits) != 1 or not np.array_equal(pm.c_opers[hits[0]], ops[k]):
                probs.append(f'given identifier {name!r} is not stored with its operator '
                             f'(stored: {list(pm.c_oper_identifiers)[:6]})')
                break
        if not (pm == pf) or list(pm.c_oper_identifiers) != list(pf.c_oper_identifiers):
            probs.append('mixed given / default identifiers: unequal to the pulse with all identifiers written out')
    except ValueError as e:
        if n >= 2:
            probs.append(f'mixed given / default identifiers rejected: {e}')
    ctx.count(('ids', n))
    if probs:
        ctx.fail('default_identifiers', case, probs, 'distinct deterministic identifiers',
                 dict(feats, truncated=n > 100), f'n={n}: {probs}')


CHECKS = {'equality_semantics': check_equality, 'default_identifiers': check_default_ids}


def replay(ctx, check, case):
    CHECKS[check](ctx, case)


def search(ctx, deep=False):
    rng = ctx.rng('deep' if deep else 'search')
    n = {('quick', False): 30, ('quick', True): 200, ('thorough', False): 500,
         ('thorough', True): 1500}[(ctx.tier, deep)]
    for i in range(n):
        feats = gens.rand_features(rng, 0.2, ['idle', 'repeat', 'neg_sens', 'nontraceless_nop'])
        d = int(rng.choice([2, 2, 3]))
        desc = gens.rand_desc(rng, d=d, n_dt=int(rng.integers(1, 5)), n_c=int(rng.integers(1, 4)),
                              n_n=int(rng.integers(1, 4)), features=feats,
                              basis=gens.rand_basis_spec(rng, d))
        check_equality(ctx, {'desc': desc, 'seed': int(rng.integers(0, 2**31))})
        if i < 2:
            ctx.sample({'d': d, 'features': feats, 'n_dt': len(desc['dt'])})
    for k in (1, 9, 10, 11, 12, 100, 101) + ((150,) if ctx.tier == 'thorough' else ()):
        check_default_ids(ctx, {'n': k})
