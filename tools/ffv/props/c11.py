"""C11 — analytic gradients equal the derivative of the infidelity they differentiate."""
import numpy as np

import filter_functions as ff
from filter_functions import gradient, util

from .. import gens
from ..common import arr2bits, bits2arr, corr_script, driver

THEOREMS = '''liouvilleA_matrix_element liouvilleA_exact liouvilleA_masked_error liouvilleA_error
liouvilleA_error_current liouvilleA_degenerate liouvilleAMat_degenerate derivativeIntegral_exact
derivativeIntegral_get derivIntegralTmp2_error derivIntegralTmp1_error
derivativeIntegral_masked_error derivativeIntegral_unmasked_error
derivativeIntegral_double_mask_zero derivativeIntegral_grey_zone_counterexample
ff_derivative_formula ff_derivative_formula_real ffDerivative_entry ff_derivative_is_derivative
infidelity_derivative_linear integrate_trapezoid selection_is_slice gradient_contractions_rowwise
indicesFromIdentifiers_examples nCoeffsDerivShapeOk_iff sensitivity_term
sensitivity_term_fails_at_zero sensitivity_real 
'''.split() + [
    # the derivative is served through the cache machine of C07 (control matrix with intermediates,
    # then the cached first-order integral): a stale intermediate is a wrong gradient
    'FFVerif.C07.cleanup_freq', 'FFVerif.C07.deriv_spec', 'FFVerif.C07.served_value_is_fresh'] + '''
exp_line_hasDerivAt_series_matrix dkA_eq_segIntegral divDiffExp_eq_dkA exp_hasDerivAt_eigenbasis_complex
exp_hasDerivAt_eigenbasis segProp_hasDerivAt_amplitude exp_hasDerivAt_eigenbasis_entry liouvilleAMat_is_A
liouvilleAMat_sub_A_le segment_propagator_derivative_model segment_propagator_derivative_model_error
segment_propagator_eq_ratio cumulative_propagator_derivative cumulative_propagator_derivative_model
exists_isEigh eigh_family_exists liouville_derivative_entry liouville_derivative_get
liouville_derivative_contraction liouville_derivative_assembly liouville_derivative_of_pulse'''.split()
LEAN_MODULES = ['FFVerif.Props.C11', 'FFVerif.Props.C11Deriv', 'FFVerif.Props.C07', 'FFVerif.Props.C11Asm',
                'FFVerif.Props.C11AsmDeriv', 'FFVerif.Props.C11Infid']
# module C11Infid (model GradientInfid = infidelity_derivative end to end, after the repair of F49): the output is the
# derivative of the infidelity the package reports (identity component discarded), selections are slices
THEOREMS = THEOREMS + [
    'FFVerif.C11.infidelityDeriv_hasDerivAt', 'FFVerif.C11.infidelityDeriv_uncorrected_hasDerivAt_sens',
    'FFVerif.C11.infidelityDeriv_hasDerivAt_sens', 'FFVerif.C11.infidelityDeriv_selection',
    'FFVerif.C11.identity_component_independent_of_control', 'FFVerif.C11.fidelityIntegral_vs_numeric_infidelity',
    'FFVerif.C11.infidelityDeriv_is_numeric_infidelity_deriv', 'FFVerif.C11.infidelityDeriv_uncorrected_gap',
    'FFVerif.C11.identityGap_vanishes', 'FFVerif.C11.identityGap_is_subtracted',
    'FFVerif.C11.infidelityDeriv_is_numeric_infidelity_deriv_sens']
# modules C11Asm / C11AsmDeriv: the array assembly of the control-matrix derivative (model GradientAsm) equals
# the docstring's product-rule formula and IS the derivative (HasDerivAt) of the control-matrix model w.r.t.
# each control amplitude on each segment, with and without control-dependent sensitivities
THEOREMS = THEOREMS + [
    'FFVerif.C11.ctrlmatStepM_entry', 'FFVerif.C11.ctrlmatStepM_smul',
    'FFVerif.C11.ctrlmatStepDeriv_entry', 'FFVerif.C11.liouvilleDerivative_theta',
    'FFVerif.C11.controlMatrixDeriv_entry', 'FFVerif.C11.step_control_matrix_hasDerivAt',
    'FFVerif.C11.liouville_derivative_model_hasDerivAt', 'FFVerif.C11.controlMatrixIntegral_hasDerivAt',
    'FFVerif.C11.controlMatrixDeriv_hasDerivAt', 'FFVerif.C11.controlMatrixIntegral_hasDerivAt_sens',
    'FFVerif.C11.controlMatrixDeriv_hasDerivAt_sens', 'FFVerif.C11.filterFunctionDeriv_hasDerivAt',
    'FFVerif.CmDerivAux.segment_integral_hasDerivAt', 'FFVerif.CmDerivAux.Eprop_hasDerivAt']
PINS = ['pinGetFFDerivative', 'pinGradControlMatrix', 'pinInfidelityDerivative', 'C11_gradient_source_shape', 'C11_gradient_einsum_shape']
GEN_SITES = ['cache:cleanup', 'cache:method_bodies', 'const:gradient.masks', 'einsum:gradient_calculate_filter_function_derivative_0',
             'einsum:gradient_infidelity_derivative_0', 'einsum:gradient_infidelity_derivative_1', 'einsum:gradient__liouville_derivative_0']
COMPONENTS = ['derivative_integral', 'liouville_A', 'ff_derivative', 'infidelity_derivative']   # + corr_c11asm
RULES = ['correspondence: _derivative_integral, A_mat, calculate_filter_function_derivative and the '
         'spectrum integration of infidelity_derivative vs the Lean model at doubles (random, '
         'exactly resonant, degenerate and all-degenerate inputs); search: analytic derivatives of '
         'filter function and infidelity vs 4th-order central finite differences of the package\'s '
         'own filter function / infidelity (rel. 1e-5), pulses with idle / degenerate segments, '
         'exactly zero amplitudes, drift excluded by identifier, every subset/order of control and '
         'noise identifiers, with/without n_coeffs_deriv, all values finite, per-operator spectra '
         'for the selected operators; distinct = input hash; non-trivial = >= 2 segments']
ASSUMPTIONS = ['the derivative theorems exclude the grey zones of the absolute masks by hypothesis '
               '(AMatSharp, DerivIntegralSharp, FirstOrderExact); the trapezoid integration over the '
               'frequency grid is linear (infidelity_derivative_linear) but not composed with them']
TRUSTED = ['modelled not verified: reuse of cached intermediates inside '
           'calculate_derivative_of_control_matrix_from_scratch (covered by the cache machine of C07 and '
           'by the search)']


def correspondence(ctx):
    # the whole assembly calculate_derivative_of_control_matrix_from_scratch vs the model GradientAsm
    corr_script(ctx, 'corr_c11asm', ['cmderiv'])
    # infidelity_derivative / get_filter_function_derivative end to end (selections, both spectrum shapes,
    # n_coeffs_deriv with noise operators that have a trace) vs the model GradientInfid
    corr_script(ctx, 'corr_c11infid', [])
    rng = ctx.rng('corr')
    reqs, exps = [], []

    def dint(E, ev, dt):
        nO, d = len(E), len(ev)
        out = np.empty((nO, d, d, d, d), dtype=complex)
        with np.errstate(all='ignore'):
            out = gradient._derivative_integral(np.array(E, float), np.array(ev, float), dt, out)
        reqs.append(f'dint {nO} {d} {arr2bits([dt])} {arr2bits(np.array(E, float))} '
                    f'{arr2bits(np.array(ev, float))}')
        exps.append(('derivative_integral', out, True))

    def amat(ev, dt):
        ev = np.array(ev, float)
        od = ev[:, None] - ev[None, :]
        dtb = np.broadcast_to(dt, od.shape)
        mask = np.abs(od*dtb) < 1e-7
        A = np.empty(od.shape, dtype=complex)
        A[mask] = dtb[mask]
        with np.errstate(all='ignore'):
            A[~mask] = 1j*(1 - util.cexp(od[~mask]*dtb[~mask]))/od[~mask]
        reqs.append(f'amat {len(ev)} {arr2bits([dt])} {arr2bits(ev)}')
        exps.append(('liouville_A', A, True))
    n = 4 if ctx.tier == 'quick' else 60
    for i in range(n):
        dint(rng.normal(size=int(rng.integers(1, 5))), rng.normal(size=int(rng.integers(2, 4))),
             float(rng.uniform(0.1, 2)))
        amat(rng.normal(size=int(rng.integers(2, 5))), float(rng.uniform(0.1, 2)))
        ctx.count(('dint-rand', i))
    dint([0.0, 1.0, -1.0, 2.0], [0.0, 1.0, 2.0], 1.3)
    dint([0.0, 0.5], [1.0, 1.0, 3.0], 2.0)
    dint([0.3], [0.0, 0.0], 1.0)
    amat([1.0, 1.0, 2.0], 0.5)
    amat([0.0, 0.0], 1.0)
    amat([0.3, 0.7], 0.0)
    nA, nK, nO, nH, nT = 2, 4, 3, 2, 3
    B = rng.normal(size=(nA, nK, nO)) + 1j*rng.normal(size=(nA, nK, nO))
    dB = rng.normal(size=(nH, nO, nT, nA, nK)) + 1j*rng.normal(size=(nH, nO, nT, nA, nK))
    reqs.append(f'ffd {nA} {nK} {nO} {nH} {nT} {arr2bits(B)} {arr2bits(dB)}')
    dF = gradient.calculate_filter_function_derivative(B, dB)
    exps.append(('ff_derivative', dF, False))
    om = np.sort(rng.uniform(0, 5, size=nO))
    for rank, S in ((0, rng.uniform(size=nO)), (1, rng.uniform(size=(nA, nO)))):
        integrand = np.einsum('...o,...tho->...tho', S, dF)
        res = util.integrate(integrand, om)/(2*np.pi*2)
        reqs.append(f'infd {rank} {nA} {nT} {nH} {nO} 2 {arr2bits(om)} {arr2bits(S)} {arr2bits(dF)}')
        exps.append(('infidelity_derivative', res, False))
    outs = driver(reqs)
    bad = {c: [] for c in COMPONENTS}
    for r, (comp, ref, cplx), o in zip(reqs, exps, outs):
        got = bits2arr(o[3:], ref.shape, cplx=cplx) if o.startswith('ok ') else None
        err = gens.rel_err(got, ref) if got is not None else np.inf
        if not err <= 1e-9:
            bad[comp].append((r[:50], err, o[:30]))
    for c, v in bad.items():
        ctx.oblige('correspondence:' + c, 'correspondence', not v, f'{len(v)} disagree: {v[:2]}')
    ctx.count(('dint-special',))
    ctx.sample({'request': reqs[0][:100]})


def fd(f, x0, h=1e-4):
    """4th-order central difference of array-valued f along each coordinate of x0 (flattened)"""
    x0 = np.asarray(x0, dtype=float)
    out = []
    for j in range(x0.size):
        def at(s):
            x = x0.copy().ravel()
            x[j] += s
            return f(x.reshape(x0.shape))
        out.append((-at(2*h) + 8*at(h) - 8*at(-h) + at(-2*h))/(12*h))
    return np.array(out)


def check_gradient(ctx, case):
    desc, omega = case['desc'], np.asarray(case['omega'], dtype=float)
    c_sel, n_sel = case.get('c_sel'), case.get('n_sel')
    S = 1/(1 + omega**2)
    c0 = np.asarray(desc['c_coeffs'], dtype=float)
    n_dt = c0.shape[1]
    p = gens.build(desc)
    with np.errstate(all='ignore'):
        dF = p.get_filter_function_derivative(omega, c_sel, n_sel)
        dI = gradient.infidelity_derivative(gens.build(desc), S, omega, c_sel, n_sel)
    cid = list(np.sort(desc['c_ids'])) if c_sel is None else list(c_sel)
    nid = list(np.sort(desc['n_ids'])) if n_sel is None else list(n_sel)
    feats = {}
    ctx.count((tuple(desc['features']), desc['d'], n_dt, tuple(cid), tuple(nid), omega.tobytes()),
              nontrivial=n_dt >= 2)
    if not (np.all(np.isfinite(dF)) and np.all(np.isfinite(dI))):
        ctx.fail('gradient_finite', case, 'non-finite derivative', 'finite', feats,
                 f'non-finite gradient (features={desc["features"]})')
        return
    if dF.shape != (len(nid), n_dt, len(cid), len(omega)) or dI.shape != (len(nid), n_dt, len(cid)):
        ctx.fail('gradient_shape', case, [list(dF.shape), list(dI.shape)],
                 [len(nid), n_dt, len(cid)], feats, 'derivative has the wrong shape')
        return
    # the same derivatives from pulse objects with a cache history (other grids of the same length,
    # intermediates, explicit cachers, clean-ups; then possibly a control matrix / filter function
    # on the requested grid): must equal the ones of the fresh pulse
    for k in range(3):
        hrng = np.random.default_rng([int(case.get('seed', 0)), k, n_dt])
        pu = gens.build_used(desc, hrng, 1.0, len(omega), omega, touch_kinds=('cm', 'ff1', 'phases'))
        with np.errstate(all='ignore'):
            try:
                dFu = pu.get_filter_function_derivative(omega, c_sel, n_sel)
                dIu = gradient.infidelity_derivative(pu, S, omega, c_sel, n_sel)
            except Exception as e:   # noqa
                ctx.fail('gradient_after_history', case, f'{type(e).__name__}: {e}', 'a derivative',
                         feats, f'derivative raised {type(e).__name__} on a pulse with a cache history')
                return
        eF = gens.abs_err(dFu, dF, 1e-12)
        eI = gens.abs_err(dIu, dI, 1e-14)
        if not (eF <= 1e-8 and eI <= 1e-8):
            ctx.fail('gradient_after_history', case, {'ff_derivative': eF, 'infidelity_derivative': eI},
                     'the derivatives of a fresh pulse', feats,
                     f'derivatives of a pulse with a cache history differ from a fresh pulse by '
                     f'{eF:.3g} / {eI:.3g} (features={desc["features"]})')
            return
    # finite differences of the package's own filter function / infidelity
    rows = [desc['c_ids'].index(i) for i in cid]

    def FF(sub):
        cc = c0.copy()
        cc[rows] = sub
        dd = dict(desc)
        dd['c_coeffs'] = cc
        q = gens.build(dd)
        F = q.get_filter_function(omega)
        ii = util.get_indices_from_identifiers(q.n_oper_identifiers, nid)
        return np.concatenate((F[ii, ii].real.ravel(), ff.infidelity(q, S, omega, nid).ravel()))
    # (step of the finite differences relative to the longest segment: the function varies on the
    # scale 1/dt in the amplitudes)
    hstep = 1e-4/max(1.0, float(np.max(desc['dt'])))
    num = fd(FF, c0[rows], hstep)               # (len(cid)*n_dt, n_nid*n_omega + n_nid)
    num = num.reshape(len(cid), n_dt, -1)
    nF = len(nid)*len(omega)
    numF = num[:, :, :nF].reshape(len(cid), n_dt, len(nid), len(omega)).transpose(2, 1, 0, 3)
    numI = num[:, :, nF:].transpose(2, 1, 0)
    # errors relative to the size of the function itself (finite differences of a function of
    # size |F| carry rounding noise ~ eps |F| / h)
    f0 = FF(c0[rows])
    eF = gens.abs_err(dF, numF, max(np.max(np.abs(f0[:nF])), 1e-12))
    eI = gens.abs_err(dI, numI, max(np.max(np.abs(f0[nF:])), 1e-12))
    if not eF <= 1e-5:
        ctx.fail('gradient_vs_fd', case, {'err': eF}, {'tol': 1e-5}, feats,
                 f'filter function derivative differs from finite differences by {eF:.3g} '
                 f'(features={desc["features"]}, controls={cid}, noise={nid})')
    if not eI <= 1e-5:
        ctx.fail('gradient_vs_fd', case, {'err': eI}, {'tol': 1e-5}, feats,
                 f'infidelity derivative differs from finite differences by {eI:.3g} '
                 f'(features={desc["features"]}, controls={cid}, noise={nid})')
    # slices: selecting identifiers returns the slice of the full derivative
    full = gens.build(desc).get_filter_function_derivative(omega)
    ci = [list(np.sort(desc['c_ids'])).index(i) for i in cid]
    ni = [list(np.sort(desc['n_ids'])).index(i) for i in nid]
    sl = full[np.ix_(ni, range(n_dt), ci, range(len(omega)))]
    if not gens.abs_err(dF, sl, 1e-9) <= 1e-9:
        ctx.fail('gradient_slice', case, gens.abs_err(dF, sl, 1e-9), 0, feats,
                 'selecting identifiers does not return the slice of the full derivative')
    # per-operator spectrum for the selected operators
    S2 = np.array([S*(k + 1) for k in range(len(nid))])
    try:
        dI2 = gradient.infidelity_derivative(gens.build(desc), S2, omega, c_sel, n_sel)
        ref = dI*np.arange(1, len(nid) + 1)[:, None, None]
        if dI2.shape != dI.shape or not gens.abs_err(dI2, ref, 1e-9) <= 1e-8:
            ctx.fail('gradient_spectrum_shape', case, list(dI2.shape), list(dI.shape), feats,
                     'per-operator spectrum for the selected operators mis-broadcast')
    except ValueError as e:
        ctx.fail('gradient_spectrum_shape', case, 'ValueError ' + str(e), 'accepted', feats,
                 'per-operator spectrum for the selected operators rejected')


def check_sens_deriv(ctx, case):
    """contribution of control-dependent sensitivities"""
    desc, omega = case['desc'], np.asarray(case['omega'], dtype=float)
    rng = np.random.default_rng(case['seed'])
    c0 = np.asarray(desc['c_coeffs'], dtype=float)
    n0 = np.asarray(desc['n_coeffs'], dtype=float)
    n_c, n_dt = c0.shape
    n_n = n0.shape[0]
    cs = np.argsort(desc['c_ids'])
    ns = np.argsort(desc['n_ids'])
    # s_a(t) = n0_a(t) + sum_h k_ah * (u_h(t) - c0_h(t))   (sorted order)
    kmat = rng.standard_normal((n_n, n_c))
    nderiv = np.repeat(kmat[:, :, None], n_dt, axis=2)
    zero = bool(case.get('zero_sens'))
    if zero:
        n0 = n0.copy()
        n0[ns[0], 0] = 0.0
    dd0 = dict(desc)
    dd0['n_coeffs'] = n0
    with np.errstate(all='ignore'):
        dF = gens.build(dd0).get_filter_function_derivative(omega, n_coeffs_deriv=nderiv)
    feats = {'zero_sensitivity': zero}
    ctx.count(('sens', case['seed'], zero))
    if not np.all(np.isfinite(dF)):
        ctx.fail('gradient_finite', case, 'non-finite', 'finite', feats,
                 f'non-finite derivative with n_coeffs_deriv (zero sensitivity present: {zero})')
        return

    def FF(csub):
        dd = dict(desc)
        cc = c0.copy()
        cc[cs] = csub
        nn = n0.copy()
        nn[ns] = n0[ns] + np.einsum('ah,ht->at', kmat, csub - c0[cs])
        dd['c_coeffs'], dd['n_coeffs'] = cc, nn
        q = gens.build(dd)
        F = q.get_filter_function(omega)
        i = np.arange(n_n)
        return F[i, i].real.ravel()
    num = fd(FF, c0[cs], 1e-4/max(1.0, float(np.max(desc['dt'])))).reshape(
        n_c, n_dt, n_n, len(omega)).transpose(2, 1, 0, 3)
    e = gens.abs_err(dF, num, max(np.max(np.abs(FF(c0[cs]))), 1e-12))
    if not e <= 1e-5:
        ctx.fail('gradient_vs_fd', case, {'err': e}, {'tol': 1e-5}, feats,
                 f'derivative with n_coeffs_deriv differs from finite differences by {e:.3g}')
    # the infidelity derivative with control-dependent sensitivities vs finite differences of the
    # package's own infidelity (noise operators with a trace included: the identity component is
    # discarded by infidelity() and depends on the control through the sensitivities)
    S = 1/(1 + omega**2)
    with np.errstate(all='ignore'):
        dI = gradient.infidelity_derivative(gens.build(dd0), S, omega, n_coeffs_deriv=nderiv)

    def INF(csub):
        dd = dict(desc)
        cc = c0.copy()
        cc[cs] = csub
        nn = n0.copy()
        nn[ns] = n0[ns] + np.einsum('ah,ht->at', kmat, csub - c0[cs])
        dd['c_coeffs'], dd['n_coeffs'] = cc, nn
        return ff.infidelity(gens.build(dd), S, omega).ravel()
    numI = fd(INF, c0[cs], 1e-4/max(1.0, float(np.max(desc['dt'])))).reshape(
        n_c, n_dt, n_n).transpose(2, 1, 0)
    if np.all(np.isfinite(dI)):
        e = gens.abs_err(dI, numI, max(float(np.max(np.abs(INF(c0[cs])))), 1e-12))
        if not e <= 1e-5:
            ctx.fail('gradient_vs_fd', case, {'err': e}, {'tol': 1e-5}, feats,
                     f'infidelity derivative with n_coeffs_deriv differs from finite differences of '
                     f'the infidelity by {e:.3g} (features={desc["features"]})')


def check_history_resonant(ctx, case):
    """derivatives on a grid that contains omega = 0 and exact level splittings of segments (where the
    first-order integral takes its limit value): the same from a fresh pulse, from a pulse that has
    already served the control matrix on that grid without intermediates, and from one with a
    random cache history (finite differences are not used here: at a removable singularity their
    noise is amplified by 1/h)"""
    desc = case['desc']
    rng = np.random.default_rng(case['seed'])
    H = gens.seg_hamiltonians(desc)
    gaps = []
    for h in H:
        ev = np.linalg.eigvalsh(h)
        gaps += [float(x) for x in np.subtract.outer(ev, ev).ravel() if abs(x) > 1e-3]
    omega = np.array([0.0] + list(rng.choice(gaps, min(3, len(gaps)), replace=False) if gaps else [])
                     + list(rng.uniform(0.1, 4, 2)))
    S = 1/(1 + omega**2)
    fresh = gens.build(desc)
    with np.errstate(all='ignore'):
        dF = fresh.get_filter_function_derivative(omega)
        dI = gradient.infidelity_derivative(gens.build(desc), S, omega)
    ctx.count(('hres', case['seed'], len(omega)))
    if not (np.all(np.isfinite(dF)) and np.all(np.isfinite(dI))):
        return      # (non-finite gradients are the business of gradient_finite / F12)
    variants = []
    q = gens.build(desc)
    q.get_control_matrix(omega)
    variants.append(('control matrix served before, no intermediates', q))
    q = gens.build(desc)
    ff.infidelity(q, S, omega)
    variants.append(('infidelity served before', q))
    variants.append(('random cache history', gens.build_used(desc, rng, 1.0, len(omega), omega,
                                                             touch_kinds=('cm', 'ff1', 'phases'))))
    for what, q in variants:
        with np.errstate(all='ignore'):
            dFq = q.get_filter_function_derivative(omega)
            dIq = gradient.infidelity_derivative(q, S, omega)
        eF, eI = gens.abs_err(dFq, dF, 1e-12), gens.abs_err(dIq, dI, 1e-14)
        if not (eF <= 1e-8 and eI <= 1e-8):
            ctx.fail('gradient_after_history', case, {'ff_derivative': eF, 'infidelity_derivative': eI},
                     'the derivatives of a fresh pulse', {},
                     f'grid with omega = 0 and exact resonances: derivatives of a pulse ({what}) differ '
                     f'from those of a fresh pulse by {eF:.3g} / {eI:.3g}')
            return


def check_grey_zone(ctx, case):
    """kernel-level witness of the open finding F30: level splitting between one and two (absolute)
    thresholds at a nearly resonant frequency — the two first-order limits of `_derivative_integral`
    cancel and the entry is 0 instead of the nested integral (≈ dt²/2)"""
    from scipy import integrate as sint
    E = np.array([float(case.get('E', 0.9e-7))])
    eig = np.array([0.0, float(case.get('split', 1.1e-7))])
    dt = float(case.get('dt', 1.0))
    out = np.empty((1, 2, 2, 2, 2), dtype=complex)
    gradient._derivative_integral(E, eig, dt, out)

    def nested(a, om):
        # ∫_0^dt dt1 e^{i a t1} ∫_0^{t1} dt2 e^{i om t2}
        f = lambda t1: np.exp(1j*a*t1)*(np.expm1(1j*om*t1)/(1j*om) if om != 0 else t1)   # noqa
        re = sint.quad(lambda t: f(t).real, 0, dt, epsabs=1e-13)[0]
        im = sint.quad(lambda t: f(t).imag, 0, dt, epsabs=1e-13)[0]
        return re + 1j*im
    worst = 0.0
    for n in range(2):
        for m in range(2):
            for p_ in range(2):
                for q in range(2):
                    a = E[0] + eig[n] - eig[m]
                    om = eig[p_] - eig[q]
                    worst = max(worst, abs(out[0, n, m, p_, q] - nested(a, om)))
    ctx.count(('grey_zone', E[0], eig[1], dt))
    if not worst <= 1e-6*dt**2:
        ctx.fail('gradient_vs_fd', case, {'kernel_error': worst}, 'the nested integral',
                 {'near_degenerate_levels': True},
                 f'_derivative_integral(E={E[0]:.3g}, eigvals=[0, {eig[1]:.3g}], dt={dt}): an entry '
                 f'differs from the nested integral by {worst:.3g}')


CHECKS = {'gradient_finite': check_gradient, 'gradient_shape': check_gradient,
          'gradient_vs_fd': check_gradient, 'gradient_slice': check_gradient,
          'gradient_spectrum_shape': check_gradient}


def replay(ctx, check, case):
    if 'seed' in case and 'zero_sens' in case:
        return check_sens_deriv(ctx, case)
    if 'split' in case:
        return check_grey_zone(ctx, case)
    if check == 'gradient_after_history' and 'omega' not in case:
        return check_history_resonant(ctx, case)
    check_gradient(ctx, case)


def search(ctx, deep=False):
    rng = ctx.rng('deep' if deep else 'search')
    n = {('quick', False): 10, ('quick', True): 60, ('thorough', False): 150,
         ('thorough', True): 400}[(ctx.tier, deep)]
    check_grey_zone(ctx, {'E': 0.9e-7, 'split': 1.1e-7, 'dt': 1.0})
    check_grey_zone(ctx, {'E': 0.3, 'split': 0.7, 'dt': 1.3})      # control: generic values
    for i in range(n):
        feats = gens.rand_features(rng, 0.35, ['idle', 'degenerate', 'repeat', 'neg_sens',
                                               'nontraceless_nop', 'structured', 'full_rotation'])
        if i % 5 == 2:
            feats = sorted(set(feats) | {'full_rotation'})
        d = int(rng.choice([2, 2, 3]))
        desc = gens.rand_desc(rng, d=d, n_dt=int(rng.integers(1, 4)), n_c=int(rng.integers(1, 4)),
                              n_n=int(rng.integers(1, 3)), features=feats,
                              basis=[('pauli',) if d == 2 else ('ggm',),
                                     ('custom', gens.signed_shuffled_basis(rng, d, True), True, 'Custom'),
                                     ('custom', gens.rotated_basis(rng, d, False), False, 'Custom'),
                                     ('derived', ('ggm',), 'permute', int(rng.integers(0, 2**31)))
                                     ][int(rng.integers(0, 4)) if i % 2 else 0])
        if i % 4 == 1:
            desc['c_coeffs'] = np.asarray(desc['c_coeffs'])*0    # all amplitudes exactly zero
            desc['features'] = sorted(set(desc['features']) | {'all_zero'})
        omega = np.sort(rng.uniform(0.05, 6, 6))
        c_sel = n_sel = None
        if i % 2:
            k = int(rng.integers(1, len(desc['c_ids']) + 1))
            c_sel = list(rng.permutation(desc['c_ids'])[:k])
            k = int(rng.integers(1, len(desc['n_ids']) + 1))
            n_sel = list(rng.permutation(desc['n_ids'])[:k])
        check_gradient(ctx, {'desc': desc, 'omega': omega, 'c_sel': c_sel, 'n_sel': n_sel,
                             'seed': int(rng.integers(0, 2**31))})
        check_history_resonant(ctx, {'desc': desc, 'seed': int(rng.integers(0, 2**31))})
        if i % 3 == 0:
            check_sens_deriv(ctx, {'desc': desc, 'omega': omega, 'seed': int(rng.integers(0, 2**31)),
                                   'zero_sens': bool(i % 6 == 0)})
        if i < 2:
            ctx.sample({'d': d, 'features': desc['features'], 'c_sel': c_sel, 'n_sel': n_sel})
