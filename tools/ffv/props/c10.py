"""C10 — second-order filter function equals the nested time-ordered integral."""
import numpy as np

import filter_functions as ff
from filter_functions import numeric

from .. import gens
from ..common import arr2bits, bits2arr, corr_script, driver, f2b

THEOREMS = '''nested_global secondOrderEntry_unfold secondOrder_case1 secondOrder_case2
secondOrder_case3 secondOrderEntry_eq_nested secondOrderIntegral_eq_nested case1_to_case2_bound
case1_to_case2_limit case1_case2_forms nested_integral_swap nested_add_swap nested_conj
ff2_plus_adjoint secondOrderEntry_plus_adjoint  
secondOrderFF_entry secondOrderFF_plus_adjoint_of_segments secondOrderStep_plus_adjoint
secondOrderFF_plus_adjoint secondOrderFFFromScratch_plus_adjoint'''.split() + [
    'FFVerif.C07.cleanup_freq', 'FFVerif.C07.getFF_spec', 'FFVerif.C07.served_value_is_fresh']
LEAN_MODULES = ['FFVerif.Props.C10', 'FFVerif.Props.C10Asm', 'FFVerif.Props.C07', 'FFVerif.Props.C10Shifts',
                'FFVerif.Props.C10Unique']
# module C10Unique: the second-order filter function does not depend on which eigh output is used
THEOREMS = THEOREMS + [
    'FFVerif.C10.so_segment_eigh_independent', 'FFVerif.C10.secondOrderFF_eigh_independent']
# module C10Shifts: calculate_frequency_shifts (model Shifts) = trapezoid of S x F2 / 2 pi for the three spectrum
# shapes, depends only on the F2 values (reuse of intermediates), basis change, Hermitian part = decay amplitudes
THEOREMS = THEOREMS + [
    'FFVerif.C10.frequency_shifts_entries', 'FFVerif.C10.frequency_shifts_single_spectrum_is_broadcast',
    'FFVerif.C10.frequency_shifts_subset_is_slice', 'FFVerif.C10.frequency_shifts_linear_in_spectrum',
    'FFVerif.C10.frequency_shifts_congr_intermediates', 'FFVerif.C10.frequency_shifts_congr',
    'FFVerif.C10.frequency_shifts_intermediates_reused', 'FFVerif.C10.secondOrderFF_loop_basis_change',
    'FFVerif.C10.secondOrderFF_basis_change_of_mix', 'FFVerif.C10.secondOrderFF_basis_change',
    'FFVerif.C10.frequency_shifts_basis_change', 'FFVerif.C10.frequency_shifts_basis_change_matrix',
    'FFVerif.C10.frequency_shifts_basis_change_from_scratch', 'FFVerif.C10.etm_basis_change_second_order_from_scratch',
    'FFVerif.C10.frequency_shifts_hermitian_part', 'FFVerif.C10.frequency_shifts_hermitian_part_from_scratch',
    'FFVerif.C10.frequency_shifts_symmetric_part', 'FFVerif.C10.cumulant_uses_antisymmetric_part',
    'FFVerif.C10.cumulant_single_qubit_uses_antisymmetric_part', 'FFVerif.C10.cumulant_second_order_from_antisymmetric_part']
PINS = ['pinFrequencyShifts', 'C10_secondOrder_source_shape', 'C10_secondOrderFF_source_shape', 'C07_body_cache_filter_function', 'C07_body_get_filter_function',
        'C07_body_get_control_matrix']
GEN_SITES = ['cache:cleanup', 'const:numeric._second_order_integral',
             'einsum:numeric_calculate_second_order_filter_function_0',
             'einsum:numeric_calculate_second_order_filter_function_1',
             'einsum:numeric_calculate_second_order_filter_function_2']
COMPONENTS = ['second_order_integral', 'second_order_ff']
RULES = ['correspondence: _second_order_integral (bit-pattern inputs incl. exact integer '
         'resonances and offsets 1e-15..1e-4) and calculate_second_order_filter_function (no '
         'intermediates path) vs the Lean model at doubles; search: F2 vs an independent evaluation '
         'of the nested integral (series-stabilised closed forms), F2 + F2^dagger = F1, with vs '
         'without cached intermediates, frequency shifts; frequencies at exact resonances and '
         'generic; distinct = input hash; non-trivial = >= 2 segments or a resonant frequency',
         'near-resonance (0 < |ω ± Ω|·dt < 1e-3) inputs exhibit the known cancellation defect F9 and '
         'are reported as KNOWN-FINDING']
ASSUMPTIONS = ['theorems are over exact real arithmetic; rounding/cancellation near resonances is '
               'outside their reach (F9) and measured by the search']
TRUSTED = ['oracle contract: numpy.linalg.eigh output fed to the model']


def soi_py(E, ev, dt):
    nO, d = len(E), len(ev)
    dE_bufs = (np.empty((d, d, d, d)), np.empty((nO, d, d)), np.empty((nO, d, d)))
    exp_buf = np.empty((nO, d, d), dtype=complex)
    frc = (np.empty((nO, d, d), dtype=complex), np.empty((d, d, d, d), dtype=complex))
    int_buf = np.full((nO, d, d, d, d), np.nan + 0j, dtype=complex)
    msk = np.empty((2, nO, d, d, d, d), dtype=bool)
    return numeric._second_order_integral(E, ev, dt, int_buf, frc, dE_bufs, exp_buf, msk)


def correspondence(ctx):
    # calculate_frequency_shifts (fresh pulse and pulse with cached intermediates) vs the model Shifts
    corr_script(ctx, 'corr_c10shifts', ['python/fresh-vs-cached', 'shifts/', 'shiftsfs'])
    rng = ctx.rng('corr')
    n = 10 if ctx.tier == 'quick' else 150
    lines, refs = [], []
    for i in range(n):
        d = int(rng.integers(1, 4))
        nO = int(rng.integers(1, 5))
        if i % 2 == 0:
            ev = rng.integers(-2, 3, d).astype(float)
            E = rng.integers(-3, 4, nO).astype(float)
            if i % 4 == 0 and nO > 1:
                E[0] += float(rng.choice([1e-15, 1e-12, 1e-9, 1e-6, 1e-4]))
        else:
            ev, E = rng.standard_normal(d), rng.standard_normal(nO)
        dt = float(rng.uniform(0.1, 2))
        lines.append(f'soi {nO} {d} {arr2bits([dt])} {arr2bits(E)} {arr2bits(ev)}')
        refs.append(soi_py(E, ev, dt))
        ctx.count(('soi', i, d, nO), nontrivial=i % 2 == 0)
    outs = driver(lines)
    bad = []
    for i, (o, ref) in enumerate(zip(outs, refs)):
        got = bits2arr(o[3:], ref.shape, cplx=True) if o.startswith('ok ') else None
        err = gens.abs_err(got, ref) if got is not None else np.inf
        if not err <= 1e-9:
            bad.append((lines[i][:60], err))
    ctx.oblige('correspondence:second_order_integral', 'correspondence', not bad,
               f'{len(bad)} of {n} disagree: {bad[:2]}')
    m = 5 if ctx.tier == 'quick' else 60
    lines, refs = [], []
    for i in range(m):
        feats = gens.rand_features(rng, 0.3, ['idle', 'zero_dt', 'repeat', 'neg_sens',
                                              'nontraceless_nop'])
        desc = gens.rand_desc(rng, d=int(rng.choice([2, 2, 3])), n_dt=int(rng.integers(1, 4)),
                              features=feats)
        p = gens.build(desc)
        omega = rng.uniform(-6, 6, 4)
        p.diagonalize()
        ref = numeric.calculate_second_order_filter_function(
            p.eigvals, p.eigvecs, p.propagators, omega, p.basis, p.n_opers, p.n_coeffs, p.dt)
        from .c01 import mask_from_gen
        kind, thr = mask_from_gen()
        lines.append(' '.join([
            'sofs', kind, f2b(thr), str(len(p.dt)), str(p.d), str(len(omega)),
            str(len(p.n_opers)), str(len(p.basis)), arr2bits(p.eigvals), arr2bits(p.eigvecs),
            arr2bits(p.propagators[:-1]), arr2bits(omega), arr2bits(np.array(p.basis)),
            arr2bits(p.n_opers), arr2bits(p.n_coeffs), arr2bits(p.dt), arr2bits(p.t[:-1])]))
        refs.append(ref)
        ctx.count(('sofs', i, tuple(feats)))
    outs = driver(lines)
    bad = []
    for i, (o, ref) in enumerate(zip(outs, refs)):
        got = bits2arr(o[3:], ref.shape, cplx=True) if o.startswith('ok ') else None
        err = gens.rel_err(got, ref) if got is not None else np.inf
        if not err <= 1e-9:
            bad.append((i, err))
    ctx.oblige('correspondence:second_order_ff', 'correspondence', not bad,
               f'{len(bad)} of {m} disagree: {bad[:2]}')
    ctx.sample({'request': lines[0][:100]})


# ---- independent evaluation of the nested integral ---------------------------------------------
def _phi1(z):
    """(e^z - 1)/z, stable"""
    z = np.asarray(z, dtype=complex)
    small = np.abs(z) < 1e-3
    zs = np.where(small, z, 1)
    ser = 1 + zs/2 + zs**2/6 + zs**3/24 + zs**4/120
    with np.errstate(all='ignore'):
        big = np.expm1(np.where(small, 1, z))/np.where(small, 1, z)
    return np.where(small, ser, big)


def _phi2(z):
    """(e^z - 1 - z)/z^2, stable"""
    z = np.asarray(z, dtype=complex)
    small = np.abs(z) < 1e-2
    zs = np.where(small, z, 1)
    ser = 0.5 + zs/6 + zs**2/24 + zs**3/120 + zs**4/720 + zs**5/5040 + zs**6/40320
    zb = np.where(small, 1, z)
    big = (np.expm1(zb) - zb)/zb**2
    return np.where(small, ser, big)


def nested_spec(a, b, dt):
    """∫_0^dt e^{i a t} ∫_0^t e^{i b s} ds dt  for real arrays a, b (broadcast), stable for all a, b.
    = dt² ∫_0^1 e^{i a dt u} u φ1(i b dt u) du ;  closed form: (φ1(i(a+b)dt) - φ1(i a dt))/(i b dt) · dt²
    for b away from 0, and a series in b otherwise (divided differences of φ1)."""
    A = 1j*np.asarray(a, dtype=float)*dt
    B = 1j*np.asarray(b, dtype=float)*dt
    A, B = np.broadcast_arrays(A, B)
    out = np.empty(A.shape, dtype=complex)
    small = np.abs(B) < 1e-2
    with np.errstate(all='ignore'):
        out[~small] = ((_phi1(A + B) - _phi1(A))/np.where(small, 1, B))[~small]
    # series in B: Σ_k B^k/k! · ∫_0^1 e^{A u} u^{k+1}/(k+1) du ; use Gauss-Legendre (smooth integrand)
    if small.any():
        xs, ws = np.polynomial.legendre.leggauss(40)
        u = (xs + 1)/2
        w = ws/2
        As, Bs = A[small][:, None], B[small][:, None]
        # oscillation e^{A u} may be fast: split [0,1] into panels
        npan = np.maximum(1, (np.abs(As).max()/4)).astype(int) + 1
        acc = np.zeros(As.shape[0], dtype=complex)
        for pidx in range(npan):
            uu = (pidx + u)/npan
            acc += ((np.exp(As*uu)*uu*_phi1(Bs*uu))*w).sum(-1)/npan
        out[small] = acc
    return out*dt**2


def spec_ff2(desc, omega):
    """second-order filter function from the defining nested integral, segment form:
    F2_ab,kl = Σ_g [ Σ_ijmn I_ijmn B̃_a,ij C̃_k,ji C̃_l,nm B̃_b,mn  + conj(G_g,ak) Σ_{g'<g} G_g',bl ]"""
    omega = np.asarray(omega, dtype=float)
    nops, ncoeffs, _ = gens.sorted_nops(desc)
    C = gens.basis_array(desc)
    Q, eig = gens.spec_propagators(desc)
    t = np.concatenate(([0.0], np.cumsum(desc['dt'])))
    nA, nK, nO = len(nops), len(C), len(omega)
    F2 = np.zeros((nA, nA, nK, nK, nO), dtype=complex)
    cum = np.zeros((nA, nK, nO), dtype=complex)
    for g, dtg in enumerate(desc['dt']):
        lam, V = eig[g]
        W = V.conj().T @ Q[g]
        Ct = W @ C @ W.conj().T
        Bt = (V.conj().T @ nops @ V)*ncoeffs[:, g][:, None, None]
        dl = lam[:, None] - lam[None, :]
        # I_ijmn(ω) = ∫ e^{i(Ω_ij-ω)t} ∫ e^{i(Ω_mn+ω)s}
        a = dl[None, :, :, None, None] - omega[:, None, None, None, None]
        b = dl[None, None, None, :, :] + omega[:, None, None, None, None]
        I = nested_spec(a, b, dtg)
        nb = np.einsum('akl,ilk->aikl', Bt, Ct)
        F2 += np.einsum('oijmn,akij,blmn->abklo', I, nb, nb, optimize=True)
        x = omega[:, None, None] + dl[None]
        I1 = dtg*gens.exprel_i(x*dtg)
        G = np.einsum('o,amn,omn,knm->ako', np.exp(1j*omega*t[g]), Bt, I1, Ct, optimize=True)
        if g > 0:
            F2 += np.einsum('ako,blo->abklo', G.conj(), cum)
        cum += G
    return F2


def near_resonance(pulse, omega, hi=1e-3):
    """Does the package, with ITS eigenvalues and ITS floating-point expressions for the three
    energy denominators of `_second_order_integral`, see a denominator that is tiny but not
    exactly zero (0 < |x|·dt < hi) in some segment?  That is the territory of the open finding
    F9; exact zeros are handled by the masks and are not excused."""
    omega = np.asarray(omega, dtype=float)
    for g, dtg in enumerate(pulse.dt):
        if dtg == 0:
            continue
        ev = pulse.eigvals[g]
        dE = np.subtract.outer(ev, ev)
        for v in (np.add.outer(omega, dE), np.subtract.outer(-omega, -dE), np.add.outer(dE, dE)):
            x = np.abs(v)*dtg
            if ((x > 0) & (x < hi)).any():
                return True
    return False


def check_ff2(ctx, case):
    desc, omega = case['desc'], np.asarray(case['omega'], dtype=float)
    hrng = np.random.default_rng(case.get('hseed', 0))
    p = gens.build_used(desc, hrng, 0.6, len(omega), omega,
                        ('phases', 'cache_phases', 'ff1', 'cm', 'cache_ff2', 'cache_ff2', 'cache_ff1'))
    F2 = p.get_filter_function(omega, order=2)
    S = spec_ff2(desc, omega)
    sc = max(np.max(np.abs(S)), 1e-300)
    if F2.shape != S.shape:
        ctx.count((tuple(desc['features']), desc['d'], len(desc['dt']), omega.tobytes()))
        ctx.fail('ff2_vs_nested_integral', case, {'shape': list(F2.shape)}, {'shape': list(S.shape)},
                 {'near_resonance': False},
                 f'second-order FF has shape {F2.shape}, expected {S.shape} (stale value served?)')
        return np.inf
    err = float(np.max(np.abs(F2 - S))/sc) if np.all(np.isfinite(F2)) else np.inf
    F1 = gens.build_used(desc, hrng, 0.5, len(omega)).get_filter_function(omega, 'generalized')
    res = F2 + F2.conj().transpose(1, 0, 3, 2, 4) - F1
    ierr = float(np.max(np.abs(res))/max(np.max(np.abs(F1)), 1e-300))
    # with cached intermediates
    q = gens.build(desc)
    q.get_control_matrix(omega, cache_intermediates=True)
    F2c = q.get_filter_function(omega, order=2)
    cerr = gens.rel_err(F2c, F2)
    # a second evaluation from the same cached intermediates (explicit cacher; shallow copy taken
    # after caching; frequency shifts) must give the same numbers: the consumers only read them
    import copy as _copy
    q.cache_filter_function(omega, order=2)
    cerr = max(cerr, gens.rel_err(q.get_filter_function(omega, order=2), F2))
    qc = _copy.copy(q)
    qc.cache_filter_function(omega, order=2)
    cerr = max(cerr, gens.rel_err(qc.get_filter_function(omega, order=2), F2))
    near = near_resonance(p, omega)
    ctx.count((tuple(desc['features']), desc['d'], len(desc['dt']), omega.tobytes()),
              nontrivial=len(desc['dt']) >= 2)
    feats = {'near_resonance': bool(near)}
    if not err <= 1e-6:
        ctx.fail('ff2_vs_nested_integral', case, {'err': err}, {'tol': 1e-6}, feats,
                 f'second-order FF differs from the nested integral by {err:.3g} '
                 f'(near resonance: {near}) features={desc["features"]}')
    if not ierr <= 1e-6:
        ctx.fail('ff2_plus_adjoint', case, {'err': ierr}, {'tol': 1e-6}, feats,
                 f'F2 + F2^dagger - F1 = {ierr:.3g} (near resonance: {near})')
    if not cerr <= 1e-9:
        ctx.fail('ff2_intermediates', case, {'err': cerr}, {'tol': 1e-9}, feats,
                 f'second-order FF with cached intermediates differs by {cerr:.3g}')
    return err


def check_shifts(ctx, case):
    desc, omega = case['desc'], np.asarray(case['omega'], dtype=float)
    S = 1/(1 + omega**2)
    p = gens.build(desc)
    D1 = numeric.calculate_frequency_shifts(p, S, omega)
    q = gens.build(desc)
    q.get_control_matrix(omega, cache_intermediates=True)
    D2 = numeric.calculate_frequency_shifts(q, S, omega)
    F2 = gens.build(desc).get_filter_function(omega, order=2)
    idx = np.arange(F2.shape[0])
    ref = (np.trapz(F2[idx, idx]*S, omega)/(2*np.pi)).real   # (the package keeps the real part)
    e1 = gens.abs_err(D1, D2, 1e-12)
    e2 = gens.abs_err(D1, ref, 1e-12)
    ctx.count(('shift', tuple(desc['features']), omega.tobytes()))
    if not (e1 <= 1e-9 and e2 <= 1e-9):
        ctx.fail('frequency_shifts', case, {'cached_vs_not': e1, 'vs_trapezoid': e2}, 0, {},
                 f'frequency shifts inconsistent: cached vs not {e1:.3g}, vs trapezoid {e2:.3g}')


CHECKS = {'ff2_vs_nested_integral': check_ff2, 'ff2_plus_adjoint': check_ff2,
          'ff2_intermediates': check_ff2, 'frequency_shifts': check_shifts}


def replay(ctx, check, case):
    CHECKS[check](ctx, case)


def search(ctx, deep=False):
    rng = ctx.rng('deep' if deep else 'search')
    n = {('quick', False): 24, ('quick', True): 150, ('thorough', False): 400,
         ('thorough', True): 1000}[(ctx.tier, deep)]
    for i in range(n):
        feats = gens.rand_features(rng, 0.3, ['idle', 'zero_dt', 'repeat', 'degenerate', 'neg_sens',
                                              'nontraceless_nop', 'structured'])
        d = int(rng.choice([2, 2, 3]))
        desc = gens.rand_desc(rng, d=d, n_dt=int(rng.integers(1, 4)), features=feats,
                              basis=('ggm',) if d == 3 else ('pauli',))
        H = gens.seg_hamiltonians(desc)
        lam = np.linalg.eigvalsh(H[0])
        res = np.subtract.outer(lam, lam).ravel()
        kind = i % 3
        if kind == 0:     # generic
            om = rng.uniform(-8, 8, 6)
        elif kind == 1:   # exactly resonant with segment 0 + generic
            om = np.concatenate((rng.choice(res, 2), -rng.choice(res, 1), [0.0], rng.uniform(-5, 5, 2)))
        else:             # near resonances (known finding F9 territory)
            om = rng.choice(res, 3) + rng.choice([1e-12, 1e-9, 1e-7, 1e-5], 3)
        check_ff2(ctx, {'desc': desc, 'omega': om, 'hseed': int(rng.integers(0, 2**31))})
        if i % 6 == 0:
            check_shifts(ctx, {'desc': desc, 'omega': np.sort(rng.uniform(-6, 6, 30))})
        if i < 2:
            ctx.sample({'d': d, 'features': feats, 'omega': om})
