"""C20 — inconsistent input is rejected with the documented exception, valid input never."""
import random
import warnings

import numpy as np

import filter_functions as ff
from filter_functions import numeric, util

from .. import gens
from ..common import corr_script, driver

THEOREMS = '''parse_hamiltonian_valid_never_rejected parse_hamiltonian_rejects_iff
parse_hamiltonian_rejected_invalid parse_args_rejected_invalid
parse_hamiltonian_rejection_explained parse_hamiltonian_violation_invalid
parse_hamiltonian_class_of_corruption parse_hamiltonian_error_class parse_args_valid_never_rejected
parse_args_rejects_iff parse_args_rejection_explained parse_args_violation_invalid
parse_args_class_of_corruption parse_args_error_class parse_spectrum_valid_never_rejected
parse_spectrum_rejects_iff parse_spectrum_error_class identifiers_reject_iff
identifiers_valid_never_rejected identifiers_indices_correct options_reject_iff
options_valid_never_rejected options_unlisted_accepted basis_ctor_rejects_iff
basis_ctor_valid_never_rejected basis_ctor_elems getitem_rejects_iff concat_without_ff_rejects_iff
concat_without_ff_valid_never_rejected concat_without_ff_rejection_explained concat_rejects_iff
concat_valid_never_rejected concat_error_class concat_single_unchecked concat_periodic_rejects_iff
remap_rejects_iff extend_valid_never_rejected extend_rejects_iff extend_rejection_explained
extend_error_class extend_shortcut_unchecked pc_availability pc_rejects_iff
pc_availability_agrees_with_cache pc_infidelity_identity_component deriv_shape_rejects_iff
cumulant_rejects_iff convergence_rejects_iff
remap_shape_rejects_iff remap_shape_ok_iff remap_valid_never_rejected remap_rejects_iff_invalid remap_duplicate_mapped_ids_rejected remap_missing_key_rejected remap_error_class extend_class_of_corruption extend_duplicate_mapped_ids_rejected extend_missing_key_rejected extend_own_duplicates_rejected extend_inner_remap_consistent'''.split()
LEAN_MODULES = ['FFVerif.Props.C20']
PINS = ['pinParseArgs', 'pinParseHamiltonian', 'pinParseOperators', 'pinParseSpectrum', 'pinGetIndices', 'pinHashArray', 'pinAllArrayEqual', 'pinConcatenateHamiltonian']
GEN_SITES = ['options']
COMPONENTS = ['validate_args', 'validate_spectrum', 'validate_identifiers', 'validate_extend',
              'validate_concat', 'validate_basis', 'validate_remap', 'validate_pc',
              'validate_options', 'validate_small']
RULES = ['correspondence: the Lean validators (same order of checks as the source, so the first '
         'failing check decides the exception class) vs the real functions on abstract inputs: '
         'PulseSequence(...) with operators that are ndarrays / convertible objects / other, of '
         'assorted shapes, coefficient entries with / without length, identifiers given / omitted '
         '/ clashing with default labels, durations positive / negative / complex / no sequence, '
         'bases of several kinds; parse_spectrum over shapes x operator counts x Hermiticity; '
         'get_indices_from_identifiers; every option of the generated options table with listed '
         'and unlisted values; Basis(...); PulseSequence slicing; concatenate / extend / remap '
         'over dimension, basis, cache and omega states; pulse-correlation requests over cache '
         'states; derivative shape, cumulant-function and convergence argument checks. '
         'search: real random valid inputs of the constructors and composition / analysis '
         'functions, (a) left as they are: must be accepted; (b) corrupted in exactly one '
         'catalogued way at a random position: must raise the documented class; distinct = '
         '(function, corruption, position, input hash)']
ASSUMPTIONS = ['arrays are abstracted to shapes, cached arrays to byte / value ids',
               'the regularity hypotheses of the theorems (HamRegular, ArgsRegular, ...) exclude the '
               'inputs where code and documentation disagree; those are listed as findings']
TRUSTED = ['modelled not verified: numpy asarray / squeeze / broadcast_to shape rules as encoded in '
           'the model (validated by the correspondence)',
           'the catalogue of corruptions and the documented class per corruption are read from the '
           'property statement and the docstrings']

X, Y, Z = util.paulis[1:]


class Q:  # an object convertible through .full()
    def __init__(s, shape):
        s.a = np.ones(shape)

    def full(s):
        return s.a


def cls(f):
    try:
        return ('ok', f())
    except Exception as e:  # noqa
        return ('err', type(e).__name__)


def sh(s):
    return 'x'.join(map(str, s)) if len(s) else '_'


# ------------------------------------------------------------------------------ abstract requests
def gen_args(rng, n):
    def mk_oper(spec):
        k, s = spec
        if k == 'a':
            return np.ones(s), 'a' + sh(s)
        if k == 'q':
            return Q(s), 'q' + sh(s)
        return [[1, 0], [0, 1]], 'o'

    def rand_oper():
        r = rng.random()
        shapes = [(2, 2), (2, 2), (2, 2), (2, 2), (3, 3), (2, 3), (1, 2), (2,), (2, 2, 1), (1, 1), (),
                  (2, 2, 2), (1, 4), (4, 4)]
        if r < 0.75:
            return ('a', rng.choice(shapes))
        if r < 0.9:
            return ('q', rng.choice(shapes))
        return ('o', ())

    def rand_ham(ndt, good=False):
        r = rng.random()
        if not good and r < 0.05:
            return 5, '!'
        nn = rng.choice([0, 1, 1, 2, 2, 3, 4]) if not good else rng.choice([1, 2, 3])
        if nn == 0:
            return [], '_'
        items, toks = [], []
        base = rng.choice([('a', (2, 2)), ('a', (2, 2)), ('q', (2, 2)), ('a', (3, 3))])
        for i in range(nn):
            if not good and rng.random() < 0.04:
                items.append(5)
                toks.append('!')
                continue
            o = base if (good or rng.random() < 0.8) else rand_oper()
            ob, ot = mk_oper(o)
            cr = rng.random()
            if good or cr < 0.85:
                c, ct = [1.]*ndt, 's%d' % ndt
            elif cr < 0.93:
                m = rng.choice([0, 1, 2, 3])
                c, ct = [1.]*m, 's%d' % m
            else:
                c, ct = 1.0, 'n'
            if rng.random() < 0.4:
                idn, it = None, '-'
            else:
                idn = rng.choice(['X', 'Y', 'Z', 'A_0', 'A_1', 'A_2', 'B_1', 'B_0', 'B_2'])
                it = '=' + idn
            nf = (3 if rng.random() < .5 else 2) if good else rng.choice([0, 1, 2, 2, 2, 3, 3, 3, 3, 4])
            full = [ob, c, idn, 'extra']
            items.append(full[:nf])
            toks.append('%d:%s:%s:%s' % (nf, ot, ct, it))
        return items, ';'.join(toks)

    def rand_dt():
        if rng.random() < 0.05:
            return 1.0, '!'
        k = rng.choice([0, 1, 2, 3])
        el, tk = [], []
        for i in range(k):
            q = rng.random()
            if q < 0.85:
                el.append(rng.choice([1.0, 0.0, 2.5]))
                tk.append('p')
            elif q < 0.93:
                el.append(-1.0)
                tk.append('n')
            else:
                el.append(1j)
                tk.append('c')
        return el, (','.join(tk) if tk else '_')

    def rand_basis():
        r = rng.random()
        if r < 0.6:
            return None, '-'
        if r < 0.7:
            return np.array(util.paulis), '!'
        b = rng.choice([ff.Basis.pauli(1), ff.Basis.ggm(3), ff.Basis.pauli(2), ff.Basis([util.paulis[1]])])
        return b, 'b' + sh(b.shape)

    cases = []
    for _ in range(n):
        dt, dtt = rand_dt()
        ndt = len(dt) if isinstance(dt, list) else 1
        good = rng.random() < 0.3
        hc, hct = rand_ham(ndt, good)
        hn, hnt = rand_ham(ndt, good)
        b, bt = rand_basis()

        def f(hc=hc, hn=hn, dt=dt, b=b):
            p = ff.PulseSequence(hc, hn, dt, basis=b) if b is not None else ff.PulseSequence(hc, hn, dt)
            return '%d %d %s %s' % (p.d, len(p.dt), ','.join(p.c_oper_identifiers) or '_',
                                    ','.join(p.n_oper_identifiers) or '_')
        cases.append(('validate_args', f'v_args {dtt} {hct} {hnt} {bt}', cls(f)))
    return cases


def gen_spectrum(rng, nprng, n):
    cases = []
    for _ in range(n):
        nd = rng.choice([0, 1, 1, 2, 2, 3, 3, 4])
        nidx = rng.choice([1, 2, 3])
        nom = rng.choice([1, 4, 5])
        shape = tuple(rng.choice([nidx, nidx, nidx, 1, nom, 2]) for _ in range(max(nd - 1, 0))) \
            + ((rng.choice([nom, nom, nom, 1, 3]),) if nd else ())
        S = np.array(nprng.random(shape) + 1j*nprng.random(shape))
        herm = rng.random() < 0.5
        if nd == 3 and herm and shape[0] == shape[1]:
            S = S + S.conj().swapaxes(0, 1)
        target = (nidx,)*(nd - 1) + (nom,)
        try:
            Sb = np.broadcast_to(S, target)
            h = bool(np.allclose(Sb, Sb.conj().swapaxes(0, 1))) if Sb.ndim >= 2 else True
        except Exception:  # noqa
            h = False
        req = f"v_spectrum {nd} {','.join(map(str, shape)) or '_'} {nidx} {nom} {int(h)}"
        cases.append(('validate_spectrum', req, cls(lambda S=S, nom=nom, nidx=nidx: ','.join(map(
            str, util.parse_spectrum(S, np.arange(nom), np.arange(nidx)).shape)))))
    return cases


def gen_ident(rng, n):
    pool = ['X', 'Y', 'Z', 'XY', 'W']
    cases = []
    for _ in range(n):
        known = rng.sample(pool, rng.choice([1, 2, 3, 4]))
        if rng.random() < 0.1:
            known = known + [known[0]]
        r = rng.random()
        if r < 0.15:
            req, rt, extra = None, '-', ''
        elif r < 0.3:
            req = rng.choice(pool)
            rt, extra = req, ' str'
        else:
            req = [rng.choice(pool if rng.random() < .3 else known) for _ in range(rng.choice([0, 1, 2, 3]))]
            rt, extra = ','.join(req) or '_', ''
        cases.append(('validate_identifiers', f"v_ident {','.join(known)} {rt}{extra}",
                      cls(lambda known=known, req=req: ','.join(map(
                          str, util.get_indices_from_identifiers(known, req))) or '_')))
    return cases


DTS = [(np.array([1., 1.]), 0, 0), (np.array([1, 1]), 0, 0), (np.array([1., 2.]), 2, 2),
       (np.array([1.]), 3, 3), (np.array([0., 1.]), 4, 4), (np.array([-0., 1.]), 4, 4)]
OMS = [(np.array([1., 2.]), 0, 0), (np.array([1, 2]), 0, 0), (np.array([1., 3.]), 2, 2)]


def gen_extend(rng, n):
    def mkpulse(d, dt, nids, om, cm):
        A = np.diag(np.arange(d)).astype(float) + np.eye(d)
        Hc = [[A, [1.]*len(dt), 'X']]
        Hn = [[np.diag(np.arange(d) + i + 1.).astype(float), [1.]*len(dt), nid]
              for i, nid in enumerate(nids)]
        p = ff.PulseSequence(Hc, Hn, dt, basis=ff.Basis.pauli(int(round(np.log2(d))))
                             if d in (2, 4, 8) else None)
        if om is not None:
            if cm:
                p.cache_filter_function(om)
            else:
                p.omega = om
        return p

    def rand_case():
        dpq = 2
        npl = rng.choice([0, 1, 1, 2, 2, 2, 3])
        toks, mapping = [], []
        dtc = rng.choice(DTS)
        for i in range(npl):
            nq = rng.choice([1, 1, 1, 2, 2, 3, 0]) if rng.random() < 0.9 else 1
            qs = [rng.choice([0, 1, 2, 3]) for _ in range(nq)]
            if rng.random() < 0.7:
                qs = rng.sample([0, 1, 2, 3], nq)
            form = rng.choice(['t', 't', 'l', 'i']) if nq == 1 else rng.choice(['t', 't', 'l'])
            k = nq if rng.random() < 0.85 else rng.choice([1, 2, 3])
            if k == 0:
                k = 1
            d = dpq**k if rng.random() < 0.93 else 3
            dt = dtc if rng.random() < 0.85 else rng.choice(DTS)
            nids = rng.choice([['Z'], ['Z', 'Y'], ['B']])
            if rng.random() < 0.5:
                om, cm = None, False
            else:
                om = OMS[0] if rng.random() < 0.7 else rng.choice(OMS)
                cm = rng.random() < 0.7
            p = mkpulse(d, dt[0], nids, om[0] if om else None, cm)
            logN = int(round(np.log(d)/np.log(dpq)))
            q = qs[0] if form == 'i' else (tuple(qs) if form == 't' else list(qs))
            mp, mpt = None, '-'
            if rng.random() < 0.15:
                suffix = rng.choice(['_a', '_b'])
                mp = {k_: k_ + suffix for k_ in list(p.c_oper_identifiers) + list(p.n_oper_identifiers)}
                mpt = ','.join(f'{k_}>{v_}' for k_, v_ in mp.items())     # the whole dict (4-part token)
            mapping.append((p, q) if mp is None else (p, q, mp))
            pauli = p.basis.btype == 'Pauli'
            ko = p.is_cached('total_phases') or p.is_cached('filter_function') or (
                p.is_cached('control_matrix') and pauli)
            toks.append('%d,%d,%s,%s,%d,%d,%d,%d,%s,%s,%d,%d/%s/%s/%s' % (
                d, logN, '+'.join(map(str, qs)) or '_', form, dt[1], dt[2], len(dt[0]),
                int(cm and om is not None), om[1] if om else '-', om[2] if om else '-', int(ko),
                int(pauli), ','.join(p.c_oper_identifiers), ','.join(p.n_oper_identifiers), mpt))
        N = None if rng.random() < 0.6 else rng.choice([1, 2, 3, 4])
        add, addt = None, '-'
        allq = [q for m in mapping for q in ([m[1]] if isinstance(m[1], int) else list(m[1]))]
        Nn = N if N is not None else (max(allq) + 1 if allq else 1)
        if rng.random() < 0.35:
            dd = 2**min(Nn, 4) if rng.random() < 0.8 else 2
            nd = len(dtc[0]) if rng.random() < 0.85 else 3
            idn = rng.choice(['ZZ', 'Z_0', 'Z_1', 'Z_01', 'B_0', 'Z_a', None])
            add = [[np.eye(dd), [1.]*nd] + ([idn] if idn else [])]
            addt = '%d:a%dx%d:s%d:%s' % (3 if idn else 2, dd, dd, nd, '=' + idn if idn else '-')
            if rng.random() < 0.07:
                add, addt = 5, '!'
        cd = rng.choice([None, None, True, False])
        cf = rng.choice([None, None, True, False])
        omg = rng.random() < 0.3
        tb = lambda b: '-' if b is None else str(int(b))  # noqa
        req = 'v_extend %s %s %d %s %s %s %d' % ('|'.join(toks) or '_', '-' if N is None else N, dpq,
                                                 addt, tb(cd), tb(cf), int(omg))

        def f():
            r = ff.extend(mapping, N=N, d_per_qubit=dpq, additional_noise_Hamiltonian=add,
                          cache_diagonalization=cd, cache_filter_function=cf,
                          omega=OMS[0][0] if omg else None)
            return str(int(round(np.log2(r.d))))
        return req, f

    cases = []
    for _ in range(n):
        try:
            req, f = rand_case()
        except Exception:  # generator built an invalid constituent pulse  # noqa
            continue
        cases.append(('validate_extend', req, cls(f)))
    return cases


def gen_concat(rng, n):
    def opmat(d, k):
        M = np.zeros((d, d))
        M[0, 0] = k + 1
        M[d-1, d-1] = -(k + 1)
        M[0, d-1] = M[d-1, 0] = k
        return M

    def bases(d):
        if d == 2:
            b0 = ff.Basis.pauli(1)
            arr2 = np.array(b0).copy()
            arr2[arr2 == 0] = -0.0
            b1 = ff.Basis(arr2, btype='Pauli')
            b1.btype = 'Pauli'
            # (Basis.ggm(2) has the same elements as Basis.pauli(1))
            rot = ff.Basis(np.array([np.eye(2), (X + Z)/np.sqrt(2), Y, (X - Z)/np.sqrt(2)])/np.sqrt(2))
            return [(b0, 0, 0), (b1, 0, 0), (ff.Basis.ggm(2), 0, 0), (rot, 2, 2)]
        return [(ff.Basis.ggm(d), 3, 3)]

    def ham(d, ndt):
        k = rng.choice([1, 1, 2, 2, 3])
        ops = rng.sample(range(4), k)
        ids = rng.sample(['X', 'Y', 'Z', 'W'], k) if rng.random() < 0.5 else ['P%d' % o for o in ops]
        items, toks = [], []
        for o, i in sorted(zip(ops, ids), key=lambda t: t[1]):
            c = [rng.choice([1, 1, 2]) for _ in range(ndt)] if rng.random() < 0.3 else [1]*ndt
            items.append([opmat(d, o), [float(x) for x in c], i])
            toks.append('%d:%s:%s' % (o, i, ','.join(map(str, c))))
        return items, ';'.join(toks)

    cases = []
    for _ in range(n):
        npl = rng.choice([0, 1, 2, 2, 2, 3, 3])
        pulses, toks = [], []
        d0 = rng.choice([2, 2, 2, 3])
        for i in range(npl):
            if rng.random() < 0.04:
                pulses.append(5)
                toks.append('0,2,0,0,0,-,-/_/_')
                continue
            d = d0 if rng.random() < 0.9 else 5 - d0
            bl = bases(d)
            b = bl[0] if rng.random() < 0.7 else rng.choice(bl)
            ndt = rng.choice([1, 2])
            hc, hct = ham(d, ndt)
            hn, hnt = ham(d, ndt)
            p = ff.PulseSequence(hc, hn, [1.]*ndt, basis=b[0])
            om, cm = None, False
            if rng.random() < 0.5:
                om = OMS[0] if rng.random() < 0.7 else rng.choice(OMS)
                cm = rng.random() < 0.7
                if cm:
                    p.cache_filter_function(om[0])
                else:
                    p.omega = om[0]
            pulses.append(p)
            toks.append('1,%d,%d,%d,%d,%s,%s/%s/%s' % (d, b[1], b[2], int(cm), om[1] if om else '-',
                                                       om[2] if om else '-', hct, hnt))
        pc = rng.random() < 0.3
        cf = rng.choice([None, None, True, False])
        omg = rng.random() < 0.25
        tb = lambda b: '-' if b is None else str(int(b))  # noqa
        req = 'v_concat %s %d,%s,%d' % ('|'.join(toks) or '_', int(pc), tb(cf), int(omg))
        cases.append(('validate_concat', req, cls(lambda pulses=pulses, pc=pc, cf=cf, omg=omg: (
            ff.concatenate(pulses, calc_pulse_correlation_FF=pc, calc_filter_function=cf,
                           omega=OMS[0][0] if omg else None), '')[1])))
    for _ in range(max(n//20, 4)):
        isp = rng.random() < 0.6
        arg = ff.PulseSequence([[X, [1.]]], [[Z, [1.]]], [1.]) if isp else rng.choice([5, 'p', [1]])
        cases.append(('validate_concat', f'v_concatp {int(isp)}',
                      cls(lambda arg=arg: (ff.concatenate_periodic(arg, 2), '')[1])))
    return cases


def gen_basis_remap(rng, n):
    cases = []
    for _ in range(n):
        r = rng.random()
        lab = None if rng.random() < 0.6 else rng.choice([1, 2, 3, 4, 5])
        labt = '-' if lab is None else str(lab)
        labels = None if lab is None else ['l']*lab
        if r < 0.05:
            arg, tok = 5, '!'
        elif r < 0.2:
            b = rng.choice([ff.Basis.pauli(1), ff.Basis.ggm(3), ff.Basis([util.paulis[1]])])
            arg, tok = b, 'i' + sh(b.shape)
        elif r < 0.35:
            s_ = rng.choice([(2, 2), (3, 3), (2, 3)])
            arg, tok = np.ones(s_), 'sa' + sh(s_)
        else:
            k = rng.choice([0, 1, 2, 3, 4, 5])
            els, tk = [], []
            base = rng.choice([(2, 2), (2, 2), (3, 3)])
            for i in range(k):
                s_ = base if rng.random() < 0.85 else rng.choice([(2, 3), (2,), (2, 2, 2), (1, 1), (2, 2, 1)])
                kk = rng.choice('aaaqo')
                if kk == 'a':
                    els.append(np.ones(s_))
                    tk.append('a' + sh(s_))
                elif kk == 'q':
                    els.append(Q(s_))
                    tk.append('q' + sh(s_))
                else:
                    els.append([[1, 0], [0, 1]])
                    tk.append('o')
            arg, tok = els, 'l' + (';'.join(tk) if tk else '_')
        cases.append(('validate_basis', f'v_basis {tok} {labt}',
                      cls(lambda arg=arg, labels=labels: sh(ff.Basis(arg, labels=labels).shape))))

    def mk(d):
        A = np.diag(np.arange(d)).astype(float)
        return ff.PulseSequence([[A, [1.], 'X']], [[A, [1.], 'Z']], [1.],
                                basis=ff.Basis([np.eye(d)/np.sqrt(d)]))
    for _ in range(n//2):
        dpq = rng.choice([2, 2, 3, 6])
        k = rng.choice([1, 2, 3])
        d = dpq**k if rng.random() < 0.85 else dpq**k + 1
        if d > 300:
            continue
        m = k if rng.random() < 0.8 else rng.choice([1, 2, 3, 4])
        order = list(range(m))
        rng.shuffle(order)
        if rng.random() < 0.15 and m > 0:
            order[0] = rng.choice([-1, m, order[-1]])
        logN = int(round(np.log(d)/np.log(dpq)))
        cases.append(('validate_remap', f"v_remap {d} {logN} {dpq} {','.join(map(str, order)) or '_'}",
                      cls(lambda d=d, order=order, dpq=dpq: (ff.remap(mk(d), order, d_per_qubit=dpq), '')[1])))
    return cases


def gen_pc(rng, n):
    E00, E11 = np.diag([1., 0]), np.diag([0, 1.])
    Bnt = ff.Basis([E00, E11, X/np.sqrt(2), Y/np.sqrt(2)])
    oms = [np.array([1., 2.]), np.array([1., 3.])]

    def state(p):
        def tag(attr):
            v = getattr(p, attr)
            return '-' if v is None else ('0' if p._omega is None or np.array_equal(p._omega, oms[0]) else '1')
        om = '-' if p._omega is None else ('0' if np.array_equal(p._omega, oms[0]) else '1')
        b = lambda v: '1' if v is not None else '0'  # noqa
        return ','.join([om, b(p._eigvals), b(p._eigvecs), b(p._propagators), b(p._total_propagator),
                         b(p._total_propagator_liouville), tag('_total_phases'), tag('_control_matrix'),
                         tag('_control_matrix_pc'), tag('_filter_function'), tag('_filter_function_gen'),
                         tag('_filter_function_pc'), tag('_filter_function_pc_gen'), '-', '0', '0', '-',
                         '-', '-'])
    cases = []
    for _ in range(n):
        basis = Bnt if rng.random() < 0.5 else ff.Basis.pauli(1)
        idc = rng.random() < 0.4
        nop = Z + 0.6*np.eye(2) if idc else Z
        mkp = lambda: ff.PulseSequence([[X, [1.], 'X']], [[nop, [1.], 'Z']], [1.], basis=basis)  # noqa
        r = rng.random()
        if r < 0.7:
            p = ff.concatenate([mkp(), mkp()], calc_pulse_correlation_FF=True, omega=oms[0],
                               which=rng.choice(['fidelity', 'generalized']))
        elif r < 0.85:
            p = ff.concatenate([mkp(), mkp()], omega=oms[0], calc_filter_function=True)
        else:
            p = mkp()
        c = rng.random()
        if c < 0.25:
            p.cleanup('greedy')
        elif c < 0.35:
            p.cleanup('frequency dependent')
        elif c < 0.4:
            p.cleanup('all')
        elif c < 0.5:
            p.cleanup('conservative')
        st = state(p)
        tl = int(bool(basis.istraceless))
        q = rng.random()
        S = np.array([1., 1.])
        gi = rng.choice([0, 0, 1])
        if q < 0.25:
            w = rng.choice(['fidelity', 'generalized'])
            req = f'v_pc {st} pcff:{w[0]}'
            f = lambda p=p, w=w: (p.get_pulse_correlation_filter_function(w), '')[1]  # noqa
        elif q < 0.4:
            req = f'v_pc {st} pccm'
            f = lambda p=p: (p.get_pulse_correlation_control_matrix(), '')[1]  # noqa
        elif q < 0.7:
            req = f'v_pcidc {st} {gi}' if (idc and tl) else f'v_pc {st} infid:{gi}:{tl}'
            f = lambda p=p, gi=gi: (ff.infidelity(p, S, oms[gi], which='correlations'), '')[1]  # noqa
        else:
            req = f'v_pc {st} decay:{gi}'
            f = lambda p=p, gi=gi: (numeric.calculate_decay_amplitudes(  # noqa
                p, S, oms[gi], which='correlations'), '')[1]
        cases.append(('validate_pc', req, cls(f)))
    return cases


def option_calls():
    """one callable per (function, parameter) of the decorated functions: value -> call"""
    p = lambda: ff.PulseSequence([[X, [1.]]], [[Z, [1.]]], [1.])  # noqa
    om = np.array([1., 2.])
    S = np.array([1., 1.])
    pc = lambda: ff.concatenate([p(), p()], omega=om, calc_pulse_correlation_FF=True,  # noqa
                                which='generalized')
    return {
        ('numeric.infidelity', 'which'): lambda v: ff.infidelity(pc(), S, om, which=v),
        ('numeric.calculate_decay_amplitudes', 'which'):
            lambda v: numeric.calculate_decay_amplitudes(pc(), S, om, which=v),
        ('numeric.calculate_cumulant_function', 'which'):
            lambda v: numeric.calculate_cumulant_function(pc(), S, om, which=v),
        ('numeric.calculate_filter_function', 'which'):
            lambda v: numeric.calculate_filter_function(p().get_control_matrix(om), which=v),
        ('numeric.calculate_pulse_correlation_filter_function', 'which'):
            lambda v: numeric.calculate_pulse_correlation_filter_function(
                np.ones((2, 1, 4, 2), dtype=complex), which=v),
        ('numeric.calculate_control_matrix_from_atomic', 'which'):
            lambda v: numeric.calculate_control_matrix_from_atomic(
                np.ones((2, 2), dtype=complex), np.ones((2, 1, 4, 2), dtype=complex),
                np.array([np.eye(4)]*2), which=v),
        ('pulse_sequence.PulseSequence.cleanup', 'method'): lambda v: p().cleanup(v),
        ('pulse_sequence.PulseSequence.get_filter_function', 'which'):
            lambda v: p().get_filter_function(om, which=v),
        ('pulse_sequence.PulseSequence.get_filter_function', 'order'):
            lambda v: p().get_filter_function(om, order=v),
        ('pulse_sequence.PulseSequence.cache_filter_function', 'which'):
            lambda v: p().cache_filter_function(om, which=v),
        ('pulse_sequence.PulseSequence.cache_filter_function', 'order'):
            lambda v: p().cache_filter_function(om, order=v),
        ('pulse_sequence.PulseSequence.get_pulse_correlation_filter_function', 'which'):
            lambda v: ff.concatenate([p(), p()], omega=om, calc_pulse_correlation_FF=True
                                     ).get_pulse_correlation_filter_function(which=v),
        ('pulse_sequence.concatenate', 'which'): lambda v: ff.concatenate([p(), p()], omega=om, which=v),
        ('util.get_sample_frequencies', 'spacing'): lambda v: util.get_sample_frequencies(p(), 10, spacing=v),
    }


def gen_options(ctx, rng):
    import ast
    import os
    import re
    from ..common import LEAN
    # the options table as generated by the translator (function, parameter, allowed values)
    with open(os.path.join(LEAN, 'FFVerif', 'Gen', 'Options.lean')) as fh:
        src = fh.read()
    table = []
    for m in re.finditer(r'\("([^"]+)", "([^"]+)", \[([^\]]*)\]\)', src):
        vals = [ast.literal_eval(v) for v in re.findall(r'"((?:[^"\\]|\\.)*)"', m.group(3))]
        table.append((m.group(1), m.group(2), vals))
    calls = option_calls()
    cases = []
    missing = []
    for (func, param, allowed) in table:
        f = calls.get((func, param))
        if f is None:
            missing.append(f'{func}.{param}')
            continue
        vals = list(allowed) + ['nope', 'Total', 3, None]
        for v in vals:
            if v is None and None not in allowed:
                continue
            tok = repr(v).replace(' ', '~')
            cases.append(('validate_options', f'v_option {func} {param} {tok}',
                          cls(lambda f=f, v=v: (f(v), '')[1])))
    ctx.stat('option_params_without_call', len(missing))
    if missing:
        ctx.sample({'option_params_without_call': missing})
    return cases


def gen_small(rng, n):
    cases = []
    p4 = ff.PulseSequence([[X, [1., 2., 3., 4.]]], [[Z, [1.]*4]], [1.]*4)
    for _ in range(n):
        a, b = rng.randint(-6, 6), rng.randint(-6, 8)
        lo, hi, _ = slice(a, b).indices(4)
        cases.append(('validate_small', f'v_getitem 4 {lo} {max(hi, lo)}',
                      cls(lambda a=a, b=b: str(len(p4[a:b])))))
    pd = ff.PulseSequence([[X, [1., 2., 3.], 'X']], [[Z, [1.]*3, 'Z'], [Y, [1.]*3, 'Y']], [1.]*3)
    om = np.array([1., 2.])
    for _ in range(n):
        shape = rng.choice([None, (2, 1, 3), (1, 3), (2, 1, 2), (1, 1, 3), (2, 3), (2, 1, 3, 1)])
        arg = None if shape is None else np.ones(shape)
        cases.append(('validate_small', f"v_deriv 2 1 3 {'-' if shape is None else ','.join(map(str, shape))}",
                      cls(lambda arg=arg: (pd.get_filter_function_derivative(om, n_coeffs_deriv=arg), '')[1])))
    S = np.array([1., 1.])
    pq = ff.PulseSequence([[X, [1.]]], [[Z, [1.]]], [1.])
    G = numeric.calculate_decay_amplitudes(pq, S, om)
    D = numeric.calculate_frequency_shifts(pq, S, om)
    ppc = ff.concatenate([pq, pq], omega=om, calc_pulse_correlation_FF=True, which='generalized')
    for sg in (0, 1):
        for og in (0, 1):
            for dg in (0, 1):
                for fg in (0, 1):
                    for so in (0, 1):
                        for co in (0, 1):
                            def f(sg=sg, og=og, dg=dg, fg=fg, so=so, co=co):
                                pl = ppc if co else pq
                                Gc = numeric.calculate_decay_amplitudes(pl, S, om, which='correlations') \
                                    if co else G
                                numeric.calculate_cumulant_function(
                                    pl, S if sg else None, om if og else None,
                                    which='correlations' if co else 'total', second_order=bool(so),
                                    decay_amplitudes=Gc if dg else None,
                                    frequency_shifts=D if fg else None)
                                return ''
                            # only the argument checks are modelled: requests whose arguments pass the
                            # checks but miss later inputs (a spectrum without frequencies) are skipped
                            if (sg != og):
                                continue
                            cases.append(('validate_small', f'v_cumulant {sg} {og} {dg} {fg} {so} {co}', cls(f)))
    for call in (0, 1):
        for dic in (0, 1):
            for sp in (0, 1):
                spec = (lambda w: 1/w) if call else S
                omg = ({'omega_IR': 0.1, 'omega_UV': 10., 'spacing': 'log' if sp else 'cubic',
                        'n_min': 5, 'n_max': 10, 'n_points': 2} if dic else om)
                cases.append(('validate_small', f'v_conv {call} {dic} {sp}',
                              cls(lambda spec=spec, omg=omg: (ff.infidelity(
                                  pq, spec, omg, test_convergence=True), '')[1])))
    return cases


def compare(ctx, cases):
    outs = driver([c[1] for c in cases])
    bad = {}
    n_by = {}
    for (comp, req, (k, v)), o in zip(cases, outs):
        exp = ('ok ' + str(v)).strip() if k == 'ok' else 'err ' + v
        n_by[comp] = n_by.get(comp, 0) + 1
        ctx.count((comp, req))
        ctx.stat(f'{comp}:{"ok" if k == "ok" else v}')
        if exp.strip() != o.strip():
            bad.setdefault(comp, []).append({'request': req, 'implementation': exp, 'model': o})
    for comp in COMPONENTS:
        b = bad.get(comp, [])
        ctx.oblige(f'correspondence:{comp}', 'correspondence', not b,
                   f'{len(b)} of {n_by.get(comp, 0)} requests disagree; first: {b[:2]}')
    return bad


def correspondence(ctx):
    warnings.simplefilter('ignore')
    # extend / remap WITH identifier mappings (injective, colliding, incomplete) vs the Validate model
    corr_script(ctx, 'corr_c20val', [])
    rng = random.Random(int(ctx.rng('corr').integers(0, 2**31)))
    nprng = ctx.rng('corr-np')
    k = 1 if ctx.tier == 'quick' else 8
    cases = []
    cases += gen_args(rng, 700*k)
    cases += gen_spectrum(rng, nprng, 300*k)
    cases += gen_ident(rng, 150*k)
    cases += gen_extend(rng, 250*k)
    cases += gen_concat(rng, 200*k)
    cases += gen_basis_remap(rng, 150*k)
    cases += gen_pc(rng, 150*k)
    cases += gen_options(ctx, rng)
    cases += gen_small(rng, 30*k)
    compare(ctx, cases)
    ctx.stat('corr_cases', len(cases))


# ------------------------------------------------------------------------- real inputs, corrupted
DOC = {'ValueError', 'TypeError'}


def rd(rng, **kw):
    """random pulse description with a fixed basis kind (GGM) unless one is given"""
    kw.setdefault('basis', ('ggm',))
    return gens.rand_desc(rng, **kw)


def valid_pulse_args(rng, d=None, n_dt=None):
    d = d or int(rng.choice([2, 2, 3, 4]))
    n_dt = n_dt or int(rng.integers(1, 4))
    n_c, n_n = int(rng.integers(1, 3)), int(rng.integers(1, 3))
    Hc = [[gens.rand_herm(rng, d, True), list(rng.uniform(-1, 1, n_dt)), f'C{i}'] for i in range(n_c)]
    Hn = [[gens.rand_herm(rng, d, bool(rng.integers(0, 2))), list(rng.uniform(0.5, 1.5, n_dt)), f'N{i}']
          for i in range(n_n)]
    dt = list(rng.uniform(0.1, 1, n_dt))
    return Hc, Hn, dt


def corruptions_ctor(rng):
    """(name, function building (callable, expected classes)) for PulseSequence(...)"""
    def build(mut):
        Hc, Hn, dt = valid_pulse_args(rng)
        kw = {}
        exp = mut(Hc, Hn, dt, kw)
        return (lambda: ff.PulseSequence(Hc, Hn, kw.pop('dt', dt), **kw)), exp

    def which(H):
        return H[int(rng.integers(0, len(H)))]

    def m_neg(Hc, Hn, dt, kw):
        j = int(rng.integers(0, len(dt)))
        # an ordinary negative duration, or one so small that sums of the durations do not notice it
        dt[j] = -dt[j] if rng.random() < 0.5 else -10.0**rng.uniform(-300, -16)
        if rng.random() < 0.3:
            dt[j:j] = [float(rng.uniform(1, 300))]     # (a long segment in front of it)
            for it in Hc + Hn:
                it[1] = list(it[1][:j]) + [float(it[1][0])] + list(it[1][j:])
        return {'ValueError'}

    def m_cplx(Hc, Hn, dt, kw):
        dt[int(rng.integers(0, len(dt)))] = 1j
        return {'ValueError'}

    def m_scalar(Hc, Hn, dt, kw):
        kw['dt'] = 1.0
        return {'TypeError'}

    def m_coeff_len(Hc, Hn, dt, kw):
        it = which(Hc if rng.random() < .5 else Hn)
        it[1] = list(it[1]) + [1.0] if rng.random() < .5 else list(it[1])[:-1]
        return {'ValueError'}

    def m_nonsquare(Hc, Hn, dt, kw):
        it = which(Hc if rng.random() < .5 else Hn)
        it[0] = it[0][:, :-1]
        return {'ValueError'}

    def m_rowvectors(Hc, Hn, dt, kw):
        # d row vectors of length d (or d 1-d arrays): the stack is square, no operator is
        H = Hc if rng.random() < .5 else Hn
        d = H[0][0].shape[0]
        shape = (1, d) if rng.random() < .5 else (d,)
        H[:] = [[rng.standard_normal(shape), list(H[0][1]), f'R{i}'] for i in range(d)]
        return {'ValueError'}

    def m_dim(Hc, Hn, dt, kw):
        H = Hc if rng.random() < .5 else Hn
        d = H[0][0].shape[0]
        for it in (H if rng.random() < .5 else [which(H)]):
            it[0] = gens.rand_herm(rng, d + 1, True)
        return {'ValueError'}

    def m_dup(Hc, Hn, dt, kw):
        H = Hc if rng.random() < .5 else Hn
        H.append([gens.rand_herm(rng, H[0][0].shape[0], True), list(H[0][1]), H[0][2]])
        return {'ValueError'}

    def m_dup_default(Hc, Hn, dt, kw):
        # an explicit identifier equal to the default label of an entry without identifier
        H, pre = (Hc, 'A') if rng.random() < .5 else (Hn, 'B')
        d = H[0][0].shape[0]
        H[:] = [[gens.rand_herm(rng, d, True), list(H[0][1])] for _ in range(3)]
        i, j = rng.choice(3, 2, replace=False)
        H[int(i)].append(f'{pre}_{int(j)}')
        return {'ValueError'}

    def m_basis_type(Hc, Hn, dt, kw):
        d = Hc[0][0].shape[0]
        kw['basis'] = np.array(ff.Basis.ggm(d))
        return DOC

    def m_basis_dim(Hc, Hn, dt, kw):
        d = Hc[0][0].shape[0]
        kw['basis'] = ff.Basis.ggm(d + 1)
        return {'ValueError'}

    def m_H_notlist(Hc, Hn, dt, kw):
        if rng.random() < .5:
            Hc[:] = [5]
        else:
            Hn[int(rng.integers(0, len(Hn)))] = 'Z'
        return {'TypeError'}

    def m_oper_nested(Hc, Hn, dt, kw):
        it = which(Hc if rng.random() < .5 else Hn)
        it[0] = it[0].tolist()
        return {'TypeError'}

    def m_no_coeff(Hc, Hn, dt, kw):
        it = which(Hc if rng.random() < .5 else Hn)
        del it[1:]
        return DOC

    def m_coeff_scalar(Hc, Hn, dt, kw):
        it = which(Hc if rng.random() < .5 else Hn)
        it[1] = 1.0
        return DOC

    return [(f.__name__[2:], (lambda f=f: build(f))) for f in
            (m_neg, m_cplx, m_scalar, m_coeff_len, m_nonsquare, m_rowvectors, m_dim, m_dup, m_dup_default,
             m_basis_type, m_basis_dim, m_H_notlist, m_oper_nested, m_no_coeff, m_coeff_scalar)]


def corruptions_compose(rng):
    om = np.linspace(0.1, 5, 7)

    def two(d=2, n_dt=None, share=True):
        n_dt = n_dt or int(rng.integers(1, 3))
        A = gens.build(rd(rng, d=d, n_dt=n_dt, n_c=1, n_n=2, features=['const_sens']))
        dB = rd(rng, d=d, n_dt=n_dt, n_c=1, n_n=2, features=['const_sens'])
        if share:
            dB['n_opers'], dB['n_ids'] = A.n_opers.copy(), list(A.n_oper_identifiers)
        return A, gens.build(dB)

    def c_dim():
        A, _ = two(2)
        B = gens.build(rd(rng, d=3, n_dt=2))
        return (lambda: ff.concatenate([A, B])), {'ValueError'}

    def c_basis():
        A, B0 = two(2)
        dB = rd(rng, d=2, n_dt=1, basis=('ggm',))
        k = int(rng.integers(0, 4))
        if k == 0:
            dA = rd(rng, d=2, n_dt=1, basis=('custom', gens.rotated_basis(rng, 2, True), True, 'Custom'))
        else:
            # bases with the same (inherited) label and shape that differ as arrays: elements
            # exchanged, a subset against another subset, a sign flipped
            dB = rd(rng, d=2, n_dt=1, basis=('pauli',))
            how = ['permute', 'swap_last', 'swap2'][k - 1]
            dA = rd(rng, d=2, n_dt=1, basis=('derived', ('pauli',), how, int(rng.integers(0, 2**31))))
            if np.array_equal(np.array(gens.make_basis(dA['basis'], 2)), np.array(ff.Basis.pauli(1))):
                dA['basis'] = ('derived', ('pauli',), 'swap_last', 0)
        return (lambda: ff.concatenate([gens.build(dA), gens.build(dB)])), {'ValueError'}

    def c_two_ids():
        A, B = two(2)
        dB = rd(rng, d=2, n_dt=1, n_c=1, n_n=1)
        dB['n_opers'] = A.n_opers[:1].copy()
        dB['n_ids'] = ['other_name']
        return (lambda: ff.concatenate([A, gens.build(dB)])), {'ValueError'}

    def c_two_ids_signed_zero():
        # the same operator written in two ways that differ only by the sign of zeros, under two
        # identifiers (noise or control)
        Zm = -Z
        Zd = np.diag([-1., 1.]).astype(complex)
        if rng.random() < 0.5:
            A = ff.PulseSequence([[X, [0.3]]], [[Zm, [1.0], 'foo']], [1.0])
            B = ff.PulseSequence([[X, [0.5]]], [[Zd, [1.0], 'bar']], [1.0])
        else:
            A = ff.PulseSequence([[Zm, [0.3], 'foo']], [[X, [1.0]]], [1.0])
            B = ff.PulseSequence([[Zd, [0.5], 'bar']], [[X, [1.0]]], [1.0])
        return (lambda: ff.concatenate([A, B])), {'ValueError'}

    def c_force_no_omega():
        A, B = two(2)
        return (lambda: ff.concatenate([A, B], calc_filter_function=True)), {'ValueError'}

    def c_pc_no_omega():
        A, B = two(2)
        return (lambda: ff.concatenate([A, B], calc_pulse_correlation_FF=True)), {'ValueError'}

    def c_not_pulse():
        A, B = two(2)
        return (lambda: ff.concatenate([A, 5, B])), {'TypeError'}

    def c_nonconst():
        # an operator missing in one pulse, with non-constant sensitivity in the other: cannot be inferred
        dA = rd(rng, d=2, n_dt=2, n_c=1, n_n=2)
        dA['n_coeffs'][1] = [1.0, 2.0]
        dB = rd(rng, d=2, n_dt=2, n_c=1, n_n=1)
        dB['n_opers'], dB['n_ids'] = dA['n_opers'][:1].copy(), dA['n_ids'][:1]
        A, B = gens.build(dA), gens.build(dB)
        return (lambda: ff.concatenate([A, B])), {'ValueError'}

    def c_nonconst_small():
        # the same, with sensitivities that differ by little in absolute or relative terms
        lo, hi = [(1e-9, 5e-9), (1.0, 1.000005), (3e-7, 3.00002e-7)][int(rng.integers(0, 3))]
        dA = rd(rng, d=2, n_dt=2, n_c=1, n_n=2)
        dA['n_coeffs'][1] = [lo, hi]
        dB = rd(rng, d=2, n_dt=2, n_c=1, n_n=1)
        dB['n_opers'], dB['n_ids'] = dA['n_opers'][:1].copy(), dA['n_ids'][:1]
        A, B = gens.build(dA), gens.build(dB)
        return (lambda: ff.concatenate([A, B])), {'ValueError'}

    def one(n_dt=2):
        return gens.build(rd(rng, d=2, n_dt=n_dt, n_c=1, n_n=1))

    def e_clash():
        A, B = one(), one()
        q = int(rng.integers(0, 3))
        return (lambda: ff.extend([(A, q), (B, q)], N=3)), {'ValueError'}

    def e_dt():
        A, B = one(2), one(2)
        return (lambda: ff.extend([(A, 0), (B, 1)])), {'ValueError'}   # random unequal durations

    def e_dim():
        A = one()
        return (lambda: ff.extend([(A, (0, 1))])), {'ValueError'}

    def e_small_N():
        A = one()
        return (lambda: ff.extend([(A, 2)], N=2)), {'ValueError'}

    def e_dup_add():
        A = one()
        H = [[np.kron(Z, Z), [1.0]*len(A.dt), 'ZZ'], [np.kron(X, X), [1.0]*len(A.dt), 'ZZ']]
        return (lambda: ff.extend([(A, 0)], N=2, additional_noise_Hamiltonian=H)), {'ValueError'}

    def e_add_clash():
        A = one()
        H = [[np.kron(Z, Z), [1.0]*len(A.dt), A.n_oper_identifiers[0] + '_0']]
        return (lambda: ff.extend([(A, 0)], N=2, additional_noise_Hamiltonian=H)), {'ValueError'}

    def e_map_clash():
        # identifier mappings that send two operators (of different pulses, or of one pulse) to one
        # name; the same call with an injective mapping is accepted (checked first, so that the
        # rejection cannot be for another reason)
        dA = rd(rng, d=2, n_dt=2, n_c=2, n_n=2)
        dB = rd(rng, d=2, n_dt=2, n_c=2, n_n=2)
        dB['dt'] = dA['dt']
        A, B = gens.build(dA), gens.build(dB)
        ids = lambda P: list(P.c_oper_identifiers) + list(P.n_oper_identifiers)   # noqa
        ma = {i: i + '_a' for i in ids(A)}
        mb = {i: i + '_b' for i in ids(B)}
        k = int(rng.integers(0, 4))
        if k < 2:
            ff.extend([(A, 0, ma), (B, 1, mb)])
            key = 'n_oper_identifiers' if k == 0 else 'c_oper_identifiers'
            mb[getattr(B, key)[int(rng.integers(0, 2))]] = ma[getattr(A, key)[int(rng.integers(0, 2))]]
            return (lambda: ff.extend([(A, 0, ma), (B, 1, mb)])), {'ValueError'}
        ff.remap(A, [0], oper_identifier_mapping=ma)
        key = 'n_oper_identifiers' if k == 2 else 'c_oper_identifiers'
        ma[getattr(A, key)[0]] = ma[getattr(A, key)[1]]
        if rng.random() < 0.5:
            return (lambda: ff.remap(A, [0], oper_identifier_mapping=ma)), {'ValueError'}
        return (lambda: ff.extend([(A, 0, ma), (B, 1, mb)])), {'ValueError'}

    def e_ff_no_omega():
        A = one()
        return (lambda: ff.extend([(A, 0)], N=2, cache_filter_function=True)), {'ValueError'}

    def s_shape():
        A = one()
        k = int(rng.integers(0, 3))
        S = [np.ones((1, 1, 1, len(om))), np.ones((2, len(om))), np.ones(len(om) + 1)][k]
        fn = [ff.infidelity, numeric.calculate_decay_amplitudes, numeric.calculate_cumulant_function][
            int(rng.integers(0, 3))]
        return (lambda: fn(A, S, om)), {'ValueError'}

    def s_nonherm():
        dA = rd(rng, d=2, n_dt=2, n_c=1, n_n=2)
        A = gens.build(dA)
        S = np.ones((2, 2, len(om)), dtype=complex)
        S[0, 1] += 1j
        S[1, 0] += 1j
        return (lambda: ff.infidelity(A, S, om)), {'ValueError'}

    def i_unknown():
        A = one()
        k = int(rng.integers(0, 4))
        return [(lambda: ff.infidelity(A, 1/om, om, n_oper_identifiers=['nope'])),
                (lambda: A.get_filter_function_derivative(om, control_identifiers=['nope'])),
                (lambda: numeric.calculate_decay_amplitudes(A, 1/om, om, n_oper_identifiers=['nope'])),
                (lambda: numeric.calculate_cumulant_function(A, 1/om, om, n_oper_identifiers=['nope']))
                ][k], {'ValueError'}

    def o_unknown():
        A = one()
        k = int(rng.integers(0, 5))
        return [(lambda: ff.infidelity(A, 1/om, om, which='nope')),
                (lambda: A.get_filter_function(om, which='nope')),
                (lambda: A.cleanup('nope')),
                (lambda: A.get_filter_function(om, order=3)),
                (lambda: util.get_sample_frequencies(A, spacing='nope'))][k], {'ValueError'}

    def pc_not_computed():
        A, B = two(2)
        C = ff.concatenate([A, B], omega=om)
        k = int(rng.integers(0, 4))
        return [(lambda: C.get_pulse_correlation_filter_function()),
                (lambda: C.get_pulse_correlation_control_matrix()),
                (lambda: ff.infidelity(C, 1/om, om, which='correlations')),
                (lambda: numeric.calculate_decay_amplitudes(C, 1/om, om, which='correlations'))
                ][k], {'CalculationError'}

    def pc_other_freq():
        A, B = two(2)
        C = ff.concatenate([A, B], omega=om, calc_pulse_correlation_FF=True, which='generalized')
        om2 = om*1.5
        k = int(rng.integers(0, 2))
        return [(lambda: ff.infidelity(C, 1/om2, om2, which='correlations')),
                (lambda: numeric.calculate_decay_amplitudes(C, 1/om2, om2, which='correlations'))
                ][k], {'ValueError'}

    def pc_after_other_request():
        # pulse-correlation data computed at om, then another request moves the object to a grid of
        # the same length (or the frequency-dependent caches are dropped): the pulse-correlation
        # quantities at the new grid were never computed
        A, B = two(2)
        C = ff.concatenate([A, B], omega=om, calc_pulse_correlation_FF=True,
                           which=['fidelity', 'generalized'][int(rng.integers(0, 2))])
        om2 = om*1.5
        j = int(rng.integers(0, 4))
        if j == 0:
            C.get_filter_function(om2)
        elif j == 1:
            C.get_control_matrix(om2)
        elif j == 2:
            C.get_total_phases(om2)
        else:
            C.cleanup('frequency dependent')
        k = int(rng.integers(0, 3))
        return [(lambda: ff.infidelity(C, 1/om2, om2, which='correlations')),
                (lambda: numeric.calculate_decay_amplitudes(C, 1/om2, om2, which='correlations')),
                (lambda: C.get_pulse_correlation_filter_function())
                ][k], {'CalculationError'}

    def slice_empty():
        A = one(3)
        a = int(rng.integers(0, 6))
        b = int(rng.integers(0, a + 1)) if a < 3 else int(rng.integers(0, 8))
        return (lambda: A[a:b]), {'IndexError'}

    def deriv_shape():
        A = gens.build(rd(rng, d=2, n_dt=3, n_c=2, n_n=2))
        shp = [(2, 2, 2), (2, 3), (1, 2, 3), (2, 2, 3, 1)][int(rng.integers(0, 4))]
        return (lambda: A.get_filter_function_derivative(om, n_coeffs_deriv=np.ones(shp))), {'ValueError'}

    return [(f.__name__, f) for f in
            (c_dim, c_basis, c_two_ids, c_two_ids_signed_zero, c_force_no_omega, c_pc_no_omega, c_not_pulse, c_nonconst, c_nonconst_small,
             e_clash, e_dt, e_dim, e_small_N, e_dup_add, e_add_clash, e_map_clash, e_ff_no_omega, s_shape, s_nonherm,
             i_unknown, o_unknown, pc_not_computed, pc_other_freq, pc_after_other_request, slice_empty,
             deriv_shape)]


def valid_calls(rng):
    """valid inputs that must be accepted"""
    om = np.linspace(0.1, 5, 6)

    def v_ctor():
        Hc, Hn, dt = valid_pulse_args(rng)
        k = int(rng.integers(0, 5))
        if k == 0:     # identifiers partly omitted, none clashing
            Hc[0] = Hc[0][:2]
        elif k == 1:   # integer durations and coefficients
            dt = [int(1 + i) for i in range(len(dt))]
            Hn[0][1] = [1]*len(dt)
        elif k == 2:   # zero-length segment, tuple containers
            dt[0] = 0.0
            Hc = tuple(tuple(it) for it in Hc)
        elif k == 3:   # arrays instead of lists
            dt = np.array(dt)
            Hn[0][1] = np.array(Hn[0][1])
        return (lambda: ff.PulseSequence(Hc, Hn, dt)), f'ctor:{k}'

    def v_extend_int_dt():
        # the same time grid written with integers / floats
        n = int(rng.integers(1, 4))
        dti = [int(x) for x in rng.integers(1, 4, n)]
        A = ff.PulseSequence([[X, [1.]*n]], [[Z, [1.]*n]], dti)
        B = ff.PulseSequence([[Y, [1.]*n]], [[Z, [1.]*n]], [float(x) for x in dti])
        return (lambda: ff.extend([(A, 0), (B, 1)])), 'extend:int_vs_float_dt'

    def v_extend():
        n = int(rng.integers(1, 3))
        dt = list(rng.uniform(0.1, 1, n))
        A = ff.PulseSequence([[X, list(rng.uniform(-1, 1, n))]], [[Z, [1.]*n]], dt)
        B = ff.PulseSequence([[np.kron(X, Y), list(rng.uniform(-1, 1, n))]],
                             [[np.kron(Z, Z), [1.]*n]], dt)
        qs = [int(q) for q in rng.permutation(4)[:3]]
        k = int(rng.integers(0, 3))
        kw = [dict(), dict(N=5), dict(cache_filter_function=True, omega=om)][k]
        return (lambda: ff.extend([(A, qs[0]), (B, (qs[1], qs[2]))], **kw)), f'extend:{k}'

    def v_remap_d6():
        d = 36
        A = np.diag(np.arange(float(d)))
        p = ff.PulseSequence([[A, [1.]]], [[A, [1.]]], [1.], basis=ff.Basis([np.eye(d)/np.sqrt(d)]))
        return (lambda: ff.remap(p, (1, 0), d_per_qubit=6)), 'remap:d_per_qubit=6,N=2'

    def v_remap_d216():
        d = 216
        A = np.diag(np.arange(float(d)))
        p = ff.PulseSequence([[A, [1.]]], [[A, [1.]]], [1.], basis=ff.Basis([np.eye(d)/np.sqrt(d)]))
        return (lambda: ff.remap(p, (1, 0, 2), d_per_qubit=6)), 'remap:d_per_qubit=6,N=3'

    def v_concat():
        n = int(rng.integers(2, 4))
        ps = []
        d0 = rd(rng, d=2, n_dt=1, n_c=1, n_n=2, features=['const_sens'])
        for i in range(n):
            di = rd(rng, d=2, n_dt=int(rng.integers(1, 3)), n_c=1, n_n=2, features=['const_sens'])
            di['n_opers'], di['n_ids'] = d0['n_opers'], d0['n_ids']
            ps.append(gens.build(di))
        k = int(rng.integers(0, 4))
        kw = [dict(), dict(omega=om), dict(omega=om, calc_pulse_correlation_FF=True),
              dict(calc_filter_function=False)][k]
        return (lambda: ff.concatenate(ps, **kw)), f'concat:{k}'

    def v_concat_signed_zero():
        # one noise operator, written in two ways that differ only by the sign of zeros, under one
        # identifier and with time-dependent sensitivities: the same operator
        Zm = -Z
        Zd = np.diag([-1., 1.]).astype(complex)
        A = ff.PulseSequence([[X, [0.3, 0.1]]], [[Zm, [1.0, 2.0], 'foo']], [1.0, 0.5])
        B = ff.PulseSequence([[Y, [0.5, 0.2]]], [[Zd, [0.5, 1.5], 'foo']], [1.0, 0.7])
        return (lambda: ff.concatenate([A, B])), 'concat:signed_zero_operator'

    def v_concat_int_omega():
        q1 = ff.PulseSequence([[X, [1.]]], [[Z, [1.]]], [1.])
        q2 = ff.PulseSequence([[Y, [1.]]], [[Z, [1.]]], [1.])
        q1.cache_filter_function(np.array([1, 2, 3]))
        q2.cache_filter_function(np.array([1., 2., 3.]))
        return (lambda: ff.concatenate([q1, q2], calc_filter_function=True)), 'concat:int_vs_float_omega'

    def v_spectrum():
        A = gens.build(rd(rng, d=2, n_dt=2, n_c=1, n_n=2))
        k = int(rng.integers(0, 3))
        S = [1/om, np.array([1/om, 2/om]), None][k]
        if S is None:
            S = np.zeros((2, 2, len(om)), dtype=complex)
            S[0, 0], S[1, 1] = 1/om, 2/om
            S[0, 1] = (0.3 + 0.2j)/om
            S[1, 0] = S[0, 1].conj()
        fn = [ff.infidelity, numeric.calculate_decay_amplitudes, numeric.calculate_cumulant_function,
              ff.error_transfer_matrix][int(rng.integers(0, 4))]
        return (lambda: fn(A, S, om)), f'spectrum:{k}:{fn.__name__}'

    def v_slice():
        A = gens.build(rd(rng, d=2, n_dt=4, n_c=1, n_n=1))
        a = int(rng.integers(0, 4))
        b = int(rng.integers(a + 1, 5))
        return (lambda: A[a:b]), 'slice'

    def v_basis():
        k = int(rng.integers(0, 4))
        d = int(rng.integers(2, 4))
        return [(lambda: ff.Basis.from_partial([gens.rand_herm(rng, d, True)])),
                (lambda: ff.Basis(list(ff.Basis.ggm(d)))),
                (lambda: ff.Basis.from_partial(list(ff.Basis.ggm(d))[:3], traceless=False)),
                (lambda: ff.Basis([gens.rand_herm(rng, d, False)], labels=['a']))][k], f'basis:{k}'

    return [v_ctor, v_extend_int_dt, v_extend, v_remap_d6, v_remap_d216, v_concat, v_concat_signed_zero, v_concat_int_omega,
            v_spectrum, v_slice, v_basis]


def run_case(ctx, kind, name, seed):
    rng = np.random.Generator(np.random.PCG64(seed))
    warnings.simplefilter('ignore')
    if kind == 'corrupt':
        table = dict(corruptions_ctor(rng) + corruptions_compose(rng))
        f, exp = table[name]()
        k, v = cls(f)
        ctx.count((kind, name, seed))
        ctx.stat(f'corrupt:{name}')
        if k == 'ok':
            ctx.fail('corrupted_input_rejected', {'kind': kind, 'name': name, 'seed': seed}, 'accepted',
                     sorted(exp), {'corruption': name, 'outcome': 'accepted'},
                     f'corrupted input ({name}) was accepted instead of raising {sorted(exp)}')
        elif v not in exp:
            ctx.fail('corrupted_input_rejected', {'kind': kind, 'name': name, 'seed': seed}, v,
                     sorted(exp), {'corruption': name, 'outcome': v},
                     f'corrupted input ({name}) raised {v}, documented: {sorted(exp)}')
    else:
        fn = {f.__name__: f for f in valid_calls(rng)}[name]
        f, tag = fn()
        k, v = cls(f)
        ctx.count((kind, name, seed))
        ctx.stat(f'valid:{name}')
        if k != 'ok':
            ctx.fail('valid_input_accepted', {'kind': kind, 'name': name, 'seed': seed}, v, 'accepted',
                     {'valid_case': tag}, f'valid input ({tag}) was rejected with {v}')


def replay(ctx, check, case):
    run_case(ctx, case['kind'], case['name'], int(case['seed']))


def search(ctx, deep=False):
    rng = ctx.rng('deep' if deep else 'search')
    reps = {('quick', False): 6, ('quick', True): 30, ('thorough', False): 60,
            ('thorough', True): 150}[(ctx.tier, deep)]
    r0 = np.random.Generator(np.random.PCG64(0))
    names_c = [n for n, _ in corruptions_ctor(r0) + corruptions_compose(r0)]
    names_v = [f.__name__ for f in valid_calls(r0)]
    for rep in range(reps):
        for n in names_c:
            run_case(ctx, 'corrupt', n, int(rng.integers(0, 2**31)))
        for n in names_v:
            if n == 'v_remap_d216' and rep >= 2:
                continue
            run_case(ctx, 'valid', n, int(rng.integers(0, 2**31)))
