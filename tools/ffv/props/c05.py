"""C05 — extension to a qubit register equals the tensor-product pulse computed afresh."""
import itertools

import numpy as np

import filter_functions as ff
from filter_functions import basis as ffb
from filter_functions import util

from .. import gens
from ..common import corr_script, driver

THEOREMS = '''cross_block_nonzero equivalentPauli_first equivalentPauli_second
equivalentPauli_three_qubits equivalentPauli_two_qubits extend_control_matrix
extend_control_matrix_model extend_control_matrix_model_trace extend_control_matrix_prod
extend_control_matrix_right extend_filter_function_blocks extend_filter_function_model
extend_propagators extend_segIntegrand finProd_first_val finProd_second_val kronBasisFin_apply
kronBasis_isComplete kronBasis_isOrthoHerm kron_isEigh kron_isEigh_prod kron_liouville
kron_propagators kron_propagators_model kron_segProp kron_segProp_of_isEigh
kron_total_propagator_model pauliN_ortho_zero pauliN_zero tensorMat_toMatrix tensorSumVec_eq
trace_basis_sqrt trace_kronFin_conj trace_kron_basis'''.split() + [
    # module C06Def: the definition part of extend (identifier mappings, operator placement, additional
    # noise Hamiltonian by identifier, times, rejections)
    'FFVerif.C06Def.extendDef_sorted',
    'FFVerif.C06Def.extendDef_keeps_association',
    'FFVerif.C06Def.extendDef_term_mem',
    'FFVerif.C06Def.extendDef_operator_placement',
    'FFVerif.C06Def.extendDef_single_placement',
    'FFVerif.C06Def.extendDef_default_identifier',
    'FFVerif.C06Def.extendDef_given_identifier',
    'FFVerif.C06Def.extendDef_times',
    'FFVerif.C06Def.extendDef_additional_by_identifier',
    'FFVerif.C06Def.extendDef_additional_order_irrelevant',
    'FFVerif.C06Def.extendDef_errors_iff',
    'FFVerif.C06Def.nDtOf_eq',
    'FFVerif.C06Def.extendDef_shortcut',
    'FFVerif.C06Def.extend_duplicates_rejected',
    'FFVerif.C06Def.extendDef_ids_unique',
    'FFVerif.C06Def.mapIdentifiers_spec'] + ['FFVerif.C05d.' + t for t in '''
ff_grid_sound ff_grid_iff cached_iff_grid forced_ff_never_silently_skipped disabled_ff_never_cached
auto_ff_iff auto_no_omega_error extended_requires_pauli extended_iff recomputed_iff diag_wanted_iff
diag_iff diag_cached_iff additional_rows addRows_iff error_iff no_other_errors early_return_nothing
returned_iff input_side_effects inputs_untouched_of_not_pauli remap_keeps_diag remap_cm_iff
remap_omega_iff remap_lazy_iff remap_not_pauli_blocks_auto'''.split()] + [
    'FFVerif.C05e.' + t for t in '''bisect_sorted insort_strict bisect_le_length first_step merge_step
insert_step insert_keeps_chain_eq_registers length_mismatch extend_registers_sorted
unsorted_block_counterexamples positions_before_merge slips_counterexamples
idle_order_irrelevant'''.split()]
LEAN_MODULES = ['FFVerif.Props.C05', 'FFVerif.Props.C05d', 'FFVerif.Props.C05e', 'FFVerif.Props.C06Def',
                'FFVerif.Props.C05Nfold', 'FFVerif.Props.C05NfoldAsm']
# modules C05Nfold / C05NfoldAsm (model ExtendAsm): the n-fold extension rule — any number of pulses on arbitrary
# interleaved ascending qubit tuples plus idle qubits —, all blocks of the filter function, and the assembled arrays of
# extend = the from-scratch quantities of the tensor-product pulse
THEOREMS = THEOREMS + [
    'FFVerif.C05Nfold.piKron_isEigh', 'FFVerif.C05Nfold.piKron_segProp',
    'FFVerif.C05Nfold.piKron_propagators_model', 'FFVerif.C05Nfold.extend_control_matrix_nfold_trace',
    'FFVerif.C05Nfold.extend_control_matrix_nfold', 'FFVerif.C05Nfold.register_data_exist',
    'FFVerif.C05Nfold.extend_filter_function_nfold', 'FFVerif.C05Nfold.extend_filter_function_nfold_model',
    'FFVerif.C05Nfold.scaling_factor_eq', 'FFVerif.C05Nfold.extendRow_eq_from_scratch',
    'FFVerif.C05Nfold.layout_card', 'FFVerif.C05Nfold.extendRow_eq_from_scratch_layout',
    'FFVerif.C05Nfold.cm_row_congr', 'FFVerif.C05Nfold.extendControlMatrix_eq_from_scratch',
    'FFVerif.C05Nfold.extendFilterFunction_eq_from_scratch', 'FFVerif.RegLayout.pauliBasis_regEquiv',
    'FFVerif.RegLayout.equivalentPauli_regEquiv']
PINS = ['pinExtend', 'pinRemap', 'pinMergeAttrs', 'pinInsertAttrs', 'pinDefaultExtendMapping',
        'pinMapIdentifiers']
GEN_SITES = ['einsum:numeric_calculate_filter_function_0',
             'einsum:numeric_calculate_control_matrix_from_scratch_0']
COMPONENTS = ['pauli_equiv', 'extend_decision', 'extend_registers']
RULES = ['correspondence: equivalent_pauli_basis_elements vs the Lean index map for all subsets, '
         'N <= 4 (the extension rules are theorems about the control-matrix model of C01); search: '
         'extend() on 1..3 single- and two-qubit pulses mapped to distinct, possibly '
         'non-neighbouring / permuted qubits of registers with idle qubits, traceless and '
         'non-traceless noise operators, additional noise Hamiltonians overlapping or not, '
         'identifier mappings, every cache state of the inputs x every value of '
         'cache_diagonalization / cache_filter_function, Pauli and non-Pauli bases: operators, '
         'eigenvalues, eigenvectors (via H V = V D), propagators, total propagator, control matrix '
         'and the full matrix of filter functions vs the tensor-product pulse built directly; '
         'distinct = (mapping, cache states, options) hash']
ASSUMPTIONS = ['n-fold extension is proved for the binary split (one pulse vs the rest)']
TRUSTED = ['modelled not verified: the qubit-list parsing of extend and _merge_attrs / '
           '_insert_attrs (covered by search)']


def decision_correspondence(ctx):
    """what `extend` / `remap` compute or carry over (diagonalisation, control matrix / filter function,
    on which grid, extended or recomputed, rows of the additional noise operators, side effects on
    the inputs, exception classes) vs the Lean model `ExtendLogic`: abstract inputs are realised by
    real pulses, the real functions run under counting wrappers"""
    from . import extendlogic
    n, counts, mism = extendlogic.run(300 if ctx.tier == 'quick' else 5000,
                                      int(ctx.rng('decision').integers(0, 2**31)))
    for k, v in counts.items():
        ctx.stat('decision ' + k, v)
    for _ in range(n):
        ctx.count()
    ctx.oblige('correspondence:extend_decision', 'correspondence', not mism,
               f'{len(mism)} of {n} decisions disagree; first: {mism[:2]}')


def registers_correspondence(ctx):
    """the real `_merge_attrs` / `_insert_attrs` called in the order of `extend` on Kronecker products
    of distinguishable factors (the position of every factor is read off the result) vs the Lean
    model `Registers`; plus the real `extend` vs an independent embedding reference"""
    import os
    import re
    import subprocess
    import sys
    from ..common import VERIF
    k = (150, 150, 10) if ctx.tier == 'quick' else (3000, 3000, 150)
    out = subprocess.run([sys.executable, os.path.join(VERIF, 'tools', 'xcheck_registers.py'),
                          *map(str, k), str(int(ctx.rng('registers').integers(1, 2**31)))],
                         capture_output=True, text=True, timeout=3000)
    line = [ln for ln in out.stdout.splitlines() if ln.startswith('xcheck_registers:')]
    m = re.search(r'(\d+) driver requests.*mismatches: driver (\d+), extend (\d+)', line[-1]) if line else None
    ok = out.returncode == 0 and m is not None and m.group(2) == '0' and m.group(3) == '0'
    if m:
        ctx.stat('register_requests', int(m.group(1)))
        for _ in range(int(m.group(1))):
            ctx.count()
    ctx.oblige('correspondence:extend_registers', 'correspondence', ok,
               (line[-1] if line else '') + ' ' + out.stdout[-600:] + out.stderr[-300:] if not ok else
               (line[-1] if line else ''))


def correspondence(ctx):
    decision_correspondence(ctx)
    registers_correspondence(ctx)
    # definition part of extend on real pulses vs the model RemapDef (identifiers, which operator and
    # which coefficient row sits under each identifier, additional noise Hamiltonian, dt / t / tau,
    # error classes)
    corr_script(ctx, 'corr_c06def', ['extend'])
    # control-matrix / filter-function assembly of extend vs the model ExtendAsm and vs the from-scratch pulse
    corr_script(ctx, 'corr_c05nfold', ['extendasm'])
    lines, refs = [], []
    for N in range(1, 5):
        for k in range(1, N + 1):
            for s in itertools.combinations(range(N), k):
                lines.append('pauli_equiv %d %s' % (N, ','.join(map(str, s))))
                refs.append(list(ffb.equivalent_pauli_basis_elements(list(s), N)))
                ctx.count(lines[-1])
    outs = driver(lines)
    bad = [(ln, o[:40]) for ln, o, r in zip(lines, outs, refs)
           if not (o.startswith('ok ') and [int(t) for t in o[3:].split(',')] == [int(x) for x in r])]
    ctx.oblige('correspondence:pauli_equiv', 'correspondence', not bad, f'{len(bad)} disagree: {bad[:2]}')


def qubit_pulse(rng, nq, traceless_nops, n_dt, dt, tag):
    d = 2**nq
    n_c, n_n = int(rng.integers(1, 3)), int(rng.integers(1, 3))
    cops = [gens.rand_herm(rng, d) for _ in range(n_c)]
    nops = [gens.rand_herm(rng, d, traceless=traceless_nops) for _ in range(n_n)]
    return dict(d=d, c_opers=np.array(cops), c_ids=[f'{tag}C{i}' for i in range(n_c)],
                c_coeffs=rng.standard_normal((n_c, n_dt)), n_opers=np.array(nops),
                n_ids=[f'{tag}N{i}' for i in range(n_n)],
                n_coeffs=rng.uniform(0.3, 1.5, (n_n, n_dt)), dt=dt,
                # sometimes the Pauli basis re-indexed through numpy (the object keeps its label)
                basis=('pauli',) if rng.random() < 0.8 else
                ('derived', ('pauli',), str(rng.choice(['permute', 'swap2', 'swap_last'])),
                 int(rng.integers(0, 2**31))),
                features=['nontraceless_nop'] if not traceless_nops else [])


def embed(op, qubits, N):
    """operator on the listed qubits (in the listed order) embedded into an N-qubit register"""
    k = len(qubits)
    rest = [q for q in range(N) if q not in qubits]
    full = util.tensor(op, np.eye(2**len(rest))) if rest else op
    order_now = list(qubits) + rest           # factor j of `full` sits on qubit order_now[j]
    perm = [order_now.index(q) for q in range(N)]
    return util.tensor_transpose(full, perm, [[2]*N]*2)


def check_extend(ctx, case):
    rng = np.random.default_rng(case['seed'])
    N = int(case['N'])
    assign = case['assign']               # list of qubit tuples, one per pulse
    n_dt = int(case['n_dt'])
    dt = rng.uniform(0.2, 1.2, n_dt)
    om = np.sort(rng.uniform(0.1, 5, 5))
    descs = [qubit_pulse(rng, len(q), bool(case['traceless']), n_dt, dt, f'P{j}')
             for j, q in enumerate(assign)]
    pulses = [gens.build(d) for d in descs]
    for p, st in zip(pulses, case['states']):
        if st == 'diag':
            p.diagonalize()
        elif st == 'cm':
            p.cache_control_matrix(om)
        elif st == 'ff':
            p.cache_filter_function(om)
        elif st == 'ff_other':
            p.cache_filter_function(om[:3]*1.1)
        elif st == 'cm_shift':      # another grid of the SAME length
            p.cache_control_matrix(om*1.07 + 0.03)
        elif st == 'ff_shift':
            p.cache_filter_function(om*1.07 + 0.03)
    add = None
    add_terms = []
    if case['additional']:
        qs = list(rng.choice(N, min(2, N), replace=False))
        A = embed(gens.rand_herm(rng, 2**len(qs), traceless=bool(case['traceless'])), qs, N)
        add = [[A, rng.uniform(0.5, 1.5, n_dt), 'ADD']]
        add_terms = [(A, add[0][1], 'ADD')]
    mapping = [(p, (q[0] if len(q) == 1 else tuple(q))) for p, q in zip(pulses, assign)]
    kw = dict(N=N, omega=om, cache_diagonalization=case['cache_diag'],
              cache_filter_function=case['cache_ff'])
    if case.get('pass_omega') is False:
        # every input carries data on one common grid and no grid is passed: whatever is cached on
        # the result is cached on that common grid
        del kw['omega']
        if case['states'][0].endswith('_shift'):
            om = om*1.07 + 0.03
    if add is not None:
        kw['additional_noise_Hamiltonian'] = add
    feats = {'single_pulse_whole_register_with_additional':
             bool(len(assign) == 1 and sorted(assign[0]) == list(range(N)) and case['additional'])}
    key = (N, tuple(map(tuple, assign)), tuple(case['states']), case['cache_diag'], case['cache_ff'],
           case['additional'], case['traceless'], case['seed'])
    ctx.count(key, nontrivial=len(assign) >= 2 or N > len(assign[0]))
    try:
        ext = ff.extend(mapping, **kw)
    except ValueError as e:
        if 'cache_diagonalization set to False but required' in str(e) and add is not None \
                and case['cache_diag'] is False:
            return      # documented rejection of contradictory options
        ctx.fail('extend_succeeds', case, 'ValueError: ' + str(e), 'a pulse', feats,
                 f'extend raised ValueError: {e} (assign={assign}, N={N})')
        return
    except Exception as e:   # noqa
        ctx.fail('extend_succeeds', case, type(e).__name__ + ': ' + str(e), 'a pulse', feats,
                 f'extend raised {type(e).__name__}: {e} (assign={assign}, N={N})')
        return
    # reference: tensor-product pulse built directly
    c_terms, n_terms = [], []
    for d, q in zip(descs, assign):
        suffix = '_' + ''.join(str(x) for x in q)
        for o, c, i in zip(d['c_opers'], d['c_coeffs'], d['c_ids']):
            c_terms.append((embed(o, list(q), N), c, i + suffix))
        for o, c, i in zip(d['n_opers'], d['n_coeffs'], d['n_ids']):
            n_terms.append((embed(o, list(q), N), c, i + suffix))
    n_terms += add_terms
    ref = ff.PulseSequence([[o, c, i] for o, c, i in c_terms], [[o, c, i] for o, c, i in n_terms],
                           dt, ext.basis)
    probs = []
    Hc = np.einsum('ijk,il->ljk', ext.c_opers, ext.c_coeffs)
    Hr = np.einsum('ijk,il->ljk', ref.c_opers, ref.c_coeffs)
    if not np.allclose(Hc, Hr, atol=1e-12):
        probs.append('control Hamiltonian differs from the tensor-product pulse')
    try:
        idx = [next(j for j, o in enumerate(ext.n_opers) if np.allclose(o, r)) for r in ref.n_opers]
        if len(ext.n_opers) != len(ref.n_opers) or \
                not np.allclose(ext.n_coeffs[idx], ref.n_coeffs, atol=1e-12):
            probs.append('noise Hamiltonian differs')
    except StopIteration:
        probs.append('a noise operator is missing or misplaced')
        idx = None
    if not np.allclose(ext.t, ref.t) or not np.isclose(ext.tau, ref.tau):
        probs.append('times differ')
    if not probs:
        if ext.is_cached('eigvals'):
            V, D = ext.eigvecs, ext.eigvals
            H = np.einsum('ijk,il->ljk', ext.c_opers, ext.c_coeffs)
            res = max(np.max(np.abs(H[g] @ V[g] - V[g]*D[g][None, :])) for g in range(n_dt))
            uni = max(np.max(np.abs(V[g].conj().T @ V[g] - np.eye(2**N))) for g in range(n_dt))
            if res > 1e-9 or uni > 1e-9:
                probs.append(f'cached eigen-decomposition wrong (residual {res:.2g}, unitarity {uni:.2g})')
            if not np.allclose(ext.propagators, ref.propagators, atol=1e-9):
                probs.append('cached propagators differ')
        if ext.is_cached('total_propagator') and \
                not np.allclose(ext.total_propagator, ref.total_propagator, atol=1e-9):
            probs.append('cached total propagator differs')
        if ext.is_cached('control_matrix'):
            e = gens.rel_err(ext.get_control_matrix(om)[idx], ref.get_control_matrix(om))
            if not e <= 1e-8:
                probs.append(f'cached control matrix differs by {e:.3g}')
        if ext.is_cached('filter_function'):
            e = gens.rel_err(ext.get_filter_function(om)[np.ix_(idx, idx)],
                             ref.get_filter_function(om))
            if not e <= 1e-8:
                probs.append(f'cached filter function matrix (incl. cross-correlations) differs by {e:.3g}')
        om2 = om[:4]*0.9
        e = gens.rel_err(ext.get_filter_function(om2)[np.ix_(idx, idx)], ref.get_filter_function(om2))
        if not e <= 1e-8:
            probs.append(f'later requested filter function differs by {e:.3g}')
    if probs:
        ctx.fail('extend_vs_direct', case, probs, 'tensor-product pulse from scratch', feats,
                 f'N={N} assign={assign} states={case["states"]} cache_diag={case["cache_diag"]} '
                 f'cache_ff={case["cache_ff"]}: {probs[:3]}')


def check_nonpauli(ctx, case):
    """bases that cannot be extended: result is recomputed"""
    rng = np.random.default_rng(case['seed'])
    d = qubit_pulse(rng, 1, True, 2, np.array([0.5, 0.7]), 'P')
    d['basis'] = ('ggm',)
    p = gens.build(d)
    om = np.linspace(0.1, 3, 5)
    p.cache_filter_function(om)
    ext = ff.extend([(p, 1)], N=2, omega=om, cache_filter_function=True)
    ref = ff.PulseSequence([[embed(o, [1], 2), c, i + '_1'] for o, c, i in
                            zip(d['c_opers'], d['c_coeffs'], d['c_ids'])],
                           [[embed(o, [1], 2), c, i + '_1'] for o, c, i in
                            zip(d['n_opers'], d['n_coeffs'], d['n_ids'])], d['dt'], ext.basis)
    ctx.count(('np', case['seed']))
    e = gens.rel_err(ext.get_filter_function(om), ref.get_filter_function(om))
    if not e <= 1e-8:
        ctx.fail('extend_vs_direct', case, e, 0, {}, f'non-extendable basis: filter function differs by {e:.3g}')


CHECKS = {'extend_succeeds': check_extend, 'extend_vs_direct': check_extend}


def replay(ctx, check, case):
    if 'assign' in case:
        check_extend(ctx, case)
    else:
        check_nonpauli(ctx, case)


def assignments(N, max_pulses=3):
    out = []
    qubits = list(range(N))
    for npl in range(1, min(max_pulses, N) + 1):
        for sizes in itertools.product((1, 2, 3), repeat=npl):
            if sum(sizes) > N:
                continue
            for perm in itertools.permutations(qubits, sum(sizes)):
                a, k = [], 0
                for s in sizes:
                    a.append(tuple(perm[k:k + s]))
                    k += s
                out.append(a)
    return out


def search(ctx, deep=False):
    rng = ctx.rng('deep' if deep else 'search')
    n = {('quick', False): 24, ('quick', True): 150, ('thorough', False): 400,
         ('thorough', True): 1200}[(ctx.tier, deep)]
    pool = {N: assignments(N) for N in (1, 2, 3)}
    if ctx.tier == 'thorough' or deep:
        pool[4] = assignments(4, 2)
    # multi-qubit pulses on three qubits in every order (cyclic orders are the only permutations
    # that differ from their inverse) are always part of the run
    three = [a for a in pool[3] if len(a[0]) == 3]
    if ctx.tier == 'thorough' or deep:
        three += [a for a in pool[4] if any(len(q) == 3 for q in a)]
    # five-qubit registers: two multi-qubit pulses interleaved with a single-qubit pulse or an idle
    # qubit (the bookkeeping of the already merged registers is consulted again only then)
    five = [[(0, 1), (2, 4), (3,)], [(3, 4), (2, 0), (1,)], [(0, 4), (1, 3)], [(1, 2), (0, 4), (3,)],
            [(0, 2), (1, 4), (3,)], [(4, 1), (3, 0)]]
    k5 = 2 if ctx.tier == 'quick' and not deep else len(five)
    for a in [five[int(j)] for j in rng.choice(len(five), k5, replace=False)]:
        check_extend(ctx, {'seed': int(rng.integers(0, 2**31)), 'N': 5, 'assign': [list(q) for q in a],
                           'n_dt': 1, 'states': [str(rng.choice(['nothing', 'diag', 'ff'])) for _ in a],
                           'cache_diag': True, 'cache_ff': [None, True][int(rng.integers(0, 2))],
                           'additional': bool(rng.integers(0, 2)), 'traceless': True})
    for i in range(n):
        if i < len(three) and (ctx.tier == 'thorough' or deep or i < 6):
            a = three[i]
            N = 1 + max(q for qs in a for q in qs)
        else:
            N = int(rng.choice(list(pool)))
            a = pool[N][int(rng.integers(0, len(pool[N])))]
        case = {'seed': int(rng.integers(0, 2**31)), 'N': N, 'assign': [list(q) for q in a],
                'n_dt': int(rng.integers(1, 4)),
                'states': [str(rng.choice(['nothing', 'diag', 'cm', 'ff', 'ff_other'])) for _ in a],
                'cache_diag': [None, True, False][int(rng.integers(0, 3))],
                'cache_ff': [None, True, False][int(rng.integers(0, 3))],
                'additional': bool(rng.random() < 0.4), 'traceless': bool(rng.random() < 0.5)}
        if i % 3 == 2:
            # all inputs in one and the same cache state (a common grid, possibly not the requested
            # one but of the same length), with and without a grid passed to extend
            st = str(rng.choice(['cm', 'ff', 'cm_shift', 'ff_shift', 'cm_shift']))
            case['states'] = [st for _ in a]
            case['cache_ff'] = [True, True, None][int(rng.integers(0, 3))]
            case['pass_omega'] = bool(rng.random() < 0.7)
        check_extend(ctx, case)
        if i % 8 == 0:
            check_nonpauli(ctx, {'seed': int(rng.integers(0, 2**31))})
        if i < 2:
            ctx.sample(case)
