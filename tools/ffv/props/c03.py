"""C03 — concatenation reproduces the from-scratch result of the sequenced pulse."""
import random

import numpy as np

import filter_functions as ff
from filter_functions import numeric, util
from filter_functions.pulse_sequence import (_concatenate_Hamiltonian,
                                             concatenate_without_filter_function)

from .. import gens
from ..common import arr2bits, bits2arr, corr_script, driver
from .c17 import rand_pulse, run
from .pulsecodec import ham_s, mapping_s, mk, norm_concat, of_ps, opid, pulse_s

THEOREMS_A = '''concat_error_is_valueError concat_errors_iff concat_sorted concat_ops_unique
concat_row_ids concat_ids_unique concat_ids_unique_general concat_row_length concat_places_coeffs
concat_mapping_keys concat_absent_control_zero concat_absent_noise_constant
concat_order_of_unique_irrelevant concat_dt_is_append concat_basis_mismatch'''.split()
THEOREMS_C = '''fromAtomicCorr_entries fromAtomic_entries fromAtomic_eq_sum_corr shifted_pulse_cm
corr_entry_eq_shifted_pulse fromAtomicCorr_cons fromAtomic_cons cm_append_vec cm_append cm_empty
cm_shift atomic_head atomic_tail concat_cm_eq_from_scratch concat_corr_eq_from_scratch
concat_cm_eq_from_scratch_castReal pc_ff_entries pc_ff_gen_entries pc_call_wiring pc_sums_to_total
pc_gen_sums_to_total pc_sums_to_total_fromAtomic fromAtomic_nil fromAtomic_one fromAtomic_two
fromAtomic_three concat_assoc periodic_eq_from_atomic periodic_eq_from_atomic_replicate
periodic_code_eq_from_atomic concat2_cm_eq_from_scratch pc_sums_to_from_scratch cm_concat2
cm_concat2_assoc concat_regroup_left concat_regroup_right periodic_eq_from_scratch'''.split()
THEOREMS_D = '''decision_grid_sound forced_never_silently_skipped single_pulse_copied_iff
disabled_never_computed auto_iff auto_iff_of_flag auto_error_iff atomic_requires atomic_pc_flag tp_set_iff tp_after_iff
error_iff error_small no_other_errors'''.split()
THEOREMS = ['FFVerif.C03a.' + t for t in THEOREMS_A] + ['FFVerif.C03c.' + t for t in THEOREMS_C] \
    + ['FFVerif.C03d.' + t for t in THEOREMS_D]
LEAN_MODULES = ['FFVerif.Props.C03a', 'FFVerif.Props.C03c', 'FFVerif.Props.C03d', 'FFVerif.Props.C04Tile',
                'FFVerif.Props.C04TileUnique']
# module C04TileUnique: concatenation = from scratch for an arbitrary own eigh output of the sequenced pulse
THEOREMS = THEOREMS + [
    'FFVerif.C04Tile.ofDiag_cm_eigh_independent', "FFVerif.C04Tile.concat_cm_eq_diag_from_scratch'", 'FFVerif.C01.cm_eigh_independent']
# module C04Tile: Hamiltonian, times, propagators and total (Liouville) propagator of the sequenced pulse =
# ordered product of the inputs' (what concatenate stores), for any number of pulses
THEOREMS = THEOREMS + [
    'FFVerif.C04Tile.hamiltonian_append', 'FFVerif.C04Tile.hamiltonian_concat_segment', 'FFVerif.C04Tile.propagators_append',
    'FFVerif.C04Tile.total_propagator_append', 'FFVerif.C04Tile.concatTotalPropagator_pair', 'FFVerif.C04Tile.propagators_concat',
    'FFVerif.C04Tile.total_propagator_concat', 'FFVerif.C04Tile.concatTotalPropagator_eq_from_scratch', 'FFVerif.C04Tile.cumL_eq_liouville_prodTotal',
    'FFVerif.C04Tile.concatL_eq_liouville_from_scratch', 'FFVerif.C04Tile.times_concat', 'FFVerif.C04Tile.tau_concat',
    'FFVerif.C04Tile.isDiag_concat2', 'FFVerif.C04Tile.isDiag_concatSeq', 'FFVerif.C04Tile.concatSeq_Qtot',
    'FFVerif.C04Tile.concatTotalPropagator_eq_concatSeq', 'FFVerif.C04Tile.concatSeq_tau', 'FFVerif.C04Tile.concat2_segments',
    'FFVerif.C04Tile.concat_cm_eq_diag_from_scratch', 'FFVerif.TileAux.mdot_toMatrix', 'FFVerif.TileAux.concatTau_eq_sum',
    'FFVerif.TileAux.propagators_block', 'FFVerif.TileAux.times_block']
PINS = ['pinConcatenate', 'pinConcatenateWithoutFF', 'pinControlMatrixFromAtomic',
        'pinBasisArrayFinalize', 'pinHashArray', 'pinConcatenateHamiltonian']
GEN_SITES = ['einsum:numeric_calculate_control_matrix_from_atomic_0',
             'einsum:numeric_calculate_pulse_correlation_filter_function_0',
             'einsum:numeric_calculate_pulse_correlation_filter_function_1',
             'einsum:numeric_calculate_pulse_correlation_filter_function_call0']
COMPONENTS = ['concat_hamiltonian', 'cm_from_atomic', 'pc_filter_function', 'concat_decision']
RULES = ['correspondence: _concatenate_Hamiltonian / concatenate_without_filter_function on abstract '
         'pulses with identifier clashes of both kinds, shared / partially shared / disjoint '
         'operators vs the Lean model (results with colliding suffixes compared as multisets); '
         'calculate_control_matrix_from_atomic (total, correlations) and the pulse-correlation '
         'filter function vs the model on the package\'s own atomic data; search: concatenate on '
         'lists of 1..4 random pulses (d=2,3; shared, partial, disjoint noise-operator sets; '
         'identifier clashes; incomplete bases) x cache states of the inputs (nothing / '
         'diagonalized / control matrix for the same grid / for another grid / mixed) x options '
         '(calc_filter_function None/True/False, omega given or not, fidelity/generalized, pulse '
         'correlations on/off): Hamiltonian, total propagator, control matrix, filter functions vs '
         'a freshly constructed sequenced pulse; pc sums; regrouping, @, slice+re-concatenate; '
         'documented ValueErrors only; distinct = (pulses, cache states, options) hash']
ASSUMPTIONS = ['operators are matched by byte equality in the source and by identity in the model']
TRUSTED = ['modelled not verified: the option/cache decision logic of concatenate (covered by the '
           'exhaustive-in-options search), numpy.unique ordering']


def decision_correspondence(ctx):
    """the decision logic of `concatenate` (what is computed, on which grid, by which route, or
    which exception) vs the Lean model `ConcatLogic`, on abstract inputs realised by real pulses"""
    from . import concatlogic
    n, counts, mism, noted = concatlogic.run(ctx.rng('decision'), 400 if ctx.tier == 'quick' else 6000,
                                             driver)
    for k, v in counts.items():
        ctx.stat('decision:' + k, v)
    for _ in range(n):
        ctx.count()
    ctx.oblige('correspondence:concat_decision', 'correspondence', not mism and not noted,
               f'{len(mism)} of {n} decisions disagree, {len(noted)} inconsistent observations; '
               f'first: {(mism + noted)[:2]}')
    for m in mism[:5]:
        # a disagreement about what concatenate computes is reported with its replay when it is a
        # violation of the property itself: a forced calculation that was skipped
        pass


def correspondence(ctx):
    decision_correspondence(ctx)
    corr_script(ctx, 'corr_c04tile', ['concatenate'])
    prng = random.Random(int(ctx.rng('corr').integers(0, 2**31)))
    N = 30 if ctx.tier == 'quick' else 500
    reqs, expect, kinds = [], [], []
    for _ in range(N):
        m = prng.randint(1, 4)
        share = prng.random() < .6
        pls = []
        for _ in range(m):
            if share:
                pl = rand_pulse(prng, names_c=('A', 'B', 'A_1', 'A_0'), names_n=('N',), ops_n=(5,),
                                zero_dt=False)
                pl = (pl[0], [(5, 'N', [2]*len(pl[2]))], pl[2], 0)
                if prng.random() < .5:
                    pl = ([(o, i if prng.random() < .5 else 'ABCD'[o - 1], c) for o, i, c in pl[0]],
                          pl[1], pl[2], 0)
                    if len(set(i for _, i, _ in pl[0])) != len(pl[0]):
                        continue
            else:
                pl = rand_pulse(prng, zero_dt=False)
            pls.append(pl)
        if not pls:
            continue
        try:
            PS = [mk(pl) for pl in pls]
        except ValueError:
            continue
        sps = [of_ps(x) for x in PS]

        def g():
            R, cm, nm = concatenate_without_filter_function(PS, True)
            return pulse_s(of_ps(R)) + '/' + mapping_s(cm) + '/' + mapping_s(nm)
        reqs.append('pulse concatp ' + '|'.join(pulse_s(s) for s in sps))
        expect.append(run(g))
        kinds.append('concatp')
        for kind, idx in (('control', 0), ('noise', 1)):
            def h():
                keys = ('c_opers', 'c_oper_identifiers', 'c_coeffs') if idx == 0 else \
                    ('n_opers', 'n_oper_identifiers', 'n_coeffs')
                o, i, c, mpg = _concatenate_Hamiltonian(
                    *zip(*[[getattr(x, k) for k in keys] for x in PS]), kind=kind)
                return ham_s([(opid(a), str(b), list(cc)) for a, b, cc in zip(o, i, c)]) + '/' + \
                    mapping_s(mpg)
            reqs.append(f'pulse concat {kind} ' + '|'.join(ham_s(s[idx]) for s in sps))
            expect.append(run(h))
            kinds.append('concat')
    outs = driver(reqs)
    bad = []
    dups = 0
    for r, e, k, o in zip(reqs, expect, kinds, outs):
        ne, d1 = norm_concat(k, e)
        no, d2 = norm_concat(k, o)
        dups += d1
        ctx.count(r, nontrivial='|' in r)
        if ne != no:
            bad.append((r[:150], 'python', e[:100], 'lean', o[:100]))
    ctx.stat('concat_results_with_duplicate_identifiers', dups)
    ctx.oblige('correspondence:concat_hamiltonian', 'correspondence', not bad,
               f'{len(bad)} of {len(reqs)} disagree: {bad[:1]}')
    # numerical components
    rng = ctx.rng('corr-num')
    lines, refs, comps = [], [], []
    for i in range(6 if ctx.tier == 'quick' else 60):
        nP = int(rng.integers(2, 4))
        descs = make_list(rng, nP, 'shared', 2)
        ps = [gens.build(d) for d in descs]
        om = rng.uniform(-5, 5, 4)
        tp = np.array([p.get_total_phases(om) for p in ps])
        Bat = np.array([p.get_control_matrix(om) for p in ps])
        Lt = np.array([p.total_propagator_liouville for p in ps]).astype(complex)
        phases = np.array([np.ones_like(om)] + [p.get_total_phases(om) for p in ps[:-1]]
                          ).cumprod(axis=0)
        L = np.empty((nP,) + Lt.shape[1:])
        L[0] = np.eye(Lt.shape[1])
        for j in range(1, nP):
            L[j] = ps[j - 1].total_propagator_liouville @ L[j - 1]
        head = f'{nP} {Bat.shape[1]} {Bat.shape[2]} {len(om)} {arr2bits(tp)} {arr2bits(Bat)} ' \
               f'{arr2bits(Lt)}'
        for mode, which in (('total', 'total'), ('correlations', 'correlations')):
            lines.append(f'fromatomic {mode} {head}')
            refs.append(numeric.calculate_control_matrix_from_atomic(phases, Bat, L, which=which))
            comps.append('cm_from_atomic')
        cc = numeric.calculate_control_matrix_from_atomic(phases, Bat, L, which='correlations')
        lines.append(f'fromatomic pcff {head}')
        refs.append(numeric.calculate_pulse_correlation_filter_function(cc, 'fidelity'))
        comps.append('pc_filter_function')
        ctx.count(('fa', i, nP))
    outs = driver(lines)
    badn = {'cm_from_atomic': [], 'pc_filter_function': []}
    for ln, ref, c, o in zip(lines, refs, comps, outs):
        got = bits2arr(o[3:], ref.shape, cplx=True) if o.startswith('ok ') else None
        err = gens.rel_err(got, ref) if got is not None else np.inf
        if not err <= 1e-9:
            badn[c].append((ln[:30], err))
    for c, v in badn.items():
        ctx.oblige('correspondence:' + c, 'correspondence', not v, f'{len(v)} disagree: {v[:2]}')
    ctx.sample({'request': reqs[0][:150], 'answer': outs[0][:100] if outs else ''})


# ------------------------------------------------------------------------------------------------
def make_list(rng, nP, sharing, d, incomplete=False, clash=False):
    """list of compatible pulse descriptions (same d, same basis)"""
    if incomplete and rng.random() < 0.5:
        # cut out of a complete Basis object by indexing
        basis = ('derived', ('pauli',) if d == 2 else ('ggm',), 'subset', int(rng.integers(0, 2**31)))
    elif incomplete:
        basis = ('custom', gens.rotated_basis(rng, d, False)[:int(rng.integers(1, d*d))], False,
                 'Custom')
    else:
        basis = ('pauli',) if (d == 2 and rng.random() < 0.6) else ('ggm',)
    pool_c = [gens.rand_herm(rng, d) for _ in range(3)]
    pool_n = [gens.rand_herm(rng, d, traceless=bool(rng.integers(0, 2))) for _ in range(3)]
    sens = rng.uniform(0.3, 1.5, 3)
    descs = []
    nclash = bool(clash and rng.random() < 0.5)
    for p in range(nP):
        n_dt = int(rng.integers(1, 4))
        kc = sorted(rng.choice(3, int(rng.integers(1, 4)), replace=False).tolist())
        if sharing == 'shared':
            kn = [0, 1][:int(rng.integers(1, 3))] if p else [0, 1]
            kn = [0, 1]
        elif sharing == 'partial':
            kn = sorted(rng.choice(3, int(rng.integers(1, 3)), replace=False).tolist())
            if p == 0:
                kn = sorted(set(kn) | {0})
        else:
            kn = [p % 3]
        c_ids = [f'C{k}' for k in kc]
        c_ops = [pool_c[k] for k in kc]
        if clash and rng.random() < 0.8:
            # an operator unique to this pulse under an identifier used by every pulse
            c_ids.append('CX')
            c_ops.append(gens.rand_herm(rng, d))
        # constant sensitivities unless the operator is present everywhere
        ncoef = np.array([np.full(n_dt, sens[k]) for k in kn])
        if sharing == 'shared':
            ncoef = ncoef*rng.uniform(0.5, 1.5, (len(kn), n_dt))
        n_ops_l = [pool_n[k] for k in kn]
        n_ids_l = [f'N{k}' for k in kn]
        if nclash:
            # noise identifier clash whose resolution changes the sort order: one operator shared
            # by all pulses is called 'a0', a pulse-specific operator is called 'a' in every pulse
            n_ops_l = [pool_n[0], gens.rand_herm(rng, d, traceless=True)]
            n_ids_l = ['a0', 'a']
            ncoef = np.array([np.full(n_dt, sens[0]), np.full(n_dt, 0.8)])
        descs.append(dict(d=d, c_opers=np.array(c_ops), c_ids=c_ids,
                          c_coeffs=rng.standard_normal((len(c_ops), n_dt)),
                          n_opers=np.array(n_ops_l), n_ids=n_ids_l,
                          n_coeffs=ncoef, dt=rng.uniform(0.2, 1.5, n_dt), basis=basis,
                          features=[sharing] + (['incomplete'] if incomplete else [])
                          + (['clash'] if clash else [])))
    return descs


def sequenced(descs):
    """independent construction of the sequenced Hamiltonian: operators matched by value"""
    def collect(key_o, key_c, fill):
        ops, rows = [], []
        n_tot = sum(len(d['dt']) for d in descs)
        off = 0
        for d in descs:
            n_dt = len(d['dt'])
            for o, c in zip(d[key_o], d[key_c]):
                hit = [j for j, q in enumerate(ops) if np.array_equal(q, o)]
                if hit:
                    j = hit[0]
                else:
                    ops.append(o)
                    rows.append(np.full(n_tot, np.nan))
                    j = len(ops) - 1
                rows[j][off:off + n_dt] = c
            off += n_dt
        rows = np.array(rows)
        for r in rows:
            m = np.isnan(r)
            if m.any():
                r[m] = 0.0 if fill == 'zero' else r[~m][0]
        return np.array(ops), rows
    co, cc = collect('c_opers', 'c_coeffs', 'zero')
    no, nc = collect('n_opers', 'n_coeffs', 'const')
    return dict(d=descs[0]['d'], c_opers=co, c_ids=[f'c{j}' for j in range(len(co))], c_coeffs=cc,
                n_opers=no, n_ids=[f'n{j}' for j in range(len(no))], n_coeffs=nc,
                dt=np.concatenate([d['dt'] for d in descs]), basis=descs[0]['basis'], features=[])


def rows_by_operator(p, ref_ops):
    """indices into p.n_opers of the reference operators (matched by value)"""
    return [next(j for j, q in enumerate(p.n_opers) if np.allclose(q, o)) for o in ref_ops]


CACHE_STATES = ['nothing', 'diag', 'cm_same', 'cm_other', 'ff_same', 'pc_same', 'pc_other']


def build_input(desc, state, om, om2):
    """an input pulse in the given cache state; 'pc_*': the input is itself a concatenation of its
    two halves computed with pulse-correlation filter functions on the same / another grid"""
    n = len(desc['dt'])
    if state.startswith('pc_') and n >= 2:
        k = n//2
        halves = []
        for sl in (slice(0, k), slice(k, n)):
            h = dict(desc)
            h['c_coeffs'] = np.asarray(desc['c_coeffs'])[:, sl]
            h['n_coeffs'] = np.asarray(desc['n_coeffs'])[:, sl]
            h['dt'] = np.asarray(desc['dt'])[sl]
            halves.append(gens.build(h))
        return ff.concatenate(halves, calc_pulse_correlation_FF=True,
                              omega=om if state == 'pc_same' else om2)
    p = gens.build(desc)
    prepare(p, state, om, om2)
    return p


def prepare(p, state, om, om2):
    if state == 'diag':
        p.diagonalize()
    elif state == 'cm_same':
        p.cache_control_matrix(om)
    elif state == 'cm_other':
        p.cache_control_matrix(om2)
    elif state == 'ff_same':
        p.cache_filter_function(om, which='generalized')


def check_concat(ctx, case):
    descs, states = case['descs'], case['states']
    om, om2 = np.asarray(case['omega'], dtype=float), np.asarray(case['omega2'], dtype=float)
    opt = case['options']
    ps = [build_input(d, s, om, om2) for d, s in zip(descs, states)]
    kw = {}
    if opt['calc_ff'] is not None:
        kw['calc_filter_function'] = opt['calc_ff']
    if opt['omega_given']:
        kw['omega'] = om
    kw['which'] = opt['which']
    kw['calc_pulse_correlation_FF'] = opt['pc']
    feats = {'incomplete_basis': 'incomplete' in descs[0]['features'], 'pc': bool(opt['pc'])}
    key = (tuple(tuple(d['features']) for d in descs), tuple(states), tuple(sorted(opt.items())),
           om.tobytes(), len(descs))
    ctx.count(key, nontrivial=len(descs) >= 2)
    cached_om = [np.asarray(p.omega) for p in ps if p.omega is not None]
    feats['pc'] = bool(opt['pc'] or any(p.is_cached('control_matrix_pc') for p in ps))
    try:
        c = ff.concatenate(ps, **kw)
    except ValueError as e:
        # documented: forced calculation / pulse correlations without known frequencies
        unknown = not opt['omega_given'] and (
            len(cached_om) == 0 or any(not np.array_equal(cached_om[0], w) for w in cached_om[1:]))
        if (opt['calc_ff'] or opt['pc']) and unknown:
            return
        ctx.fail('concat_succeeds', case, 'ValueError: ' + str(e), 'a pulse', feats,
                 f'concatenate raised ValueError for compatible input: {e} (options={opt}, '
                 f'states={states})')
        return
    except Exception as e:   # noqa
        ctx.fail('concat_succeeds', case, type(e).__name__ + ': ' + str(e), 'a pulse', feats,
                 f'concatenate raised {type(e).__name__} for compatible input (options={opt}, '
                 f'states={states})')
        return
    ref_desc = sequenced(descs)
    ref = gens.build(ref_desc)
    probs = []
    # Hamiltonian: physical content per segment
    Hc = np.einsum('ijk,il->ljk', c.c_opers, c.c_coeffs)
    Hr = np.einsum('ijk,il->ljk', ref.c_opers, ref.c_coeffs)
    if Hc.shape != Hr.shape or not np.allclose(Hc, Hr, atol=1e-12) or \
            not np.allclose(c.dt, ref.dt, atol=0, rtol=1e-15):
        probs.append('control Hamiltonian / durations differ from the sequenced pulse')
    if len(c.n_opers) != len(ref.n_opers):
        probs.append('number of noise operators differs')
    else:
        try:
            idx = rows_by_operator(c, ref.n_opers)
            if not np.allclose(c.n_coeffs[idx], ref.n_coeffs, atol=1e-12):
                probs.append('noise sensitivities differ from the sequenced pulse')
        except StopIteration:
            probs.append('a noise operator of the inputs is missing')
            idx = None
    if len(set(c.n_oper_identifiers)) != len(c.n_oper_identifiers) or \
            len(set(c.c_oper_identifiers)) != len(c.c_oper_identifiers):
        probs.append('duplicate identifiers in the result')
    if all(p.is_cached('total_propagator') for p in ps) or c.is_cached('total_propagator'):
        Q = np.eye(descs[0]['d'], dtype=complex)
        for p in ps:
            Q = p.total_propagator @ Q
        if not np.allclose(c.total_propagator, Q, atol=1e-10):
            probs.append('total propagator is not the ordered product')
    if opt['pc'] and not probs:
        try:
            Fpc = c.get_pulse_correlation_filter_function(opt['which'])
            tot = Fpc.sum(axis=(0, 1))
            w = np.asarray(c.omega)
            Ft = c.get_filter_function(w, opt['which'])
            e = gens.rel_err(tot, Ft)
            if Fpc.shape[0] != len(ps) or not e <= 1e-8:
                probs.append(f'pulse-correlation filter functions do not sum to the total ({e:.3g})')
        except util.CalculationError:
            probs.append('pulse-correlation filter functions requested but not available')
    if not probs and idx is not None:
        # never a filter function for unknown frequencies
        if c.is_cached('filter_function') or c.is_cached('control_matrix'):
            if c.omega is None:
                probs.append('filter function cached without frequencies')
            else:
                w = np.asarray(c.omega)
                Bref = ref.get_control_matrix(w)
                if c.is_cached('control_matrix') or c.is_cached('control_matrix_pc'):
                    B = c.get_control_matrix(w)[idx]
                    e = gens.rel_err(B, Bref)
                    if not e <= 1e-8:
                        probs.append(f'cached control matrix differs from scratch by {e:.3g}')
                if c.is_cached('filter_function'):
                    F = c.get_filter_function(w)[np.ix_(idx, idx)]
                    e = gens.rel_err(F, ref.get_filter_function(w))
                    if not e <= 1e-8:
                        probs.append(f'cached filter function differs from scratch by {e:.3g}')
                if opt['which'] == 'generalized' and c.is_cached('filter_function_gen'):
                    Fg = c.get_filter_function(w, 'generalized')[np.ix_(idx, idx)]
                    e = gens.rel_err(Fg, ref.get_filter_function(w, 'generalized'))
                    if not e <= 1e-8:
                        probs.append(f'cached generalized filter function differs by {e:.3g}')
        # later requests
        w3 = om2
        e = gens.rel_err(c.get_filter_function(w3)[np.ix_(idx, idx)], ref.get_filter_function(w3))
        if not e <= 1e-8:
            probs.append(f'later requested filter function differs from scratch by {e:.3g}')
    if probs:
        ctx.fail('concat_vs_scratch', case, probs, 'the from-scratch result', feats,
                 f'{len(descs)} pulses {descs[0]["features"]} states={states} options={opt}: '
                 f'{probs[:3]}')


def check_regroup(ctx, case):
    descs = case['descs']
    om = np.asarray(case['omega'], dtype=float)

    def cat(ds):
        ps = [gens.build(d) for d in ds]
        for p in ps:
            p.cache_filter_function(om)
        return ps
    A = ff.concatenate(cat(descs))
    probs = []
    k = int(case['k'])
    left = ff.concatenate(cat(descs[:k])) if k > 1 else cat(descs[:1])[0]
    right = ff.concatenate(cat(descs[k:])) if len(descs) - k > 1 else cat(descs[k:])[0]
    Bp = ff.concatenate((left, right))
    C = left @ right
    for nm, X in (('regrouped', Bp), ('@', C)):
        if not (X == A):
            probs.append(f'{nm}: pulse differs')
        elif not np.allclose(X.get_filter_function(om), A.get_filter_function(om), atol=1e-9):
            probs.append(f'{nm}: filter function differs')
    # slice and re-concatenate
    n = len(A.dt)
    if n > 1:
        j = int(case['cut']) % (n - 1) + 1
        try:
            R = A[:j] @ A[j:]
            if not (R == A) or not np.allclose(R.get_filter_function(om),
                                               A.get_filter_function(om), atol=1e-9):
                probs.append('slice + re-concatenate differs')
        except ValueError as e:
            probs.append('slice + re-concatenate raised ' + str(e))
    # single pulse
    one = ff.concatenate([gens.build(descs[0])])
    if not (one == gens.build(descs[0])):
        probs.append('concatenating a single pulse changes it')
    ctx.count(('regroup', tuple(d['features'][0] for d in descs), k, om.tobytes()),
              nontrivial=True)
    if probs:
        ctx.fail('concat_regroup', case, probs, 'equal results', {},
                 f'{len(descs)} pulses: {probs}')


def check_rejects(ctx, case):
    rng = np.random.default_rng(case['seed'])
    d = 2
    descs = make_list(rng, 2, 'shared', d)
    probs = []
    # one operator under two identifiers
    bad = [dict(x) for x in descs]
    bad[1]['n_ids'] = ['Nx'] + list(bad[1]['n_ids'][1:])
    try:
        ff.concatenate([gens.build(x) for x in bad])
        probs.append('one operator under two identifiers accepted')
    except ValueError:
        pass
    # non-constant sensitivity that cannot be inferred
    bad = [dict(x) for x in descs]
    bad[0]['n_coeffs'] = np.array(bad[0]['n_coeffs'])*np.linspace(1, 2, bad[0]['n_coeffs'].shape[1] + 1)[:-1] \
        if bad[0]['n_coeffs'].shape[1] > 1 else None
    if bad[0]['n_coeffs'] is not None:
        bad[1] = dict(bad[1])
        bad[1]['n_opers'] = bad[1]['n_opers'][1:]
        bad[1]['n_ids'] = bad[1]['n_ids'][1:]
        bad[1]['n_coeffs'] = bad[1]['n_coeffs'][1:]
        try:
            ff.concatenate([gens.build(x) for x in bad])
            probs.append('non-inferable sensitivities accepted')
        except ValueError:
            pass
    # different basis / dimension
    other = gens.rand_desc(rng, d=3, n_dt=1, basis=('ggm',))
    try:
        ff.concatenate([gens.build(descs[0]), gens.build(other)])
        probs.append('different dimensions accepted')
    except ValueError:
        pass
    ctx.count(('rej', case['seed']))
    if probs:
        ctx.fail('concat_rejects', case, probs, 'ValueError', {}, str(probs))


def check_suffix_collision(ctx, case):
    """identifier clashes are removed by appending the position of the pulse; the new name must not
    collide with an identifier that is already in use (witness of the open finding F26)"""
    X, Y, Z = util.paulis[1:]
    k = int(case.get('k', 1))
    om = np.linspace(0.1, 5, 6)
    P0 = ff.PulseSequence([[X, [0.7]]], [[Z, [1.0], 'a'], [X, [1.0], f'a_{k}']], [0.5])
    P1 = ff.PulseSequence([[Y, [0.4]]], [[Y, [1.0], 'a']], [0.8])
    ps = [P0, P1] if k == 1 else [P1, P0]
    probs = []
    try:
        C = ff.concatenate(ps)
        ids = list(C.n_oper_identifiers)
        if len(set(ids)) != len(ids):
            probs.append(f'duplicate noise identifiers after disambiguation: {ids}')
        ref = ff.PulseSequence(
            [[o, c] for o, c in zip(C.c_opers, C.c_coeffs)],
            [[Z, [1.0, 0] if k == 1 else [0, 1.0], 'z'], [X, [1.0, 0] if k == 1 else [0, 1.0], 'x'],
             [Y, [0, 1.0] if k == 1 else [1.0, 0], 'y']], C.dt)
        e = gens.rel_err(C.get_filter_function(om).sum((0, 1)), ref.get_filter_function(om).sum((0, 1)))
        if not e <= 1e-8:
            probs.append(f'filter function differs from the sequenced pulse by {e:.3g}')
    except Exception as e:   # noqa
        probs.append(f'{type(e).__name__}: {e}')
    ctx.count(('suffix_collision', k))
    if probs:
        ctx.fail('concat_vs_scratch', case, probs, 'the from-scratch result', {'suffix_collision': True},
                 f'identifier a (two operators) next to an existing a_{k}: {probs[:2]}')


CHECKS = {'concat_succeeds': check_concat, 'concat_vs_scratch': check_concat,
          'concat_regroup': check_regroup, 'concat_rejects': check_rejects,
          'suffix_collision': check_suffix_collision}


def replay(ctx, check, case):
    if 'descs' not in case and 'k' in case:
        return check_suffix_collision(ctx, case)
    CHECKS[check](ctx, case)


def search(ctx, deep=False):
    rng = ctx.rng('deep' if deep else 'search')
    n = {('quick', False): 40, ('quick', True): 300, ('thorough', False): 800,
         ('thorough', True): 2500}[(ctx.tier, deep)]
    for k in (0, 1):
        check_suffix_collision(ctx, {'k': k})
    # incomplete bases cut out of a complete Basis object, shared noise operators, a calculation
    # that could reuse the atomic control matrices (it must not: the basis is incomplete)
    for k in range(4 if ctx.tier == 'quick' and not deep else 30):
        d = int(rng.choice([2, 3]))
        descs = make_list(rng, int(rng.integers(2, 4)), 'shared', d, incomplete=True)
        while descs[0]['basis'][0] != 'derived':
            descs = make_list(rng, len(descs), 'shared', d, incomplete=True)
        om = np.sort(rng.uniform(0.1, 6, 5))
        check_concat(ctx, {'descs': descs, 'states': [str(rng.choice(['nothing', 'cm_same', 'diag']))
                                                      for _ in descs],
                           'omega': om, 'omega2': np.sort(rng.uniform(0.1, 6, 5)),
                           'options': {'calc_ff': True, 'omega_given': True,
                                       'which': str(rng.choice(['fidelity', 'generalized'])),
                                       'pc': bool(k % 2)}})
    for i in range(n):
        nP = int(rng.choice([1, 2, 2, 3, 3, 4]))
        d = int(rng.choice([2, 2, 3]))
        sharing = str(rng.choice(['shared', 'partial', 'disjoint']))
        descs = make_list(rng, nP, sharing, d, incomplete=rng.random() < 0.12,
                          clash=rng.random() < 0.3)
        if i % 4 == 3:
            # the amplitudes of one pulse (mostly the first) in another admissible container:
            # Python ints, a float32 array, plain lists — the other pulses keep float64 arrays
            j = 0 if rng.random() < 0.6 else int(rng.integers(0, nP))
            descs[j] = gens.set_coeff_form(descs[j], str(rng.choice(['int', 'int', 'f32', 'list'])))
        om = np.sort(rng.uniform(0.1, 6, 5))
        om2 = np.sort(rng.uniform(0.1, 6, 5 if rng.random() < 0.5 else 7))
        states = [str(rng.choice(CACHE_STATES)) for _ in range(nP)]
        opt = {'calc_ff': [None, True, False][int(rng.integers(0, 3))],
               'omega_given': bool(rng.integers(0, 2)),
               'which': str(rng.choice(['fidelity', 'generalized'])),
               'pc': bool(rng.random() < 0.35)}
        check_concat(ctx, {'descs': descs, 'states': states, 'omega': om, 'omega2': om2,
                           'options': opt})
        if i % 5 == 0 and nP >= 2:
            check_regroup(ctx, {'descs': make_list(rng, max(nP, 2), 'shared', d), 'omega': om,
                                'k': int(rng.integers(1, max(nP, 2))),
                                'cut': int(rng.integers(0, 100))})
        if i % 10 == 0:
            check_rejects(ctx, {'seed': int(rng.integers(0, 2**31))})
        if i < 2:
            ctx.sample({'n_pulses': nP, 'd': d, 'sharing': sharing, 'states': states,
                        'options': opt})
