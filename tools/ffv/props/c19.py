"""C19 — shipped closed-form decoupling filter functions agree with the numerical engine."""
import numpy as np

import filter_functions as ff
from filter_functions import analytic

from .. import gens
from ..common import bits2arr, driver, f2b

THEOREMS = ['fid_closed_form', 'se_closed_form', 'pdd_model_eq', 'pdd_closed_form',
            'cpmg_model_eq', 'cpmg_closed_form', 'udd_model_eq', 'udd_closed_form', 'cddY_zero',
            'cddY_one', 'cddY_two', 'cddY_succ', 'cdd_closed_form',
            # the numerical engine's model on exact sign-flip pulses equals the specification (C19Engine)
            'isEigh_zero', 'hamiltonian_no_control', 'propagators_no_control',
            'noControl_of_diagonalize', 'mask_current', 'maskThr_nonneg', 'cm_no_control_of_mask',
            'cm_no_control', 'cm_no_control_error', 'cm_no_control_closed', 'ff_no_control_sigma_z',
            'ff_no_control_sigma_z_error', 'engine_sign_sequence', 'engine_eq_ddF',
            'engine_eq_ddF_error', 'engine_fid', 'engine_se', 'engine_pdd', 'engine_cpmg',
            'engine_udd', 'engine_cdd', 'se_example_mask', 'se_example']
LEAN_MODULES = ['FFVerif.Props.C19', 'FFVerif.Props.C19Engine', 'FFVerif.Props.C19Width']
# module C19Width: finite-width pi pulses — |B_w - B_ideal| <= n w (|tr(B C_k)| + |B|_F |C_k|_F), hence w^2... the filter function
# times omega^2 tends to the closed forms as the width goes to zero (SE; PDD, CPMG, UDD of every order)
THEOREMS = THEOREMS + [
    'FFVerif.C19.cm_toggling_frame', 'FFVerif.C19.cm_finite_width_free',
    'FFVerif.C19.cm_finite_width', 'FFVerif.C19.finite_width_tendsto',
    'FFVerif.C19.finite_width_tendsto_se', 'FFVerif.C19.finite_width_tendsto_pdd',
    'FFVerif.C19.finite_width_tendsto_cpmg', 'FFVerif.C19.finite_width_tendsto_udd',
    'FFVerif.C19.sew_mask', 'FFVerif.C19.sew_coeffs',
    'FFVerif.C19.se_width_example', 'FFVerif.C19.se_width_tendsto_example',
    'FFVerif.C19.finite_width_mask_eventually', 'FFVerif.C19.finite_width_tendsto_strict',
    'FFVerif.WidthAux.segProp_pi', 'FFVerif.WidthAux.propagators_width',
    'FFVerif.WidthAux.SEW.finiteWidth', 'FFVerif.WidthAux.finiteWidth_free_dur']
PINS = ['pinFID', 'pinSE', 'pinPDD', 'pinCPMG', 'pinCDD', 'pinUDD']
GEN_SITES = []
COMPONENTS = ['analytic']
RULES = ['correspondence: analytic.{FID,SE,PDD,CPMG,CDD,UDD}(z, n) vs the Lean model at doubles, '
         'n = 1..12 (g = 1..6), random z; search: numerical engine on exact sign-flip pulses '
         '(dephasing, sensitivities ±1 switching at the family\'s flip times) vs the shipped '
         'closed forms, and finite-width π pulses with widths 1e-2..1e-4 (error must shrink); '
         'distinct = (family, n, z) ; non-trivial = n >= 2']
ASSUMPTIONS = ['closed forms are compared away from their removable singularities']
TRUSTED = ['the identification ω²F = |y|²/2 of the package filter function with the sign-sequence '
           'sum is validated numerically (search), not yet a theorem']

FAMS = ['FID', 'SE', 'PDD', 'CPMG', 'CDD', 'UDD']


def py_value(fam, z, n):
    if fam == 'FID':
        return analytic.FID(z)
    if fam == 'SE':
        return analytic.SE(z)
    return getattr(analytic, fam)(z, n)


def flip_times(fam, n):
    """normalised flip times in (0,1)"""
    if fam == 'FID':
        return np.array([])
    if fam == 'SE':
        return np.array([0.5])
    if fam == 'PDD':
        return np.arange(1, n + 1)/(n + 1)
    if fam == 'CPMG':
        return (np.arange(1, n + 1) - 0.5)/n
    if fam == 'UDD':
        return np.sin(np.pi*np.arange(1, n + 1)/(2*n + 2))**2
    if fam == 'CDD':
        # sign on the 2^g dyadic intervals: s_0 = [1], s_{g+1} = s_g ++ (-s_g)  (C_{g+1} = C_g π C_g π,
        # coinciding π pulses cancel); flips are where consecutive signs differ
        sg = np.array([1.0])
        for _ in range(n):
            sg = np.concatenate((sg, -sg))
        idx = np.nonzero(sg[1:] != sg[:-1])[0] + 1
        return idx/len(sg)
    raise ValueError(fam)


def sign_pulse(fam, n, tau):
    fl = flip_times(fam, n)
    edges = np.concatenate(([0.0], fl, [1.0]))*tau
    dt = np.diff(edges)
    s = (-1.0)**np.arange(len(dt))
    Z = gens.PAULI[3]
    return ff.PulseSequence([[gens.PAULI[1]/2, np.zeros(len(dt)), 'X']],
                            [[Z/2, s, 'Z']], dt, ff.Basis.pauli(1))


def correspondence(ctx):
    rng = ctx.rng('corr')
    n = 60 if ctx.tier == 'quick' else 1200
    lines, refs = [], []
    for i in range(n):
        fam = FAMS[i % 6]
        k = int(rng.integers(0 if fam in ('PDD', 'UDD') else 1, 13)) if fam != 'CDD' else int(rng.integers(0, 7))   # (PDD_0 = UDD_0 = CDD_0 = free induction decay; CPMG_0 is not defined)
        z = float(rng.uniform(-30, 30)) if i % 5 else float(10.0**rng.uniform(-3, 2))
        lines.append(f'analytic {fam} {k} {f2b(z)}')
        refs.append(py_value(fam, z, k))
        ctx.count(('corr', fam, k, z), nontrivial=k >= 2)
    outs = driver(lines)
    bad = []
    for i, (o, r) in enumerate(zip(outs, refs)):
        got = bits2arr(o[3:])[0] if o.startswith('ok ') else np.nan
        if not abs(got - r) <= 1e-9*max(1.0, abs(r)):
            bad.append((lines[i][:40], got, r))
    ctx.oblige('correspondence:analytic', 'correspondence', not bad, f'{len(bad)} of {n}: {bad[:2]}')
    ctx.sample({'line': lines[1], 'python': refs[1]})


def check_engine(ctx, case):
    fam, n, tau = case['fam'], int(case['n']), float(case['tau'])
    om = np.asarray(case['omega'], dtype=float)
    p = sign_pulse(fam, n, tau)
    # (the option that caches the intermediate arrays must not change the numbers)
    F = p.get_filter_function(om, cache_intermediates=bool(case.get('ci', False)))[0, 0].real
    num = F*om**2
    ref = py_value(fam, om*tau, n)
    sc = max(np.max(np.abs(ref)), 1e-3)
    err = float(np.max(np.abs(num - ref))/sc)
    ctx.count((fam, n, tau, om.tobytes()), nontrivial=n >= 2)
    if not err <= 1e-6:
        ctx.fail('engine_vs_closed_form', case, {'err': err}, {'tol': 1e-6}, {'family': fam},
                 f'{fam} n={n} tau={tau}: ω²F differs from the shipped closed form by {err:.3g}')
        return
    # the same pulse object evaluated on further grids of the same length (slightly shifted; an
    # unrelated one): every frequency of every grid must satisfy the closed form
    for om2, what in ((om*(1 + 5e-6), 'relative shift 5e-6'), (om[::-1]*1.37, 'another grid')):
        F2 = p.get_filter_function(om2)[0, 0].real*om2**2
        ref2 = py_value(fam, om2*tau, n)
        e2 = float(np.max(np.abs(F2 - ref2))/max(np.max(np.abs(ref2)), 1e-3))
        if not e2 <= 1e-6:
            ctx.fail('engine_vs_closed_form', case, {'err': e2}, {'tol': 1e-6}, {'family': fam},
                     f'{fam} n={n} tau={tau}: pulse re-evaluated on a second grid ({what}): ω²F '
                     f'differs from the shipped closed form by {e2:.3g}')
            return


def check_finite_width(ctx, case):
    """π pulses of finite width: error decreases with the width"""
    fam, n, tau = case['fam'], int(case['n']), float(case['tau'])
    om = np.asarray(case['omega'], dtype=float)
    fl = flip_times(fam, n)*tau
    errs = []
    for wdt in (1e-2, 1e-3, 1e-4):
        w = wdt*tau
        edges = [0.0]
        amp = []
        for f in fl:
            edges += [f - w/2, f + w/2]
        edges.append(tau)
        dt = np.diff(edges)
        amp = np.zeros(len(dt))
        amp[1::2] = np.pi/w
        p = ff.PulseSequence([[gens.PAULI[1]/2, amp, 'X']], [[gens.PAULI[3]/2, np.ones(len(dt)), 'Z']],
                             dt, ff.Basis.pauli(1))
        F = p.get_filter_function(om)[0, 0].real*om**2
        ref = py_value(fam, om*tau, n)
        errs.append(float(np.max(np.abs(F - ref))/max(np.max(np.abs(ref)), 1e-3)))
    ctx.count(('fw', fam, n, tau))
    ok = errs[2] <= max(errs[0]*0.2, 1e-6) and errs[2] < 5e-3
    if not ok:
        ctx.fail('finite_width_limit', case, errs, 'error shrinks with the pulse width',
                 {'family': fam}, f'{fam} n={n}: finite-width errors {errs} do not converge')


CHECKS = {'engine_vs_closed_form': check_engine, 'finite_width_limit': check_finite_width}


def replay(ctx, check, case):
    CHECKS[check](ctx, case)


def search(ctx, deep=False):
    rng = ctx.rng('deep' if deep else 'search')
    n = {('quick', False): 48, ('quick', True): 300, ('thorough', False): 900,
         ('thorough', True): 2000}[(ctx.tier, deep)]
    for i in range(n):
        fam = FAMS[i % 6]
        k = int(rng.integers(0 if fam in ('PDD', 'UDD') else 1, 13)) if fam != 'CDD' else int(rng.integers(0, 7))   # (PDD_0 = UDD_0 = CDD_0 = free induction decay; CPMG_0 is not defined)
        tau = float(10.0**rng.uniform(-1, 1.5)) if i % 5 else float(10.0**rng.uniform(-9, 11))
        om = np.sort(10.0**rng.uniform(-1.5, 1.2, 12))/tau*rng.uniform(0.5, 5)
        # stay away from the removable singularities of PDD / CPMG
        z = om*tau
        if fam == 'PDD':
            om = om[np.abs(np.cos(z/(2*k + 2))) > 1e-2]
        if fam == 'CPMG':
            om = om[np.abs(np.cos(z/(2*k))) > 1e-2]
        if len(om) == 0:
            continue
        check_engine(ctx, {'fam': fam, 'n': k, 'tau': tau, 'omega': om, 'ci': bool(i % 3 == 1)})
        if i % 8 == 0 and fam not in ('FID',):
            check_finite_width(ctx, {'fam': fam, 'n': min(k, 4), 'tau': tau, 'omega': om[:6]})
        if i < 2:
            ctx.sample({'family': fam, 'n': k, 'tau': tau, 'omega_head': om[:3]})
