"""Measurement of the write sets of the public API (fingerprints before/after), written by the
C18 proof sub-agent together with the declared table in lean/FFVerif/Model/Effects.lean."""
# flake8: noqa
import copy
import hashlib

import numpy as np
import filter_functions as ff
from filter_functions import numeric, util, gradient, superoperator, basis as fb

def fp(a):
    a = np.ascontiguousarray(np.asarray(a))
    return hashlib.sha256(a.tobytes() + str(a.shape).encode() + str(a.dtype).encode()).hexdigest()[:16]
def deepfp(o):
    if isinstance(o, dict): return tuple((k, deepfp(v)) for k, v in sorted(o.items(), key=lambda kv: str(kv[0])))
    if isinstance(o, (list, tuple)): return tuple(deepfp(x) for x in o)
    if isinstance(o, ff.PulseSequence): return 'pulse'
    if isinstance(o, (np.ndarray,)): return fp(o)
    return repr(o)
def pulse_def(p):
    return (fp(p.c_opers), fp(p.n_opers), fp(p.c_coeffs), fp(p.n_coeffs), fp(p.dt), tuple(p.c_oper_identifiers),
            tuple(p.n_oper_identifiers), fp(np.asarray(p.basis)), tuple(p.basis.labels), p.d, p.basis.btype)
CACHE = ['_t','_tau','_omega','_eigvals','_eigvecs','_propagators','_total_phases','_total_propagator','_total_propagator_liouville',
         '_control_matrix','_control_matrix_pc','_filter_function','_filter_function_gen','_filter_function_pc','_filter_function_pc_gen','_filter_function_2']
def pulse_cache(p):
    return tuple(id(getattr(p, a)) if isinstance(getattr(p,a), np.ndarray) else repr(getattr(p,a)) for a in CACHE) + (tuple(sorted((k, id(v)) for k, v in p._intermediates.items())),)
def pulse_returned(p):
    """contents of every array currently cached (all of them may have been handed out)"""
    out = []
    for a in CACHE:
        v = getattr(p, a)
        if isinstance(v, np.ndarray): out.append((a, v, fp(v)))
    for k, v in p._intermediates.items(): out.append((k, v, fp(v)))
    return out
BC = ['_isherm','_isorthonorm','_istraceless','_iscomplete','_sparse','_four_element_traces']
def basis_cache(b): return tuple(repr(getattr(b, a)) if not hasattr(getattr(b,a),'shape') else id(getattr(b,a)) for a in BC)

def measure(f, args=(), pulses=(), bases=(), outs=()):
    before = dict(arg=deepfp(args), bdat=[fp(np.asarray(b)) for b in bases], out=[fp(o) for o in outs],
                  pdef=[pulse_def(p) for p in pulses], pcache=[pulse_cache(p) for p in pulses],
                  ret=[pulse_returned(p) for p in pulses], bcache=[basis_cache(b) for b in bases])
    f()
    kinds = set()
    if deepfp(args) != before['arg']: kinds.add('argArray')
    if [fp(np.asarray(b)) for b in bases] != before['bdat']: kinds.add('argBasisData')
    if [fp(o) for o in outs] != before['out']: kinds.add('outArg')
    if [pulse_def(p) for p in pulses] != before['pdef']: kinds.add('pulseDef')
    if [pulse_cache(p) for p in pulses] != before['pcache']: kinds.add('pulseCache')
    if [basis_cache(b) for b in bases] != before['bcache']: kinds.add('basisCache')
    # returned arrays: every array object that existed before must have unchanged content (compare by id -> look up object)
    for p, old in zip(pulses, before['ret']):
        for (a, v, h) in old:
            if fp(v) != h: kinds.add('returned')
    return kinds

def world(seed):
    rng = np.random.default_rng(seed)
    X, Y, Z = util.paulis[1:]
    n = 3
    args = dict(cX=rng.standard_normal(n), cY=rng.standard_normal(n), nZ=np.ones(n), nX=np.full(n, .7), dt=rng.uniform(.2, 1, n),
                X=X.copy(), Y=Y.copy(), Z=Z.copy())
    B = ff.Basis.pauli(1)
    def mk(b=B): return ff.PulseSequence([[args['X'], args['cX'], 'X'], [args['Y'], args['cY'], 'Y']],
                                    [[args['Z'], args['nZ'], 'Z'], [args['X'], args['nX'], 'Xn']], args['dt'], b)
    return rng, args, B, mk

def run(seed=5):
    rng, A, B, mk = world(seed)
    w = np.linspace(.1, 4, 7); w2 = np.linspace(.3, 6, 7)
    S1 = 1/(1+w); S2 = np.array([S1, 2*S1])
    M = rng.standard_normal((2,2)) + 1j*rng.standard_normal((2,2)); S3 = (M @ M.conj().T)[:, :, None]*S1
    allargs = [A, w, w2, S1, S2, S3]
    p = mk(); q = mk()
    G = ff.Basis.ggm(2)
    pg = mk(G)   # non-Pauli basis pulse
    Bc = ff.Basis(np.array(B)[[1,2]].copy()*2.0)   # unnormalised custom partial basis
    res = {}
    def m(name, f, pulses=(p, q, pg), bases=(B, G, Bc), outs=(), args=allargs):
        k = measure(f, args=args, pulses=pulses, bases=bases, outs=outs)
        res.setdefault(name, set()).update(k)
    # a mix of states: run every call on fresh caches, warm caches, other-grid caches
    for rep in range(3):
        m('PulseSequence.__init__', lambda: mk())
        m('PulseSequence.__eq__', lambda: p == q)
        m('PulseSequence.__getitem__', lambda: p[0:2])
        m('PulseSequence.__copy__', lambda: copy.copy(p))
        m('PulseSequence.__deepcopy__', lambda: copy.deepcopy(p))
        m('PulseSequence.is_cached', lambda: p.is_cached('omega'))
        m('PulseSequence.tau', lambda: (p.tau, p.t, p.duration))
        m('PulseSequence.diagonalize', lambda: p.diagonalize())
        m('PulseSequence.get_control_matrix', lambda: p.get_control_matrix(w if rep != 1 else w2, cache_intermediates=bool(rep)))
        m('PulseSequence.get_filter_function', lambda: [p.get_filter_function(w, wh, o) for wh in ('fidelity','generalized') for o in (1,2)])
        m('PulseSequence.get_filter_function', lambda: p.get_filter_function(w2, order=2, cache_intermediates=True))
        m('PulseSequence.get_total_phases', lambda: p.get_total_phases(w2 if rep == 0 else w))
        m('PulseSequence.get_filter_function_derivative', lambda: p.get_filter_function_derivative(w))
        # derivatives of the sensitivities as caller-owned arrays of every memory layout: (1, 1, n_dt) — its
        # segment-major view is contiguous —, C-ordered (2, 2, n_dt), and a moveaxis view of a segment-major array
        ncd1 = rng.uniform(.5, 1.5, (1, 1, 3)); ncd2 = rng.uniform(.5, 1.5, (2, 2, 3))
        ncd3 = np.moveaxis(rng.uniform(.5, 1.5, (3, 2, 2)), 0, -1)
        m('PulseSequence.get_filter_function_derivative', lambda: p.get_filter_function_derivative(w2, ['X'], ['Xn'], ncd1), args=allargs+[ncd1])
        m('PulseSequence.get_filter_function_derivative', lambda: p.get_filter_function_derivative(w2, None, None, ncd2), args=allargs+[ncd2])
        m('PulseSequence.get_filter_function_derivative', lambda: p.get_filter_function_derivative(w2, None, None, ncd3), args=allargs+[ncd3])
        m('gradient.infidelity_derivative', lambda: gradient.infidelity_derivative(p, S1, w, ['Y'], ['Xn'], ncd1), args=allargs+[ncd1])
        cm = mk().get_control_matrix(w); Fg = mk().get_filter_function(w, 'generalized'); ph = mk().get_total_phases(w)
        m('PulseSequence.cache_control_matrix', lambda: q.cache_control_matrix(w, cm), args=allargs+[cm])
        m('PulseSequence.cache_control_matrix', lambda: q.cache_control_matrix(w2))
        m('PulseSequence.cache_filter_function', lambda: q.cache_filter_function(w, filter_function=Fg, which='generalized'), args=allargs+[Fg])
        m('PulseSequence.cache_filter_function', lambda: q.cache_filter_function(w, control_matrix=cm), args=allargs+[cm])
        m('PulseSequence.cache_filter_function', lambda: q.cache_filter_function(w2, order=2))
        m('PulseSequence.cache_total_phases', lambda: q.cache_total_phases(w, ph), args=allargs+[ph])
        m('PulseSequence.propagators', lambda: (q.eigvals, q.eigvecs, q.propagators, q.total_propagator))
        m('PulseSequence.total_propagator_liouville', lambda: q.total_propagator_liouville)
        m('PulseSequence.propagator_at_arb_t', lambda: p.propagator_at_arb_t(np.array([0., p.tau/2, p.tau])))
        m('numeric.infidelity', lambda: [ff.infidelity(p, S, w) for S in (S1, S2, S3)])
        m('numeric.infidelity', lambda: ff.infidelity(pg, S1, w2, return_smallness=True))
        m('numeric.infidelity', lambda: ff.infidelity(p, lambda x: 1/(1+x), {'n_min': 10, 'n_max': 20, 'n_points': 3}, test_convergence=True))
        m('numeric.calculate_decay_amplitudes', lambda: [numeric.calculate_decay_amplitudes(p, S3, w, memory_parsimonious=mp) for mp in (False, True)])
        m('numeric.calculate_frequency_shifts', lambda: numeric.calculate_frequency_shifts(p, S1, w2))
        m('numeric.calculate_cumulant_function', lambda: [numeric.calculate_cumulant_function(pp, S2, w, second_order=so) for pp in (p, pg) for so in (False, True)])
        da = numeric.calculate_decay_amplitudes(mk(), S1, w); fs = numeric.calculate_frequency_shifts(mk(), S1, w)
        m('numeric.calculate_cumulant_function', lambda: numeric.calculate_cumulant_function(p, decay_amplitudes=da, frequency_shifts=fs, second_order=True), args=allargs+[da, fs])
        m('numeric.error_transfer_matrix', lambda: numeric.error_transfer_matrix(p, S1, w, second_order=True))
        K = numeric.calculate_cumulant_function(mk(), S1, w)
        m('numeric.error_transfer_matrix', lambda: numeric.error_transfer_matrix(cumulant_function=K), args=allargs+[K])
        m('gradient.infidelity_derivative', lambda: gradient.infidelity_derivative(p, S1, w))
        m('PulseSequence.cleanup', lambda: p.cleanup(['conservative', 'frequency dependent', 'greedy'][rep]))
        m('concatenate_without_filter_function', lambda: ff.pulse_sequence.concatenate_without_filter_function([p, q]))
        m('concatenate', lambda: ff.concatenate((p, q)))
        m('concatenate', lambda: ff.concatenate((p, q), omega=w, calc_pulse_correlation_FF=True, which='generalized'))
        m('concatenate', lambda: p @ q)
        m('concatenate', lambda: ff.concatenate((pg, pg), omega=w2, calc_filter_function=True))
        pc = ff.concatenate((mk(), mk()), omega=w, calc_pulse_correlation_FF=True)
        m('PulseSequence.get_pulse_correlation_filter_function', lambda: [pc.get_pulse_correlation_filter_function(x) for x in ('fidelity', 'generalized')], pulses=(pc,))
        m('PulseSequence.get_pulse_correlation_control_matrix', lambda: pc.get_pulse_correlation_control_matrix(), pulses=(pc,))
        m('numeric.infidelity', lambda: ff.infidelity(pc, S1, w, which='correlations'), pulses=(pc,))
        m('numeric.calculate_decay_amplitudes', lambda: numeric.calculate_decay_amplitudes(pc, S1, w, which='correlations'), pulses=(pc,))
        m('numeric.calculate_cumulant_function', lambda: numeric.calculate_cumulant_function(pc, S1, w, which='correlations'), pulses=(pc,))
        m('PulseSequence.get_control_matrix', lambda: (pc.cleanup('greedy'), None) and None, pulses=())  # no-op placeholder
        pc2 = ff.concatenate((mk(), mk()), omega=w, calc_pulse_correlation_FF=True); pc2._control_matrix = None
        m('PulseSequence.get_control_matrix', lambda: pc2.get_control_matrix(w), pulses=(pc2,))
        m('concatenate_periodic', lambda: ff.concatenate_periodic(p, 3))
        p.cache_filter_function(w)
        m('concatenate_periodic', lambda: ff.concatenate_periodic(p, 3))
        mapping = [(p, 1), (q, 0)]
        m('extend', lambda: ff.extend(mapping, omega=w, cache_filter_function=True, cache_diagonalization=True), args=allargs+[mapping])
        m('extend', lambda: ff.extend([(p, 0)], N=2, additional_noise_Hamiltonian=[[util.tensor(A['Z'], A['Z']), np.ones(3), 'ZZ']]))
        two = ff.extend([(p, 0), (q, 1)], omega=w, cache_filter_function=True, cache_diagonalization=True)
        order = [1, 0]
        m('remap', lambda: ff.remap(two, order), pulses=(two,), args=allargs+[order])
        m('extend', lambda: ff.extend([(two, (1, 0))], N=3), pulses=(two,))
        m('util.get_sample_frequencies', lambda: util.get_sample_frequencies(p, 10))
    # numeric routines on raw arrays
    pd = mk(); pd.diagonalize(); t = pd.t
    raw = [pd.eigvals, pd.eigvecs, pd.propagators, w, np.asarray(pd.basis), pd.n_opers, pd.n_coeffs, pd.dt, t]
    H = np.einsum('ijk,il->ljk', pd.c_opers, pd.c_coeffs)
    def mr(name, f, args, outs=(), bases=(pd.basis,)):
        res.setdefault(name, set()).update(measure(f, args=args, pulses=(pd,), bases=bases, outs=outs))
    mr('numeric.diagonalize', lambda: numeric.diagonalize(H, pd.dt), [H, pd.dt])
    mr('numeric.calculate_control_matrix_from_scratch', lambda: [numeric.calculate_control_matrix_from_scratch(pd.eigvals, pd.eigvecs, pd.propagators, w, pd.basis, pd.n_opers, pd.n_coeffs, pd.dt, t, cache_intermediates=ci) for ci in (False, True)], raw)
    out = np.zeros((2, 4, 7), complex)
    mr('numeric.calculate_control_matrix_from_scratch(out=)', lambda: numeric.calculate_control_matrix_from_scratch(pd.eigvals, pd.eigvecs, pd.propagators, w, pd.basis, pd.n_opers, pd.n_coeffs, pd.dt, t, out=out), raw, outs=(out,))
    _, inter = numeric.calculate_control_matrix_from_scratch(pd.eigvals, pd.eigvecs, pd.propagators, w, pd.basis, pd.n_opers, pd.n_coeffs, pd.dt, t, cache_intermediates=True)
    mr('numeric.calculate_second_order_filter_function', lambda: [numeric.calculate_second_order_filter_function(pd.eigvals, pd.eigvecs, pd.propagators, w, pd.basis, pd.n_opers, pd.n_coeffs, pd.dt, im) for im in (None, inter, {'n_opers_transformed': inter['n_opers_transformed']})], raw+[inter])
    mr('numeric.calculate_noise_operators_from_scratch', lambda: [numeric.calculate_noise_operators_from_scratch(pd.eigvals, pd.eigvecs, pd.propagators, w, pd.n_opers, pd.n_coeffs, pd.dt, t, cache_intermediates=ci) for ci in (False, True)], raw)
    cmx = pd.get_control_matrix(w).copy()
    mr('numeric.calculate_filter_function', lambda: [numeric.calculate_filter_function(cmx, x) for x in ('fidelity', 'generalized')], [cmx])
    cm4 = np.stack([cmx, 2*cmx])
    mr('numeric.calculate_pulse_correlation_filter_function', lambda: [numeric.calculate_pulse_correlation_filter_function(cm4, x) for x in ('fidelity', 'generalized')], [cm4])
    phs = np.stack([np.ones_like(w, dtype=complex), util.cexp(w*pd.tau)]); L = np.stack([np.eye(4), pd.total_propagator_liouville.copy()])
    mr('numeric.calculate_control_matrix_from_atomic', lambda: [numeric.calculate_control_matrix_from_atomic(phs, cm4, L, which=x) for x in ('total', 'correlations')], [phs, cm4, L])
    nat = rng.standard_normal((2, 7, 2, 2, 2)) + 0j; props = pd.propagators[:2].copy()
    mr('numeric.calculate_noise_operators_from_atomic', lambda: numeric.calculate_noise_operators_from_atomic(phs, nat, props), [phs, nat, props])
    ph1 = util.cexp(w*pd.tau); Lt = pd.total_propagator_liouville.copy()
    mr('numeric.calculate_control_matrix_periodic', lambda: [numeric.calculate_control_matrix_periodic(ph1, cmx, Lt, 4, ci) for ci in (True, False)], [ph1, cmx, Lt])
    c_opers = pd.c_opers.copy(); nd = np.ones((2, 2, 3))
    mr('gradient.calculate_derivative_of_control_matrix_from_scratch', lambda: [gradient.calculate_derivative_of_control_matrix_from_scratch(w, pd.propagators, pd.eigvals, pd.eigvecs, pd.basis, t, pd.dt, pd.n_opers, pd.n_coeffs, c_opers, ncd, im) for ncd in (None, nd) for im in (None, inter)], raw+[c_opers, nd, inter])
    cd = gradient.calculate_derivative_of_control_matrix_from_scratch(w, pd.propagators, pd.eigvals, pd.eigvecs, pd.basis, t, pd.dt, pd.n_opers, pd.n_coeffs, c_opers)
    mr('gradient.calculate_filter_function_derivative', lambda: gradient.calculate_filter_function_derivative(cmx, cd), [cmx, cd])
    # basis
    Bp = ff.Basis.pauli(1); arr = np.array(Bp)[[1, 2]].copy()*3
    def mb(name, f, args=(), bases=(), outs=()):
        res.setdefault(name, set()).update(measure(f, args=args, pulses=(), bases=bases, outs=outs))
    mb('Basis.__new__', lambda: (ff.Basis(arr), ff.Basis(list(arr)), ff.Basis(Bp), ff.Basis(arr[0])), [arr], (Bp,))
    mb('Basis.pauli', lambda: ff.Basis.pauli(2)); mb('Basis.ggm', lambda: ff.Basis.ggm(3))
    Bu = ff.Basis(arr.copy())
    mb('Basis.from_partial', lambda: (ff.Basis.from_partial(Bu), ff.Basis.from_partial(arr, traceless=True), ff.Basis.from_partial(Bp[1:3], labels=['a', 'b'])), [arr], (Bu, Bp))
    mb('Basis.normalize(copy=True)', lambda: Bu.normalize(copy=True), bases=(Bu,))
    mb('basis.normalize', lambda: fb.normalize(Bu), bases=(Bu,))
    mb('Basis.properties', lambda: (Bu.isherm, Bu.isorthonorm, Bu.istraceless, Bu.iscomplete, Bu.sparse, Bu.four_element_traces, Bu.H, Bu.T), bases=(Bu,))
    Bu2 = ff.Basis(arr.copy())
    mb('Basis.normalize(copy=False)', lambda: Bu2.normalize(), bases=(Bu2,))
    Bt = ff.Basis(np.array(Bp) + 1e-18)
    mb('Basis.tidyup', lambda: Bt.tidyup(), bases=(Bt,))
    Mx = rng.standard_normal((3, 2, 2)) + 0j; Bq = ff.Basis.pauli(1)
    mb('basis.expand', lambda: [fb.expand(Mx, Bq, normalized=nz, hermitian=h, tidyup=td) for nz in (True, False) for h in (True, False) for td in (True, False)], [Mx], (Bq,))
    mb('basis.ggm_expand', lambda: [fb.ggm_expand(Mx, traceless=tl, hermitian=h) for tl in (True, False) for h in (True, False)], [Mx])
    a1 = rng.standard_normal((2, 2)); a2 = rng.standard_normal((2, 2)); a4 = rng.standard_normal((4, 4)); dims = [[2, 2], [2, 2]]; pos = [0, 1]
    mb('util.tensor', lambda: (util.tensor(a1, a2), util.tensor(a1), util.tensor(a1, a2, a1)), [a1, a2])
    mb('util.tensor_insert', lambda: (util.tensor_insert(a4, a1, pos=1, arr_dims=dims), util.tensor_insert(a4, a1, a2, pos=pos, arr_dims=dims)), [a4, a1, a2, dims, pos])
    mb('util.tensor_merge', lambda: util.tensor_merge(a4, a4, pos=pos, arr_dims=dims, ins_dims=dims), [a4, dims, pos])
    order = [1, 0]
    mb('util.tensor_transpose', lambda: (util.tensor_transpose(a4, order, dims), util.tensor_transpose(a4, (0, 1), dims)), [a4, order, dims])
    xx = rng.standard_normal(5)
    mb('util.cexp', lambda: util.cexp(xx), [xx])
    oo = np.empty(5, complex)
    mb('util.cexp(out=)', lambda: util.cexp(xx, out=oo), [xx], outs=(oo,))
    rf = np.array([1e-18, 1.0, 1e-17 + 1j])
    mb('util.remove_float_errors', lambda: util.remove_float_errors(rf), [rf])
    fy = rng.standard_normal((2, 7))
    mb('util.integrate', lambda: (util.integrate(fy, w), util.integrate(fy, dx=.1)), [fy, w])
    ms = rng.standard_normal((3, 2, 2))
    mb('util.mdot', lambda: util.mdot(ms), [ms]); mb('util.dot_HS', lambda: util.dot_HS(a1, a2), [a1, a2]); mb('util.oper_equiv', lambda: util.oper_equiv(a1, a2), [a1, a2])
    mb('util.parse_spectrum', lambda: [util.parse_spectrum(S, w, np.array([0, 1])) for S in (S1, S2, S3)], [S1, S2, S3, w])
    U = pd.total_propagator.copy()
    for bb in (ff.Basis.pauli(1), ff.Basis.ggm(2)):
        mb('superoperator.liouville_representation', lambda: superoperator.liouville_representation(U, bb), [U], (bb,))
        Lr = superoperator.liouville_representation(U, bb)
        mb('superoperator.liouville_to_choi', lambda: superoperator.liouville_to_choi(Lr, bb), [Lr], (bb,))
        mb('superoperator.liouville_is_CP', lambda: superoperator.liouville_is_CP(Lr, bb, True), [Lr], (bb,))
        mb('superoperator.liouville_is_cCP', lambda: superoperator.liouville_is_cCP(Lr - np.eye(4), bb, True), [Lr], (bb,))
    return res

