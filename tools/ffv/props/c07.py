"""C07 — results never depend on the cache history of a pulse object."""
import copy

import numpy as np

import filter_functions as ff
from filter_functions import numeric, util

from .. import gens
from ..common import driver

THEOREMS = ['cleanup_freq', 'cleanup_conservative', 'cleanup_greedy', 'cleanup_all', 'inv_init',
            'inv_cleanup', 'getCM_spec', 'getPhases_spec', 'getFF_spec', 'cacheFFcomputed_spec',
            'at_cacheCM', 'at_cacheFFvalue', 'at_cacheFFfromCM', 'deriv_spec', 'decayAmps_spec',
            'cumulant_spec', 'step_preserves_Inv', 'reachable_Inv', 'served_value_is_fresh',
            'history_independent', 'copies_independent', 'pc_error_iff', 'hstep_preserves',
            'heap_reachable_Inv', 'heap_served_fresh']
PINS = ['C07_body_get_control_matrix', 'C07_body_cache_control_matrix', 'C07_body_get_filter_function', 'C07_body_cache_filter_function', 'C07_body_get_pulse_correlation_filter_function', 'C07_body_get_filter_function_derivative', 'C07_body_get_total_phases', 'C07_body_cache_total_phases', 'C07_body_diagonalize', 'C07_body_copy', 'C07_body_deepcopy', 'C07_body_get_pulse_correlation_control_matrix']
GEN_SITES = ['cache:cleanup', 'cache:init', 'cache:aliases', 'cache:intermediates']
COMPONENTS = ['cache_machine', 'cache_machine_motifs']
RULES = ['histories: seeded random sequences of public calls (getters, explicit cachers, every '
         'clean-up mode, derivative, infidelity, decay amplitudes, cumulant function, copy / '
         'deepcopy and calls on the copies) over three grids (two of equal length, one of '
         'different length), on plain pulses and on pulses produced by concatenation with '
         'pulse-correlation data; after every call the 19 cache fields of the real object '
         '(flags and, by comparison with fresh references, the grid each cached array belongs to) '
         'are compared with the Lean model, and every returned array with a freshly constructed '
         'pulse; distinct = distinct (history prefix) hash; non-trivial = history touches >= 2 '
         'grids']
ASSUMPTIONS = ['cached arrays are abstracted to the grid they were computed for (tag); a tag is '
               'inferred on the implementation by comparison with fresh reference values']
TRUSTED = ['modelled not verified: Python object aliasing of cached arrays between copies '
           '(measured: returned values are compared with fresh pulses after every call)']

ATTRS = ['_eigvals', '_eigvecs', '_propagators', '_total_propagator', '_total_propagator_liouville']


class GridArrays:
    """the frequency arrays handed to the package: a fresh copy of the grid, or — every third request
    for one of the two grids of equal length — the caller's *reused* buffer, overwritten in place
    with the requested grid (callers do reuse their frequency arrays)"""

    def __init__(self, w):
        self.w = w
        self.buf = np.array(w[1], dtype=float)
        self.k = 0

    def __getitem__(self, g):
        self.k += 1
        if g in (1, 2) and self.k % 3 == 0 and len(self.w[g]) == len(self.buf):
            self.buf[:] = self.w[g]
            return self.buf
        return np.array(self.w[g], dtype=float)


class World:
    """a pulse definition, three grids, fresh reference values for each grid"""

    def __init__(self, rng=None, pc=False, descs=None, grids=None):
        self.pc = pc
        d = 2
        if descs is None:
            traceless = bool(rng.integers(0, 2))
            basis = ('pauli',) if traceless else ('custom', gens.rotated_basis(rng, d, False),
                                                  False, 'Custom')
            fts = ['const_sens'] + (['nontraceless_nop'] if rng.random() < 0.5 else [])
            self.descs = [gens.rand_desc(rng, d=d, n_dt=int(rng.integers(1, 3)), n_c=1, n_n=2,
                                         basis=basis, features=fts)
                          for _ in range(2 if pc else 1)]
            if pc:
                # same operators in both pulses so that pulse correlations are defined
                self.descs[1]['n_opers'] = self.descs[0]['n_opers']
                self.descs[1]['c_opers'] = self.descs[0]['c_opers']
            n = int(rng.integers(4, 8))
            w1 = np.sort(rng.uniform(0.1, 5, n))
            if rng.random() < 0.5:
                w1[0] = 0.0          # the zero frequency (limit value of the first-order integral)
            # grid 2 has the length of grid 1; in every other world it is grid 1 up to a relative
            # shift of 3e-6 (equal "within tolerance", different as arrays: it is another grid)
            w2 = w1*(1 + 3e-6) if rng.random() < 0.5 else np.sort(rng.uniform(0.1, 5, n))
            w3 = np.sort(rng.uniform(0.1, 5, n + 2))
            # an exact level splitting of a segment (resonance) in grid 3
            Hs = gens.seg_hamiltonians(self.descs[0])
            ev = np.linalg.eigvalsh(Hs[int(rng.integers(0, len(Hs)))])
            if abs(ev[-1] - ev[0]) > 1e-3:
                w3[int(rng.integers(0, len(w3)))] = float(ev[-1] - ev[0])
            self.w = {1: w1, 2: w2, 3: w3}
        else:
            self.descs = descs
            self.w = {int(k): np.asarray(v, dtype=float) for k, v in grids.items()}
        self.wa = GridArrays(self.w)
        self.traceless = bool(gens.make_basis(self.descs[0]['basis'], d).istraceless)
        # some noise operator has a component along the identity (its trace is nonzero)
        self.idc = bool(any(abs(np.trace(o)) > 1e-12 for dsc in self.descs for o in dsc['n_opers']))
        self.S = {g: 1/(1 + w) for g, w in self.w.items()}
        self.ref = {}
        for g, w in self.w.items():
            p = self.fresh()
            r = {}
            r['cm'] = p.get_control_matrix(w, cache_intermediates=True).copy()
            r['phases'] = p.get_total_phases(w).copy()
            r['iPhase'] = p._intermediates['phase_factors'].copy()
            r['iFoInt'] = p._intermediates['first_order_integral'].copy()
            r['iCmStep'] = p._intermediates['control_matrix_step'].copy()
            r['ff'] = self.fresh().get_filter_function(w).copy()
            r['ffGen'] = self.fresh().get_filter_function(w, 'generalized').copy()
            r['ff2'] = self.fresh().get_filter_function(w, order=2).copy()
            r['deriv'] = self.fresh().get_filter_function_derivative(w).copy()
            r['infid'] = ff.infidelity(self.fresh(), self.S[g], w)
            r['decay'] = numeric.calculate_decay_amplitudes(self.fresh(), self.S[g], w)
            r['cum1'] = numeric.calculate_cumulant_function(self.fresh(), self.S[g], w)
            r['cum2'] = numeric.calculate_cumulant_function(self.fresh(), self.S[g], w,
                                                            second_order=True)
            if pc:
                q = self.fresh(g, 'generalized')
                r['cmPc'] = q.get_pulse_correlation_control_matrix().copy()
                r['ffPc'] = q.get_pulse_correlation_filter_function('fidelity').copy()
                r['ffPcGen'] = q.get_pulse_correlation_filter_function('generalized').copy()
                r['infid_pc'] = ff.infidelity(self.fresh(g), self.S[g], w, which='correlations')
                r['decay_pc'] = numeric.calculate_decay_amplitudes(self.fresh(g, 'generalized'),
                                                                   self.S[g], w,
                                                                   which='correlations')
            self.ref[g] = r

    def fresh(self, pc_grid=None, which='fidelity'):
        ps = [gens.build(d) for d in self.descs]
        if not self.pc:
            return ps[0]
        if pc_grid is None:
            return ff.concatenate(ps)
        return ff.concatenate(ps, calc_pulse_correlation_FF=True, omega=self.w[pc_grid],
                              which=which)

    def tag(self, key, arr, prefer=None):
        """grid whose fresh reference the array equals (None: no such grid). Values can coincide
        for different grids (e.g. phase factors of a single-segment pulse); then the grid
        `prefer` (the object's cached frequencies) is reported if it is among the matches."""
        hits = [g for g, r in self.ref.items()
                if key in r and np.shape(r[key]) == np.shape(arr)
                and np.allclose(arr, r[key], rtol=1e-9, atol=1e-12)]
        if not hits:
            return None
        return prefer if prefer in hits else hits[0]

    def observe(self, p):
        """the 19 model fields of a real object"""
        om = '-'
        if p._omega is not None:
            om = '?'
            for g, w in self.w.items():
                if np.array_equal(p._omega, w):
                    om = str(g)
        pref = int(om) if om.isdigit() else None

        def t(key, arr):
            if arr is None:
                return '-'
            g = self.tag(key, arr, pref)
            return '?' if g is None else str(g)
        f = [om] + ['1' if getattr(p, a) is not None else '0' for a in ATTRS]
        f += [t('phases', p._total_phases), t('cm', p._control_matrix),
              t('cmPc', p._control_matrix_pc), t('ff', p._filter_function),
              t('ffGen', p._filter_function_gen), t('ffPc', p._filter_function_pc),
              t('ffPcGen', p._filter_function_pc_gen)]
        if p._filter_function_2 is None:
            f.append('-')
        else:
            g = self.tag('ff2', p._filter_function_2, pref)
            if g is not None:
                f.append(f'{g}+')
            else:
                f.append((om if om not in '-?' else '0') + '!')
        im = p._intermediates
        f += ['1' if 'n_opers_transformed' in im else '0', '1' if 'basis_transformed' in im else '0',
              t('iPhase', im.get('phase_factors')), t('iFoInt', im.get('first_order_integral')),
              t('iCmStep', im.get('control_matrix_step'))]
        return ' '.join(f)


def gen_history(rng, world, length, g0=None):
    """list of protocol tokens.  Grids are sticky (half of the requests go to the grid last used on
    that object, initially `g0`) so that requests *at the cached grid* after clean-ups, copies and
    explicit cachers are as frequent as requests at a new grid; pulse-correlation worlds draw
    pulse-correlation requests more often."""
    ops = []
    n_obj = 1
    tl = '1' if world.traceless else '0'
    last = {0: g0}
    extra = ['infidelity', 'decayAmps', 'getPcFF', 'getPcCM', 'cleanup', 'cleanup'] if world.pc else []
    for _ in range(length):
        i = int(rng.integers(0, n_obj))
        g = int(rng.integers(1, 4))
        if last.get(i) and rng.random() < 0.5:
            g = last[i]
        b = lambda: str(int(rng.integers(0, 2)))  # noqa
        w = str(rng.choice(['f', 'g']))
        kind = rng.choice(['getCM', 'getFF', 'getFF', 'getPhases', 'deriv', 'cleanup', 'cacheCM',
                           'cacheFFvalue', 'cacheFFfromCM', 'cacheFFcompute', 'cacheCMcompute',
                           'cachePhases', 'infidelity', 'decayAmps', 'cumulant', 'copy', 'deepcopy',
                           'getPcFF', 'getPcCM', 'diagonalize', 'totPropL', 'eigAccess',
                           'totPropAccess'] + extra)
        if kind in ('copy', 'deepcopy'):
            if n_obj >= 3:
                continue
            ops.append(f'{kind}@{i}')
            last[n_obj] = last.get(i)
            n_obj += 1
            continue
        if kind == 'getCM':
            t = f'getCM:{g}:{b()}'
        elif kind == 'getFF':
            t = f'getFF:{g}:{w}:{b()}:{b()}'
        elif kind == 'getPhases':
            t = f'getPhases:{g}'
        elif kind == 'deriv':
            t = f'deriv:{g}'
        elif kind == 'cleanup':
            t = 'cleanup:' + str(rng.choice(['conservative', 'greedy', 'freq', 'all']))
        elif kind == 'cacheCM':
            t = f'cacheCM:{g}:{b() if world.pc else "0"}'
        elif kind == 'cacheFFvalue':
            t = f'cacheFFvalue:{g}:{w}:{b()}'
        elif kind == 'cacheFFfromCM':
            t = f'cacheFFfromCM:{g}:{w}:{b() if world.pc else "0"}'
        elif kind == 'cacheFFcompute':
            t = f'cacheFFcompute:{g}:{w}:{b()}:{b()}'
        elif kind == 'cacheCMcompute':
            t = f'cacheCMcompute:{g}:{b()}'
        elif kind == 'cachePhases':
            t = f'cachePhases:{g}'
        elif kind == 'infidelity':
            t = f'infidelity:{g}:{tl}:{b() if world.pc else "0"}:{"1" if world.idc else "0"}'
        elif kind == 'decayAmps':
            t = f'decayAmps:{g}:{b() if world.pc else "0"}:{b()}'
        elif kind == 'cumulant':
            t = f'cumulant:{g}:{b()}'
        elif kind == 'getPcFF':
            t = f'getPcFF:{w}'
        else:
            t = kind
        if f':{g}' in t:
            last[i] = g
        ops.append(f'{i}@{t}')
    return ops


def apply_op(world, objs, tok):
    """run one protocol token on the real objects. Returns (index, ret string, returned-value
    mismatch description or None)."""
    head, _, rest = tok.partition('@')
    if head in ('copy', 'deepcopy'):
        src = objs[int(rest)]
        objs.append(copy.copy(src) if head == 'copy' else copy.deepcopy(src))
        return len(objs) - 1, 'unit', None
    i = int(head)
    p = objs[i]
    a = rest.split(':')
    k = a[0]
    W, R, S = world.wa, world.ref, world.S
    wh = {'f': 'fidelity', 'g': 'generalized'}

    def val(g, key, arr):
        ok = np.shape(arr) == np.shape(R[g][key]) and np.allclose(arr, R[g][key], rtol=1e-8,
                                                                   atol=1e-11)
        if ok:
            return f'val{g}+', None
        other = [h for h in R if np.shape(arr) == np.shape(R[h][key])
                 and np.allclose(arr, R[h][key], rtol=1e-8, atol=1e-11)]
        err = float(np.max(np.abs(arr - R[g][key]))) if np.shape(arr) == np.shape(R[g][key]) \
            else float('inf')
        return (f'val{other[0]}+' if other else f'val{g}!'), \
            f'{tok}: returned value differs from a fresh pulse by {err:.3g}' + \
            (f' (it equals the fresh value for grid {other[0]})' if other else '')
    try:
        if k == 'diagonalize':
            p.diagonalize()
            return i, 'unit', None
        if k == 'getCM':
            g = int(a[1])
            return (i,) + val(g, 'cm', p.get_control_matrix(W[g], cache_intermediates=a[2] == '1'))
        if k == 'cacheCM':
            g = int(a[1])
            p.cache_control_matrix(W[g], R[g]['cmPc' if a[2] == '1' else 'cm'].copy())
            return i, 'unit', None
        if k == 'getFF':
            g = int(a[1])
            o2 = a[3] == '1'
            key = 'ff2' if o2 else ('ff' if a[2] == 'f' else 'ffGen')
            return (i,) + val(g, key, p.get_filter_function(W[g], wh[a[2]], 2 if o2 else 1,
                                                            cache_intermediates=a[4] == '1'))
        if k == 'cacheFFvalue':
            g = int(a[1])
            o2 = a[3] == '1'
            key = 'ff2' if o2 else ('ff' if a[2] == 'f' else 'ffGen')
            p.cache_filter_function(W[g], filter_function=R[g][key].copy(), which=wh[a[2]],
                                    order=2 if o2 else 1)
            return i, 'unit', None
        if k == 'cacheFFfromCM':
            g = int(a[1])
            p.cache_filter_function(W[g], control_matrix=R[g]['cmPc' if a[3] == '1' else 'cm'].copy(),
                                    which=wh[a[2]])
            return i, 'unit', None
        if k == 'cacheFFcompute':
            g = int(a[1])
            p.cache_filter_function(W[g], which=wh[a[2]], order=2 if a[3] == '1' else 1,
                                    cache_intermediates=a[4] == '1')
            return i, 'unit', None
        if k == 'cacheCMcompute':
            g = int(a[1])
            p.cache_control_matrix(W[g], cache_intermediates=a[2] == '1')
            return i, 'unit', None
        if k == 'getPcFF':
            arr = p.get_pulse_correlation_filter_function(wh[a[1]])
            g = world.tag('ffPc' if a[1] == 'f' else 'ffPcGen', arr)
            return i, (f'val{g}+' if g else 'val?'), None
        if k == 'getPcCM':
            arr = p.get_pulse_correlation_control_matrix()
            g = world.tag('cmPc', arr)
            return i, (f'val{g}+' if g else 'val?'), None
        if k == 'getPhases':
            g = int(a[1])
            return (i,) + val(g, 'phases', p.get_total_phases(W[g]))
        if k == 'cachePhases':
            p.cache_total_phases(W[int(a[1])])
            return i, 'unit', None
        if k == 'deriv':
            g = int(a[1])
            return (i,) + val(g, 'deriv', p.get_filter_function_derivative(W[g]))
        if k == 'totPropL':
            p.total_propagator_liouville
            return i, 'plain', None
        if k == 'eigAccess':
            p.eigvals
            return i, 'plain', None
        if k == 'totPropAccess':
            p.total_propagator
            return i, 'plain', None
        if k == 'cleanup':
            p.cleanup({'freq': 'frequency dependent'}.get(a[1], a[1]))
            return i, 'unit', None
        if k == 'infidelity':
            g = int(a[1])
            if a[3] == '1':
                arr = ff.infidelity(p, S[g], W[g], which='correlations')
                h = world.tag('infid_pc', arr)
                return i, (f'val{h}+' if h else 'val?'), None
            return (i,) + val(g, 'infid', ff.infidelity(p, S[g], W[g]))
        if k == 'decayAmps':
            g = int(a[1])
            if a[2] == '1':
                arr = numeric.calculate_decay_amplitudes(p, S[g], W[g], which='correlations',
                                                         cache_intermediates=a[3] == '1')
                h = world.tag('decay_pc', arr)
                return i, (f'val{h}+' if h else 'val?'), None
            return (i,) + val(g, 'decay', numeric.calculate_decay_amplitudes(
                p, S[g], W[g], cache_intermediates=a[3] == '1'))
        if k == 'cumulant':
            g = int(a[1])
            so = a[2] == '1'
            return (i,) + val(g, 'cum2' if so else 'cum1', numeric.calculate_cumulant_function(
                p, S[g], W[g], second_order=so))
    except util.CalculationError:
        return i, 'CalculationError', None
    except ValueError as e:
        return i, 'ValueError', f'{tok}: ValueError {e}'
    except Exception as e:   # noqa
        # any other exception class: no request of these histories raises it on a freshly
        # constructed pulse ("raises an exception only if it would on the fresh pulse")
        return i, type(e).__name__, (f'{tok}: raised {type(e).__name__}: {str(e)[:120]} — the same '
                                     f'request on a freshly constructed equal pulse is served')
    raise ValueError('unknown op ' + tok)


def run_history(ctx, world, ops, init_pc_grid=None, record=True):
    """returns (list of implementation lines, list of property failures)"""
    objs = [world.fresh(init_pc_grid, 'generalized') if init_pc_grid else world.fresh()]
    init = world.observe(objs[0])
    impl = []
    probs = []
    for tok in ops:
        i, ret, prob = apply_op(world, objs, tok)
        st = world.observe(objs[i])
        impl.append(f'{i}={st}|{ret}')
        # pulse-correlation returns depend on what is cached; a tag is required to be *some* grid
        if prob and not (ret == 'ValueError' and ('correlation' in prob)):
            probs.append(prob)
        if ret == 'val?':
            probs.append(f'{tok}: returned pulse-correlation value matches no grid')
    return init, impl, probs


def correspondence(ctx):
    """model vs implementation on seeded histories; also the implementation-level property check
    (every returned value equals the fresh one)"""
    rng = ctx.rng('hist')
    n_hist = 200 if ctx.tier == 'quick' else 1500
    max_len = 12 if ctx.tier == 'quick' else 24
    run_batch(ctx, rng, n_hist, max_len)
    if ctx.tier == 'quick':
        run_motifs(ctx, ctx.rng('motif'), 2, 400)
    else:
        run_motifs(ctx, ctx.rng('motif'), 8, None)


def motif_histories(world, pcg):
    """systematic short histories: (initial state) x (every state-changing call) x (every request, at
    the cached grid and at another one).  Random histories rarely place a specific request right
    after a specific clean-up / explicit cacher at the *same* grid; this matrix always does."""
    tl = '1' if world.traceless else '0'
    idc = '1' if world.idc else '0'
    pcs = ['0', '1'] if world.pc else ['0']
    g0 = pcg or 1
    g1 = 2 if g0 != 2 else 3
    inits = [[], [f'0@getFF:{g0}:f:1:1'], [f'0@cacheCMcompute:{g0}:0'], [f'0@getFF:{g0}:g:0:0']]
    if world.pc:
        inits.append([f'0@cacheCM:{g0}:1'])
    muts = [f'cleanup:{m}' for m in ('conservative', 'greedy', 'freq', 'all')]
    muts += ['diagonalize', 'totPropL']
    for g in (g0, g1):
        muts += [f'cacheCM:{g}:{pc}' for pc in pcs]
        muts += [f'cacheFFvalue:{g}:f:0', f'cacheFFvalue:{g}:g:1', f'cachePhases:{g}',
                 f'cacheCMcompute:{g}:1', f'cacheFFcompute:{g}:f:1:0']
        muts += [f'cacheFFfromCM:{g}:f:{pc}' for pc in pcs]
    muts += [f'getCM:{g1}:0', f'getFF:{g1}:f:1:1']
    reqs = []
    for g in (g0, g1):
        reqs += [f'getCM:{g}:0', f'getCM:{g}:1', f'getFF:{g}:f:0:0', f'getFF:{g}:g:0:1',
                 f'getFF:{g}:f:1:0', f'getPhases:{g}', f'deriv:{g}', f'cumulant:{g}:0',
                 f'cumulant:{g}:1', f'decayAmps:{g}:0:1']
        reqs += [f'infidelity:{g}:{tl}:{pc}:{idc}' for pc in pcs]
        if world.pc:
            reqs.append(f'decayAmps:{g}:1:0')
    if world.pc:
        reqs += ['getPcFF:f', 'getPcFF:g', 'getPcCM']
    out = []
    for ini in inits:
        for m in muts:
            for r in reqs:
                out.append(ini + [f'0@{m}', f'0@{r}'])
    return out


def run_motifs(ctx, rng, n_worlds, per_world):
    """the motif matrix on `n_worlds` worlds (pulse-correlation worlds with a traceless basis and
    noise operators with a trace first: that is where most special cases of the code meet)"""
    lines, impls, metas = [], [], []
    want = [(True, True, True), (False, False, True), (True, False, False), (False, True, False),
            (True, True, False), (True, False, True), (False, True, True), (False, False, False)]
    for k in range(n_worlds):
        pc, tl, idc = want[k % len(want)]
        for _ in range(200):
            world = World(rng, pc=pc)
            if world.traceless == tl and world.idc == idc:
                break
        pcg = int(rng.integers(1, 4)) if pc else None
        hs = motif_histories(world, pcg)
        if per_world and len(hs) > per_world:
            hs = [hs[j] for j in sorted(rng.choice(len(hs), per_world, replace=False))]
        for ops in hs:
            init, impl, probs = run_history(ctx, world, ops, pcg)
            lines.append('cache ' + init.replace(' ', ',') + ' ' + ';'.join(ops))
            impls.append(impl)
            metas.append((world, ops, pcg))
            ctx.count(('motif', k, tuple(ops)), nontrivial=True)
            for pr in probs:
                ctx.fail('history_vs_fresh', {'descs': world.descs, 'grids': world.w, 'ops': ops,
                                              'pc': world.pc, 'pc_init_grid': pcg},
                         pr, 'value of a freshly constructed equal pulse', {},
                         f'after history {ops}: {pr}')
    outs = driver(lines) if lines else []
    bad = []
    for (world, ops, pcg), impl, out in zip(metas, impls, outs):
        model = out[3:].split(';') if out.startswith('ok ') else [out]
        if model != impl:
            k = next((j for j, (a, b) in enumerate(zip(model, impl)) if a != b), len(impl))
            bad.append({'ops': ops[:k + 1], 'model': model[k] if k < len(model) else None,
                        'impl': impl[k] if k < len(impl) else None, 'pc_init_grid': pcg,
                        'traceless': world.traceless, 'idc': world.idc})
    ctx.oblige('correspondence:cache_machine_motifs', 'correspondence', not bad,
               f'{len(bad)} of {len(lines)} motif histories disagree; first: {bad[:1]}')
    ctx.stat('motif_histories', len(lines))
    return bad


def run_batch(ctx, rng, n_hist, max_len):
    lines, impls, metas = [], [], []
    world = None
    for h in range(n_hist):
        if h % 8 == 0:
            world = World(rng, pc=bool((h // 8) % 2))
        pcg = int(rng.integers(1, 4)) if (world.pc and rng.random() < 0.7) else None
        ops = gen_history(rng, world, int(rng.integers(3, max_len + 1)), pcg)
        if not ops:
            continue
        init, impl, probs = run_history(ctx, world, ops, pcg)
        lines.append('cache ' + init.replace(' ', ',') + ' ' + ';'.join(ops))
        impls.append(impl)
        metas.append((world, ops, pcg))
        grids = {t.split(':')[1] for t in ops if ':' in t and t.split(':')[1].isdigit()}
        ctx.count(('hist', tuple(ops), pcg), nontrivial=len(grids) >= 2)
        ctx.stat('history_ops', len(ops))
        if h < 2:
            ctx.sample({'history': ops, 'pc_init_grid': pcg, 'impl_trace_head': impl[:3]})
        for pr in probs:
            ctx.fail('history_vs_fresh', {'descs': world.descs, 'grids': world.w, 'ops': ops,
                                          'pc': world.pc, 'pc_init_grid': pcg},
                     pr, 'value of a freshly constructed equal pulse', {},
                     f'after history {ops}: {pr}')
    outs = driver(lines) if lines else []
    bad = []
    for (world, ops, pcg), impl, out in zip(metas, impls, outs):
        model = out[3:].split(';') if out.startswith('ok ') else [out]
        if model != impl:
            k = next((j for j, (a, b) in enumerate(zip(model, impl)) if a != b), len(impl))
            bad.append({'ops': ops[:k + 1], 'model': model[k] if k < len(model) else None,
                        'impl': impl[k] if k < len(impl) else None, 'pc_init_grid': pcg})
    ctx.oblige('correspondence:cache_machine', 'correspondence', not bad,
               f'{len(bad)} of {len(lines)} histories disagree; first: {bad[:1]}')
    ctx.stat('histories', len(lines))
    return bad


def search(ctx, deep=False):
    # the history run of `correspondence` already compares every returned value with a fresh
    # pulse; the deep search adds longer and more numerous histories
    if deep:
        run_batch(ctx, ctx.rng('deep'), 300 if ctx.tier == 'quick' else 3000, 30)
    elif ctx.evaluations == 0:
        run_batch(ctx, ctx.rng('hist'), 200 if ctx.tier == 'quick' else 1500,
                  12 if ctx.tier == 'quick' else 24)


def replay(ctx, check, case):
    w = World(pc=case['pc'], descs=case['descs'], grids=case['grids'])
    init, impl, probs = run_history(ctx, w, case['ops'], case.get('pc_init_grid'))
    for pr in probs:
        ctx.fail('history_vs_fresh', case, pr, 'fresh value', {}, pr)
